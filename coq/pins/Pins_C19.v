(** Pinned statements of C19 (compiled on every run, outside the Makefile). *)
From TV Require Import Levels.Model Levels.Proofs Properties.C19.
Local Open Scope N_scope.

Check C19_ops_agree :
  forall x a b, applicable x a b = true -> eval_x x a b = Some (spec_x x a b).
Print Assumptions C19_ops_agree.

Check C19_total_order :
  (forall a, le_spec a a) /\
  (forall a b c, le_spec a b -> le_spec b c -> le_spec a c) /\
  (forall a b, le_spec a b -> le_spec b a -> rank a = rank b) /\
  (forall a b, le_spec a b \/ le_spec b a) /\
  (forall a b, kind_of a = kind_of b -> le_spec a b -> le_spec b a -> a = b).
Print Assumptions C19_total_order.

Check C19_code_le_is_spec : forall a b, eval_op OpLe a b = Some (RB (rank a <=? rank b)).
Print Assumptions C19_code_le_is_spec.

Check C19_enabled_is_le : forall which f l,
  (which = "enabled"%string \/ which = "register_callsite"%string) ->
  layer_enabled which f l = Some (rank (VL l) <=? rank (VF f)).
Print Assumptions C19_enabled_is_le.

Check C19_max_roundtrip : forall f, current_after f = Some f.
Print Assumptions C19_max_roundtrip.

Check C19_display_parse_level :
  forall l, exists s, display_level l = Some s /\ parse_level s = Some l /\ as_str_level l = Some s.
Print Assumptions C19_display_parse_level.

Check C19_display_parse_filter :
  forall f, exists s, display_filter f = Some s /\ parse_filter s = Some f.
Print Assumptions C19_display_parse_filter.

Check C19_parse_language_level : forall s l,
  parse_level s = Some l <-> (map lower s = lname l \/ numeral (code_lv l) s).
Print Assumptions C19_parse_language_level.

Check C19_parse_language_filter : forall s f, s <> [] ->
  (parse_filter s = Some f <-> (map lower s = fname f \/ numeral (code_f f) s)).
Print Assumptions C19_parse_language_filter.

Check C19_F13_refuted : parse_filter [] = Some (Some Error) /\
  ~ (map lower [] = fname (Some Error) \/ numeral (code_f (Some Error)) []).
Print Assumptions C19_F13_refuted.

Check C19_log_level_bijection :
  (forall l, as_log_level l = Some l) /\ (forall l, as_trace_level l = Some l) /\
  (forall f, as_log_filter f = Some f) /\ (forall f, as_trace_filter f = Some f).
Print Assumptions C19_log_level_bijection.

Check C19_translator_recognised_everything : gen_unrecognised = [].
Print Assumptions C19_translator_recognised_everything.
