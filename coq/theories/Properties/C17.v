(** C17 — `#[instrument]` preserves behaviour exactly and adds one well-formed span per call.
    Statements only; proofs live in Attr/Proofs*.v.  PARTIAL (tie): the theorems are about the templates of
    gen_block ([expand]) and a model of Rust's evaluation / capture / drop order ([run]); that expand.rs emits
    these templates and that rustc gives them this meaning is tied by the compiled corpus of twins and by the
    template translator (Gen_attr), not proved. *)
From Coq Require Import Permutation.
From TV Require Import Attr.Model Attr.Proofs Attr.ProofsRun Attr.ProofsSpan Attr.ProofsInterleave Attr.Examples Attr.SourceTie.
From TVGen Require Gen_attr.
Local Open Scope N_scope.

(** Headline.  For every function skeleton, attribute, argument values and collector verdict (enabled,
    statically disabled, dynamically disabled, none): the instrumented function returns the same value or
    panics with the same payload; erasing the tracing entries leaves exactly the body's own effects, in
    order (including the poll boundaries); the scope-exit drops of the parameters are the same multiset. *)
Theorem C17_erase : forall (c : collector) (args : N -> N) (f : func) (a : attrs),
  snd (run c args f (expand a f)) = snd (run c args f TPlain)
  /\ own_effects (fst (run c args f (expand a f))) = own_effects (fst (run c args f TPlain))
  /\ Permutation (xdrops (fst (run c args f (expand a f)))) (xdrops (fst (run c args f TPlain))).
Proof. exact erase_thm. Qed.
Print Assumptions C17_erase.

(** ... and the uninstrumented function makes no tracing entry, so [own_effects] loses nothing on that side. *)
Theorem C17_plain_untraced : forall c args f,
  erase_tracing (fst (run c args f TPlain)) = fst (run c args f TPlain).
Proof. exact plain_untraced. Qed.
Print Assumptions C17_plain_untraced.

(** Per-parameter counts: anything that is not a tracing entry (each use, move, clone, body drop or
    scope-exit drop of each parameter, each effect) occurs the same number of times. *)
Theorem C17_counts : forall c args f a (P : entry -> bool),
  (forall e, is_tracing e = true -> P e = false) ->
  count_if P (fst (run c args f (expand a f))) = count_if P (fst (run c args f TPlain)).
Proof. exact counts_thm. Qed.
Print Assumptions C17_counts.

(** The same holds for *any* template term wrapped around the body, not only the eight of gen_block. *)
Theorem C17_erase_any_template : forall c args f sp fo e,
  snd (run c args f (TInstr sp fo e)) = snd (run c args f TPlain)
  /\ own_effects (fst (run c args f (TInstr sp fo e))) = own_effects (fst (run c args f TPlain))
  /\ Permutation (xdrops (fst (run c args f (TInstr sp fo e)))) (xdrops (fst (run c args f TPlain))).
Proof. exact erase_any_template. Qed.
Print Assumptions C17_erase_any_template.

(** Enabled: exactly one `new_span`, with the configured name / level / target / parent; its fields are the
    named, non-skipped, non-overridden parameters in order, then the custom fields; every custom field
    expression, the parent expression and the follows_from list are evaluated / reported exactly once
    (`skip(..)` is the only way this tree's attr.rs has to leave a parameter out; [a_skips].) *)
Theorem C17_one_span : forall c args f a,
  span_on c (level_of a) = true ->
  let l := fst (run c args f (expand a f)) in
  exists fields,
    filter is_newspan l = [TNewSpan (a_name a) (level_of a) (a_target a) (parent_obs (a_parent a)) fields]
    /\ map fst fields = expected_names a f
    /\ filter is_feval l = map TFieldEval (flat_map eval_index (a_fields a))
    /\ filter is_peval l = match a_parent a with Some (PxHelper k) => [TParentEval k] | _ => [] end
    /\ filter is_follows l = match a_follows a with Some ks => map TFollows ks | None => [] end.
Proof. exact one_span_on. Qed.
Print Assumptions C17_one_span.

(** Disabled (statically or dynamically, or no collector): no span callback, no field or parent expression. *)
Theorem C17_no_span_when_disabled : forall c args f a,
  span_on c (level_of a) = false ->
  filter is_span_side (fst (run c args f (expand a f))) = [].
Proof. exact one_span_off. Qed.
Print Assumptions C17_no_span_when_disabled.

(** Enabled: the log is well-bracketed ([scan]): every effect of the body and every ret/err event lies between
    an `enter` and the matching `exit`; the span is never entered across a poll boundary (so each poll segment
    of an async body has its own enter/exit) nor when the call returns; span creation happens outside.
    [wf_kind]: `.await` only occurs in async functions. *)
Theorem C17_body_inside : forall c args f a,
  wf_kind f = true -> span_on c (level_of a) = true ->
  scan false (fst (run c args f (expand a f))) = Some false.
Proof. exact body_inside_thm. Qed.
Print Assumptions C17_body_inside.

(** Several futures with well-bracketed logs, polled in any interleaving (any schedule, any number of
    futures): at most one span is entered at any time and every body effect of future i happens while
    future i's span is entered. *)
Theorem C17_body_inside_interleaved : forall (logs : list (list entry)) (sched : list nat),
  Forall (fun l => scan false l = Some false) logs ->
  scan_multi None (interleave sched (map segments logs)) = Some None.
Proof. exact interleaved_thm. Qed.
Print Assumptions C17_body_inside_interleaved.

(** `Ok(x)` / a plain value => exactly one `return` event carrying it, `Err(e)` => exactly one `error` event
    (level, target and Display/Debug mode as configured, subject to the collector enabling that level);
    a panic produces neither.  By C17_body_inside the events lie inside the span. *)
Theorem C17_ret_err : forall c args f a,
  filter is_event (fst (run c args f (expand a f))) = expected_events c a (snd (run c args f (expand a f))).
Proof. exact ret_err_thm. Qed.
Print Assumptions C17_ret_err.

(** Cancellation.  Which await site the caller drops the future at is part of [args] ([cancel_at]), so every theorem
    above already quantifies over cancelled runs; spelled out: if the plain future is cancelled, so is the instrumented
    one, at the same point of its own effects, with the same multiset of argument drops, and neither event is emitted
    (by C17_body_inside the teardown happens inside the span and the span is not left entered). *)
Theorem C17_cancellation : forall c args f a,
  snd (run c args f TPlain) = RCancelled ->
  snd (run c args f (expand a f)) = RCancelled
  /\ filter is_event (fst (run c args f (expand a f))) = []
  /\ own_effects (fst (run c args f (expand a f))) = own_effects (fst (run c args f TPlain))
  /\ Permutation (xdrops (fst (run c args f (expand a f)))) (xdrops (fst (run c args f TPlain))).
Proof. exact cancellation_thm. Qed.
Print Assumptions C17_cancellation.

(** * The tie to the source text (generated obligations: coq/gen/Gen_attr.v is rewritten from expand.rs / attr.rs on every run)

    What the translator read off gen_block equals what the model implements: the eight templates (sync / async x err x ret)
    have the shapes of [expand_sync] / [expand_async]; the sync prologue declares span then guard and, under the static
    level test, creates the span, reports follows_from, enters; the async wrapper creates the span, builds the future,
    and awaits it instrumented (after follows_from) iff the span is not disabled; nothing was left unrecognised. *)
Theorem C17_source_templates :
  Gen_attr.gen_unrecognised = nil
  /\ (forall a, Gen_attr.gen_sync (is_some (a_err a)) (is_some (a_ret a)) = Some (shape_of (expand_sync a)))
  /\ (forall a, Gen_attr.gen_async (is_some (a_err a)) (is_some (a_ret a)) = Some (shape_of (expand_async a)))
  /\ Gen_attr.gen_sync_decls = Some sync_decls
  /\ Gen_attr.gen_sync_steps = Some sync_steps
  /\ Gen_attr.gen_sync_static_guard = true
  /\ Gen_attr.gen_async_lets = Some async_lets
  /\ Gen_attr.gen_async_then = Some async_then
  /\ Gen_attr.gen_async_else = Some async_else
  /\ Gen_attr.gen_async_cond_not_disabled = true
  /\ Gen_attr.gen_follows_iterates = true
  /\ Gen_attr.gen_span_macro_order = true
  /\ Gen_attr.gen_name_default_fn = true
  /\ Gen_attr.gen_filter_skip = true
  /\ Gen_attr.gen_filter_override = true
  /\ Gen_attr.gen_record_map = true.
Proof. exact source_templates. Qed.
Print Assumptions C17_source_templates.

(** ... and those descriptions are what [run] executes: [run_sync] / [run_future] of an instrumented function are the
    interpretations of the prologue / wrapper descriptions, for every template, function, collector and input. *)
Theorem C17_prologue_is_run_sync : forall c args f sp fo e,
  run_sync_steps sync_decls sync_steps c args f sp fo e = run_sync c args f (TInstr sp fo e).
Proof. exact run_sync_steps_ok. Qed.
Print Assumptions C17_prologue_is_run_sync.

Theorem C17_wrapper_is_run_future : forall c args f sp fo e frame,
  run_future_steps async_lets async_then async_else c args f sp fo e frame = run_future c args f (TInstr sp fo e) frame.
Proof. exact run_future_steps_ok. Qed.
Print Assumptions C17_wrapper_is_run_future.

(** The ret / err events of the source: `%` / `?` per format mode, default levels (err: a constant; ret: the span's level),
    the span's target, and the default span level are those of [err_spec] / [ret_spec] / [level_of]. *)
Theorem C17_source_events :
  (forall a ev, Gen_attr.gen_err_display (ev_mode ev) = Some (es_display (err_spec a ev)))
  /\ (forall a ev, Gen_attr.gen_ret_display (ev_mode ev) = Some (es_display (ret_spec a ev)))
  /\ (exists d, Gen_attr.gen_err_default = Some d
        /\ forall a ev, es_level (err_spec a ev) = match ev_level ev with Some l => l | None => lvl_of_def a d end)
  /\ (exists d, Gen_attr.gen_ret_default = Some d
        /\ forall a ev, es_level (ret_spec a ev) = match ev_level ev with Some l => l | None => lvl_of_def a d end)
  /\ Gen_attr.gen_event_target_is_span_target = true
  /\ (forall a ev, es_target (err_spec a ev) = a_target a /\ es_target (ret_spec a ev) = a_target a)
  /\ (exists l, Gen_attr.gen_default_level = Some l /\ forall a, a_level a = None -> level_of a = l)
  /\ Gen_attr.gen_target_default_module_path = true.
Proof. exact source_events. Qed.
Print Assumptions C17_source_events.

(** Which parameters are recorded as `Value` (typed record_u64 / record_str / ..) rather than with `Debug`: the source's
    RecordType::parse_from_ty looks at the LAST segment of a path type (through references; everything else is Debug) and
    param_names' arms are those of [pat_rule] (generated obligation); and under that rule the answer depends on nothing
    but the last segment: `std::string::String`, `::std::string::String`, `&std::string::String`, `Wrapping<u32>` and
    `std::num::Wrapping<u32>` are recorded like their bare spellings.  The corpus terms compute [p_rtype] with [rtype_of]
    from the type as written and the table the translator read (Gen_attr.gen_types_for_value). *)
Theorem C17_source_record_type :
  Gen_attr.gen_path_last_segment = true
  /\ Gen_attr.gen_ref_recurses = true
  /\ Gen_attr.gen_other_types_debug = true
  /\ (forall k, Gen_attr.gen_pat_rule k = Some (pat_rule k)).
Proof. exact source_record_type. Qed.
Print Assumptions C17_source_record_type.

Theorem C17_record_type_last_segment : forall table refs lead pre last gens refs' lead' pre' gens' k,
  rtype_of table (TyPath refs lead (pre ++ (last :: nil)) gens) k
  = rtype_of table (TyPath refs' lead' (pre' ++ (last :: nil)) gens') k
  /\ (pat_rule k = PRKeep ->
      rtype_of table (TyPath refs lead (pre ++ (last :: nil)) gens) k = (if in_table table last then RValue else RDebug)).
Proof. intros. split; [apply rtype_spelling_irrelevant | apply rtype_last_segment]. Qed.
Print Assumptions C17_record_type_last_segment.

(** The name clause of C17_one_span for every way the macro reaches gen_block.  In [TNewSpan (a_name a) ..] the name
    [None] denotes the name of the function that carries the attribute.  That is what the source passes at each of the
    four call sites (generated obligation) -- in particular at `AsyncKind::Function` ([KHelper]: the async-trait <= 0.1.43
    shape `async fn helper(..) {..}; Box::pin(helper(..))`), where gen_function is handed the inner helper and the name
    has to come from the annotated outer function; there gen_function picks the async templates because the helper is an
    `async fn`, and [run] treats the call like an `async fn` (the helper receives every argument). *)
Theorem C17_source_span_name :
  (forall s, Gen_attr.gen_name_source s = Some NSAnnotated)
  /\ (forall k, Gen_attr.gen_name_source (site_of_kind k) = Some (default_name_source k))
  /\ Gen_attr.gen_helper_async_from_sig = true
  /\ Gen_attr.gen_block_async_true = true.
Proof. exact source_span_name. Qed.
Print Assumptions C17_source_span_name.

(** Which non-async functions count as "returning a boxed future" (the body then runs inside the span on every poll instead of
    the span merely enclosing the construction of the future): the source tests whether the tail call's callee path, written as
    its segment identifiers joined by `::`, ends with the text `Box::pin` (generated obligation), and under that rule the kind
    does not depend on how the path is qualified: `std::boxed::Box::pin`, `::std::boxed::Box::pin`, `alloc::boxed::Box::pin`,
    `Box::<_>::pin` keep the function's async kind.  The corpus terms compute [f_kind] with [kind_of_tail] from the callee as
    written and the suffix the translator read. *)
Theorem C17_source_box_pin :
  Gen_attr.gen_box_pin_suffix = Some box_pin_suffix
  /\ Gen_attr.gen_path_to_string_idents = true
  /\ Gen_attr.gen_tail_async_block = true
  /\ Gen_attr.gen_tail_helper_call = true
  /\ Gen_attr.gen_detection_ignores_return_type = true.
Proof. exact source_box_pin. Qed.
Print Assumptions C17_source_box_pin.

Theorem C17_box_pin_qualification_irrelevant : forall pre k,
  kind_of_tail box_pin_suffix (pre ++ (sBox :: sPin :: nil)) k = k.
Proof. exact kind_of_tail_qualified. Qed.
Print Assumptions C17_box_pin_qualification_irrelevant.

(** ... and the declared return type is not consulted (last conjunct of C17_source_box_pin: instrument_precise tries
    AsyncInfo::from_fn on every non-const fn, and from_fn reads `sig.asyncness` and the block only), so a boxed future spelled
    `Pin<Box<dyn Future<..>>>`, `BoxFut<'a, T>` (a type alias), an alias of an alias, or `Self::Fut` (an associated type of a
    trait impl) is instrumented the same way.  The corpus terms pass the return type as written to [kind_of_fn]. *)
Theorem C17_return_type_spelling_irrelevant : forall suffix callee ret ret' k,
  kind_of_fn suffix callee ret k = kind_of_fn suffix callee ret' k.
Proof. exact kind_of_fn_ret_irrelevant. Qed.
Print Assumptions C17_return_type_spelling_irrelevant.
