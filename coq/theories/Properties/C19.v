(** C19 — Levels and level filters form one consistent total order; text round-trips.
    Statements only; proofs live in Levels/Proofs.v.  The definitions these statements mention
    (eval_x, parse_level, current_after, ...) interpret TVGen.Gen_levels, which is regenerated from
    /repo's metadata.rs on every run, so every theorem below is re-checked against the current source. *)
From TV Require Import Levels.Model Levels.Proofs.
Local Open Scope N_scope.

(** Every operator (==, !=, <, <=, >, >=, cmp, partial_cmp, min, max) on every pair of
    Level / LevelFilter values agrees with OFF < ERROR < WARN < INFO < DEBUG < TRACE.
    Finite domain: 10 operators x 11 x 11 values, all covered. *)
Theorem C19_ops_agree :
  forall x a b, applicable x a b = true -> eval_x x a b = Some (spec_x x a b).
Proof. exact ops_agree. Qed.
Print Assumptions C19_ops_agree.

Theorem C19_total_order :
  (forall a, le_spec a a) /\
  (forall a b c, le_spec a b -> le_spec b c -> le_spec a c) /\
  (forall a b, le_spec a b -> le_spec b a -> rank a = rank b) /\
  (forall a b, le_spec a b \/ le_spec b a) /\
  (forall a b, kind_of a = kind_of b -> le_spec a b -> le_spec b a -> a = b).
Proof. exact total_order. Qed.
Print Assumptions C19_total_order.

(** the chain itself, and a Level and the LevelFilter made from it sit at the same place *)
Theorem C19_chain :
  (rank (VF None) < rank (VL Error) /\ rank (VL Error) < rank (VL Warn) /\ rank (VL Warn) < rank (VL Info) /\
   rank (VL Info) < rank (VL Debug) /\ rank (VL Debug) < rank (VL Trace))%N /\
  forall l, rank (VL l) = rank (VF (Some l)).
Proof. exact chain. Qed.
Print Assumptions C19_chain.

Theorem C19_code_le_is_spec : forall a b, eval_op OpLe a b = Some (RB (rank a <=? rank b)).
Proof. exact code_le_is_spec. Qed.
Print Assumptions C19_code_le_is_spec.

Theorem C19_enabled_is_le : forall which f l,
  (which = "enabled"%string \/ which = "register_callsite"%string) ->
  layer_enabled which f l = Some (rank (VL l) <=? rank (VF f)).
Proof. exact enabled_is_le. Qed.
Print Assumptions C19_enabled_is_le.

Theorem C19_max_roundtrip : forall f, current_after f = Some f.
Proof. exact max_roundtrip. Qed.
Print Assumptions C19_max_roundtrip.

Theorem C19_max_initial : current_initial = Some None.
Proof. exact max_initial. Qed.
Print Assumptions C19_max_initial.

(** each public `LevelFilter::X` constant denotes X (OFF = `LevelFilter(None)`, the others `from_level(Level::X)`) *)
Theorem C19_filter_consts : forall f, assoc_olv f gen_filter_const = Some f.
Proof. exact filter_consts. Qed.
Print Assumptions C19_filter_consts.

(** `from_level`, `into_level`, `From<Level>`, `From<Option<Level>>`, `From<LevelFilter> for Option<Level>`:
    each body is the identity on the wrapped `Option<Level>` (read off metadata.rs), so a Level and the
    filter made from it are the same point of the order ([C19_chain]) and converting back returns it. *)
Theorem C19_conversions_identity : map snd gen_conv_identity = [true; true; true; true; true].
Proof. exact conversions_identity. Qed.
Print Assumptions C19_conversions_identity.

Theorem C19_display_parse_level :
  forall l, exists s, display_level l = Some s /\ parse_level s = Some l /\ as_str_level l = Some s.
Proof. exact display_parse_level. Qed.
Print Assumptions C19_display_parse_level.

Theorem C19_display_parse_filter :
  forall f, exists s, display_filter f = Some s /\ parse_filter s = Some f.
Proof. exact display_parse_filter. Qed.
Print Assumptions C19_display_parse_filter.

(** For ALL byte strings: accepted iff a level name in any letter case or a numeral for its code. *)
Theorem C19_parse_language_level : forall s l,
  parse_level s = Some l <-> (map lower s = lname l \/ numeral (code_lv l) s).
Proof. exact parse_language_level. Qed.
Print Assumptions C19_parse_language_level.

(** Known finding F13: the empty string is excluded here and refuted below. *)
Theorem C19_parse_language_filter : forall s f, s <> [] ->
  (parse_filter s = Some f <-> (map lower s = fname f \/ numeral (code_f f) s)).
Proof. exact parse_language_filter. Qed.
Print Assumptions C19_parse_language_filter.

Theorem C19_F13_refuted : parse_filter [] = Some (Some Error) /\
  ~ (map lower [] = fname (Some Error) \/ numeral (code_f (Some Error)) []).
Proof. exact F13_refuted. Qed.
Print Assumptions C19_F13_refuted.

Theorem C19_log_level_bijection :
  (forall l, as_log_level l = Some l) /\ (forall l, as_trace_level l = Some l) /\
  (forall f, as_log_filter f = Some f) /\ (forall f, as_trace_filter f = Some f).
Proof. exact log_level_bijection. Qed.
Print Assumptions C19_log_level_bijection.

(** The third parser of level names in the tree: tracing-attributes' `impl Parse for Level`
    (`#[instrument(level = "..")]`, `err(level = "..")`, `ret(level = "..")`).  For ALL byte strings
    (so also every non-ASCII one): accepted iff one of the five names in some ASCII letter case. *)
Theorem C19_attr_level_language : forall s l, attr_parse_str s = Some l <-> map lower s = lname l.
Proof. exact attr_names. Qed.
Print Assumptions C19_attr_level_language.

(** ... and it agrees with `Level::from_str`: same names, same meaning; `from_str` additionally takes numerals. *)
Theorem C19_attr_agrees_with_from_str : forall s l,
  parse_level s = Some l <-> (attr_parse_str s = Some l \/ numeral (code_lv l) s).
Proof. exact attr_agrees_with_from_str. Qed.
Print Assumptions C19_attr_agrees_with_from_str.

(** Integer literals `level = n`: exactly 1..5 are accepted, every level has a digit, and the
    assignment is order-preserving or order-reversing (the committed source is the *reverse* of
    `Level::from_str`'s digits: 1 = TRACE .. 5 = ERROR; see notes/C19.md, observation O1). *)
Theorem C19_attr_int_language :
  (forall n l, attr_parse_int n = Some l -> 1 <= n <= 5) /\
  (forall n, 1 <= n <= 5 -> exists l, attr_parse_int n = Some l) /\
  (forall l, exists n, attr_parse_int n = Some l) /\
  ((forall n l, attr_parse_int n = Some l -> rank_lv l = n) \/
   (forall n l, attr_parse_int n = Some l -> rank_lv l + n = 6)).
Proof. exact attr_int_language. Qed.
Print Assumptions C19_attr_int_language.

(** What gets published: after a rebuild with ANY list of live dispatchers, `current()` is the
    greatest of their hints in the specification order (no hint = TRACE, no dispatcher = OFF);
    the fold uses the hand-written LevelFilter comparison named in callsite.rs. *)
Theorem C19_published_max : forall hs, exists m, published hs = Some m /\ rank (VF m) = spec_max hs.
Proof. exact published_max. Qed.
Print Assumptions C19_published_max.

(** The round-trip theorems are sequential; they apply because the source gives `set_max` one
    serialised writer (MAX_LEVEL is stored to only by `set_max`, whose only std caller
    `rebuild_interest` needs the `&mut` that only the registry's write guard provides).
    Overlapping rebuilds are C12's `C12_max_level_after` / C04's forced schedules. *)
Theorem C19_max_single_writer : gen_pub_exclusive = true.
Proof. exact pub_exclusive. Qed.
Print Assumptions C19_max_single_writer.

Theorem C19_translator_recognised_everything : gen_unrecognised = [].
Proof. exact nothing_unrecognised. Qed.
Print Assumptions C19_translator_recognised_everything.
