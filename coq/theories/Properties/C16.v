(** C16 — Rolling appender: a write lands in its period's file; only the oldest are pruned.
    Statements only; proofs live in Appender/Rolling*Proofs.v.  Model: Appender/RollingModel.v
    (tied to tracing-appender/src/rolling.rs by translators/rolling.py + Appender/RollingTie.v and by
    the correspondence run of driver/props/c16.py). *)
From Coq Require Import ZArith List String.
From TV Require Import Appender.RollingModel Appender.RollingTie Appender.RollingTimeProofs.
Import ListNotations.
Local Open Scope Z_scope.

(** Every instant lies in exactly one period [round, round + P), periods start at multiples of P
    (minute / hour / day in UTC), and next_date is the start of the following period. *)
Theorem C16_period : forall k t, k <> Never ->
  round_date k t <= t < round_date k t + dur k /\
  round_date k t mod dur k = 0 /\
  next_date k t = Some (round_date k t + dur k).
Proof. exact period_spec. Qed.
Print Assumptions C16_period.
