(** C16 — Rolling appender: a write lands in its period's file; only the oldest are pruned.
    Statements only; proofs live in Appender/Rolling*Proofs.v.  Model: Appender/RollingModel.v
    (tied to tracing-appender/src/rolling.rs and rolling/builder.rs by translators/rolling.py +
    Appender/RollingTie.v and by the correspondence run of driver/props/c16.py).

    Reading guide.  An appender LIFETIME starts with [restart c sp t0]: Builder::build at clock [t0] with
    configuration [c] over whatever state [sp] earlier lifetimes left behind ([GoodFS sp]: unique names and
    creation stamps, every earlier buffer accounted for).  [blank pre tick0] is a directory holding [pre] that no
    appender has written to yet; [init c pre tick0 t0 = restart c (blank pre tick0) t0].  The directory may hold
    anything: files of earlier periods, of the current period, more than the limit, foreign files.
    [run_x c s0 ws] is the exclusive interface (io::Write::write on &mut self) fed the list [ws] of (clock reading,
    buffer); [run c s0 evs] is the shared interface (MakeWriter::make_writer from any number of threads) under the
    schedule [evs] of micro-steps — quantifying over [evs] is quantifying over every interleaving and every
    thread count.  [run_lives s ls]: several lifetimes one after the other.
    Clock readings: unix seconds with 0 <= t < TBOUND = 9999-12-31T00:00:00Z — from the epoch (the code casts to
    usize) to the last day of the [time] crate's range, where next_date stops being defined for some rotation
    (the theorems [C16_next_date_*], [C16_out_of_range_*] say exactly where, and what happens beyond: a panic
    before anything is touched).
    [stored_in s n]: every buffer appended to the files called [n], in append order (pruned incarnations first).
    [period_file c t0 t]: the name [join_date] gives the period containing [t] (the single file made at
    construction for Rotation::NEVER).  A landing [l] carries: [l_life l] — the lifetime it happened in;
    [l_nd l] — its clock reading is not behind an earlier one of that lifetime; [l_clean l] — no other thread was
    between winning the compare_exchange and finishing refresh_writer at any moment of the call. *)
From Coq Require Import ZArith NArith List String Bool Sorted Permutation.
From TVGen Require Import Gen_rolling.
From TV Require Import Appender.RollingModel Appender.RollingTie Appender.RollingTimeProofs Appender.RollingNameProofs.
From TV Require Import Appender.RollingDirProofs Appender.RollingFsProofs Appender.RollingConcProofs Appender.RollingSeqProofs.
From TV Require Import Appender.RollingMainProofs Appender.RollingExamples Appender.RollingClockProofs.
Import ListNotations.
Local Open Scope Z_scope.

(** * Periods, the range of the clock, names *)

(** Every instant lies in exactly one period [round, round + P), periods start at multiples of P
    (minute / hour / day in UTC), and next_date is the start of the following period. *)
Theorem C16_period : forall k t, k <> Never ->
  round_date k t <= t < round_date k t + dur k /\
  round_date k t mod dur k = 0 /\
  next_date k t = Some (round_date k t + dur k).
Proof. exact period_spec. Qed.
Print Assumptions C16_period.

(** Where Rotation::next_date is defined ([current + Duration] is a checked_add().expect() in the time crate, whose
    range ends at DT_MAX = 9999-12-31T23:59:59Z): exactly up to DT_MAX - period; never an issue for NEVER ... *)
Theorem C16_next_date_defined_iff : forall k t, next_ok k t = true <-> k = Never \/ t + dur k <= DT_MAX.
Proof. exact next_ok_iff. Qed.
Print Assumptions C16_next_date_defined_iff.

(** ... in particular for every rotation below the bound used throughout. *)
Theorem C16_next_date_defined_below_bound : forall k t, t < TBOUND -> next_ok k t = true.
Proof. exact next_ok_small. Qed.
Print Assumptions C16_next_date_defined_below_bound.

(** Beyond it: Builder::build panics inside next_date before the directory is touched (no appender) ...
    Non-vacuity: RollingExamples.out_of_range_example. *)
Theorem C16_out_of_range_constructor : forall c sp t, next_ok (rot c) t = false ->
  restart c sp t = bump_panics sp /\ dir (restart c sp t) = dir sp.
Proof. exact restart_out_of_range. Qed.
Print Assumptions C16_out_of_range_constructor.

(** ... a write that finds a rotation due panics inside advance_date (before the compare_exchange): nothing is
    written, created, removed or advanced ... *)
Theorem C16_out_of_range_write : forall c s t b n, should_rollover s t = Some n -> next_ok (rot c) t = false ->
  write_x c s t b = bump_panics s.
Proof. exact x_write_out_of_range. Qed.
Print Assumptions C16_out_of_range_write.

(** ... and so does a make_writer call at its compare_exchange step: the call ends, no lock is held. *)
Theorem C16_out_of_range_make_writer : forall c s i t b n g, pcs s i = Some (PCas t b n g) -> next_ok (rot c) t = false ->
  step c s (Step i) = with_pcs (bump_panics s) (upd (pcs s) i None).
Proof. exact shared_cas_out_of_range. Qed.
Print Assumptions C16_out_of_range_make_writer.

(** A file name is constant inside a period ... *)
Theorem C16_name_constant_in_period : forall c t t', rot c <> Never ->
  round_date (rot c) t = round_date (rot c) t' -> join_date c t = join_date c t'.
Proof. exact name_same_period. Qed.
Print Assumptions C16_name_constant_in_period.

(** ... injective on periods, for every prefix/suffix combination (up to 9999-12-31T23:59:59Z, where
    [year] has four digits; month/year ends and leap days are inside the quantifier) ... *)
Theorem C16_name_injective_on_periods : forall c t t', rot c <> Never -> 0 <= t < TCAL -> 0 <= t' < TCAL ->
  join_date c t = join_date c t' -> round_date (rot c) t = round_date (rot c) t'.
Proof. exact name_injective. Qed.
Print Assumptions C16_name_injective_on_periods.

(** ... and always one of the names pruning considers the appender's own (prefix / suffix test, or a parsable date
    when neither is configured). *)
Theorem C16_own_file_matches : forall c t, 0 <= t < TCAL -> matches c (join_date c t) = true.
Proof. exact join_date_matches. Qed.
Print Assumptions C16_own_file_matches.

(** * Restart: an appender built over a non-empty directory *)

(** Construction removes, renames, truncates and re-stamps nothing (no pruning there, whatever the limit); the only
    entry that can be new is an EMPTY file for the construction time's period, made only when no file of that name
    exists — an existing one is opened for append; the ghosts of earlier lifetimes carry over; the lifetime
    counter advances.  Non-vacuity: RollingExamples.restart_appends_example, above_limit_example. *)
Theorem C16_restart_keeps_files : forall c sp t0, 0 <= t0 < TBOUND ->
  (forall f, In f (dir sp) -> In f (dir (restart c sp t0))) /\
  (forall f, In f (dir (restart c sp t0)) -> In f (dir sp) \/
     (in_dir (join_date c t0) (dir sp) = false /\
      f = {| fname := join_date c t0; created := tick sp; base := []; landed := [] |})) /\
  cur (restart c sp t0) = join_date c t0 /\ in_dir (join_date c t0) (dir (restart c sp t0)) = true /\
  next (restart c sp t0) = next_usize (rot c) t0 /\ grave (restart c sp t0) = grave sp /\
  lands (restart c sp t0) = lands sp /\ refreshed (restart c sp t0) = false /\ life (restart c sp t0) = S (life sp).
Proof. exact restart_keeps_files. Qed.
Print Assumptions C16_restart_keeps_files.

(** A directory no appender of the model has written to yet is a fit starting point, and [init] is [restart] over it. *)
Theorem C16_fresh_directory : forall pre tick0, PreOK pre tick0 -> GoodFS (blank pre tick0).
Proof. exact GoodFS_blank. Qed.
Print Assumptions C16_fresh_directory.

Theorem C16_init_is_restart : forall c pre tick0 t0, init c pre tick0 t0 = restart c (blank pre tick0) t0.
Proof. exact init_is_restart. Qed.
Print Assumptions C16_init_is_restart.

(** * Exclusive interface *)

(** HEADLINE.  One lifetime over whatever was there, non-decreasing clock readings: the files called [n] gain exactly
    the buffers whose write time lies in the period [n] is named for — each once, whole, in write order, after what
    earlier lifetimes had appended under that name.
    Non-vacuity: RollingExamples.contents_example, leap_day_example. *)
Theorem C16_lands_in_period : forall c sp t0, 0 <= t0 < TBOUND -> GoodFS sp ->
  forall ws, Forall valid_w ws -> StronglySorted Z.le (t0 :: map fst ws) ->
  forall n, stored_in (run_x c (restart c sp t0) ws) n = stored_in sp n ++ belongs c t0 n ws.
Proof. exact x_contents_by_period. Qed.
Print Assumptions C16_lands_in_period.

(** HEADLINE ACROSS RESTARTS.  Any number of lifetimes — each with its own configuration (also another limit,
    another naming) and its own non-decreasing clock, which may be behind the previous lifetime's —: the files called
    [n] hold, in order, what each lifetime's writes of [n]'s period contributed, and the result is again fit for a
    further appender.  Non-vacuity: RollingExamples.restart_example. *)
Theorem C16_lands_in_period_across_restarts : forall ls s, GoodFS s -> Forall life_ok ls ->
  GoodFS (run_lives s ls) /\
  forall n, stored_in (run_lives s ls) n =
            stored_in s n ++ flat_map (fun l : lifetime => let '(c, t0, ws) := l in belongs c t0 n ws) ls.
Proof. exact lives_contents. Qed.
Print Assumptions C16_lands_in_period_across_restarts.

(** Any clock readings (backward steps included): the new landings are this lifetime's writes, in order, each
    tagged with the lifetime and flagged with "not behind an earlier reading"; the flagged ones are in their
    period's file; every buffer is stored exactly once, whole, in order per file; the current file exists; what is
    left is fit for the next appender.  Non-vacuity: RollingExamples.any_clock_example. *)
Theorem C16_lands_in_period_any_clock : forall c sp t0, 0 <= t0 < TBOUND -> GoodFS sp ->
  forall ws, Forall valid_w ws ->
  (exists new, lands (run_x c (restart c sp t0) ws) = new ++ lands sp /\
               map (fun l => (l_t l, l_buf l, l_nd l)) (rev new) = annotate t0 ws /\
               (forall l, In l new -> l_life l = S (life sp) /\ (l_nd l = true -> l_file l = period_file c t0 (l_t l)))) /\
  (forall n, stored_in (run_x c (restart c sp t0) ws) n = landed_in n (lands (run_x c (restart c sp t0) ws))) /\
  in_dir (cur (run_x c (restart c sp t0) ws)) (dir (run_x c (restart c sp t0) ws)) = true /\
  GoodFS (run_x c (restart c sp t0) ws).
Proof. exact x_contents_any_clock. Qed.
Print Assumptions C16_lands_in_period_any_clock.

(** A reading at or past next_date rotates once: the write goes to its own period's file and next_date
    moves past the reading (the period after the READING's, however many periods were skipped).
    Non-vacuity: RollingExamples.backwards_example (first write). *)
Theorem C16_rotation_at_boundary_exclusive : forall c sp t0, 0 <= t0 < TBOUND -> GoodFS sp ->
  forall ws t b, Forall valid_w ws -> 0 <= t < TBOUND ->
  next (run_x c (restart c sp t0) ws) <> 0 -> next (run_x c (restart c sp t0) ws) <= t ->
  cur (write_x c (run_x c (restart c sp t0) ws) t b) = join_date c t /\
  next (write_x c (run_x c (restart c sp t0) ws) t b) = next_usize (rot c) t /\
  t < next (write_x c (run_x c (restart c sp t0) ws) t b) /\
  refreshed (write_x c (run_x c (restart c sp t0) ws) t b) = true.
Proof. exact x_rotation_at_boundary. Qed.
Print Assumptions C16_rotation_at_boundary_exclusive.

(** Time standing still or stepping back (by any amount, behind ANY earlier reading of the lifetime: [maxstart] is
    their maximum, next theorem) never rotates: no rollover, same file, same next_date, same directory names.
    Non-vacuity: RollingExamples.backwards_example. *)
Theorem C16_no_rotation_backwards : forall c sp t0, 0 <= t0 < TBOUND -> GoodFS sp ->
  forall ws t b, Forall valid_w ws -> 0 <= t < TBOUND ->
  t <= maxstart (run_x c (restart c sp t0) ws) ->
  should_rollover (run_x c (restart c sp t0) ws) t = None /\
  cur (write_x c (run_x c (restart c sp t0) ws) t b) = cur (run_x c (restart c sp t0) ws) /\
  next (write_x c (run_x c (restart c sp t0) ws) t b) = next (run_x c (restart c sp t0) ws) /\
  map fname (dir (write_x c (run_x c (restart c sp t0) ws) t b)) = map fname (dir (run_x c (restart c sp t0) ws)).
Proof. exact x_no_rotation_backwards. Qed.
Print Assumptions C16_no_rotation_backwards.

Theorem C16_maxstart_is_the_latest_reading : forall c sp t0, 0 <= t0 < TBOUND ->
  forall ws, Forall valid_w ws -> forall u, In u (t0 :: map fst ws) -> u <= maxstart (run_x c (restart c sp t0) ws).
Proof. exact x_maxstart_is_max. Qed.
Print Assumptions C16_maxstart_is_the_latest_reading.

(** * Shared interface: every schedule, any number of threads *)

(** HEADLINE for the code as it is now (make_writer re-checks next_date under the write lock —
    [C16_source_parameters] below ties [recheck] to the source): on EVERY schedule a call of this lifetime that
    overlaps no other thread's rotation and whose reading is not behind an earlier one lands in its period's file.
    No hypothesis about how rotations interleave.  Non-vacuity: RollingExamples.overlap_with_recheck. *)
Theorem C16_lands_in_period_shared : forall c sp t0, 0 <= t0 < TBOUND -> GoodFS sp -> recheck c = true ->
  forall evs, Forall valid_ev evs ->
  forall l, In l (lands (run c (restart c sp t0) evs)) -> l_life l = S (life sp) -> l_clean l = true -> l_nd l = true ->
    l_file l = period_file c t0 (l_t l).
Proof. exact shared_lands_in_period_recheck. Qed.
Print Assumptions C16_lands_in_period_shared.

(** The code before the repair of finding F16 (no re-check): the same conclusion only for schedules in which
    no compare_exchange is won while another winner has not refreshed yet ...
    Non-vacuity: RollingExamples.no_overlap_without_recheck. *)
Theorem C16_lands_in_period_shared_without_recheck : forall c sp t0, 0 <= t0 < TBOUND -> GoodFS sp ->
  forall evs, Forall valid_ev evs -> overlapped (run c (restart c sp t0) evs) = false ->
  forall l, In l (lands (run c (restart c sp t0) evs)) -> l_life l = S (life sp) -> l_clean l = true -> l_nd l = true ->
    l_file l = period_file c t0 (l_t l).
Proof. exact shared_lands_in_period_norecheck. Qed.
Print Assumptions C16_lands_in_period_shared_without_recheck.

(** ... and that hypothesis cannot be dropped there: F16's schedule (the winner of boundary b1 parked between
    advance_date and refresh_writer, a later boundary's winner rotates, b1's refresh runs last) sends a later,
    overlap-free write to the OLDER period's file.  This is why the re-check is load-bearing. *)
Theorem C16_overlap_refuted_without_recheck :
  exists c pre tick0 t0 evs,
    recheck c = false /\ 0 <= t0 < TBOUND /\ PreOK pre tick0 /\ Forall valid_ev evs /\
    exists l, In l (lands (run c (init c pre tick0 t0) evs)) /\ l_life l = 1%nat /\ l_clean l = true /\ l_nd l = true /\
              l_file l <> period_file c t0 (l_t l).
Proof. exact overlap_refuted. Qed.
Print Assumptions C16_overlap_refuted_without_recheck.

(** WHICH READING.  A make_writer call reads the clock once, when it starts; the period of a write is the period of
    THAT reading ([l_t]).  The clock may show anything later in the call - while the winner of the rotation waits for
    the file lock, or after a step back of the wall clock: [HW2 first i t t2 b] is a complete call during which the
    clock reads [t] at the start and [t2] from yield_point(1) (between advance_date and refresh_writer) on, [run_h] a
    sequence of harness operations (complete calls, calls parked at a yield point, releases).  With the source's shape
    ([first = true], [C16_source_clock_reading]) every clean, not-behind landing is in the file of the period of the
    reading its call started with, for EVERY later reading [t2] (nothing is assumed about it, not even the range).
    Non-vacuity: RollingClockProofs.first_reading_example. *)
Theorem C16_lands_in_period_of_first_reading : forall c sp t0, 0 <= t0 < TBOUND -> GoodFS sp -> recheck c = true ->
  forall os, Forall valid_hop os -> Forall first_reading_hop os ->
  forall l, In l (lands (run_h c (restart c sp t0) os)) -> l_life l = S (life sp) -> l_clean l = true -> l_nd l = true ->
    l_file l = period_file c t0 (l_t l).
Proof. exact hops_land_in_period_of_first_reading. Qed.
Print Assumptions C16_lands_in_period_of_first_reading.

(** The file a rotation opens is the one named for the period of the reading that triggered it: the refresh step of
    a winner whose call started with reading [t] (re-check passing) swaps in [join_date c t], which then exists; and a
    call during which the clock moves is the same call as one during which it does not - the later reading is not
    consulted. *)
Theorem C16_rotation_opens_period_of_triggering_reading : forall c s i t b g,
  pcs s i = Some (PRefresh t b g) -> readers s = [] -> (recheck c = false \/ next s = next_usize (rot c) t) ->
  cur (step c s (Step i)) = join_date c t /\ in_dir (join_date c t) (dir (step c s (Step i))) = true /\
  refreshed (step c s (Step i)) = true /\ pcs (step c s (Step i)) i = Some (PRead t b g) /\
  refresh_step2 c s i t = step c s (Step i).
Proof. exact refresh_opens_triggering_period. Qed.
Print Assumptions C16_rotation_opens_period_of_triggering_reading.

Theorem C16_later_reading_not_consulted : forall c s i t t2 t2' b,
  hstep c s (HW2 true i t t2 b) = hstep c s (HW2 true i t t2' b) /\ hstep c s (HW2 true i t t2 b) = hstep c s (HW i t b).
Proof. exact later_reading_not_consulted. Qed.
Print Assumptions C16_later_reading_not_consulted.

(** ... and the first reading is load-bearing: a make_writer that names the new file after a SECOND reading taken at
    the refresh (`refresh_writer(self.now(), ..)`; re-check in place) and a wall clock stepped back across the boundary
    between the two readings (11:00:00, then 10:59:59): next_date has advanced, the older period's file is reopened, and
    a later overlap-free write of the new period (11:30:00) lands in the file of ANOTHER period - the one of the second
    reading. *)
Theorem C16_second_reading_refuted :
  exists c pre tick0 t0 os,
    recheck c = true /\ 0 <= t0 < TBOUND /\ PreOK pre tick0 /\ Forall valid_hop os /\
    exists l, In l (lands (run_h c (init c pre tick0 t0) os)) /\ l_life l = 1%nat /\ l_clean l = true /\ l_nd l = true /\
              l_file l <> period_file c t0 (l_t l) /\
              round_date (rot c) (l_t l) <> round_date (rot c) 1580554799 /\ l_file l = join_date c 1580554799.
Proof. exact second_reading_refuted. Qed.
Print Assumptions C16_second_reading_refuted.

(** Never lost — every schedule, with or without the re-check (so also the calls that DO overlap a rotation):
    every buffer appended is stored exactly once, whole, in landing order per file name; per thread, the calls
    it completed followed by the one it is inside are the ones it had completed before plus exactly the calls it
    started; the file behind the lock exists; (overlap clause) a landing of this lifetime is always in a file this
    appender opened — the one of its construction or the one of an elected rotation; the lifetime counter does not
    move and what is left is fit for the next appender.
    Non-vacuity: RollingExamples.every_call_lands_once_example. *)
Theorem C16_never_lost : forall c sp t0, 0 <= t0 < TBOUND -> GoodFS sp ->
  forall evs, Forall valid_ev evs ->
  (forall n, stored_in (run c (restart c sp t0) evs) n = landed_in n (lands (run c (restart c sp t0) evs))) /\
  (forall i, done_by (run c (restart c sp t0) evs) i ++ inflight (run c (restart c sp t0) evs) i =
             done_by sp i ++ accepted c (restart c sp t0) evs i) /\
  in_dir (cur (run c (restart c sp t0) evs)) (dir (run c (restart c sp t0) evs)) = true /\
  (forall l, In l (lands (run c (restart c sp t0) evs)) -> l_life l = S (life sp) ->
             opened c t0 (rots (run c (restart c sp t0) evs)) (l_file l)) /\
  life (run c (restart c sp t0) evs) = S (life sp) /\ GoodFS (run c (restart c sp t0) evs).
Proof. exact shared_never_lost_full. Qed.
Print Assumptions C16_never_lost.

(** A boundary (the value of next_date that a reading reached) is rotated exactly once however many threads
    reach it: at most one compare_exchange succeeds per boundary value; a failed one has a winner on the same
    value; a rotation's reading had reached its boundary and next_date is past it; and a thread that saw the
    boundary reached and attempts the compare_exchange leaves it rotated (by itself or the earlier winner).
    Non-vacuity: RollingExamples.same_boundary_race, cas_elects_example. *)
Theorem C16_one_rotation_per_boundary : forall c sp t0, 0 <= t0 < TBOUND ->
  forall evs, Forall valid_ev evs ->
  NoDup (map from_of (rots (run c (restart c sp t0) evs))) /\
  (forall i n t, In (i, n, t) (fails (run c (restart c sp t0) evs)) ->
     exists j u, In (j, n, u) (rots (run c (restart c sp t0) evs))) /\
  (forall r, In r (rots (run c (restart c sp t0) evs)) ->
     from_of r <= snd r /\ from_of r < next (run c (restart c sp t0) evs)) /\
  (forall i t b n g, pcs (run c (restart c sp t0) evs) i = Some (PCas t b n g) ->
     exists j u, In (j, n, u) (rots (step c (run c (restart c sp t0) evs) (Step i)))).
Proof. exact shared_one_rotation_full. Qed.
Print Assumptions C16_one_rotation_per_boundary.

(** Standing still / stepping back on the shared interface: NEVER never rotates; every reading already acted
    upon is below next_date; and a thread whose reading is not ahead of such a reading goes straight to the
    read lock — no compare_exchange, no rotation, nothing created or removed.
    Non-vacuity: RollingExamples.backwards_step_example. *)
Theorem C16_no_rotation_backwards_shared : forall c sp t0, 0 <= t0 < TBOUND ->
  forall evs, Forall valid_ev evs ->
  (rot c = Never -> rots (run c (restart c sp t0) evs) = []) /\
  (rot c <> Never -> forall u, In u (decided (run c (restart c sp t0) evs)) -> u < next (run c (restart c sp t0) evs)) /\
  (forall i t b g u, pcs (run c (restart c sp t0) evs) i = Some (PLoad t b g) ->
     (rot c = Never \/ (In u (decided (run c (restart c sp t0) evs)) /\ t <= u)) ->
     rots (step c (run c (restart c sp t0) evs) (Step i)) = rots (run c (restart c sp t0) evs) /\
     fails (step c (run c (restart c sp t0) evs) (Step i)) = fails (run c (restart c sp t0) evs) /\
     next (step c (run c (restart c sp t0) evs) (Step i)) = next (run c (restart c sp t0) evs) /\
     cur (step c (run c (restart c sp t0) evs) (Step i)) = cur (run c (restart c sp t0) evs) /\
     dir (step c (run c (restart c sp t0) evs) (Step i)) = dir (run c (restart c sp t0) evs) /\
     pcs (step c (run c (restart c sp t0) evs) (Step i)) i = Some (PRead t b g)).
Proof. exact shared_no_rotation_backwards_full. Qed.
Print Assumptions C16_no_rotation_backwards_shared.

(** * Pruning (max_log_files = m >= 1; multi-period jumps and m = 1 are inside the quantifier) *)

(** From the first completed rotation of a lifetime on, at most [m] of the appender's log files — both interfaces,
    every history / schedule, and whatever the lifetime started with: also a directory holding more than [m] of
    its files (a restart in a later period, a lowered limit).
    Non-vacuity: RollingExamples.prune_example, prune_max1_example, above_limit_example. *)
Theorem C16_prune : forall c sp t0, 0 <= t0 < TBOUND -> GoodFS sp ->
  forall m, max_files c = Some m -> (1 <= m)%nat ->
  (forall ws, Forall valid_w ws -> refreshed (run_x c (restart c sp t0) ws) = true ->
     (count_logs c (dir (run_x c (restart c sp t0) ws)) <= m)%nat) /\
  (forall evs, Forall valid_ev evs -> refreshed (run c (restart c sp t0) evs) = true ->
     (count_logs c (dir (run c (restart c sp t0) evs)) <= m)%nat).
Proof. exact prune_limit_both. Qed.
Print Assumptions C16_prune.

(** What a rotation ([refresh] = prune, create, swap) removes from a well-formed directory: only the
    appender's own log files, and each of them is older (creation stamp) than every one of its log files that
    was there and stays ... *)
Theorem C16_prune_oldest_first : forall c s t m, max_files c = Some m -> DirOK (dir s) (tick s) ->
  forall r, In r (dir s) -> ~ In r (dir (refresh c s t)) ->
    matches c (fname r) = true /\
    forall f, In f (dir s) -> In f (dir (refresh c s t)) -> matches c (fname f) = true -> (created r < created f)%N.
Proof. exact refresh_removes_oldest. Qed.
Print Assumptions C16_prune_oldest_first.

(** ... EXACTLY: with [len] of its log files present, nothing when [len < m], otherwise the [len - (m-1)] oldest
    (a permutation of the first [len - (m-1)] in creation order) — no more than needed; they go to the grave, the
    rest stays, and the only entry a rotation can add is the new period's file.
    Non-vacuity: RollingExamples.above_limit_example (5 present, limit 2: 4 removed). *)
Theorem C16_prune_exact : forall c s t m, max_files c = Some m -> (1 <= m)%nat -> DirOK (dir s) (tick s) ->
  let len := count_logs c (dir s) in
  let k := if (len <? m)%nat then 0%nat else (len - (m - 1))%nat in
  Permutation (snd (prune c m (dir s))) (firstn k (sort_by_created (filter (fun f => matches c (fname f)) (dir s)))) /\
  List.length (snd (prune c m (dir s))) = k /\
  grave (refresh c s t) = grave s ++ snd (prune c m (dir s)) /\
  dir (refresh c s t) = fst (create (join_date c t) (fst (prune c m (dir s))) (tick s)) /\
  count_logs c (fst (prune c m (dir s))) = (len - k)%nat.
Proof. exact refresh_exact. Qed.
Print Assumptions C16_prune_exact.

(** An entry that is not one of the appender's own log files is never removed, renamed or written to — byte for byte
    and stamp for stamp it is still there after any history / schedule of a lifetime (any limit).
    Non-vacuity: RollingExamples.above_limit_example (notes.txt). *)
Theorem C16_prune_only_own_files : forall c sp t0, 0 <= t0 < TBOUND -> GoodFS sp ->
  forall f, In f (dir sp) -> matches c (fname f) = false ->
  (forall ws, Forall valid_w ws -> In f (dir (run_x c (restart c sp t0) ws))) /\
  (forall evs, Forall valid_ev evs -> In f (dir (run c (restart c sp t0) evs))).
Proof. exact foreign_untouched_both. Qed.
Print Assumptions C16_prune_only_own_files.

(** The directory is well-formed in every state a rotation can start from (both interfaces). *)
Theorem C16_directory_wellformed : forall c sp t0, 0 <= t0 < TBOUND -> GoodFS sp ->
  (forall ws, Forall valid_w ws ->
     DirOK (dir (run_x c (restart c sp t0) ws)) (tick (run_x c (restart c sp t0) ws))) /\
  (forall evs, Forall valid_ev evs ->
     DirOK (dir (run c (restart c sp t0) evs)) (tick (run c (restart c sp t0) evs))).
Proof. exact dir_ok_both. Qed.
Print Assumptions C16_directory_wellformed.

(** * The model's switches and expressions are the source's (regenerated from rolling.rs / builder.rs on every run) *)
Theorem C16_source_parameters :
  gen_unrecognised = [] /\ gen_recheck = true /\ gen_rollover_cmp = ">="%string /\
  gen_advance = "compare_exchange"%string /\ gen_prune_guard = "<"%string /\ gen_prune_keep = 1.
Proof. exact (conj tie_recognised (conj tie_recheck (conj (proj1 tie_control) (conj (proj1 (proj2 (proj2 tie_control))) (conj (proj1 (proj2 (proj2 (proj2 tie_control)))) (proj1 (proj2 (proj2 (proj2 (proj2 tie_control)))))))))). Qed.
Print Assumptions C16_source_parameters.

Theorem C16_source_expressions :
  (gen_prune_pred = [("prefix", "not starts_with"); ("suffix", "not ends_with"); ("neither", "Date::parse is_err")]%string /\
   gen_prune_sort_expr = "sort_by_key by *key of metadata.created()"%string /\
   gen_prune_count_expr = "take files.len() - (max_files - 1)"%string) /\
  gen_advance_stored = "compare_exchange(current -> next_date) where next_date = self.rotation.next_date(&now).map(|date| date.unix_timestamp() as usize).unwrap_or(0)"%string /\
  (gen_builder_defaults = [("rotation", "NEVER"); ("prefix", "None"); ("suffix", "None"); ("max_files", "None")]%string /\
   gen_builder_setters = [("filename_prefix", "empty is None"); ("filename_suffix", "empty is None"); ("max_log_files", "Some n")]%string).
Proof. exact (conj tie_prune_expressions (conj tie_advance_stored tie_builder)). Qed.
Print Assumptions C16_source_expressions.

(** make_writer names the file of a rotation after the reading taken at the start of the call. *)
Theorem C16_source_clock_reading : gen_refresh_uses_first_reading = true.
Proof. exact tie_first_reading. Qed.
Print Assumptions C16_source_clock_reading.
