(** C16 — Rolling appender: a write lands in its period's file; only the oldest are pruned.
    Statements only; proofs live in Appender/Rolling*Proofs.v.  Model: Appender/RollingModel.v
    (tied to tracing-appender/src/rolling.rs by translators/rolling.py + Appender/RollingTie.v and by
    the correspondence run of driver/props/c16.py).

    Reading guide.  [run_x c s0 ws] is the exclusive interface (io::Write::write on &mut self) fed the list
    [ws] of (clock reading, buffer); [run c s0 evs] is the shared interface (MakeWriter::make_writer from any
    number of threads) under the schedule [evs] of micro-steps — quantifying over [evs] is quantifying over
    every interleaving and every thread count.  [s0 = init c pre tick0 t0]: the appender built at clock [t0]
    in a directory already holding [pre].  Clock readings are unix seconds with 0 <= t < 2^62 ([TBOUND]; the
    code casts to usize).  [stored_in s n]: every buffer appended to the files called [n], in append order
    (pruned incarnations first).  [period_file c t0 t]: the name [join_date] gives the period containing [t]
    (the single file made at construction for Rotation::NEVER).  Flags of a landing [l]: [l_nd l] — its clock
    reading is not behind an earlier one; [l_clean l] — no other thread was between winning the
    compare_exchange and finishing refresh_writer at any moment of the call (it "overlaps no rotation"). *)
From Coq Require Import ZArith NArith List String Bool Sorted.
From TVGen Require Import Gen_rolling.
From TV Require Import Appender.RollingModel Appender.RollingTie Appender.RollingTimeProofs Appender.RollingNameProofs.
From TV Require Import Appender.RollingDirProofs Appender.RollingFsProofs Appender.RollingConcProofs Appender.RollingSeqProofs.
From TV Require Import Appender.RollingMainProofs Appender.RollingExamples.
Import ListNotations.
Local Open Scope Z_scope.

(** * Periods and names *)

(** Every instant lies in exactly one period [round, round + P), periods start at multiples of P
    (minute / hour / day in UTC), and next_date is the start of the following period. *)
Theorem C16_period : forall k t, k <> Never ->
  round_date k t <= t < round_date k t + dur k /\
  round_date k t mod dur k = 0 /\
  next_date k t = Some (round_date k t + dur k).
Proof. exact period_spec. Qed.
Print Assumptions C16_period.

(** A file name is constant inside a period ... *)
Theorem C16_name_constant_in_period : forall c t t', rot c <> Never ->
  round_date (rot c) t = round_date (rot c) t' -> join_date c t = join_date c t'.
Proof. exact name_same_period. Qed.
Print Assumptions C16_name_constant_in_period.

(** ... and injective on periods, for every prefix/suffix combination (up to 9999-12-31T23:59:59Z, where
    [year] has four digits; month/year ends and leap days are inside the quantifier) *)
Theorem C16_name_injective_on_periods : forall c t t', rot c <> Never -> 0 <= t < TCAL -> 0 <= t' < TCAL ->
  join_date c t = join_date c t' -> round_date (rot c) t = round_date (rot c) t'.
Proof. exact name_injective. Qed.
Print Assumptions C16_name_injective_on_periods.

(** * Exclusive interface *)

(** HEADLINE.  Non-decreasing clock readings: the files called [n] hold exactly the buffers whose write
    time lies in the period [n] is named for — each once, whole, in write order.
    Non-vacuity: RollingExamples.contents_example, leap_day_example. *)
Theorem C16_lands_in_period : forall c pre tick0 t0, 0 <= t0 < TBOUND -> PreOK pre tick0 ->
  forall ws, Forall valid_w ws -> StronglySorted Z.le (t0 :: map fst ws) ->
  forall n, stored_in (run_x c (init c pre tick0 t0) ws) n = belongs c t0 n ws.
Proof. exact x_contents_by_period. Qed.
Print Assumptions C16_lands_in_period.

(** Any clock readings (backward steps included): the landings are the writes, in order, each flagged with
    "not behind an earlier reading"; every buffer is stored exactly once, whole, in order per file; the
    flagged ones are in their period's file; the current file exists.
    Non-vacuity: RollingExamples.any_clock_example. *)
Theorem C16_lands_in_period_any_clock : forall c pre tick0 t0, 0 <= t0 < TBOUND -> PreOK pre tick0 ->
  forall ws, Forall valid_w ws ->
  map (fun l => (l_t l, l_buf l, l_nd l)) (rev (lands (run_x c (init c pre tick0 t0) ws))) = annotate t0 ws /\
  (forall n, stored_in (run_x c (init c pre tick0 t0) ws) n = landed_in n (lands (run_x c (init c pre tick0 t0) ws))) /\
  (forall l, In l (lands (run_x c (init c pre tick0 t0) ws)) -> l_nd l = true -> l_file l = period_file c t0 (l_t l)) /\
  in_dir (cur (run_x c (init c pre tick0 t0) ws)) (dir (run_x c (init c pre tick0 t0) ws)) = true.
Proof. exact x_contents_any_clock. Qed.
Print Assumptions C16_lands_in_period_any_clock.

(** A reading at or past next_date rotates once: the write goes to its own period's file and next_date
    moves past the reading.  Non-vacuity: RollingExamples.backwards_example (first write). *)
Theorem C16_rotation_at_boundary_exclusive : forall c pre tick0 t0, 0 <= t0 < TBOUND -> PreOK pre tick0 ->
  forall ws t b, Forall valid_w ws -> 0 <= t < TBOUND ->
  next (run_x c (init c pre tick0 t0) ws) <> 0 -> next (run_x c (init c pre tick0 t0) ws) <= t ->
  cur (write_x c (run_x c (init c pre tick0 t0) ws) t b) = join_date c t /\
  next (write_x c (run_x c (init c pre tick0 t0) ws) t b) = next_usize (rot c) t /\
  t < next (write_x c (run_x c (init c pre tick0 t0) ws) t b) /\
  refreshed (write_x c (run_x c (init c pre tick0 t0) ws) t b) = true.
Proof. exact x_rotation_at_boundary. Qed.
Print Assumptions C16_rotation_at_boundary_exclusive.

(** Time standing still or stepping back (by any amount, behind ANY earlier reading: [maxstart] is their
    maximum, next theorem) never rotates: no rollover, same file, same next_date, same directory names.
    Non-vacuity: RollingExamples.backwards_example. *)
Theorem C16_no_rotation_backwards : forall c pre tick0 t0, 0 <= t0 < TBOUND -> PreOK pre tick0 ->
  forall ws t b, Forall valid_w ws -> 0 <= t < TBOUND ->
  t <= maxstart (run_x c (init c pre tick0 t0) ws) ->
  should_rollover (run_x c (init c pre tick0 t0) ws) t = None /\
  cur (write_x c (run_x c (init c pre tick0 t0) ws) t b) = cur (run_x c (init c pre tick0 t0) ws) /\
  next (write_x c (run_x c (init c pre tick0 t0) ws) t b) = next (run_x c (init c pre tick0 t0) ws) /\
  map fname (dir (write_x c (run_x c (init c pre tick0 t0) ws) t b)) = map fname (dir (run_x c (init c pre tick0 t0) ws)).
Proof. exact x_no_rotation_backwards. Qed.
Print Assumptions C16_no_rotation_backwards.

Theorem C16_maxstart_is_the_latest_reading : forall c pre tick0 t0, 0 <= t0 < TBOUND ->
  forall ws, Forall valid_w ws -> forall u, In u (t0 :: map fst ws) -> u <= maxstart (run_x c (init c pre tick0 t0) ws).
Proof. exact x_maxstart_is_max. Qed.
Print Assumptions C16_maxstart_is_the_latest_reading.

(** * Shared interface: every schedule, any number of threads *)

(** HEADLINE for the code as it is now (make_writer re-checks next_date under the write lock —
    [C16_source_parameters] below ties [recheck] to the source): on EVERY schedule a call that overlaps no
    other thread's rotation and whose reading is not behind an earlier one lands in its period's file.
    No hypothesis about how rotations interleave.  Non-vacuity: RollingExamples.overlap_with_recheck. *)
Theorem C16_lands_in_period_shared : forall c pre tick0 t0, 0 <= t0 < TBOUND -> recheck c = true ->
  forall evs, Forall valid_ev evs ->
  forall l, In l (lands (run c (init c pre tick0 t0) evs)) -> l_clean l = true -> l_nd l = true ->
    l_file l = period_file c t0 (l_t l).
Proof. exact shared_lands_in_period_recheck. Qed.
Print Assumptions C16_lands_in_period_shared.

(** The code before the repair of finding F16 (no re-check): the same conclusion only for schedules in which
    no compare_exchange is won while another winner has not refreshed yet ...
    Non-vacuity: RollingExamples.no_overlap_without_recheck. *)
Theorem C16_lands_in_period_shared_without_recheck : forall c pre tick0 t0, 0 <= t0 < TBOUND ->
  forall evs, Forall valid_ev evs -> overlapped (run c (init c pre tick0 t0) evs) = false ->
  forall l, In l (lands (run c (init c pre tick0 t0) evs)) -> l_clean l = true -> l_nd l = true ->
    l_file l = period_file c t0 (l_t l).
Proof. exact shared_lands_in_period_norecheck. Qed.
Print Assumptions C16_lands_in_period_shared_without_recheck.

(** ... and that hypothesis cannot be dropped there: F16's schedule (the winner of boundary b1 parked between
    advance_date and refresh_writer, a later boundary's winner rotates, b1's refresh runs last) sends a later,
    overlap-free write to the OLDER period's file.  This is why the re-check is load-bearing. *)
Theorem C16_overlap_refuted_without_recheck :
  exists c pre tick0 t0 evs,
    recheck c = false /\ 0 <= t0 < TBOUND /\ PreOK pre tick0 /\ Forall valid_ev evs /\
    exists l, In l (lands (run c (init c pre tick0 t0) evs)) /\ l_clean l = true /\ l_nd l = true /\
              l_file l <> period_file c t0 (l_t l).
Proof. exact overlap_refuted. Qed.
Print Assumptions C16_overlap_refuted_without_recheck.

(** Never lost — every schedule, with or without the re-check (so also the calls that DO overlap a rotation):
    every buffer appended is stored exactly once, whole, in landing order per file name; per thread, the calls
    it completed followed by the one it is inside are exactly the calls it started; the file behind the lock
    exists; and (overlap clause) a landing is always in a file the appender itself opened — the one made at
    construction or the one of an elected rotation; the directory stays well-formed.
    Non-vacuity: RollingExamples.every_call_lands_once_example. *)
Theorem C16_never_lost : forall c pre tick0 t0, 0 <= t0 < TBOUND -> PreOK pre tick0 ->
  forall evs, Forall valid_ev evs ->
  (forall n, stored_in (run c (init c pre tick0 t0) evs) n = landed_in n (lands (run c (init c pre tick0 t0) evs))) /\
  (forall i, done_by (run c (init c pre tick0 t0) evs) i ++ inflight (run c (init c pre tick0 t0) evs) i =
             accepted c (init c pre tick0 t0) evs i) /\
  in_dir (cur (run c (init c pre tick0 t0) evs)) (dir (run c (init c pre tick0 t0) evs)) = true /\
  (forall l, In l (lands (run c (init c pre tick0 t0) evs)) ->
             opened c t0 (rots (run c (init c pre tick0 t0) evs)) (l_file l)) /\
  DirOK (dir (run c (init c pre tick0 t0) evs)) (tick (run c (init c pre tick0 t0) evs)).
Proof. exact shared_never_lost_full. Qed.
Print Assumptions C16_never_lost.

(** A boundary (the value of next_date that a reading reached) is rotated exactly once however many threads
    reach it: at most one compare_exchange succeeds per boundary value; a failed one has a winner on the same
    value; a rotation's reading had reached its boundary and next_date is past it; and a thread that saw the
    boundary reached and attempts the compare_exchange leaves it rotated (by itself or the earlier winner).
    Non-vacuity: RollingExamples.same_boundary_race, cas_elects_example. *)
Theorem C16_one_rotation_per_boundary : forall c pre tick0 t0, 0 <= t0 < TBOUND ->
  forall evs, Forall valid_ev evs ->
  NoDup (map from_of (rots (run c (init c pre tick0 t0) evs))) /\
  (forall i n t, In (i, n, t) (fails (run c (init c pre tick0 t0) evs)) ->
     exists j u, In (j, n, u) (rots (run c (init c pre tick0 t0) evs))) /\
  (forall r, In r (rots (run c (init c pre tick0 t0) evs)) ->
     from_of r <= snd r /\ from_of r < next (run c (init c pre tick0 t0) evs)) /\
  (forall i t b n g, pcs (run c (init c pre tick0 t0) evs) i = Some (PCas t b n g) ->
     exists j u, In (j, n, u) (rots (step c (run c (init c pre tick0 t0) evs) (Step i)))).
Proof. exact shared_one_rotation_full. Qed.
Print Assumptions C16_one_rotation_per_boundary.

(** Standing still / stepping back on the shared interface: NEVER never rotates; every reading already acted
    upon is below next_date; and a thread whose reading is not ahead of such a reading goes straight to the
    read lock — no compare_exchange, no rotation, nothing created or removed.
    Non-vacuity: RollingExamples.backwards_step_example. *)
Theorem C16_no_rotation_backwards_shared : forall c pre tick0 t0, 0 <= t0 < TBOUND ->
  forall evs, Forall valid_ev evs ->
  (rot c = Never -> rots (run c (init c pre tick0 t0) evs) = []) /\
  (rot c <> Never -> forall u, In u (decided (run c (init c pre tick0 t0) evs)) -> u < next (run c (init c pre tick0 t0) evs)) /\
  (forall i t b g u, pcs (run c (init c pre tick0 t0) evs) i = Some (PLoad t b g) ->
     (rot c = Never \/ (In u (decided (run c (init c pre tick0 t0) evs)) /\ t <= u)) ->
     rots (step c (run c (init c pre tick0 t0) evs) (Step i)) = rots (run c (init c pre tick0 t0) evs) /\
     fails (step c (run c (init c pre tick0 t0) evs) (Step i)) = fails (run c (init c pre tick0 t0) evs) /\
     next (step c (run c (init c pre tick0 t0) evs) (Step i)) = next (run c (init c pre tick0 t0) evs) /\
     cur (step c (run c (init c pre tick0 t0) evs) (Step i)) = cur (run c (init c pre tick0 t0) evs) /\
     dir (step c (run c (init c pre tick0 t0) evs) (Step i)) = dir (run c (init c pre tick0 t0) evs) /\
     pcs (step c (run c (init c pre tick0 t0) evs) (Step i)) i = Some (PRead t b g)).
Proof. exact shared_no_rotation_backwards_full. Qed.
Print Assumptions C16_no_rotation_backwards_shared.

(** * Pruning (max_log_files = m >= 1; multi-period jumps and m = 1 are inside the quantifier) *)

(** From the first rotation on, at most [m] of the appender's log files — both interfaces, every history /
    schedule.  Non-vacuity: RollingExamples.prune_example, prune_max1_example. *)
Theorem C16_prune : forall c pre tick0 t0, 0 <= t0 < TBOUND -> PreOK pre tick0 ->
  forall m, max_files c = Some m -> (1 <= m)%nat ->
  (forall ws, Forall valid_w ws -> refreshed (run_x c (init c pre tick0 t0) ws) = true ->
     (count_logs c (dir (run_x c (init c pre tick0 t0) ws)) <= m)%nat) /\
  (forall evs, Forall valid_ev evs -> refreshed (run c (init c pre tick0 t0) evs) = true ->
     (count_logs c (dir (run c (init c pre tick0 t0) evs)) <= m)%nat).
Proof. exact prune_limit_both. Qed.
Print Assumptions C16_prune.

(** What a rotation ([refresh] = prune, create, swap) removes from a well-formed directory: only the
    appender's own log files, and each of them is older (creation stamp) than every one of its log files that
    was there and stays ... *)
Theorem C16_prune_oldest_first : forall c s t m, max_files c = Some m -> DirOK (dir s) (tick s) ->
  forall r, In r (dir s) -> ~ In r (dir (refresh c s t)) ->
    matches c (fname r) = true /\
    forall f, In f (dir s) -> In f (dir (refresh c s t)) -> matches c (fname f) = true -> (created r < created f)%N.
Proof. exact refresh_removes_oldest. Qed.
Print Assumptions C16_prune_oldest_first.

(** ... and the directory is well-formed in every state a rotation can start from (both interfaces). *)
Theorem C16_directory_wellformed : forall c pre tick0 t0, 0 <= t0 < TBOUND -> PreOK pre tick0 ->
  (forall ws, Forall valid_w ws ->
     DirOK (dir (run_x c (init c pre tick0 t0) ws)) (tick (run_x c (init c pre tick0 t0) ws))) /\
  (forall evs, Forall valid_ev evs ->
     DirOK (dir (run c (init c pre tick0 t0) evs)) (tick (run c (init c pre tick0 t0) evs))).
Proof. exact dir_ok_both. Qed.
Print Assumptions C16_directory_wellformed.

(** * The model's switches are the source's (regenerated from rolling.rs on every run) *)
Theorem C16_source_parameters :
  gen_unrecognised = [] /\ gen_recheck = true /\ gen_rollover_cmp = ">="%string /\
  gen_advance = "compare_exchange"%string /\ gen_prune_guard = "<"%string /\ gen_prune_keep = 1.
Proof. exact (conj tie_recognised (conj tie_recheck (conj (proj1 tie_control) (conj (proj1 (proj2 (proj2 tie_control))) (conj (proj1 (proj2 (proj2 (proj2 tie_control)))) (proj1 (proj2 (proj2 (proj2 (proj2 tie_control)))))))))). Qed.
Print Assumptions C16_source_parameters.
