(** C20 — The default timestamp is the correct UTC calendar time for every instant.
    Statements only; proofs live in Time/CivilProofs.v, Time/MuslProofs.v, Time/DisplayProofs.v.

    Model: Time/Musl.v = tracing-subscriber/src/fmt/time/datetime.rs on Z ([from_systemtime], [display],
    [format_system_time]).  Nothing of it is written by hand: the constants are TVGen.Gen_time_consts and every
    statement of `From<SystemTime>::from` and `Display::fmt` (casts, overflow points, the pre-epoch branch, the
    three year-padding branches, `nanos / 1_000`, the format strings) is TVGen.Gen_datetime, both translated from
    the source on every run, in the vocabulary of Time/MuslBase.v (Rust integer operations per build profile,
    std's duration_since and integer formatting).  A SystemTime is (tv_sec : i64, tv_nsec in [0,1e9)) = [valid_systemtime]: the quantifier
    "every instant the system clock can represent" is literally [forall tv_sec tv_nsec, valid_systemtime ..].
    Build profiles are modes: [release] (wrapping arithmetic, no debug_assert), [debug] (overflow and
    debug_assert panic = None), [strict] (additionally every cast must be the identity).
    Specification: Time/Civil.v (proleptic Gregorian day count by the leap-year rule; independent of the
    algorithm) and Time/Rfc3339.v (the printed form, byte order). *)
From Coq Require Import ZArith List.
From TV Require Import Time.Civil Time.Rfc3339 Time.Musl Time.CivilProofs Time.MuslProofs Time.DisplayProofs Time.SandwichProofs.
Import ListNotations.
Local Open Scope Z_scope.

(** ** The specification is the calendar *)

(** [days_from_civil] is fixed by the leap-year rule alone: 1970-01-01 is day 0 and the successor of a date
    (by month lengths) is the next day.  Every integer is the day number of exactly one valid date. *)
Theorem C20_spec_is_the_calendar :
  days_from_civil 1970 1 1 = 0 /\
  (forall y m d, valid_date y m d ->
     let '(y', m', d') := next_day (y, m, d) in
     valid_date y' m' d' /\ days_from_civil y' m' d' = days_from_civil y m d + 1) /\
  (forall z, exists! ymd : Z * Z * Z, let '(y, m, d) := ymd in valid_date y m d /\ days_from_civil y m d = z).
Proof. exact (conj dfc_epoch (conj dfc_next_day civil_decomposition_unique)). Qed.
Print Assumptions C20_spec_is_the_calendar.

(** A Unix time has at most one decomposition into a valid date and time of day. *)
Theorem C20_decomposition_unique : forall y m d h mi s y' m' d' h' mi' s',
  valid_date y m d -> valid_time h mi s -> valid_date y' m' d' -> valid_time h' mi' s' ->
  secs_from_civil y m d h mi s = secs_from_civil y' m' d' h' mi' s' ->
  (y, m, d) = (y', m', d') /\ (h, mi, s) = (h', mi', s').
Proof. exact secs_from_civil_inj. Qed.
Print Assumptions C20_decomposition_unique.

(** ** Headline: for EVERY instant of SystemTime, in both shipped build profiles, the computed record is that
    instant's UTC date and time.  No instant is excluded: the earliest representable one, UNIX_EPOCH - 2^63 s
    (finding F20, repaired in /repo a774a84), is inside the theorem. *)
Theorem C20_correct : forall md, md = release \/ md = debug ->
  forall tv_sec tv_nsec, valid_systemtime tv_sec tv_nsec ->
  exists dt, from_systemtime md tv_sec tv_nsec = Some dt /\
    valid_date (year dt) (month dt) (day dt) /\
    valid_time (hour dt) (minute dt) (second dt) /\
    secs_from_civil (year dt) (month dt) (day dt) (hour dt) (minute dt) (second dt) = tv_sec /\
    nanos dt = tv_nsec.
Proof. exact correct_shipped. Qed.
Print Assumptions C20_correct.

Example C20_correct_nonvacuous :
  valid_systemtime 0 0 /\ valid_systemtime (-1) 999999999 /\
  valid_systemtime I64_MIN 0 /\ valid_systemtime I64_MAX 999999999 /\
  from_systemtime release 951782399 123456789 = Some (DT 2000 2 28 23 59 59 123456789) /\
  from_systemtime release 951782400 0 = Some (DT 2000 2 29 0 0 0 0) /\
  from_systemtime debug I64_MIN 0 = Some (DT (-292277022657) 1 27 8 29 52 0).
Proof. unfold valid_systemtime, I64_MIN, I64_MAX, NANOS_PER_SEC. repeat split; try discriminate; vm_compute; reflexivity. Qed.

(** The same, functionally: the record is the one the inverse calendar function gives. *)
Theorem C20_correct_functional : forall md, md = release \/ md = debug ->
  forall tv_sec tv_nsec, valid_systemtime tv_sec tv_nsec ->
  from_systemtime md tv_sec tv_nsec = Some (dt_of_civil (civil_from_secs tv_sec) tv_nsec).
Proof. exact correct_functional. Qed.
Print Assumptions C20_correct_functional.

(** ** No overflow, for every instant: with overflow checks and debug assertions on ([debug]) nothing panics —
    no arithmetic overflows, no assertion fails, no index is out of bounds — and the result is the release
    build's.  No cast changes a value either ([strict]: every `as` / `from` must be the identity), for every
    instant but the earliest, where the code wraps on purpose (next theorem). *)
Theorem C20_no_overflow : forall tv_sec tv_nsec, valid_systemtime tv_sec tv_nsec ->
  exists dt, from_systemtime debug tv_sec tv_nsec = Some dt /\ from_systemtime release tv_sec tv_nsec = Some dt /\
             is_civil_time_of dt tv_sec tv_nsec /\
             (~ earliest_instant tv_sec tv_nsec -> from_systemtime strict tv_sec tv_nsec = Some dt).
Proof. exact no_overflow. Qed.
Print Assumptions C20_no_overflow.

Example C20_no_overflow_nonvacuous :
  valid_systemtime (I64_MIN + 1) 0 /\ ~ earliest_instant (I64_MIN + 1) 0 /\
  valid_systemtime I64_MIN 1 /\ ~ earliest_instant I64_MIN 1.
Proof. unfold valid_systemtime, earliest_instant, I64_MIN, I64_MAX, NANOS_PER_SEC. repeat split; try discriminate; intros [A B]; discriminate. Qed.

(** The earliest instant: std reports a distance of 2^63 s back to the epoch; `as i64` turns it into i64::MIN
    and `wrapping_neg` leaves it there — the two value-changing steps [strict] reports — and both shipped
    profiles produce the right record. *)
Theorem C20_earliest_instant_wraps_by_design :
  valid_systemtime I64_MIN 0 /\ earliest_instant I64_MIN 0 /\
  from_systemtime strict I64_MIN 0 = None /\
  std_duration_since_epoch I64_MIN 0 = DErr 9223372036854775808 0 /\
  wrap I64 9223372036854775808 = I64_MIN /\ wrap I64 (- I64_MIN) = I64_MIN /\
  exists dt, from_systemtime debug I64_MIN 0 = Some dt /\ from_systemtime release I64_MIN 0 = Some dt /\
             is_civil_time_of dt I64_MIN 0.
Proof. exact earliest_instant_wraps_by_design. Qed.
Print Assumptions C20_earliest_instant_wraps_by_design.

(** Finding F20, for the record: with the Err branch as it was before a774a84 ([split_before_a774a84]:
    `debug_assert!(.. <= i64::MAX as u64)`, `(-secs, 0)`) the debug build panicked at the earliest instant; the
    release build was right; the current source is right in both; nothing else changed. *)
Theorem C20_F20_old_shape_refuted :
  valid_systemtime I64_MIN 0 /\
  split_before_a774a84 debug I64_MIN 0 = None /\
  split_before_a774a84 release I64_MIN 0 = Some (I64_MIN, 0) /\
  split debug I64_MIN 0 = Some (I64_MIN, 0) /\
  (forall sec nsec, valid_systemtime sec nsec -> ~ earliest_instant sec nsec ->
     split_before_a774a84 debug sec nsec = split debug sec nsec).
Proof. exact F20_old_shape_refuted. Qed.
Print Assumptions C20_F20_old_shape_refuted.

(** ** Instants before 1970: std reports the distance back to the epoch; the code recovers floor semantics —
    every pre-epoch instant, both profiles. *)
Theorem C20_pre_epoch : forall tv_sec tv_nsec, valid_systemtime tv_sec tv_nsec -> tv_sec < 0 ->
  exists secs nanos,
    std_duration_since_epoch tv_sec tv_nsec = DErr secs nanos /\
    0 <= nanos < NANOS_PER_SEC /\ 0 <= secs /\
    secs * NANOS_PER_SEC + nanos = - (tv_sec * NANOS_PER_SEC + tv_nsec) /\
    split release tv_sec tv_nsec = Some (tv_sec, tv_nsec) /\
    split debug tv_sec tv_nsec = Some (tv_sec, tv_nsec).
Proof. exact pre_epoch. Qed.
Print Assumptions C20_pre_epoch.

Example C20_pre_epoch_nonvacuous :
  valid_systemtime (-1) 1 /\ -1 < 0 /\ std_duration_since_epoch (-1) 1 = DErr 0 999999999 /\
  split debug (-1) 1 = Some (-1, 1) /\
  valid_systemtime I64_MIN 0 /\ I64_MIN < 0 /\ split debug I64_MIN 0 = Some (I64_MIN, 0).
Proof. unfold valid_systemtime, I64_MIN, I64_MAX, NANOS_PER_SEC. repeat split; try discriminate; vm_compute; reflexivity. Qed.

(** ** What is printed.  Every instant, both profiles: `<year>-MM-DDThh:mm:ss.ffffffZ` with the fields of the
    instant and ffffff = floor(tv_nsec / 1000) — truncated, never rounded up; the year text follows the three
    branches of Display::fmt ([year_text]: four digits in 0000..9999; `+` and the shortest numeral above;
    `-` and at least four digits below). *)
Theorem C20_micros_truncate : forall md, md = release \/ md = debug ->
  forall tv_sec tv_nsec, valid_systemtime tv_sec tv_nsec ->
  forall y m d h mi s, civil_from_secs tv_sec = ((y, m, d), (h, mi, s)) ->
  exists ytext,
    format_system_time md tv_sec tv_nsec = Some (ytext ++ tail_text m d h mi s (tv_nsec / 1000)) /\
    year_text y ytext /\
    (tv_nsec / 1000) * 1000 <= tv_nsec < (tv_nsec / 1000) * 1000 + 1000.
Proof. exact format_shape. Qed.
Print Assumptions C20_micros_truncate.

Example C20_micros_truncate_nonvacuous :
  format_system_time debug (-1) 999999999 = Some (rfc3339 1969 12 31 23 59 59 999999) /\
  format_system_time release YEAR10000_SECS 1999 = Some (ch_plus :: digits 5 10000 ++ tail_text 1 1 0 0 0 1) /\
  format_system_time release (YEAR0_SECS - 1) 0 = Some (ch_minus :: digits 4 1 ++ tail_text 12 31 23 59 59 0) /\
  format_system_time debug I64_MIN 0 = Some (ch_minus :: digits 12 292277022657 ++ tail_text 1 27 8 29 52 0).
Proof. repeat split; vm_compute; reflexivity. Qed.

(** Years 0000..9999: exactly RFC 3339 with six fractional digits, 27 bytes, in both build profiles. *)
Theorem C20_format : forall md, md = release \/ md = debug ->
  forall tv_sec tv_nsec, valid_systemtime tv_sec tv_nsec ->
  forall y m d h mi s, civil_from_secs tv_sec = ((y, m, d), (h, mi, s)) -> 0 <= y <= 9999 ->
  format_system_time md tv_sec tv_nsec = Some (rfc3339 y m d h mi s (tv_nsec / 1000)) /\
  length (rfc3339 y m d h mi s (tv_nsec / 1000)) = 27%nat.
Proof. intros. split; [apply format_rfc3339; assumption | apply rfc3339_length]. Qed.
Print Assumptions C20_format.

Example C20_format_nonvacuous :
  valid_systemtime 1700000000 999999999 /\ civil_from_secs 1700000000 = ((2023, 11, 14), (22, 13, 20)) /\
  format_system_time debug 1700000000 999999999 = Some (rfc3339 2023 11 14 22 13 20 999999) /\
  rfc3339 2023 11 14 22 13 20 999999 =
    [50;48;50;51; 45; 49;49; 45; 49;52; 84; 50;50; 58; 49;51; 58; 50;48; 46; 57;57;57;57;57;57; 90].
Proof. unfold valid_systemtime, I64_MIN, I64_MAX, NANOS_PER_SEC. repeat split; try discriminate; vm_compute; reflexivity. Qed.

(** ** Order.  Over the WHOLE range of SystemTime successive instants print non-decreasing fields:
    [year; month; day; hour; minute; second; microsecond] in lexicographic order ([lex_le] on the field list). *)
Theorem C20_monotone_fields : forall md, md = release \/ md = debug ->
  forall s1 n1 s2 n2 d1 d2,
  valid_systemtime s1 n1 -> valid_systemtime s2 n2 ->
  s1 < s2 \/ (s1 = s2 /\ n1 <= n2) ->
  from_systemtime md s1 n1 = Some d1 -> from_systemtime md s2 n2 = Some d2 ->
  lex_le (fields_of d1) (fields_of d2).
Proof. exact monotone_fields. Qed.
Print Assumptions C20_monotone_fields.

Example C20_monotone_fields_nonvacuous :
  valid_systemtime I64_MIN 0 /\ valid_systemtime I64_MAX 999999999 /\ I64_MIN < I64_MAX /\
  (exists d1 d2, from_systemtime debug I64_MIN 0 = Some d1 /\ from_systemtime debug I64_MAX 999999999 = Some d2 /\
     fields_of d1 = [-292277022657; 1; 27; 8; 29; 52; 0] /\ fields_of d2 = [292277026596; 12; 4; 15; 30; 7; 999999]).
Proof.
  unfold valid_systemtime, I64_MIN, I64_MAX, NANOS_PER_SEC. repeat split; try discriminate.
  eexists. eexists. repeat split; vm_compute; reflexivity.
Qed.

(** Corollary for the strings: within years 0000..9999 (fixed width) successive instants print in non-decreasing
    byte order.  (Outside that range the code prints `+YYYYY` / `-YYYY`, for which byte order is not time order;
    RFC 3339 does not define those years.) *)
Theorem C20_monotone : forall md, md = release \/ md = debug ->
  forall s1 n1 s2 n2 o1 o2,
  valid_systemtime s1 n1 -> valid_systemtime s2 n2 ->
  YEAR0_SECS <= s1 -> s2 < YEAR10000_SECS ->
  s1 < s2 \/ (s1 = s2 /\ n1 <= n2) ->
  format_system_time md s1 n1 = Some o1 -> format_system_time md s2 n2 = Some o2 ->
  lex_le o1 o2.
Proof. exact monotone. Qed.
Print Assumptions C20_monotone.

Example C20_monotone_nonvacuous :
  YEAR0_SECS = secs_from_civil 0 1 1 0 0 0 /\ YEAR10000_SECS = secs_from_civil 10000 1 1 0 0 0 /\
  valid_systemtime (-1) 999999999 /\ valid_systemtime 0 0 /\ YEAR0_SECS <= -1 /\ 0 < YEAR10000_SECS /\
  (exists o1 o2, format_system_time release (-1) 999999999 = Some o1 /\ format_system_time release 0 0 = Some o2).
Proof.
  unfold valid_systemtime, I64_MIN, I64_MAX, NANOS_PER_SEC, YEAR0_SECS, YEAR10000_SECS.
  repeat split; try discriminate; try (vm_compute; reflexivity).
  eexists. eexists. split; vm_compute; reflexivity.
Qed.

(** Outside 0000..9999 byte order really differs from time order (why the string corollary is bounded). *)
Theorem C20_monotone_needs_year_range :
  exists o1 o2, format_system_time release (YEAR10000_SECS - 1) 0 = Some o1 /\
                format_system_time release YEAR10000_SECS 0 = Some o2 /\ ~ lex_le o1 o2.
Proof.
  eexists. eexists. split; [vm_compute; reflexivity|]. split; [vm_compute; reflexivity|].
  cbn. intros [H|[H _]]; discriminate H.
Qed.
Print Assumptions C20_monotone_needs_year_range.

(** ** The default-configuration leg (the clock is not controlled there): a default-built `fmt` layer prints a
    record between two clock reads t0 <= t1; the check demands that the printed timestamp lies bytewise between the
    model's texts of t0 and t1.  [C20_window_sandwich]: that demand is met by the text of every instant of the
    window (no false alarm).  [C20_printed_determines_instant] and [C20_window_tight]: inside 0000..9999 the text
    determines the instant to the microsecond, hence a text of any instant that meets the demand is the text of
    an instant of the window at the printed resolution (the demand is as strong as six digits allow). *)
Theorem C20_window_sandwich : forall md, md = release \/ md = debug ->
  forall s0 n0 s n s1 n1 o0 o o1,
  valid_systemtime s0 n0 -> valid_systemtime s n -> valid_systemtime s1 n1 ->
  in_rfc_range s0 -> in_rfc_range s1 ->
  (s0 < s \/ (s0 = s /\ n0 <= n)) -> (s < s1 \/ (s = s1 /\ n <= n1)) ->
  format_system_time md s0 n0 = Some o0 -> format_system_time md s n = Some o ->
  format_system_time md s1 n1 = Some o1 ->
  lex_le o0 o /\ lex_le o o1.
Proof. exact sandwich. Qed.
Print Assumptions C20_window_sandwich.

Theorem C20_printed_determines_instant : forall md, md = release \/ md = debug ->
  forall s1 n1 s2 n2 o,
  valid_systemtime s1 n1 -> valid_systemtime s2 n2 -> in_rfc_range s1 -> in_rfc_range s2 ->
  format_system_time md s1 n1 = Some o -> format_system_time md s2 n2 = Some o ->
  s1 = s2 /\ n1 / 1000 = n2 / 1000.
Proof. exact printed_determines_instant. Qed.
Print Assumptions C20_printed_determines_instant.

Theorem C20_window_tight : forall md, md = release \/ md = debug ->
  forall s0 n0 s n s1 n1 o0 o o1,
  valid_systemtime s0 n0 -> valid_systemtime s n -> valid_systemtime s1 n1 ->
  in_rfc_range s0 -> in_rfc_range s -> in_rfc_range s1 ->
  format_system_time md s0 n0 = Some o0 -> format_system_time md s n = Some o ->
  format_system_time md s1 n1 = Some o1 ->
  lex_le o0 o -> lex_le o o1 ->
  us_le s0 n0 s n /\ us_le s n s1 n1.
Proof. exact sandwich_tight. Qed.
Print Assumptions C20_window_tight.

Example C20_window_nonvacuous :
  valid_systemtime 1790000000 999 /\ valid_systemtime 1790000000 1000 /\ valid_systemtime 1790000001 0 /\
  in_rfc_range 1790000000 /\ in_rfc_range 1790000001 /\
  (exists o0 o o1, format_system_time debug 1790000000 999 = Some o0 /\ format_system_time debug 1790000000 1000 = Some o /\
                   format_system_time debug 1790000001 0 = Some o1 /\ o0 <> o /\ lex_le o0 o /\ lex_le o o1) /\
  us_le 1790000000 999 1790000000 1000 /\ ~ us_le 1790000000 1000 1790000000 999.
Proof.
  unfold valid_systemtime, in_rfc_range, I64_MIN, I64_MAX, NANOS_PER_SEC, YEAR0_SECS, YEAR10000_SECS, us_le.
  repeat split; try discriminate; try (vm_compute; reflexivity).
  - eexists. eexists. eexists. split; [vm_compute; reflexivity|]. split; [vm_compute; reflexivity|].
    split; [vm_compute; reflexivity|]. split; [discriminate|]. split; vm_compute; intuition (try discriminate; auto).
  - right. split; [reflexivity|]. vm_compute. discriminate.
  - intros [H|[_ H]]; [revert H|revert H]; vm_compute; intros H; try discriminate H; apply H; reflexivity.
Qed.

(** ** The translators recognised every constant and every statement they were asked for (fail closed otherwise:
    an unrecognised source makes every generated function the constant None and this list non-empty). *)
Theorem C20_source_recognised : gen_time_unrecognised = [] /\ gen_datetime_unrecognised = [].
Proof. split; reflexivity. Qed.
Print Assumptions C20_source_recognised.
