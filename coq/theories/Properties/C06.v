(** C06 — Current span, parent and scope mirror each thread's enter/exit history.
    Statements only; proofs live in Registry/C06Proofs.v (on top of the invariant of C05).

    Vocabulary (Registry/Model.v; see Properties/C05.v for histories, [init], [final], [Config_ok], [WellFormed], [OwnDefault]):
      [st_ene]             the SPECIFICATION list "entered and not yet exited" as triples (instance, thread, span), most recent
                           first: [C06_entered_not_exited] pins down how it evolves — Registry::enter through a live handle
                           pushes, Registry::exit removes the span's (most recent) entry wherever it is in the list
                           (out-of-order exits), no other operation touches it.
      [thread_ene st i t]  its restriction to thread t on registry instance i; [NoReentry] = no span occurs twice in it (the
                           property text excludes re-entering a span already entered on the same thread).
      [current], [current_span], [lookup_current]   stack.rs current() on the thread's SpanStack (list of entries with
                           duplicate flags; push marks duplicates, pop removes the LAST matching entry), Registry::current_span,
                           Context::lookup_current.
      [wanted_parent]      root => none; contextual => Registry::current_span of the creating thread; explicit => that handle's id.
      [st_cpar]            the creation-time parent of every creation number (written once, by the span's creation: [C06_parent]
                           / [C06_parent_table_stable]); [chain cp q l]: l = q, its creation-time parent, ... up to a root.
                           [chain] has no fuel: a parent is created before its child.
      [scope]              the Scope iterator of registry/mod.rs (follows STORED parent ids while lookups succeed);
                           [from_root] = collect and reverse. *)
From Coq Require Import List NArith Bool Arith.
From TV Require Import Registry.Model Registry.Inv Registry.Run Registry.C05Proofs Registry.C06Proofs Registry.Filtered.
From TVGen Require Gen_registry.
Import ListNotations.
Local Open Scope nat_scope.

(** Headline.  On every thread the stack's current(), Registry::current_span and Context::lookup_current are the most
    recently entered span that has not been exited on that thread — for every history, out-of-order exits included. *)
Theorem C06_current : forall layers g h, Config_ok layers -> WellFormed layers g h -> OwnDefault layers g h ->
  forall i t, NoReentry (final (init layers g) h) i t ->
    current i t (st_entries (final (init layers g) h)) = hd_error (thread_ene (final (init layers g) h) i t) /\
    current_span (final (init layers g) h) i t = hd_error (thread_ene (final (init layers g) h) i t) /\
    lookup_current (final (init layers g) h) i t = hd_error (thread_ene (final (init layers g) h) i t).
Proof. exact current_history. Qed.
Print Assumptions C06_current.

(** What "entered and not yet exited" means, operation by operation ([ene_step] is the whole definition). *)
Theorem C06_entered_not_exited : forall layers g h, Config_ok layers -> WellFormed layers g h -> OwnDefault layers g h ->
  st_ene (init layers g) = [] /\
  forall o, st_ene (final (init layers g) (h ++ [o])) =
            ene_step (final (init layers g) h) o (st_ene (final (init layers g) h)).
Proof. exact ene_history_all. Qed.
Print Assumptions C06_entered_not_exited.

(** Independence, as a frame rule that needs no hypothesis at all: an operation executed by another thread changes
    neither thread t's span stack, nor its current(), nor its entered-not-exited list — in ANY state. *)
Theorem C06_thread_independent : forall st o t, op_tid o <> t -> forall i,
  filter (mine i t) (st_entries (fst (step st o))) = filter (mine i t) (st_entries st) /\
  current i t (st_entries (fst (step st o))) = current i t (st_entries st) /\
  thread_ene (fst (step st o)) i t = thread_ene st i t.
Proof. exact thread_independent. Qed.
Print Assumptions C06_thread_independent.

(** ... and for Registry::current_span / lookup_current (which also look the span up) along every history. *)
Theorem C06_thread_independent_current_span : forall layers g h o t, Config_ok layers ->
  WellFormed layers g (h ++ [o]) -> OwnDefault layers g (h ++ [o]) -> op_tid o <> t -> forall i,
  thread_ene (final (init layers g) (h ++ [o])) i t = thread_ene (final (init layers g) h) i t /\
  current_span (final (init layers g) (h ++ [o])) i t = current_span (final (init layers g) h) i t /\
  lookup_current (final (init layers g) (h ++ [o])) i t = lookup_current (final (init layers g) h) i t.
Proof. exact thread_independent_history. Qed.
Print Assumptions C06_thread_independent_current_span.

(** Parents of spans: the new span stores exactly the wanted parent (contextual => the creating thread's current span —
    by [C06_current] the most recently entered, not yet exited one; explicit => that span; root => none), and that is
    what its creation-time entry records. *)
Theorem C06_parent : forall layers g h t hd k a, Config_ok layers ->
  WellFormed layers g (h ++ [ONewSpan t hd k a]) -> OwnDefault layers g h ->
  forall i, hget hd (st_handles (final (init layers g) h)) = None -> eff (final (init layers g) h) t false = Some i ->
  exists sl, lookup (final (init layers g) (h ++ [ONewSpan t hd k a])) i a = Some sl /\
             s_seq sl = st_count (final (init layers g) h) /\
             s_parent sl = wanted_parent (final (init layers g) h) i t k /\
             cpar_get (st_count (final (init layers g) h)) (st_cpar (final (init layers g) (h ++ [ONewSpan t hd k a]))) =
               Some (match wanted_parent (final (init layers g) h) i t k with
                     | Some p => seq_at (final (init layers g) h) i p | None => None end) /\
             hget hd (st_handles (final (init layers g) (h ++ [ONewSpan t hd k a]))) = Some (HSpan i a).
Proof. exact new_span_parent_history. Qed.
Print Assumptions C06_parent.

(** Parents of events: Context::event_span / event_scope as a layer sees them inside on_event. *)
Theorem C06_event_parent : forall st t k i, st_panicked st = false -> existsb odd_hid (op_hids (OEvent_ t k)) = false ->
  eff st t false = Some i ->
  exists d, step st (OEvent_ t k) =
    (st, [OEvent i (match lookup_current st i t with Some c => seq_at st i c | None => None end)
                 (match event_parent st i t k with Some s => seq_at st i s | None => None end)
                 (match event_parent st i t k with Some s => scope st i s | None => [] end)
                 (rev (match event_parent st i t k with Some s => scope st i s | None => [] end)) d]).
Proof. exact event_parent_spec. Qed.
Print Assumptions C06_event_parent.

(** The creation-time parent of a span never changes afterwards. *)
Theorem C06_parent_table_stable : forall layers g h o, Config_ok layers -> WellFormed layers g h -> OwnDefault layers g h ->
  forall q v, cpar_of (final (init layers g) h) q = Some v -> cpar_of (final (init layers g) (h ++ [o])) q = Some v.
Proof. exact cpar_stable_history. Qed.
Print Assumptions C06_parent_table_stable.

(** Scope: for every span in the registry, walking its scope yields exactly its chain of creation-time ancestors from the
    span itself to its root (the chain is unique), from_root is the reverse, and every element is still in the registry. *)
Theorem C06_scope : forall layers g h, Config_ok layers -> WellFormed layers g h -> OwnDefault layers g h ->
  forall i s sl, lookup (final (init layers g) h) i s = Some sl ->
  chain (cpar_of (final (init layers g) h)) (s_seq sl) (scope (final (init layers g) h) i s) /\
  (forall l, chain (cpar_of (final (init layers g) h)) (s_seq sl) l -> l = scope (final (init layers g) h) i s) /\
  from_root (scope (final (init layers g) h) i s) = rev (scope (final (init layers g) h) i s) /\
  (forall q, In q (scope (final (init layers g) h) i s) ->
     exists s', lookup (final (init layers g) h) i s' <> None /\ In (i, s', q) (st_created (final (init layers g) h))).
Proof. exact scope_history. Qed.
Print Assumptions C06_scope.

(** Ancestors stay readable: as long as a handle (a captured SpanTrace is one), a stack entry or an open child refers to a
    span, the span and its whole ancestor chain can be looked up. *)
Theorem C06_ancestors_readable : forall layers g h, Config_ok layers -> WellFormed layers g h -> OwnDefault layers g h ->
  forall i s q, In (i, s, q) (st_created (final (init layers g) h)) ->
  1 <= handles_n (final (init layers g) h) i s + entered_n (final (init layers g) h) i s + open_children (final (init layers g) h) i s ->
  exists sl, lookup (final (init layers g) h) i s = Some sl /\ s_seq sl = q /\
             chain (cpar_of (final (init layers g) h)) q (scope (final (init layers g) h) i s) /\
             forall a, In a (scope (final (init layers g) h) i s) ->
               exists sa, lookup (final (init layers g) h) i sa <> None /\ In (i, sa, a) (st_created (final (init layers g) h)).
Proof. exact ancestors_readable_history. Qed.
Print Assumptions C06_ancestors_readable.

(* ------------------------------------------------------------------------------------------------------------------
   A layer behind a per-subscriber filter (the outermost Layered frame of every instance).  [OEnabled t dis] is
   Collect::enabled leaving the filter's verdict in the FILTERING thread-local of thread t; Registry::new_span stores it as
   the span's FilterMap bit ([st_vis], by creation number; [C06_filter_bit_at_creation]); [enabled_for] = SpanRef::
   is_enabled_for; [flookup_current] = Context::lookup_current of that layer (the stack walk of lookup_current_filtered);
   [fscope] = its Scope (disabled spans skipped). *)

(** The filtered layer's current span is the most recently entered, not yet exited span of the thread that its filter
    enabled — a function of the thread's own enter/exit history. *)
Theorem C06_lookup_current_filtered : forall layers g h, Config_ok layers -> WellFormed layers g h -> OwnDefault layers g h ->
  forall i t, NoReentry (final (init layers g) h) i t ->
  flookup_current (final (init layers g) h) i t =
  hd_error (filter (enabled_for (final (init layers g) h) i) (thread_ene (final (init layers g) h) i t)).
Proof. exact flookup_history. Qed.
Print Assumptions C06_lookup_current_filtered.

(** The other reading — the disabled top-of-stack span's nearest enabled ANCESTOR (seeded mutant C06-D) — is refuted: on a
    history that enters a filtered-out span outside its parent it differs from the specification. *)
Theorem C06_parent_chain_reading_refuted :
  exists layers g h i t, Config_ok layers /\ WellFormed layers g h /\ OwnDefault layers g h /\
    NoReentry (final (init layers g) h) i t /\
    flookup_parent_chain (final (init layers g) h) i t <>
    hd_error (filter (enabled_for (final (init layers g) h) i) (thread_ene (final (init layers g) h) i t)).
Proof. exact parent_chain_reading_refuted. Qed.
Print Assumptions C06_parent_chain_reading_refuted.

(** Its scope / from_root: the enabled members of THE ancestor chain, in order / reversed. *)
Theorem C06_scope_filtered : forall layers g h, Config_ok layers -> WellFormed layers g h -> OwnDefault layers g h ->
  forall i s sl, lookup (final (init layers g) h) i s = Some sl ->
  exists l, chain (cpar_of (final (init layers g) h)) (s_seq sl) l /\
            fscope (final (init layers g) h) i s = filter (fun q => vis_get q (st_vis (final (init layers g) h))) l /\
            from_root (fscope (final (init layers g) h) i s) = rev (filter (fun q => vis_get q (st_vis (final (init layers g) h))) l).
Proof. exact fscope_history. Qed.
Print Assumptions C06_scope_filtered.

(** event_span / event_scope / from_root as that layer sees them inside on_event. *)
Theorem C06_event_filtered : forall st t k i, st_panicked st = false -> existsb odd_hid (op_hids (OFEvent_ t k)) = false ->
  eff st t false = Some i ->
  let es := match k with
            | PRoot => None
            | PCtx => flookup_current st i t
            | PExplicit hp => match hget hp (st_handles st) with
                              | Some (HSpan _ p) => if enabled_for st i p then Some p else None
                              | _ => None end
            end in
  step st (OFEvent_ t k) =
    (st, [OFEvent i (match flookup_current st i t with Some c => seq_at st i c | None => None end)
                  (match es with Some s => seq_at st i s | None => None end)
                  (match es with Some s => fscope st i s | None => [] end)
                  (rev (match es with Some s => fscope st i s | None => [] end))]).
Proof. exact fevent_spec. Qed.
Print Assumptions C06_event_filtered.

(** An explicit parent overrides the contextual one — also when it does not resolve: an event whose explicit parent Id is
    stale (OEventQ: the retained Id of span number q; the span has closed, its slot may have been recycled), or, for the
    filtered layer, names a span its filter disabled, has NO span and an empty scope, whatever span is current on the thread
    (seeded mutant C06-H fell back to the current span). *)
Theorem C06_event_parent_unresolved : forall st t q i j p, st_panicked st = false -> eff st t false = Some i ->
  find_seq q (st_created st) = Some (j, p) ->
  (lookup st i p = None -> exists cur d fo, step st (OEventQ t q) = (st, [OEvent i cur None [] [] d; fo])) /\
  (enabled_for st i p = false -> exists eo cur, step st (OEventQ t q) = (st, [eo; OFEvent i cur None [] []])).
Proof. exact eventq_unresolved. Qed.
Print Assumptions C06_event_parent_unresolved.

Theorem C06_event_parent_resolved : forall st t q i j p, st_panicked st = false -> eff st t false = Some i ->
  find_seq q (st_created st) = Some (j, p) -> lookup st i p <> None -> enabled_for st i p = true ->
  exists cur fcur d, step st (OEventQ t q) =
    (st, [OEvent i cur (seq_at st i p) (scope st i p) (rev (scope st i p)) d;
          OFEvent i fcur (seq_at st i p) (fscope st i p) (rev (fscope st i p))]).
Proof. exact eventq_resolved. Qed.
Print Assumptions C06_event_parent_resolved.

(** along every history: once a span has been reported closed, its Id never resolves again, for any layer *)
Theorem C06_closed_parent_unresolved : forall layers g h, Config_ok layers -> WellFormed layers g h -> OwnDefault layers g h ->
  forall i p q l, In (i, p, q) (st_created (final (init layers g) h)) -> closed_n l q (trace (init layers g) h) = 1 ->
  explicit_parent (final (init layers g) h) i p = None /\ explicit_parent_filtered (final (init layers g) h) i p = None.
Proof. exact closed_parent_unresolved. Qed.
Print Assumptions C06_closed_parent_unresolved.

Theorem C06_filter_bit_at_creation : forall st t h k a, st_panicked st = false ->
  existsb odd_hid (op_hids (ONewSpan t h k a)) = false ->
  st_count st < st_count (fst (step st (ONewSpan t h k a))) ->
  vis_get (st_count st) (st_vis (fst (step st (ONewSpan t h k a)))) = negb (existsb (fun x => x =? t) (st_filtering st)).
Proof. exact vis_at_creation. Qed.
Print Assumptions C06_filter_bit_at_creation.

(** Tie to the source text (shared with C05): stack.rs push / pop (`.rev().find`) / iter (skips duplicates) / current,
    Registry::new_span's parent resolution, current_span, Scope::next, from_root (`.rev()`), SpanRef::scope, Context::
    event_span / event_scope / lookup_current have exactly the shapes Registry/Model.v mirrors. *)
Theorem C06_model_mirrors_source :
  forallb snd Gen_registry.shapes = true /\ length Gen_registry.shapes = 21 /\ Gen_registry.gen_unrecognised = [].
Proof. exact (proj2 model_mirrors_source). Qed.
Print Assumptions C06_model_mirrors_source.

(** Non-vacuity: root -> mid -> leaf entered in that order on thread 0, the root also entered on thread 1, thread 0 exits
    the MIDDLE span first: the hypotheses hold; thread 0's current span is the leaf, thread 1's the root; the leaf's scope
    is leaf, mid, root — mid is still readable although nothing but its child refers to it. *)
Example C06_nonvacuous :
  WellFormed two_layers None h_chain /\ OwnDefault two_layers None h_chain /\
  NoReentry (final (init two_layers None) h_chain) 0 0 /\
  thread_ene (final (init two_layers None) h_chain) 0 0 = [(2%N, 0%N); (0%N, 0%N)] /\
  thread_ene (final (init two_layers None) h_chain) 0 1 = [(0%N, 0%N)] /\
  current_span (final (init two_layers None) h_chain) 0 0 = Some (2%N, 0%N) /\
  current_span (final (init two_layers None) h_chain) 0 1 = Some (0%N, 0%N) /\
  scope (final (init two_layers None) h_chain) 0 (2%N, 0%N) = [2; 1; 0] /\
  from_root (scope (final (init two_layers None) h_chain) 0 (2%N, 0%N)) = [0; 1; 2].
Proof. exact h_chain_ok. Qed.
