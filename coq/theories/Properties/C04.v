(** C04 — Racing callsite registration and collector turnover converge; none is stranded.
    Statements only; the micro-step model is Dispatch/Sched_Model.v, the proofs are Dispatch/Sched_Proofs_*.v.

    Reading guide.  [step W s t] performs ONE shared-memory access of thread [t] (an atomic load / store / CAS / swap,
    an Arc upgrade, a lock acquire or release in callsite.rs register / register_dispatch / rebuild_interest_cache,
    MacroCallsite::{interest,register,is_enabled}, metadata.rs set_max, dispatch.rs set_global_default, reload.rs
    modify) or blocks ([None]).  A schedule is any [list tid]; [reachable (step W) (init progs) s] quantifies over
    EVERY schedule of ANY number of threads running ANY programs over
    {OEmit (first hits included), ONew, ODrop, OSetDefault, OCloseScope, OSetGlobal, ORebuild, OReload}.
    [W] fixes what collectors answer (register_callsite / enabled / max_level_hint as functions of the value in the
    collector's filter cell); [WFworld W] is the property's side condition "self-consistent filters, the hint is a true
    upper bound".  [instP s c]: Dispatch::new(c) has returned; [live s c]: c's Arc strong count is non-zero.
    An [EvEmitEnd t cs cur0 quiet vals fend d] event records a finished emission at callsite cs on thread t: d = the
    collector whose event()/new_span() was called; the other fields are history variables whose meaning is pinned by
    [C04_ghost_*] below: cur0 = t's current collector when the emission started, quiet = no reload overlapped it,
    vals = the values of cur0's filter cell in play when the verdict was taken, fend = the value at the end. *)
From Coq Require Import List Arith Bool.
From TV Require Import Dispatch.Sched_Model.
From TV Require Import Dispatch.Sched_Proofs_Base.
From TV Require Import Dispatch.Sched_Proofs_Lock.
From TV Require Import Dispatch.Sched_Proofs_Reg.
From TV Require Import Dispatch.Sched_Proofs_Progress.
From TV Require Import Dispatch.Sched_Proofs_Ghost.
From TV Require Import Dispatch.Sched_Proofs_Cache.
From TV Require Import Dispatch.Sched_Proofs_Emit.
From TV Require Import Dispatch.Sched_Proofs_Main.
From TV Require Import Dispatch.Sched_Examples.
From TV Require Import Dispatch.Sched_World.
From TV Require Import Dispatch.Sched_Points.
From TVGen Require Import Gen_sched_points.
Import ListNotations.

(** ** No thread deadlocks: in every reachable state with an unfinished thread some thread can move.
    (One RwLock, never held across a blocking acquire; the REGISTERING-CAS loser and the list-CAS loser never wait;
    a reload cell's write lock is held only across the assignment.) *)
Theorem C04_no_deadlock :
  forall W progs s, reachable (step W) (init progs) s ->
  (exists t, t < st_n s /\ th_done (st_thr s t) = false) ->
  exists t, step W s t <> None.
Proof. exact no_deadlock. Qed.
Print Assumptions C04_no_deadlock.

(** non-vacuity: a reachable state in which a thread IS blocked (first hit waiting for the read lock while a
    rebuild holds the write lock) and another one can move *)
Theorem C04_no_deadlock_nonvacuous :
  reachable (step WX) (init PA) sA /\ (exists t, t < st_n sA /\ th_done (st_thr sA t) = false) /\
  pcof sA 1 = PRgRLock 0 /\ step WX sA 1 = None /\ step WX sA 0 <> None.
Proof. exact blocked_witness. Qed.
Print Assumptions C04_no_deadlock_nonvacuous.

(** ** The list CAS: a success pushed onto exactly the list that was loaded (so linking `next` to the loaded head is
    right); a failure means another registration was pushed since the load, and the retry works on the current,
    strictly longer list — the retries of one registration are bounded by the pushes of the others. *)
Theorem C04_push_progress :
  forall W progs s t s' cs l0, reachable (step W) (init progs) s ->
  pcof s t = PRgPushCas cs l0 -> step W s t = Some s' ->
  (st_list s = l0 /\ st_list s' = cs :: l0 /\ pcof s' t = PRgRUnlock cs) \/
  (length l0 < length (st_list s) /\ st_list s' = st_list s /\ pcof s' t = PRgPushCas cs (st_list s)).
Proof. exact push_progress. Qed.
Print Assumptions C04_push_progress.

Theorem C04_push_progress_nonvacuous :
  reachable (step WX) (init PB) sB /\ pcof sB 0 = PRgPushCas 0 [] /\ st_list sB = [1] /\
  pcof (exec1 (step WX) sB 0) 0 = PRgPushCas 0 [1].
Proof. exact retry_witness. Qed.
Print Assumptions C04_push_progress_nonvacuous.

(** ... and the assertion in `push` never fires: no registration is ever linked twice (no panic from the registry). *)
Theorem C04_never_corrupt :
  forall W progs s, reachable (step W) (init progs) s ->
  NoDup (st_list s) /\ forall t cs, ~ In (EvCorrupt t cs) (st_log s).
Proof. exact never_corrupt. Qed.
Print Assumptions C04_never_corrupt.

(** ** During the race an emission is never delivered to a collector whose filter rejects it — outside finding F41.
    Whoever receives the emission is the collector that was current when it started (or, if none was, a global
    default installed meanwhile whose own enabled() was asked), and one value of that collector's filter accepts it. *)
Theorem C04_safety_during_race :
  forall W, WFworld W -> forall progs s, reachable (step W) (init progs) s ->
  forall t cs cur0 q vals fend d, In (EvEmitEnd t cs cur0 q vals fend (Some d)) (st_log s) ->
  ~ F41_class cur0 vals ->
  (cur0 = Some d \/ cur0 = None) /\ exists f, In f vals /\ accepts W f cs = true.
Proof. exact safety_during_race. Qed.
Print Assumptions C04_safety_during_race.

(** Finding F41 (known): an emission that began with no current collector, loaded a cached `always`, and found a
    global default installed when it dispatched, is delivered to that collector although its filter rejects it. *)
Theorem C04_F41_refuted :
  WFworld WX /\ reachable (step WX) (init P41) s41 /\
  In (EvEmitEnd 1 0 None true [] None (Some 1)) (st_log s41) /\ F41_class None [] /\
  accepts WX (st_cell s41 1) 0 = false.
Proof. exact F41_refuted. Qed.
Print Assumptions C04_F41_refuted.

(** ** An emission that starts after a collector's installation has completed (the collector is the thread's
    current one when the emission starts) is judged by that collector: it goes to it or to nobody, and that is the
    verdict of one value [f] of its filter cell ... *)
Theorem C04_after_install :
  forall W, WFworld W -> forall progs s, reachable (step W) (init progs) s ->
  forall t cs c q vals fend d, In (EvEmitEnd t cs (Some c) q vals fend d) (st_log s) ->
  exists f, In f vals /\ d = (if accepts W f cs then Some c else None).
Proof. exact after_install. Qed.
Print Assumptions C04_after_install.

(** ... and, when no reload overlaps the emission (always the case for programs without OReload), of THE value of its
    cell: the emission is delivered IFF the collector's own filter accepts it — C01's "iff", under every schedule,
    racing registrations / creations / drops / rebuilds included, first hits included. *)
Theorem C04_exact_verdict :
  forall W, WFworld W -> forall progs s, reachable (step W) (init progs) s ->
  forall t cs c vals fend d, In (EvEmitEnd t cs (Some c) true vals fend d) (st_log s) ->
  exists f, fend = Some f /\ d = (if accepts W f cs then Some c else None).
Proof. exact quiet_exact. Qed.
Print Assumptions C04_exact_verdict.

Theorem C04_verdict_nonvacuous :
  reachable (step WX) (init PD) sD /\ finished sD = true /\
  In (EvEmitEnd 0 0 (Some 0) true [2] (Some 2) (Some 0)) (st_log sD) /\
  In (EvEmitEnd 0 1 (Some 0) true [2] (Some 2) None) (st_log sD) /\
  accepts WX 2 0 = true /\ accepts WX 2 1 = false /\
  st_list sD = [1; 0] /\ instP sD 0 /\ live sD 0 = true /\ st_max sD = 5.
Proof. exact verdict_witness. Qed.
Print Assumptions C04_verdict_nonvacuous.

(** ** Once the activity quiesces C01's invariant holds: a cached `never` / `always` is the answer of EVERY live
    collector's current filter (no callsite stranded at `never` for a collector that wants it), the global max level
    is not below any live collector's hint, every live collector is in the dispatcher list, every listed callsite has
    a cached interest and was offered to every live collector. *)
Theorem C04_quiescent_exact :
  forall W progs s, reachable (step W) (init progs) s -> finished s = true -> QInv W s.
Proof. exact quiescent_exact. Qed.
Print Assumptions C04_quiescent_exact.

(** the fields of [QInv], spelled out *)
Theorem C04_quiescent_fields :
  forall W s, QInv W s ->
  (forall cs c, st_cache s cs = Some INever -> instP s c -> live s c = true -> w_interest W (st_cell s c) cs = INever) /\
  (forall cs c, st_cache s cs = Some IAlways -> instP s c -> live s c = true -> w_interest W (st_cell s c) cs = IAlways) /\
  (forall c, instP s c -> live s c = true -> w_hint W (st_cell s c) <= st_max s) /\
  (forall c, instP s c -> live s c = true -> In c (st_disps s)) /\
  (forall cs, In cs (st_list s) -> st_cache s cs <> None) /\
  (forall cs, st_reg s cs = Registered -> In cs (st_list s)) /\
  (forall cs c, In cs (st_list s) -> instP s c -> live s c = true -> exists t, In (EvAsk t c cs) (st_log s)).
Proof. exact QInv_fields. Qed.
Print Assumptions C04_quiescent_fields.

(** at quiescence a callsite is in the registry's list iff its registration state is REGISTERED (nobody is left in
    REGISTERING, so no later emission falls back to `sometimes` forever) *)
Theorem C04_quiescent_registered :
  forall W progs s, reachable (step W) (init progs) s -> finished s = true ->
  forall cs, In cs (st_list s) <-> st_reg s cs = Registered.
Proof. exact quiescent_registered. Qed.
Print Assumptions C04_quiescent_registered.

(** ** Every registered callsite was offered (register_callsite was called) to every collector that has completed
    Dispatch::new and is live — in every reachable state, hence to every collector live afterwards. *)
Theorem C04_offered :
  forall W progs s, reachable (step W) (init progs) s ->
  forall cs c, In cs (st_list s) -> instP s c -> live s c = true -> exists t, In (EvAsk t c cs) (st_log s).
Proof. exact offered. Qed.
Print Assumptions C04_offered.

(** ** Meaning of the history variables (read off the definition of [step]). *)
Theorem C04_ghost_start :
  forall W s t s', step W s t = Some s' -> pcof s t = PIdle -> em_pc (pcof s' t) = true ->
  eg_cur0 (th_eg (st_thr s' t)) = cur s t /\ eg_q0 (th_eg (st_thr s' t)) = negb (reload_inflight s) /\
  eg_ep0 (th_eg (st_thr s' t)) = st_epoch s.
Proof. exact ghost_start. Qed.
Print Assumptions C04_ghost_start.

Theorem C04_ghost_kept :
  forall W s t s', step W s t = Some s' -> em_pc (pcof s t) = true -> em_pc (pcof s' t) = true ->
  eg_cur0 (th_eg (st_thr s' t)) = eg_cur0 (th_eg (st_thr s t)) /\ eg_q0 (th_eg (st_thr s' t)) = eg_q0 (th_eg (st_thr s t)) /\
  eg_ep0 (th_eg (st_thr s' t)) = eg_ep0 (th_eg (st_thr s t)).
Proof. exact ghost_kept. Qed.
Print Assumptions C04_ghost_kept.

Theorem C04_ghost_event :
  forall W s t s' t' cs cur0 quiet vals fend d, step W s t = Some s' ->
  In (EvEmitEnd t' cs cur0 quiet vals fend d) (new_events s s') ->
  t' = t /\ fend = option_map (st_cell s) cur0 /\
  ((pcof s t = PIdle /\ cur0 = cur s t /\ quiet = negb (reload_inflight s) /\ vals = vals_now s cur0 /\ d = None) \/
   (em_pc (pcof s t) = true /\ cur0 = eg_cur0 (th_eg (st_thr s t)) /\
    quiet = (eg_q0 (th_eg (st_thr s t)) && (eg_ep0 (th_eg (st_thr s t)) =? st_epoch s)))).
Proof. exact emit_event_ghost. Qed.
Print Assumptions C04_ghost_event.

(** the worlds the correspondence instantiates (tables of answers per filter value and callsite) satisfy the side
    condition whenever the kernel-evaluated check [wf_tableb] succeeds; the driver evaluates it for every world *)
Theorem C04_worlds_wf :
  forall filters levels, wf_tableb filters levels = true -> WFworld (mk_world filters levels).
Proof. exact mk_world_wf. Qed.
Print Assumptions C04_worlds_wf.

Theorem C04_example_world_wf : WFworld WX.
Proof. exact WX_wf. Qed.
Print Assumptions C04_example_world_wf.

(** ** Static tie to the instrumented sources (regenerated from /repo on every run by translators/sched_points.py): the
    yield points found in callsite.rs / metadata.rs / dispatch.rs / tracing's lib.rs / reload.rs are exactly the yield points of
    the model's program points, and every function hosts the ids the model's step order expects (empty tables = a repository
    without the hooks: the forced-schedule part is then skipped and recorded as skipped). *)
Theorem C04_source_points : gen_yield_ids = [] \/ gen_yield_ids = model_yield_ids.
Proof. exact source_points. Qed.
Print Assumptions C04_source_points.

Theorem C04_source_sites : gen_yield_sites = [] \/ gen_yield_sites = expected_sites.
Proof. exact source_sites. Qed.
Print Assumptions C04_source_sites.

(** the shape of LinkedList::push read off callsite.rs: `next` is re-linked and the assertion re-checked INSIDE the CAS retry
    loop, as the model's [PRgPushCas] retry does (it reloads the whole current list) *)
Theorem C04_source_push_shape : gen_push_shape = [] \/ gen_push_shape = expected_push_shape.
Proof. exact source_push_shape. Qed.
Print Assumptions C04_source_push_shape.

(** the kind of lock each registry entry point takes, read off callsite.rs: rebuild_interest_cache and register_dispatch take the
    dispatcher list for WRITING, register for READING — the model's [PWrLock] / [PRgRLock] *)
Theorem C04_source_lock_kinds : gen_lock_kinds = [] \/ gen_lock_kinds = expected_lock_kinds.
Proof. exact source_lock_kinds. Qed.
Print Assumptions C04_source_lock_kinds.

(** MAX_LEVEL is published inside the writer section (`set_max` only in `rebuild_interest`; every guard on the dispatcher list lives to
    the end of its function), and `register`'s guard spans compute-and-push — read off callsite.rs *)
Theorem C04_source_set_max_under_lock :
  (gen_set_max_fns = [] /\ gen_guard_depth = []) \/ (gen_set_max_fns = expected_set_max_fns /\ gen_guard_depth = expected_guard_depth).
Proof. exact source_set_max_under_lock. Qed.
Print Assumptions C04_source_set_max_under_lock.
