(** C12 — After a reload returns, every thread filters with the new value.
    Statements only; model Dispatch/Sched_Model.v (the same micro-step system as C04, see the reading guide in
    Properties/C04.v), proofs Dispatch/Sched_Proofs_*.v.

    [OReload c f] is reload.rs Handle::reload / modify on collector c's reloadable cell:
      upgrade the weak handle (fails => Err(CollectorGone));  write-lock the cell;  assign f;  unlock;
      then callsite::rebuild_interest_cache() = the writer section of C04 (retain, re-ask every callsite, set_max).
    Collector callbacks read the cell under its read lock (they block while it is write-locked).  The theorems
    quantify over EVERY schedule, any number of threads, any programs (several reloads of the same or different
    collectors may overlap each other, emissions, registrations, creations and drops).
    [inplay s c]: the values of c's cell that cached verdicts may still reflect = its current value plus the values
    replaced by reloads that have assigned but whose rebuild pass has not completed ([C12_inplay_sound]). *)
From Coq Require Import List Arith Bool.
From TV Require Import Dispatch.Sched_Model.
From TV Require Import Dispatch.Sched_Proofs_Base.
From TV Require Import Dispatch.Sched_Proofs_Ghost.
From TV Require Import Dispatch.Sched_Proofs_Cache.
From TV Require Import Dispatch.Sched_Proofs_Emit.
From TV Require Import Dispatch.Sched_Proofs_Main.
From TV Require Import Dispatch.Sched_Examples.
From TV Require Import Dispatch.Sched_World.
From TV Require Import Dispatch.Sched_Points.
From TVGen Require Import Gen_sched_points.
Import ListNotations.

(** ** Once every reload has returned, every emission that starts afterwards (and does not overlap a later reload) —
    on any thread, at any callsite, whether its previous verdict was cached as `always` / `never` / `sometimes` or it
    was never hit — is judged by the value now in the cell: delivered iff that value accepts the callsite.
    ([quiet = true] says exactly: no reload was in flight when the emission started and none started before it
    ended — see [C12_ghost_start], [C12_ghost_event], [C12_epoch_counts]; [fend] is the cell's value then.) *)
Theorem C12_after_return :
  forall W, WFworld W -> forall progs s, reachable (step W) (init progs) s ->
  forall t cs c vals fend d, In (EvEmitEnd t cs (Some c) true vals fend d) (st_log s) ->
  exists f, fend = Some f /\ d = (if accepts W f cs then Some c else None).
Proof. exact quiet_exact. Qed.
Print Assumptions C12_after_return.

(** ... and by the new maximum level: with no reload in flight the global max level is not below the hint of the
    value in any live collector's cell *)
Theorem C12_max_level_after :
  forall W progs s, reachable (step W) (init progs) s -> reload_inflight s = false ->
  forall c, instP s c -> live s c = true -> w_hint W (st_cell s c) <= st_max s.
Proof. exact max_level_after. Qed.
Print Assumptions C12_max_level_after.

(** while reloads are in flight it is not below the hint of one of the values in play *)
Theorem C12_max_level_inplay :
  forall W progs s, reachable (step W) (init progs) s ->
  forall c, instP s c -> live s c = true -> exists f, In f (inplay s c) /\ w_hint W f <= st_max s.
Proof. exact max_level_inplay. Qed.
Print Assumptions C12_max_level_inplay.

(** ** An emission racing with reloads is judged entirely by ONE value [f]: the whole verdict (level check, cached
    interest, enabled(), delivery) is the verdict of that single value, never a mixture ... *)
Theorem C12_racing_atomic :
  forall W, WFworld W -> forall progs s, reachable (step W) (init progs) s ->
  forall t cs c q vals fend d, In (EvEmitEnd t cs (Some c) q vals fend d) (st_log s) ->
  exists f, In f vals /\ d = (if accepts W f cs then Some c else None).
Proof. exact after_install. Qed.
Print Assumptions C12_racing_atomic.

(** ... where [vals] is a snapshot, taken by one of the emission's own steps, of the values in play for its collector
    (or the one value its collector's enabled() read under the cell's lock) ... *)
Theorem C12_vals_snapshot :
  forall W s t s', step W s t = Some s' ->
  eg_vals (th_eg (st_thr s' t)) = eg_vals (th_eg (st_thr s t)) \/
  eg_vals (th_eg (st_thr s' t)) = vals_now s (eg_cur0 (th_eg (st_thr s' t))) \/
  exists cs c, pcof s t = PEmEnCall cs c /\ eg_vals (th_eg (st_thr s' t)) = [st_cell s c].
Proof. exact vals_snapshot. Qed.
Print Assumptions C12_vals_snapshot.

(** ... and "in play" means: the cell's current value (the new one), or a value replaced by a reload that has
    assigned but not yet returned (the old one) — nothing else, in particular no value from before a completed reload *)
Theorem C12_inplay_sound :
  forall W progs s, reachable (step W) (init progs) s ->
  forall c f, In f (inplay s c) -> f = st_cell s c \/ exists t, t < st_n s /\ pc_rl_old (pcof s t) = Some (c, f).
Proof. exact inplay_sound. Qed.
Print Assumptions C12_inplay_sound.

Theorem C12_racing_nonvacuous :
  reachable (step WX) (init PC) sC /\ In (EvEmitEnd 0 0 (Some 0) false [1; 0] (Some 1) (Some 0)) (st_log sC) /\
  In (EvReload 1 0 1 true) (st_log sC) /\ finished sC = true.
Proof. exact racing_witness. Qed.
Print Assumptions C12_racing_nonvacuous.

(** ** A handle whose collector is gone reports the error instead of acting.  The handle holds a [Weak] to the reloadable
    cell; the cell is kept alive by the collector and, transiently, by a reload that upgraded the handle before the
    collector's last reference went away and has not returned yet ([cell_live]).  With the cell gone the step logs
    Err(CollectorGone) and changes nothing else (no lock taken, no cell written, no rebuild) ... *)
Theorem C12_gone :
  forall W s t c f rest, t < st_n s -> th_pc (st_thr s t) = PIdle ->
  th_prog (st_thr s t) = OReload c f :: rest -> st_created s c = true -> cell_live s c = false ->
  step W s t = Some (emit_log (EvReload t c f false) (upd_thr t (set_prog rest (st_thr s t)) s)).
Proof. exact reload_gone. Qed.
Print Assumptions C12_gone.

(** ... the cell outlives its collector only while such a reload is in flight ... *)
Theorem C12_cell_gone :
  forall s c, live s c = false -> cell_live s c = true -> exists t, t < st_n s /\ pc_cell (pcof s t) = Some c.
Proof. exact cell_gone. Qed.
Print Assumptions C12_cell_gone.

(** ... and a collector that is gone stays gone (no step resurrects it) *)
Theorem C12_gone_forever :
  forall W s t s' c, step W s t = Some s' -> st_created s c = true -> live s c = false -> live s' c = false.
Proof. exact gone_forever. Qed.
Print Assumptions C12_gone_forever.

Theorem C12_gone_nonvacuous :
  reachable (step WX) (init PG) sG /\ 0 < st_n sG /\ th_pc (st_thr sG 0) = PIdle /\ th_prog (st_thr sG 0) = [OReload 0 1] /\
  st_created sG 0 = true /\ live sG 0 = false /\ cell_live sG 0 = false.
Proof. exact gone_witness. Qed.
Print Assumptions C12_gone_nonvacuous.

(** ** Meaning of the history variables. *)
Theorem C12_ghost_start :
  forall W s t s', step W s t = Some s' -> pcof s t = PIdle -> em_pc (pcof s' t) = true ->
  eg_cur0 (th_eg (st_thr s' t)) = cur s t /\ eg_q0 (th_eg (st_thr s' t)) = negb (reload_inflight s) /\
  eg_ep0 (th_eg (st_thr s' t)) = st_epoch s.
Proof. exact ghost_start. Qed.
Print Assumptions C12_ghost_start.

Theorem C12_ghost_event :
  forall W s t s' t' cs cur0 quiet vals fend d, step W s t = Some s' ->
  In (EvEmitEnd t' cs cur0 quiet vals fend d) (new_events s s') ->
  t' = t /\ fend = option_map (st_cell s) cur0 /\
  ((pcof s t = PIdle /\ cur0 = cur s t /\ quiet = negb (reload_inflight s) /\ vals = vals_now s cur0 /\ d = None) \/
   (em_pc (pcof s t) = true /\ cur0 = eg_cur0 (th_eg (st_thr s t)) /\
    quiet = (eg_q0 (th_eg (st_thr s t)) && (eg_ep0 (th_eg (st_thr s t)) =? st_epoch s)))).
Proof. exact emit_event_ghost. Qed.
Print Assumptions C12_ghost_event.

(** the epoch counts started reloads: it moves exactly when a thread enters a reload *)
Theorem C12_epoch_counts :
  forall W s t s', step W s t = Some s' ->
  (st_epoch s' = S (st_epoch s) /\ pc_reloading (pcof s t) = false /\ pc_reloading (pcof s' t) = true) \/
  (st_epoch s' = st_epoch s /\ (pc_reloading (pcof s' t) = true -> pc_reloading (pcof s t) = true)).
Proof. exact epoch_counts. Qed.
Print Assumptions C12_epoch_counts.

(** the worlds the correspondence instantiates satisfy the side condition whenever the kernel-evaluated check succeeds *)
Theorem C12_worlds_wf :
  forall filters levels, wf_tableb filters levels = true -> WFworld (mk_world filters levels).
Proof. exact mk_world_wf. Qed.
Print Assumptions C12_worlds_wf.

(** ** Static tie to the instrumented sources (regenerated from /repo on every run by translators/sched_points.py): the
    yield points found in callsite.rs / metadata.rs / dispatch.rs / tracing's lib.rs / reload.rs are exactly the yield points of
    the model's program points, and every function hosts the ids the model's step order expects (empty tables = a repository
    without the hooks: the forced-schedule part is then skipped and recorded as skipped). *)
Theorem C12_source_points : gen_yield_ids = [] \/ gen_yield_ids = model_yield_ids.
Proof. exact source_points. Qed.
Print Assumptions C12_source_points.

Theorem C12_source_sites : gen_yield_sites = [] \/ gen_yield_sites = expected_sites.
Proof. exact source_sites. Qed.
Print Assumptions C12_source_sites.

(** the kind of lock each registry entry point takes, read off callsite.rs: rebuild_interest_cache and register_dispatch take the
    dispatcher list for WRITING, register for READING — the model's [PWrLock] / [PRgRLock] *)
Theorem C12_source_lock_kinds : gen_lock_kinds = [] \/ gen_lock_kinds = expected_lock_kinds.
Proof. exact source_lock_kinds. Qed.
Print Assumptions C12_source_lock_kinds.

(** every callback of the reload wrapper reads the value under a BLOCKING read lock (an emission that meets a reload waits and is then
    judged by the new value, never by "no value"), read off reload.rs *)
Theorem C12_source_reload_locks : gen_reload_locks = [] \/ gen_reload_locks = expected_reload_locks.
Proof. exact source_reload_locks. Qed.
Print Assumptions C12_source_reload_locks.
