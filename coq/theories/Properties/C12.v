(** PLACEHOLDER during harness development; replaced by the real statements. *)
From TV Require Import Dispatch.Sched_Model.
Theorem C12_placeholder : forall a, interest_and a a = a.
Proof. destruct a; reflexivity. Qed.
Print Assumptions C12_placeholder.
