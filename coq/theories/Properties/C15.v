(** C15 — The non-blocking writer neither loses, duplicates nor reorders accepted lines.
    Statements only; proofs live in Appender/NonBlocking*.v.  Model: Appender/NonBlockingModel.v, a small-step
    system mirroring tracing-appender/src/non_blocking.rs (NonBlocking::write, Drop for WorkerGuard,
    ErrorCounter) and worker.rs (handle_recv, handle_try_recv, work, worker_thread); the shapes of those
    functions are re-read from the source on every run (translators/nonblocking.py -> TVGen.Gen_nonblocking),
    and the real crate is run against the model by driver/props/c15.py through the harness semantics of
    Appender/NonBlockingDrive.v.

    Reading guide.  [config]: queue capacity [cap], [lossy], how Worker::work ends ([var]:
    [FlushErrLosesState] = `self.writer.flush()?` — finding F11; [FlushErrKeepsTerminal] = the repair), one
    program (list of lines) per producer — any number of producers and lines.  [faults k]: the k-th call of
    the underlying writer (write_all and flush counted together) fails — every subset of calls.
    [reachable c faults s]: [s] is reached from [init c] by SOME schedule of the labels producer write /
    producer close / worker step / guard begin / send / rendezvous / join / the two timeouts — quantifying
    over reachable states is quantifying over every schedule, every pacing of the underlying writer (the
    worker's steps are interleaved arbitrarily) and every point at which the guard is dropped.
    [hist s]: the completed producer writes in one total order, each Accepted / Dropped / Refused;
    [accepted s]: the accepted lines in that order; [attempts s]: the write_all calls made so far (line, ok);
    [written s]: those that succeeded; [pending s]: the line the worker holds plus the queued ones. *)
From Coq Require Import List NArith Arith Bool.
From TVGen Require Import Gen_nonblocking.
From TV Require Import Appender.NonBlockingModel Appender.NonBlockingSched Appender.NonBlockingStep.
From TV Require Import Appender.NonBlockingProofs Appender.NonBlockingGuardProofs Appender.NonBlockingTheorems.
From TV Require Import Appender.NonBlockingProgress Appender.NonBlockingDrive Appender.NonBlockingDriveProofs.
From TV Require Import Appender.NonBlockingExamples.
Import ListNotations.
Local Open Scope nat_scope.

(** * Exactly once, whole, in the order accepted *)

(** HEADLINE.  In every reachable state: the k-th write_all call carries exactly the k-th accepted line
    (one call, the whole buffer); the accepted lines not yet handed to write_all are exactly what the worker
    holds and the queue, in order; [written] is the attempts that did not fail.  Hence nothing accepted is
    lost (other than to a failed write), duplicated or reordered, and when nothing is pending every accepted
    line has been attempted.  Non-vacuity: [C15_example_order]. *)
Theorem C15_written_is_accepted_in_order : forall c faults s, reachable c faults s ->
  map fst (attempts s) = firstn (length (attempts s)) (accepted s) /\
  pending s = skipn (length (attempts s)) (accepted s) /\
  written s = map fst (filter snd (attempts s)) /\
  (pending s = [] -> map fst (attempts s) = accepted s).
Proof. exact written_is_accepted_in_order. Qed.
Print Assumptions C15_written_is_accepted_in_order.

(** "per producer, and consistent with one total order": [hist] is one total order of all completed writes;
    restricted to producer [p] it is, followed by what [p] has not offered yet, [p]'s program. *)
Theorem C15_per_producer_order : forall c faults s p, reachable c faults s ->
  lines_of p (hist s) ++ rem_of s p = nth p (progs c) [].
Proof. exact per_producer_order. Qed.
Print Assumptions C15_per_producer_order.

Example C15_example_order : exists s, exec ex_config ex_faults ex_sched (init ex_config) = Some s /\
  accepted s = [[1%N]; [11%N]; [2%N]] /\
  attempts s = [([1%N], true); ([11%N], false); ([2%N], true)] /\
  written s = [[1%N]; [2%N]] /\ write_failed s = [[11%N]] /\ pending s = [] /\
  dropped s = 0%N /\ offered s = 3.
Proof. exact ex_order. Qed.

(** * Accounting *)

(** Lossy mode, every reachable state: offered = written + failed writes + still pending + dropped; the
    reported counter is the number dropped, saturating at usize::MAX (never wraps); when nothing is pending,
    written + failed + dropped = offered.  Non-vacuity: [C15_example_lossy], [C15_example_saturation]. *)
Theorem C15_lossy_accounting : forall c faults s, reachable c faults s -> lossy c = true ->
  offered s = length (written s) + length (write_failed s) + length (pending s) + ndrop (hist s) /\
  dropped s = N.min MAXN (N.of_nat (ndrop (hist s))) /\
  (dropped s <= MAXN)%N /\
  (pending s = [] ->
   N.of_nat (offered s) = (N.of_nat (length (written s)) + N.of_nat (length (write_failed s)) + N.of_nat (ndrop (hist s)))%N).
Proof. exact lossy_accounting. Qed.
Print Assumptions C15_lossy_accounting.

Example C15_example_lossy : exists s, exec lx_config (fun _ => false) lx_sched (init lx_config) = Some s /\
  lossy lx_config = true /\ pending s = [] /\ offered s = 3 /\ written s = [[1%N]] /\ write_failed s = [] /\
  ndrop (hist s) = 2 /\ dropped s = 2%N.
Proof. exact lx_accounting. Qed.

Example C15_example_saturation :
  incr_saturating MAXN = MAXN /\ incr_saturating (MAXN - 1)%N = MAXN /\ incr_saturating 7%N = 8%N.
Proof. exact saturation_example. Qed.

(** Non-lossy mode, every reachable state: the counter is 0, nothing is dropped; every offered line is
    written, failed, pending or was refused (send error after the worker has gone); the queue never exceeds
    its capacity; and a producer with a line to write waits exactly when the receiver is alive and the
    queue is full.  Non-vacuity: [C15_example_blocked]. *)
Theorem C15_nonlossy_no_drop : forall c faults s, reachable c faults s -> lossy c = false ->
  dropped s = 0%N /\ ndrop (hist s) = 0 /\
  offered s = length (written s) + length (write_failed s) + length (pending s) + nref (hist s) /\
  length (q s) <= cap c /\
  (forall p x r, nth_error (prods s) p = Some {| rem := x :: r; popen := true |} ->
     (step c faults s (LProd p) = None <-> recv_alive s = true /\ cap c <= length (q s))).
Proof. exact nonlossy_no_drop. Qed.
Print Assumptions C15_nonlossy_no_drop.

Example C15_example_blocked : exists s, exec ex_config ex_faults ex_prefix (init ex_config) = Some s /\
  nth_error (prods s) 0 = Some {| rem := [[2%N]]; popen := true |} /\
  step ex_config ex_faults s (LProd 0) = None /\ recv_alive s = true /\ length (q s) = cap ex_config /\
  exists s', exec ex_config ex_faults [LWorker; LWorker; LProd 0] s = Some s' /\ accepted s' = [[1%N]; [11%N]; [2%N]].
Proof. exact ex_blocked. Qed.

(** The queue bound in both modes; a lossy producer never waits. *)
Theorem C15_queue_bound : forall c faults s, reachable c faults s -> length (q s) <= cap c.
Proof. exact queue_bound. Qed.
Print Assumptions C15_queue_bound.

Theorem C15_lossy_never_blocks : forall c faults s p x r, lossy c = true ->
  nth_error (prods s) p = Some {| rem := x :: r; popen := true |} -> step c faults s (LProd p) <> None.
Proof. exact lossy_never_blocks'. Qed.
Print Assumptions C15_lossy_never_blocks.

(** * A failed write affects only that line *)

(** The worker holds line [l] and the call fails: the step consumes exactly [l] (it is the head of [pending]
    before and gone after), records the failed attempt, leaves [written], the queue, the history, the counter,
    the producers and the guard untouched, and the worker goes back to recv().  Together with the headline:
    [written] is [accepted] minus exactly the failed lines.  Non-vacuity: [C15_example_error]. *)
Theorem C15_error_local : forall c faults s l, pc s = WWrite l -> faults (ncalls s) = true ->
  exists s', step c faults s LWorker = Some s' /\
    pc s' = WRecv /\ q s' = q s /\ hist s' = hist s /\ dropped s' = dropped s /\ prods s' = prods s /\
    guard s' = guard s /\
    attempts s' = attempts s ++ [(l, false)] /\
    written s' = written s /\
    pending s = l :: pending s'.
Proof. exact error_local. Qed.
Print Assumptions C15_error_local.

Theorem C15_error_local_sequence : forall s a l b, attempts s = a ++ (l, false) :: b ->
  written s = map fst (filter snd a) ++ map fst (filter snd b) /\
  map fst (attempts s) = map fst a ++ l :: map fst b.
Proof. exact error_local_sequence. Qed.
Print Assumptions C15_error_local_sequence.

Example C15_example_error : exists s, reachable ex_config ex_faults s /\ pc s = WWrite [11%N] /\ ex_faults (ncalls s) = true.
Proof. exact ex_error_local. Qed.

(** * Dropping the guard *)

(** [DropReturned c s]: the worker thread has exited, the writer has been released, and for the number [n]
    of lines accepted when Shutdown was queued (a fortiori every line accepted before the drop began): the
    first [n] accepted lines are the first [n] write_all calls, in order; the call log ends
    [.. flush; release] with every write before that flush (for the code as it is, that flush succeeded).

    Safety, every schedule WITHOUT a timeout step (the 100 ms / 1 s timeouts are real time; assuming they do
    not fire is assuming the underlying writer makes progress within them), both variants, every fault set:
    if the drop has returned, it returned through the join and [DropReturned] holds.
    Non-vacuity: [C15_example_guard_drop]. *)
Theorem C15_guard_drop : forall c faults s b,
  reachP c faults NoTimeout s -> guard s = GDone b -> b = true /\ DropReturned c s.
Proof. exact guard_drop_no_timeout. Qed.
Print Assumptions C15_guard_drop.

(** ... and on every schedule, timeouts included, a drop that returned through the join satisfies it. *)
Theorem C15_guard_drop_clean_return : forall c faults s, reachable c faults s -> guard s = GDone true -> DropReturned c s.
Proof. exact clean_drop_returned. Qed.
Print Assumptions C15_guard_drop_clean_return.

Example C15_example_guard_drop : exists s, reachP gx_config (fun _ => false) NoTimeout s /\ guard s = GDone true.
Proof. exact gx_reachP. Qed.

Example C15_example_guard_drop_run : exists s, exec gx_config (fun _ => false) gx_sched (init gx_config) = Some s /\
  Forall (fun l => is_timeout l = false) gx_sched /\
  guard s = GDone true /\ mark s = Some 2 /\ accepted s = [[1%N]; [2%N]; [3%N]] /\
  written s = [[1%N]; [2%N]] /\ pending s = [[3%N]] /\
  log s = [EvWrite [1%N] true; EvWrite [2%N] true; EvFlush true; EvDropWriter].
Proof. exact gx_clean_drop. Qed.

(** Progress: from ANY reachable state in which the guard is sending Shutdown, if the send goes through then
    the worker alone (labels: worker step, rendezvous, join — no timeout, no producer step, whatever is queued
    in front of Shutdown) brings the drop to a clean return, in a state satisfying [DropReturned].
    [calm]: the repaired worker, whatever fails; or the code as it is and no later call fails (F11's
    delimiting hypothesis).  Non-vacuity: [C15_example_calm]. *)
Theorem C15_guard_drop_completes : forall c faults s s1, reachable c faults s ->
  guard s = GSending -> step c faults s LGSend = Some s1 -> calm c faults s1 ->
  exists sched s', Forall drop_label sched /\ exec c faults sched s1 = Some s' /\
                   guard s' = GDone true /\ DropReturned c s'.
Proof. exact drop_completes_after_send. Qed.
Print Assumptions C15_guard_drop_completes.

Example C15_example_calm : exists s s1, reachable gx_config (fun _ => false) s /\ guard s = GSending /\
  step gx_config (fun _ => false) s LGSend = Some s1 /\ calm gx_config (fun _ => false) s1.
Proof. exact gx_calm. Qed.

(** * Finding F11 (worker.rs work(): `self.writer.flush()?` discards Shutdown / Disconnected) *)

(** With the code as it is there is a timeout-free run, with one failing flush, after which the drop can only
    end by its 1 s timeout: in EVERY timeout-free continuation the guard is still waiting for the rendezvous,
    the writer has not been released and the worker has not exited.  (Witness: one producer, one line, the
    flush of the batch that consumed Shutdown fails — the replay of DESIGN 1.2.) *)
Theorem C15_F11_refuted : exists c faults sched s,
  var c = FlushErrLosesState /\ exec c faults sched (init c) = Some s /\ no_timeouts sched /\
  (forall sched' s', no_timeouts sched' -> exec c faults sched' s = Some s' ->
     guard s' = GWaitRdv /\ writer_alive s' = true /\ pc s' <> WExit).
Proof. exact F11_refuted. Qed.
Print Assumptions C15_F11_refuted.

(** The witness in full, and the same schedule on the repaired worker (a clean drop). *)
Theorem C15_F11_witness : exists s, exec f11_config f11_faults f11_sched (init f11_config) = Some s /\
  no_timeouts f11_sched /\ Stuck s /\ accepted s = [[1%N]] /\ written s = [[1%N]] /\
  log s = [EvWrite [1%N] true; EvFlush true; EvFlush false].
Proof. exact f11_stuck. Qed.
Print Assumptions C15_F11_witness.

Theorem C15_F11_repaired_witness : exists s,
  exec f11_fixed_config f11_faults f11_fixed_sched (init f11_fixed_config) = Some s /\
  no_timeouts f11_fixed_sched /\ guard s = GDone true /\ writer_alive s = false /\
  log s = [EvWrite [1%N] true; EvFlush true; EvFlush false; EvDropWriter].
Proof. exact f11_fixed_clean. Qed.
Print Assumptions C15_F11_repaired_witness.

(** The busy loop: every sender gone, queue empty, every further call failing: the worker (as it is) alternates
    recv() and a failing flush for ever — one call of the writer per round, never released, never exiting;
    and such a state is reachable. *)
Theorem C15_F11_busy_loop : forall c faults s, Spinning c faults s ->
  forall n, exists s', exec c faults (concat (repeat [LWorker; LWorker] n)) s = Some s' /\
    Spinning c faults s' /\ ncalls s' = ncalls s + n.
Proof. exact busy_loop. Qed.
Print Assumptions C15_F11_busy_loop.

Theorem C15_F11_busy_loop_reachable : exists s,
  exec f11_config spin_faults spin_sched (init f11_config) = Some s /\ Spinning f11_config spin_faults s.
Proof. exact spinning_reachable. Qed.
Print Assumptions C15_F11_busy_loop_reachable.

(** * Tie to the source and to the harness *)

(** "Every schedule" is every list of labels each enabled in turn. *)
Theorem C15_reachable_is_every_schedule : forall c faults s,
  reachable c faults s <-> exists sched, exec c faults sched (init c) = Some s.
Proof. exact reachable_iff_exec. Qed.
Print Assumptions C15_reachable_is_every_schedule.

(** The step function and its case-by-case reading agree. *)
Theorem C15_step_cases : forall c faults s l s', step c faults s l = Some s' <-> Step c faults s l s'.
Proof. exact step_iff_Step. Qed.
Print Assumptions C15_step_cases.

(** Whatever commands the correspondence harness is given, the labels its semantics emits are a schedule of
    the model: every state the correspondence run visits is reachable, so the theorems above speak about it. *)
Theorem C15_harness_runs_are_schedules : forall c faults ks,
  reachable c faults (ms (fst (run c faults (dinit c) ks []))).
Proof. exact run_reachable. Qed.
Print Assumptions C15_harness_runs_are_schedules.

(** Every function the model mirrors has, in the tree under check, the shape the model was written against
    (regenerated from worker.rs / non_blocking.rs / lib.rs on every run; [gen_worker_variant] selects the
    variant the correspondence uses). *)
Theorem C15_source_shapes : gen_nb_unrecognised = [].
Proof. exact gen_nb_recognised. Qed.
Print Assumptions C15_source_shapes.
