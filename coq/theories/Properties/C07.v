(** C07 — Per-layer filters are isolated: a layer sees exactly what its own filters accept.
    Statements only; the proofs live in Stack/{Passes,Interest,Register,Coll,Inv,Steps,Life,Build,Main}.v over the
    executable model Stack/Model.v (thread-local FilterState bitmap + pending interest, Filtered, both Layered
    impls, Option / Vec / Box wrappers, the Registry with the filter map stored per span, Context lookups by
    FilterId, and the macro guard with the per-callsite interest cache), whose vocabulary is in Stack/Spec.v.
    The model is compared with the real crates on every run (driver/props/c07.py).  Of the two flags it reads from
    the source (TVGen.Gen_stack, regenerated on every run) only [registry_vetoes_full] occurs in a statement: as the
    premise of [C07_F71_refuted].

    Reading guide.  [coll] is a stack over the Registry, [layer] a tree of recording leaves [Rec], global filters
    [Glob], per-layer filters [Filt], [Pair] (and_then), [LOpt], [LVec] of any depth and shape; [coll_recs c] lists
    every leaf with the chain of per-layer filters attached to it, [coll_globs c] the global filters.
    [run_spec] (Spec.v) says of every operation of a history, with [st] the state before it:
      - event at callsite cs: leaf r is notified  <->  globals_accept c st m && no_veto c m && chain_accept st 0 (chain r) m
      - span  at callsite cs: leaf r is notified  <->  globals_accept c st m && chain_accept st 0 (chain r) m
      - enter / exit / record of a live span, and every close: leaf r is notified <-> r was notified of that span's creation
      - nothing else is delivered.
    The right-hand sides mention the global filters and r's own chain only: no other leaf's filters, no position in
    the tree, no earlier operation ([st] enters only through [cur_cs]: what a context-dependent closure of r's own
    chain sees as the current span through its own Context; for context-free filters it does not enter at all,
    [C07_static_filters]). *)
From Coq Require Import NArith List Bool.
From TV Require Import Stack.Model Stack.Model2 Stack.Spec Stack.Register Stack.Build Stack.Main Stack.TwoStacks Stack.Harness Stack.IdBound.
Import ListNotations.
Local Open Scope N_scope.

(** ** Headline: for every well-formed stack (any depth and shape) and every clean history (any length), every
    operation delivers exactly per the specification above.  [Clean] (= no operation leaves an [enabled] pass
    without its own event / new_span) excludes the known finding F3, refuted below.  [HintSound]: the static
    summaries handed to the macros are sound (property C08: the global max level; no EnvFilter in the F12 situation). *)
Theorem C07_isolation : forall c mx pool h,
  WF c -> HintSound c mx pool -> clean c mx pool h = true -> run_spec c mx pool init [] h.
Proof. exact isolation. Qed.
Print Assumptions C07_isolation.

(** every stack of the class, as [build] makes it (FilterIds in on_subscribe order), is well formed:
    the class is "every Filtered wraps recording layers only", at most 63 per-layer filters, distinct leaf names *)
Theorem C07_built : forall c, PreWF c -> WF (build c).
Proof. exact build_WF. Qed.
Print Assumptions C07_built.

(** ** The carrying invariant: between the operations of a clean history the thread's FilterState is empty *)
Theorem C07_bitmap_clean : forall c mx pool h1 h2,
  WF c -> HintSound c mx pool -> clean c mx pool (h1 ++ h2) = true ->
  st_bits (final c mx pool init h1) = 0 /\ st_pending (final c mx pool init h1) = None.
Proof. exact bitmap_clean. Qed.
Print Assumptions C07_bitmap_clean.

(** ** Lookups: whatever a leaf reads inside a callback — lookup_current, the scope of the event / span (event_scope,
    span_scope), parent(), parent() applied repeatedly up to the root, parent().scope(), scope().from_root(), and
    navigating on (parent(), scope()) from every span a scope yields — mentions only spans that leaf was notified
    of, i.e. spans its own filters (and the global ones) accepted *)
Theorem C07_lookup_filtered : forall c mx pool h,
  WF c -> HintSound c mx pool -> clean c mx pool h = true -> run_lookup c mx pool init [] h.
Proof. exact lookup_filtered. Qed.
Print Assumptions C07_lookup_filtered.

(** ... and exactly those, in order: every notification equals [record_by acc] (Spec.v: walk the real span tree and
    the real span stack of the registry at callback time, keep the spans with [acc]) for
    [acc id] = "the span is in the registry and this leaf was notified of its creation" — no FilterId, no bitmap.
    The registry at callback time has the span stack and (except inside [on_close], which runs in the middle of the
    close cascade) the span pool of the state after the operation. *)
Theorem C07_lookup_exact : forall c mx pool h,
  WF c -> HintSound c mx pool -> clean c mx pool h = true -> run_exact c mx pool init [] h.
Proof. exact lookup_exact. Qed.
Print Assumptions C07_lookup_exact.

(** the mechanism behind the parent chain: a [SpanRef] carries the FilterId of the Context it came from, and every
    [parent()] hop hands that same FilterId on to the SpanRef it returns and lands on the nearest real ancestor the
    FilterId does not disable (so [parent().parent()], [parent().scope()] stay inside the layer's view) *)
Theorem C07_parent_keeps_filter : forall st r p, sr_parent st r = Some p ->
  snd p = snd r /\ visible st (snd r) (fst p) = true /\
  Some (fst p) = hd_error (filter (visible st (snd r)) (above st (fst r))).
Proof. exact parent_hop. Qed.
Print Assumptions C07_parent_keeps_filter.

(** ** Clean for syntactic reasons: a history without enabled! probes on a stack without vetoing leaves *)
Theorem C07_clean_syntactic : forall c mx pool h,
  WF c -> HintSound c mx pool -> no_vetoing_leaf c -> no_probe h -> clean c mx pool h = true.
Proof. exact clean_syntactic. Qed.
Print Assumptions C07_clean_syntactic.

(** ** Independence made explicit for context-free filters: the chain's verdict is a function of the metadata *)
Theorem C07_static_filters : forall st ch cm m,
  (forall e, In e ch -> ctx_free (snd e)) -> chain_accept st cm ch m = static_accept ch m.
Proof. exact chain_accept_static. Qed.
Print Assumptions C07_static_filters.

(** ** Stateful filters (an EnvFilter with span directives, [FEnv], also under and / or / not in either operand order): the
    model describes what such a filter accepts as a function of the entered spans its own layer accepted; the code keeps
    state for that, fed in [callsite_enabled], which is right only if every operand of a combinator is told about every
    callsite.  The description of combinator.rs regenerated on every run says it is (seeded change C07-E breaks [or_asks_both]). *)
Theorem C07_operands_told :
  TVGen.Gen_stack.or_asks_both = true /\ TVGen.Gen_stack.and_skips_only_after_never = true /\ TVGen.Gen_stack.not_asks = true.
Proof. exact operands_told. Qed.
Print Assumptions C07_operands_told.

(** ** The callsite cache is sound for every stack of the class ([F12Free]: finding F12 of property C08 excluded): a registered `never` means no leaf would ever
    be notified, `always` that every global and every per-layer filter accepts whatever the context (so skipping
    [enabled] changes nothing) *)
Theorem C07_interest_never_sound : forall c m,
  coll_shape c -> F12Free c m -> fst (c_register (haspsf c) c m None) = INever ->
  forall st r, In r (coll_recs c) -> globals_accept c st m && chain_accept st 0 (snd r) m = false.
Proof. exact register_never_sound. Qed.
Print Assumptions C07_interest_never_sound.

Theorem C07_interest_always_sound : forall c m,
  coll_shape c -> F12Free c m -> fst (c_register (haspsf c) c m None) = IAlways ->
  forall st, globals_accept c st m = true /\ forall r, In r (coll_recs c) -> chain_accept st 0 (snd r) m = true.
Proof. exact register_always_sound. Qed.
Print Assumptions C07_interest_always_sound.

(** ** Two stacks live on two threads (Model2.v: everything per-thread is per-thread; the per-callsite interest cache
    is shared, and holds [Interest::and] of what every live dispatcher registered): for every interleaving of the two
    threads' operations, each operation meets the specification of its own thread's stack — neither the other stack's
    filters nor what the other thread did earlier enter ([run_spec2] = [step_spec] + [sees_only_own] per operation). *)
Theorem C07_two_stacks : forall ca cb mx pool h,
  WF ca -> WF cb -> HintSound ca mx pool -> HintSound cb mx pool ->
  clean2 ca cb mx pool h = true -> run_spec2 ca cb mx pool init2 [] [] h.
Proof. exact two_stacks. Qed.
Print Assumptions C07_two_stacks.

(** ** Known finding F3, refuted: on histories that are not clean the property fails.  Witness 1: an enabled!
    probe (layers A: target app, B: targets app+other; event(app), enabled!(other), then event(app) is missed by
    A).  Witness 2: no probe at all; a plain layer vetoes in [event_enabled] an event that A's filter rejected. *)
Theorem C07_F3_refuted_probe :
  exists c h cs n, WF c /\ HintSound c 5 pool45 /\ clean c 5 pool45 h = false /\ misses c 5 pool45 h cs n.
Proof. exact F3_refuted_probe. Qed.
Print Assumptions C07_F3_refuted_probe.

Theorem C07_F3_refuted_veto :
  exists c h cs n, WF c /\ HintSound c 5 pool45 /\ no_probe h /\ clean c 5 pool45 h = false /\ misses c 5 pool45 h cs n.
Proof. exact F3_refuted_veto. Qed.
Print Assumptions C07_F3_refuted_veto.

(** ** Finding F71, refuted: the bound on FilterIds in [WF] (below 63, i.e. at most 63 per-layer filters) is needed.
    With exactly 64 filters (the maximum [FilterId::new] accepts) all rejecting an event, the Registry vetoes it for
    the whole stack: a leaf with no filter at all misses an event nothing rejected for it, in the first operation.
    Conditional on the source still having `self.bits != u64::MAX` in [FilterMap::any_enabled] (flag regenerated on every run;
    fixes/F71.patch turns it into `true`). *)
Theorem C07_F71_refuted :
  TVGen.Gen_stack.registry_vetoes_full = true ->
  exists c cs n,
    coll_shape c /\ NoDup (coll_ids c) /\ Forall (fun k => k < 64) (coll_ids c) /\
    NoDup (map (fun r => fst (fst r)) (coll_recs c)) /\ HintSound c 5 pool45 /\
    clean c 5 pool45 [OEvent cs] = true /\ misses c 5 pool45 [] cs n.
Proof. exact F71_refuted. Qed.
Print Assumptions C07_F71_refuted.

(** ** More per-layer filters than a FilterMap has bits (Stack/IdBound.v).  `Registry::register_filter` hands out ids 0, 1, 2, ..
    and `FilterId::new id` makes the mask; [register_n p n] = the masks of [n] registrations as compiled in build profile [p]
    ([Debug] / [Release]), [None] = the stack is refused (panic while it is built).  Which profiles enforce `id < 64` is read
    off the source on every run (`assert!`: both; `debug_assert!`: debug only - seeded change C07-J).
    For EVERY number of attempted filters and every profile: a stack that is accepted has at most 64 filters, their masks are
    the model's [fid_new 0 .. fid_new (n-1)], and any two distinct ones are disjoint single bits of a u64 - so one filter's
    decision can never be read or cleared through another's FilterId. *)
Theorem C07_filter_ids_disjoint : forall p n masks i j a b,
  register_n p n = Some masks -> nth_error masks i = Some a -> nth_error masks j = Some b -> i <> j ->
  N.land a b = 0 /\ a <= MAX64 /\ b <= MAX64 /\ a = fid_new (N.of_nat i) /\ b = fid_new (N.of_nat j).
Proof. exact accepted_disjoint. Qed.
Print Assumptions C07_filter_ids_disjoint.

Theorem C07_accepted_ids : forall p n masks, register_n p n = Some masks ->
  (N.of_nat n <= 64) /\ masks = map (fun i => fid_new (N.of_nat i)) (seq 0 n).
Proof. exact accepted_ids. Qed.
Print Assumptions C07_accepted_ids.

Theorem C07_over_64_refused : forall p n, (64 < n)%nat -> register_n p n = None.
Proof. exact over_64_refused. Qed.
Print Assumptions C07_over_64_refused.

(** non-vacuity: 64 filters are accepted in both profiles *)
Example C07_accepts_64 : exists ma mb, register_n Debug 64 = Some ma /\ register_n Release 64 = Some mb /\ length mb = 64%nat.
Proof. exact accepts_64. Qed.

(** refuted without the refusal: where nothing enforces the bound the u64 shift wraps, filter #64 gets filter #0's mask (and #k+64
    gets #k's), and what filter #64 stores in the bitmap is what filter #0 reads back *)
Theorem C07_unchecked_bound_refuted :
  fid_new_with false 0 = Some 1 /\ fid_new_with false 64 = Some 1 /\
  (exists masks, register_from false 0 65 = Some masks /\ nth_error masks 0 = Some 1 /\ nth_error masks 64 = Some 1) /\
  (forall id, fid_new_with false (id + 64) = fid_new_with false id \/ TVGen.Gen_stack.gen_filter_id_bound <= id).
Proof. exact wrapping_aliases. Qed.
Print Assumptions C07_unchecked_bound_refuted.

Theorem C07_unchecked_bound_shares_decision_refuted : forall m0 m64 bits en,
  fid_new_with false 0 = Some m0 -> fid_new_with false 64 = Some m64 -> fm_enabled (fm_set bits m64 en) m0 = en.
Proof. exact wrapping_shares_decision. Qed.
Print Assumptions C07_unchecked_bound_shares_decision_refuted.

(** ** Non-vacuity *)
(** the hypotheses of the headline hold for a stack with a global filter, nested and side-by-side per-layer filters,
    a context-dependent closure, Option / Vec wrappers, and a history with nested spans on which the leaves disagree *)
Example C07_nonvacuous :
  WF (build nv_stack) /\ HintSound (build nv_stack) 5 pool45 /\ clean (build nv_stack) 5 pool45 nv_history = true /\
  (let outs := run_obs (build nv_stack) 5 pool45 nv_history in
   deliveredb 1 (nth 0 outs []) = true /\ deliveredb 3 (nth 0 outs []) = false /\
   deliveredb 4 (nth 7 outs []) = true /\ deliveredb 2 (nth 7 outs []) = false) /\
  deliveredb 3 (nth 2 (run_obs (build nv_stack) 5 pool45 nv_history) []) = true.
Proof. exact nonvacuous. Qed.

(** climbing past a rejected ancestor (DEBUG conn > INFO request > INFO handler; leaf 1 behind a per-layer INFO filter, leaf 2
    plain): triples are (parent chain, parent().scope(), scope().from_root()) seen in on_new_span of handler *)
Example C07_climb_example :
  clean (build climb_stack) 5 pool45 climb_history = true /\
  (let out := nth 4 (run_obs (build climb_stack) 5 pool45 climb_history) [] in
   chain_seen 1 out = [([2], [2], [2; 3])] /\ chain_seen 2 out = [([2; 1], [2; 1], [1; 2; 3])]).
Proof. exact climb_example. Qed.

(** INFO.or(span directive) and (span directive).or(INFO) on two leaves: the DEBUG event is delivered to both inside the span only *)
Example C07_env_example :
  WF (build env_stack) /\ HintSound (build env_stack) 5 pool45 /\ clean (build env_stack) 5 pool45 env_history = true /\
  (let outs := run_obs (build env_stack) 5 pool45 env_history in
   deliveredb 1 (nth 0 outs []) = false /\ deliveredb 2 (nth 0 outs []) = false /\
   deliveredb 1 (nth 3 outs []) = true /\ deliveredb 2 (nth 3 outs []) = true /\
   deliveredb 1 (nth 5 outs []) = false /\ deliveredb 2 (nth 5 outs []) = false).
Proof. exact env_example. Qed.

(** the F3 stack with an event where the probe was: clean, and the leaf is notified *)
Example C07_two_nonvacuous :
  clean2 (build f3_stack) (build nv_stack) 5 pool45 two_history = true /\
  (let outs := run2_obs (build f3_stack) (build nv_stack) 5 pool45 two_history in
   deliveredb 2 (nth 3 outs []) = true /\ deliveredb 1 (nth 3 outs []) = false /\
   deliveredb 1 (nth 5 outs []) = true /\ deliveredb 2 (nth 5 outs []) = true /\
   deliveredb 3 (nth 4 outs []) = true /\ deliveredb 4 (nth 4 outs []) = true).
Proof. exact two_nonvacuous. Qed.

Example C07_F3_clean_counterpart :
  clean (build f3_stack) 5 pool45 [OEvent 6; OEvent 7] = true /\ ~ misses (build f3_stack) 5 pool45 [OEvent 6; OEvent 7] 6 1.
Proof. exact F3_clean_counterpart. Qed.
