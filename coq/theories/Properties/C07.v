(** C07 — placeholder while the development is being built. *)
From TV Require Import Stack.Model.
Local Open Scope N_scope.
Theorem C07_placeholder : True.
Proof. exact I. Qed.
Print Assumptions C07_placeholder.
