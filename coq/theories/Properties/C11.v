(** C11 — Filter directives: the most specific match wins, and filters round-trip.  Statements only; proofs live in
    Directive/*.v.  The model (Directive/Model.v) interprets TVGen.Gen_directive, regenerated from /repo on every run: three
    booleans say which shape `DirectiveSet::add`, `MatchDebug::debug_matches` and `ValueMatch::eq` have (unrepaired /
    repaired, findings F21 / F25 / F22); every theorem below holds for both shapes, with the switch as a hypothesis where
    the shapes differ.  Clause-to-theorem map: notes/C11.md.
    Remark (compile-time level cap): nothing in the model takes `tracing`'s STATIC_MAX_LEVEL (the `max_level_*` cargo
    features) as an input — [parse_env], [env_build], [env_enabled], [env_hint], [display_env] have no such parameter — so
    every statement below is a statement about the filter whatever that cap is: the cap removes tracing's own macro
    callsites and must not change what a parsed filter answers for other metadata (`log` records, hand-built Metadata).
    The translator checks that `Builder::from_directives` uses the cap for its warning only (no assignment to a
    directive's level; fails closed into [gen_directive_unrecognised]), and the correspondence runs the probing cases a
    second time in a build with `max_level_info` against the same model values. *)
From TV Require Import Levels.Model Directive.Model Directive.Proofs.
From Coq Require Import Sorted.
Local Open Scope N_scope.

(** The translator recognised the shapes it reads, and the regexes the model's recogniser was derived from are unchanged. *)
Theorem C11_source_shapes_pinned :
  gen_directive_unrecognised = [] /\ gen_directive_re = pinned_directive_re /\
  gen_span_part_re = pinned_span_part_re /\ gen_field_filter_re = pinned_field_filter_re.
Proof. exact regex_pinned. Qed.
Print Assumptions C11_source_shapes_pinned.

(** * The directive set: sorted most-specific-first, a later duplicate key wins (all insertion sequences) *)
Theorem C11_sorted : forall inputs : list sdir,
  StronglySorted (fun a b => cmp_s a b = Lt) (ds_dirs (s_build inputs)).
Proof. exact sorted_build. Qed.
Print Assumptions C11_sorted.

Theorem C11_sorted_env : forall inputs : list ddir,
  StronglySorted (fun a b => cmp_d a b = Lt) (ds_dirs (d_build inputs)).
Proof. exact sorted_build_d. Qed.
Print Assumptions C11_sorted_env.

(** the set holds exactly the LAST entry for every key (target, field names) *)
Theorem C11_replace : forall (inputs : list sdir) (x : sdir),
  In x (ds_dirs (s_build inputs)) <->
  exists l1 l2, inputs = l1 ++ x :: l2 /\ forall y, In y l2 -> key_s y <> key_s x.
Proof. exact replace_build. Qed.
Print Assumptions C11_replace.

Theorem C11_replace_env : forall (inputs : list ddir) (x : ddir),
  In x (ds_dirs (d_build inputs)) <->
  exists l1 l2, inputs = l1 ++ x :: l2 /\ forall y, In y l2 -> key_d y <> key_d x.
Proof. exact replace_build_d. Qed.
Print Assumptions C11_replace_env.

(** * Headline: enabled = the level test against the most specific matching directive.
    [best] scans the surviving entries in INPUT order and keeps a maximal one under the documented specificity order; it
    knows nothing of the sorted vector or of [find]. *)
Theorem C11_most_specific : forall (inputs : list sdir) (m : meta),
  enabled_s (s_build inputs) m =
  match best (survivors inputs) m with
  | Some d => allows (s_level d) (m_level m)
  | None => false
  end.
Proof. exact most_specific. Qed.
Print Assumptions C11_most_specific.

(** what [best] returns: a last entry that matches, and every other matching last entry has a shorter target, or an
    equally long target and no more field names (and loses the lexicographic fallback) *)
Theorem C11_best_is_most_specific : forall (inputs : list sdir) (m : meta),
  match best (survivors inputs) m with
  | Some b => last_entry inputs b /\ cares_s b m = true /\
              forall d, last_entry inputs d -> cares_s d m = true -> d = b \/ (primary_le d b /\ spec_cmp d b = Lt)
  | None => forall d, In d inputs -> cares_s d m = false
  end.
Proof. exact best_characterised. Qed.
Print Assumptions C11_best_is_most_specific.

(** matching directives with equally long targets have the same target: ties are among field-name lists only *)
Theorem C11_tie_same_target : forall (a b : sdir) (m : meta),
  cares_s a m = true -> cares_s b m = true -> tlen a = tlen b -> s_target a = s_target b.
Proof. exact tie_same_target. Qed.
Print Assumptions C11_tie_same_target.

(** ... independent of the insertion order: only which entry is last for each key matters *)
Theorem C11_order_independent : forall (l1 l2 : list sdir) (m : meta),
  (forall x, last_entry l1 x <-> last_entry l2 x) -> enabled_s (s_build l1) m = enabled_s (s_build l2) m.
Proof. exact order_independent. Qed.
Print Assumptions C11_order_independent.

(** ... and nothing is enabled when no directive matches *)
Theorem C11_no_match_disabled : forall (inputs : list sdir) (m : meta),
  (forall d, In d inputs -> cares_s d m = false) -> enabled_s (s_build inputs) m = false.
Proof. exact no_match_disabled. Qed.
Print Assumptions C11_no_match_disabled.

Theorem C11_examples :
  enabled_s (s_build ex_inputs) (ex_meta ex_application Debug) = true /\
  enabled_s (s_build ex_inputs) (ex_meta ex_application Trace) = false /\
  enabled_s (s_build ex_inputs) (ex_meta ex_app_db Error) = false /\
  enabled_s (s_build ex_inputs) (ex_meta [111] Error) = true /\
  enabled_s (s_build ex_inputs) (ex_meta [111] Warn) = false /\
  best (survivors ex_inputs) (ex_meta ex_app_db Error) = Some (mk_sdir (Some ex_app_db) [] None) /\
  enabled_s (s_build (rev ex_inputs)) (ex_meta ex_application Debug) = false.
Proof. exact most_specific_example. Qed.
Print Assumptions C11_examples.

(** prefix semantics (so `app` matches `application`: C11_examples, first line) *)
Theorem C11_prefix : forall (d : sdir) (m : meta), cares_s d m = true ->
  match s_target d with Some t => exists rest, m_target m = t ++ rest | None => True end.
Proof. exact cares_prefix. Qed.
Print Assumptions C11_prefix.

(** the static table of an EnvFilter is such a set, and its `max_level` guard never changes the answer *)
Theorem C11_env_statics : forall dirs : list ddir,
  e_statics (env_build None dirs) = s_build (env_static_inputs dirs).
Proof. exact env_statics. Qed.
Print Assumptions C11_env_statics.

Theorem C11_max_guard_transparent : forall (inputs : list sdir) (m : meta),
  (allows (ds_max (s_build inputs)) (m_level m) && enabled_s (s_build inputs) m) = enabled_s (s_build inputs) m.
Proof. exact guard_transparent. Qed.
Print Assumptions C11_max_guard_transparent.

Theorem C11_max_level_sound : forall (inputs : list sdir) (d : sdir),
  In d (ds_dirs (s_build inputs)) -> lf_rank (s_level d) <= lf_rank (ds_max (s_build inputs)).
Proof. exact max_level_sound. Qed.
Print Assumptions C11_max_level_sound.

(** * would_enable agrees with filtering (Targets of the documented grammar carry no field names) *)
Theorem C11_would_enable : forall (inputs : list sdir) (m : meta),
  no_fields inputs ->
  would_enable (s_build inputs) (m_target m) (m_level m) = targets_enabled (s_build inputs) m.
Proof. exact would_enable_inputs. Qed.
Print Assumptions C11_would_enable.

(** Whatever the directives carry (field lists included): would_enable agrees with filtering on every event metadata
    without fields — the only metadata a (target, level) question can stand for. *)
Theorem C11_would_enable_fieldless_event : forall (t : sset) (m : meta),
  is_event m = true -> m_fields m = [] ->
  would_enable t (m_target m) (m_level m) = targets_enabled t m.
Proof. exact would_enable_agrees_fieldless_event. Qed.
Print Assumptions C11_would_enable_fieldless_event.

Theorem C11_would_enable_examples :
  (no_fields ex_inputs /\ would_enable (s_build ex_inputs) ex_application Debug = true) /\
  (exists t m, parse_targets [102; 111; 111; 91; 123; 98; 97; 114; 125; 93; 61; 116; 114; 97; 99; 101] = Some t /\
               targets_enabled t m = true /\ would_enable t (m_target m) (m_level m) = false).
Proof. exact (conj would_enable_example would_enable_needs_no_fields). Qed.
Print Assumptions C11_would_enable_examples.

(** * Targets and EnvFilter agree on the common grammar (in every filter state: there is no dynamic directive) *)
Theorem C11_targets_env_agree : forall (regex lossy : bool) (s : bytes), in_common_grammar s = true ->
  exists t e, parse_targets s = Some t /\ parse_env regex lossy None s = POk e /\
              e_has_dyn e = false /\
              forall st tid cs m, env_enabled e st tid cs m = targets_enabled t m.
Proof. exact targets_env_agree. Qed.
Print Assumptions C11_targets_env_agree.

Theorem C11_common_grammar_inhabited : in_common_grammar ex_common = true.
Proof. exact common_grammar_inhabited. Qed.
Print Assumptions C11_common_grammar_inhabited.

(** F23 (known): a target that spells a LevelFilter, "warn=debug" *)
Theorem C11_F23_refuted :
  in_common_grammar f23_string = false /\
  exists t e, parse_targets f23_string = Some t /\ parse_env true false None f23_string = POk e /\
              targets_enabled t f23_meta = false /\ env_enabled e est0 0 0 f23_meta = true.
Proof. exact F23_refuted. Qed.
Print Assumptions C11_F23_refuted.

(** * Display then parse is the identity on parsed Targets — every string [s].
    Hypotheses: no bare target contains "[{" (outside the documented grammar; Display would print it where a field list
    starts), and — only for the unrepaired `add` (F21) — no overwritten duplicate carried a level above every survivor. *)
Theorem C11_roundtrip_static : forall (s : bytes) (inputs : list sdir),
  parsed_entries s = Some inputs ->
  forallb clean_target (ds_dirs (s_build inputs)) = true ->
  (gen_add_recomputes_max = true \/ stale_max_b inputs = false) ->
  parse_targets (display_targets (s_build inputs)) = Some (s_build inputs).
Proof. exact roundtrip_static. Qed.
Print Assumptions C11_roundtrip_static.

(** without the F21 hypothesis the directive list still round-trips *)
Theorem C11_roundtrip_static_directives : forall (s : bytes) (inputs : list sdir),
  parsed_entries s = Some inputs ->
  forallb clean_target (ds_dirs (s_build inputs)) = true ->
  exists T', parse_targets (display_targets (s_build inputs)) = Some T' /\ ds_dirs T' = ds_dirs (s_build inputs).
Proof. exact roundtrip_directives. Qed.
Print Assumptions C11_roundtrip_static_directives.

Theorem C11_parse_targets_is : forall s : bytes, parse_targets s = option_map s_build (parsed_entries s).
Proof. exact parse_targets_entries. Qed.
Print Assumptions C11_parse_targets_is.

Theorem C11_roundtrip_static_example :
  exists inputs, parsed_entries ex_common_s = Some inputs /\
                 forallb clean_target (ds_dirs (s_build inputs)) = true /\ stale_max_b inputs = false.
Proof. exact roundtrip_example. Qed.
Print Assumptions C11_roundtrip_static_example.

(** F21: "a=trace,a=error" (refuted while `add` has the unrepaired shape; round-trips with the repaired one) *)
Theorem C11_F21_refuted : gen_add_recomputes_max = false ->
  exists s t, parse_targets s = Some t /\ parse_targets (display_targets t) <> Some t.
Proof. exact F21_refuted. Qed.
Print Assumptions C11_F21_refuted.

Theorem C11_F21_fixed_example : gen_add_recomputes_max = true ->
  exists t, parse_targets f21_string = Some t /\ parse_targets (display_targets t) = Some t.
Proof. exact F21_fixed_example. Qed.
Print Assumptions C11_F21_fixed_example.

(** * Display then parse on the modelled EnvFilter grammar  target? [ name? { field (= value)? }? ] (= level)?
    [wf_d]: target over [\w:-] not spelling a level; span name without [ ] { , ; one field (a comma inside a field list is
    outside the model) whose name is a word and whose value text parses back to the value ([value_ok]: booleans, canonical
    integers, Debug literals when regex matching is off).  Every such directive is printed to a string that parses back
    to it, for every level and in both regex modes. *)
Theorem C11_roundtrip_env_directive : forall (regex : bool) (d : ddir),
  wf_d regex d = true -> parse_ddir regex (display_ddir d) = POk d.
Proof. exact roundtrip_ddir. Qed.
Print Assumptions C11_roundtrip_env_directive.

(** Filters: for EVERY list of directives of that grammar (duplicates, conflicts, field-name-only directives that live in
    both tables), the filter built from it is printed to a string that parses back, in strict mode, to the SAME filter:
    static table, dynamic table, `has_dynamics` and both cached `max_level`s.  The F21 hypothesis (no overwritten
    duplicate above every survivor, in either table) is needed for the unrepaired shape of `add` only. *)
Theorem C11_roundtrip_env : forall (regex : bool) (ds : list ddir),
  (forall d, In d ds -> wf_d regex d = true) ->
  (gen_add_recomputes_max = true \/
   (stale_g cmp_s s_level (env_static_inputs ds) = false /\ stale_g cmp_d d_level (filter is_dynamic ds) = false)) ->
  parse_env regex false None (display_env (env_build None ds)) = POk (env_build None ds).
Proof. exact roundtrip_env. Qed.
Print Assumptions C11_roundtrip_env.

Theorem C11_roundtrip_env_example :
  (forall d, In d ex_round -> wf_d true d = true) /\
  stale_g cmp_s s_level (env_static_inputs ex_round) = false /\ stale_g cmp_d d_level (filter is_dynamic ex_round) = false /\
  List.length (ds_dirs (e_statics (env_build None ex_round))) = 3%nat /\
  List.length (ds_dirs (e_dynamics (env_build None ex_round))) = 5%nat.
Proof. exact roundtrip_env_example. Qed.
Print Assumptions C11_roundtrip_env_example.

(** every u64, every negative i64 and both booleans are values of the grammar ([value_ok]) *)
Theorem C11_roundtrip_env_literals :
  (forall regex n, n <= USIZE_MAX -> value_ok regex (VU64 n) = true) /\
  (forall regex z, (- 9223372036854775808 <= z < 0)%Z -> value_ok regex (VI64 z) = true) /\
  (forall regex b, value_ok regex (VBool b) = true).
Proof. exact literal_values_ok. Qed.
Print Assumptions C11_roundtrip_env_literals.

Theorem C11_roundtrip_env_members :
  forallb (wf_d true) ex_dirs = true /\
  wf_d false (mk_ddir None (Some [115; 112]) [mk_fmatch [120] (Some (VDebugLit [49; 97]))] (Some Debug)) = true /\
  wf_d true (mk_ddir None (Some [115; 112]) [mk_fmatch [120] (Some (VDebugLit [49; 97]))] (Some Debug)) = false.
Proof. exact grammar_members_wf. Qed.
Print Assumptions C11_roundtrip_env_members.

(** remark (not registered as a finding): `-0` is read as I64(0), printed as `0`, read back as U64(0) *)
Theorem C11_roundtrip_env_noncanonical_integer :
  value_ok true (VI64 0) = false /\
  exists d d', parse_ddir true [91; 115; 112; 123; 120; 61; 45; 48; 125; 93] = POk d /\
               parse_ddir true (display_ddir d) = POk d' /\ d <> d'.
Proof. exact noncanonical_integer. Qed.
Print Assumptions C11_roundtrip_env_noncanonical_integer.

(** * Span-scoped directives.  For every well-nested filter-level history (enter / exit LIFO per thread, a span is closed
    only when entered nowhere, ids not reused while live) in which no value is recorded while the span is entered (the
    complement is F24): an event is enabled exactly when some span on the thread's entered-not-exited stack is matched
    (target prefix, name, field names, recorded values) by a directive whose level admits the event, or the most specific
    static directive admits it.  The per-thread stack in the abstract state is pushed by enter and popped by exit, so
    nothing survives an exit. *)
Theorem C11_scope : forall (e : envf) (evs : list fev) (tid cs : N) (m : meta),
  wf_env e -> well_nested e evs -> quiet e evs -> is_span m = false ->
  env_enabled e (frun e evs) tid cs m =
  scope_spec e (arun e evs) tid (m_level m) || enabled_s (e_statics e) m.
Proof. exact scope_event. Qed.
Print Assumptions C11_scope.

(** the same for the op histories the correspondence runs through the real macros ([run_history] is what is compared
    with the implementation; [hist_trace] lists the filter callbacks such a history performs) *)
Theorem C11_scope_history : forall (e : envf) (ops : list op) (tid cs : N) (m : meta),
  wf_env e -> is_span m = false ->
  let evs := hist_trace e s0 (ops ++ [OEvent tid cs m]) in
  well_nested e evs -> quiet e evs ->
  run_history e (ops ++ [OEvent tid cs m]) =
  run_history e ops ++ [Some (scope_spec e (arun e evs) tid (m_level m) || enabled_s (e_statics e) m)].
Proof. exact scope_history. Qed.
Print Assumptions C11_scope_history.

Theorem C11_scope_history_example :
  well_nested env_x1 (hist_trace env_x1 s0 (ex_ops ++ [OEvent 0 9 (m_event Debug)])) /\
  quiet env_x1 (hist_trace env_x1 s0 (ex_ops ++ [OEvent 0 9 (m_event Debug)])) /\
  run_history env_x1 (ex_ops ++ [OEvent 0 9 (m_event Debug)]) = [Some true; None; Some true; None; Some false].
Proof. exact scope_history_example. Qed.
Print Assumptions C11_scope_history_example.

Theorem C11_scope_wf_parsed : forall regex lossy default s e, parse_env regex lossy default s = POk e -> wf_env e.
Proof. exact wf_env_parse. Qed.
Print Assumptions C11_scope_wf_parsed.

(** the concrete stack is the abstract one (the refinement behind C11_scope), with or without F24's hypothesis *)
Theorem C11_scope_refinement : forall (e : envf) (evs : list fev), well_nested e evs ->
  forall tid, scope_of (frun e evs) tid = map snd (astack (arun e evs) tid).
Proof. exact scope_stack_refines. Qed.
Print Assumptions C11_scope_refinement.

Theorem C11_scope_nothing_leaks : forall (e : envf) (evs : list fev) (tid cs : N) (m : meta),
  wf_env e -> well_nested e evs -> quiet e evs -> is_span m = false ->
  astack (arun e evs) tid = [] ->
  env_enabled e (frun e evs) tid cs m = enabled_s (e_statics e) m.
Proof. exact scope_nothing_entered. Qed.
Print Assumptions C11_scope_nothing_leaks.

Theorem C11_scope_enter_exit : forall (e : envf) (a : ast) (tid id t : N), assoc_n id (a_spans a) <> None ->
  astack (astep e (astep e a (FEnter tid id)) (FExit tid id)) t = astack a t.
Proof. exact enter_exit_restores. Qed.
Print Assumptions C11_scope_enter_exit.

Theorem C11_scope_example :
  well_nested env_x1 hist_enter_x1 /\ quiet env_x1 hist_enter_x1 /\
  env_enabled env_x1 (frun env_x1 hist_enter_x1) 0 9 (m_event Debug) = true /\
  env_enabled env_x1 (frun env_x1 hist_enter_x1) 1 9 (m_event Debug) = false /\
  env_enabled env_x1 (frun env_x1 (hist_enter_x1 ++ [FExit 0 1])) 0 9 (m_event Debug) = false.
Proof. exact scope_raises_and_restores. Qed.
Print Assumptions C11_scope_example.

(** "by name and recorded field values": whether a span is matched depends on the values recorded on it so far only, and
    only grows — a value recorded later that does not match never un-matches the span, with or without an enter in between *)
Theorem C11_scope_match_sticky : forall (e : envf) (m : meta) (v1 v2 : list (bytes * rval)) (x : lv),
  span_matches_level e (mk_aspan m v1) x = true -> span_matches_level e (mk_aspan m (v1 ++ v2)) x = true.
Proof. exact span_matches_mono. Qed.
Print Assumptions C11_scope_match_sticky.

Theorem C11_scope_record_order : forall (c : cs_match) (v1 v2 : list (bytes * rval)),
  record_vals v2 (sm_of v1 c) = sm_of (v1 ++ v2) c.
Proof. exact record_order_irrelevant. Qed.
Print Assumptions C11_scope_record_order.

(** "and for that span itself": a span whose callsite was registered is enabled when a directive that matches its
    metadata admits its level.  The converse fails (F12). *)
Theorem C11_scope_span_itself : forall (e : envf) (evs : list fev) (tid cs : N) (m : meta),
  wf_env e -> well_nested e evs -> In (FRegister cs m) evs -> is_span m = true ->
  (exists d, In d (ds_dirs (e_dynamics e)) /\ cares_d d m = true /\ allows (d_level d) (m_level m) = true) ->
  env_enabled e (frun e evs) tid cs m = true.
Proof. exact span_itself. Qed.
Print Assumptions C11_scope_span_itself.

(** F24 (known): [sp{x=1}]=debug; span sp; enter; record x=1; DEBUG event: the span matches, the event is disabled *)
Theorem C11_F24_refuted :
  wf_env env_x1 /\ well_nested env_x1 hist_f24 /\ ~ quiet env_x1 hist_f24 /\
  scope_spec env_x1 (arun env_x1 hist_f24) 0 Debug = true /\
  env_enabled env_x1 (frun env_x1 hist_f24) 0 9 (m_event Debug) = false.
Proof. exact F24_refuted. Qed.
Print Assumptions C11_F24_refuted.

(** F12 (known): "[sq]=trace,[sp]=debug": a TRACE span `sp` is enabled *)
Theorem C11_F12_refuted :
  wf_env env_f12 /\
  (forall d, In d (ds_dirs (e_dynamics env_f12)) -> cares_d d (m_span Trace) = true -> allows (d_level d) Trace = false) /\
  enabled_s (e_statics env_f12) (m_span Trace) = false /\
  env_enabled env_f12 (frun env_f12 [FRegister 7 (m_span Trace)]) 0 7 (m_span Trace) = true.
Proof. exact F12_refuted. Qed.
Print Assumptions C11_F12_refuted.

(** * Value matchers: a Debug literal matches exactly its text (repaired shape); F25 otherwise *)
Theorem C11_debug_literal_exact : gen_debug_match_exact = true ->
  forall p t, vm_matches (VDebugLit p) (RDebug t) = true <-> t = p.
Proof. exact debug_literal_exact. Qed.
Print Assumptions C11_debug_literal_exact.

Theorem C11_F25_refuted : gen_debug_match_exact = false ->
  exists p t, t <> p /\ vm_matches (VDebugLit p) (RDebug t) = true.
Proof. exact F25_refuted. Qed.
Print Assumptions C11_F25_refuted.

(** * `Ord` and `PartialEq` of directives agree (the debug assertion in `Directive::cmp` cannot fire) with the Debug arm
    in `ValueMatch::eq`; without it (F22) it fires exactly on a duplicate key carrying a Debug literal *)
Theorem C11_ord_eq_consistent : gen_valuematch_eq_debug = true -> forall a b : ddir, ord_assert_fails a b = false.
Proof. exact ord_eq_consistent. Qed.
Print Assumptions C11_ord_eq_consistent.

Theorem C11_F22_refuted : gen_valuematch_eq_debug = false -> forall a b : ddir,
  ord_assert_fails a b = true <-> (key_d a = key_d b /\ has_debug_lit b = true).
Proof. exact ord_assert_fails_iff. Qed.
Print Assumptions C11_F22_refuted.
