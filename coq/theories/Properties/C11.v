(** C11 — Filter directives: the most specific match wins, and filters round-trip.  Statements only. *)
From TV Require Import Levels.Model Directive.Model Directive.Proofs.
Local Open Scope N_scope.

(** The translator recognised the shapes it reads, and the regexes the model's recogniser was derived from are unchanged. *)
Theorem C11_source_shapes_pinned :
  gen_directive_unrecognised = [] /\ gen_directive_re = pinned_directive_re /\
  gen_span_part_re = pinned_span_part_re /\ gen_field_filter_re = pinned_field_filter_re.
Proof. exact regex_pinned. Qed.
Print Assumptions C11_source_shapes_pinned.
