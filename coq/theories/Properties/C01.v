(** C01 — Caches never change what a collector's own filter decides.
    Statements only; proofs live in Dispatch/Proofs_C01.v, the executable model in Dispatch/Model.v.

    Reading guide.  [trace fx static_max conf init h] is the list of (state before, op, observation) of the
    history [h] started in the initial process state.  [c01_ok] says, for an [Emit t cs] step, that the emission
    was delivered exactly to [own_verdict s t cs]: the emitting thread's current collector [c] (whatever
    get_default hands out at that moment) if [accepts s c cs] — c answered `always` for cs, or `sometimes` and its
    dynamic check is true right now — and to nobody otherwise; for a [Probe] step (`enabled!`) that the answer is
    that same verdict.  [fx] ranges over both variants of dispatch.rs (as in /repo, and after fixes/F1.patch),
    [static_max] over every compile-time cap, [conf] over every assignment of filters to collectors;
    [wf_collector] is the property's own side condition (self-consistent filter, hint a true upper bound). *)
From Coq Require Import NArith List.
From TV Require Import Dispatch.Model Dispatch.Proofs_C01.
Import ListNotations.
Local Open Scope N_scope.

(** Headline: over ALL histories (every order of create / drop / install / uninstall / set-global / emit / probe /
    rebuild / flip, any number of threads, collectors and callsites, first hits included). *)
Theorem C01_delivery_iff_own_filter :
  forall fx static_max conf, (forall c, wf_collector (conf c)) ->
  forall h, Forall (c01_ok static_max conf) (trace fx static_max conf init h).
Proof. exact delivery_iff_own_filter. Qed.
Print Assumptions C01_delivery_iff_own_filter.

(** The same, pointwise: after any prefix, an emission is delivered to [own_verdict] and to nobody else. *)
Theorem C01_emission_verdict :
  forall fx static_max conf, (forall c, wf_collector (conf c)) ->
  forall pre t cs post s ob,
    final fx static_max conf init pre = s ->
    step fx static_max conf s (Emit t cs) = (post, ob) ->
    exists con, ob = OEmit con (own_verdict static_max conf s t cs).
Proof. exact emission_verdict. Qed.
Print Assumptions C01_emission_verdict.

(** ... including the first hit of a callsite (interest byte 0xFF: the emission itself registers the callsite). *)
Theorem C01_first_hit :
  forall fx static_max conf, (forall c, wf_collector (conf c)) ->
  forall pre t cs post s ob,
    final fx static_max conf init pre = s ->
    cache s cs = None ->
    step fx static_max conf s (Emit t cs) = (post, ob) ->
    exists con, ob = OEmit con (own_verdict static_max conf s t cs).
Proof. exact first_hit. Qed.
Print Assumptions C01_first_hit.

(** `enabled!` returns the same verdict. *)
Theorem C01_probe :
  forall fx static_max conf, (forall c, wf_collector (conf c)) ->
  forall pre t cs post s ob,
    final fx static_max conf init pre = s ->
    step fx static_max conf s (Probe t cs) = (post, ob) ->
    exists con, ob = OProbe con (match own_verdict static_max conf s t cs with Some _ => true | None => false end).
Proof. exact probe_verdict. Qed.
Print Assumptions C01_probe.

(** In the default build (STATIC_MAX_LEVEL = TRACE) the verdict is the collector's own filter and nothing else;
    with a lower compile-time cap, callsites above the cap are compiled out (documented), which is the only
    difference [own_verdict] makes. *)
Theorem C01_default_build :
  forall conf s t cs,
  own_verdict (Some TRACE) conf s t cs =
  match current s t with DCol c => if accepts conf s c cs then Some c else None | DNone => None end.
Proof. exact default_build_verdict. Qed.
Print Assumptions C01_default_build.

(** The filters the correspondence instantiates (threshold x target set x static/dynamic x hint) satisfy the
    side condition exactly when the hint is not below the threshold. *)
Theorem C01_structured_filters_wf :
  forall l, forallb hint_sound l = true -> forall c, wf_collector (conf_of_list l c).
Proof. exact conf_of_list_wf. Qed.
Print Assumptions C01_structured_filters_wf.

(** Non-vacuity: two collectors, a first hit, a re-evaluation by a later collector, a dynamic flip, a drop. *)
Theorem C01_nonvacuous :
  (forall c, wf_collector (conf_of_list ex_filters c)) /\
  map fst (run false (Some TRACE) (conf_of_list ex_filters) init ex_history) =
  [ ONew 0; OUnit; OEmit None None;
    ONew 1; OUnit; OEmit (Some (DCol 1)) (Some 1);
    OUnit; OEmit (Some (DCol 1)) None;
    OUnit ].
Proof. exact (conj ex_wf ex_observations). Qed.
Print Assumptions C01_nonvacuous.

(** The side condition is needed: a hint that is not an upper bound makes MAX_LEVEL suppress a delivery the
    collector's own filter accepts. *)
Theorem C01_hint_condition_is_needed :
  hint_sound (mk_fspec 5 [0] 0 3) = false /\
  let s := final false (Some TRACE) (conf_of_list lying) init [New; Open 0 (DCol 0)] in
  snd (step false (Some TRACE) (conf_of_list lying) s (Emit 0 ex_cs)) = OEmit None None /\
  own_verdict (Some TRACE) (conf_of_list lying) s 0 ex_cs = Some 0.
Proof. exact lying_hint_breaks_it. Qed.
Print Assumptions C01_hint_condition_is_needed.
