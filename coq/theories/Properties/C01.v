(** C01 — Caches never change what a collector's own filter decides.
    Statements only; proofs live in Dispatch/Proofs_C01.v, the executable model in Dispatch/Model.v.

    Reading guide.  [trace fx static_max conf init h] is the list of (state before, op, observation) of the
    history [h] started in the initial process state.  [c01_ok] says, for an [Emit t cs] step, that the emission
    was delivered exactly to [own_verdict s t cs]: the emitting thread's current collector [c] (whatever
    get_default hands out at that moment) if [accepts s c cs] — c answered `always` for cs, or `sometimes` and its
    dynamic check is true right now — and to nobody otherwise; for a [Probe] step (`enabled!`) that the answer is
    that same verdict.  [fx] ranges over both variants of dispatch.rs (the repaired one that /repo has now, and the
    one from before fix aa353f7 — C01 judges against whatever get_default hands out, so it holds for both),
    [static_max] over every compile-time cap, [conf] over every assignment of filters to collectors;
    [wf_collector] is the property's own side condition (self-consistent filter, hint a true upper bound). *)
From Coq Require Import NArith List String.
From TV Require Import Dispatch.Model Dispatch.Shape Dispatch.Source Dispatch.Proofs_C01 Dispatch.Proofs_C02 Dispatch.Proofs_Shape.
From TVGen Require Import Gen_dispatch.
Import ListNotations.
Local Open Scope N_scope.

(** Headline: over ALL histories (every order of create / drop / install / uninstall / set-global / emit / probe /
    rebuild / flip, any number of threads, collectors and callsites, first hits included). *)
Theorem C01_delivery_iff_own_filter :
  forall fx static_max conf, (forall c, wf_collector (conf c)) ->
  forall h, Forall (c01_ok static_max conf) (trace fx static_max conf init h).
Proof. exact delivery_iff_own_filter. Qed.
Print Assumptions C01_delivery_iff_own_filter.

(** The same, pointwise: after any prefix, an emission is delivered to [own_verdict] and to nobody else. *)
Theorem C01_emission_verdict :
  forall fx static_max conf, (forall c, wf_collector (conf c)) ->
  forall pre t cs post s ob,
    final fx static_max conf init pre = s ->
    step fx static_max conf s (Emit t cs) = (post, ob) ->
    exists con, ob = OEmit con (own_verdict static_max conf s t cs).
Proof. exact emission_verdict. Qed.
Print Assumptions C01_emission_verdict.

(** ... including the first hit of a callsite (interest byte 0xFF: the emission itself registers the callsite). *)
Theorem C01_first_hit :
  forall fx static_max conf, (forall c, wf_collector (conf c)) ->
  forall pre t cs post s ob,
    final fx static_max conf init pre = s ->
    cache s cs = None ->
    step fx static_max conf s (Emit t cs) = (post, ob) ->
    exists con, ob = OEmit con (own_verdict static_max conf s t cs).
Proof. exact first_hit. Qed.
Print Assumptions C01_first_hit.

(** `enabled!` returns the same verdict. *)
Theorem C01_probe :
  forall fx static_max conf, (forall c, wf_collector (conf c)) ->
  forall pre t cs post s ob,
    final fx static_max conf init pre = s ->
    step fx static_max conf s (Probe t cs) = (post, ob) ->
    exists con, ob = OProbe con (match own_verdict static_max conf s t cs with Some _ => true | None => false end).
Proof. exact probe_verdict. Qed.
Print Assumptions C01_probe.

(** In the default build (STATIC_MAX_LEVEL = TRACE) the verdict is the collector's own filter and nothing else;
    with a lower compile-time cap, callsites above the cap are compiled out (documented), which is the only
    difference [own_verdict] makes. *)
Theorem C01_default_build :
  forall conf s t cs,
  own_verdict (Some TRACE) conf s t cs =
  match current s t with DCol c => if accepts conf s c cs then Some c else None | DNone => None end.
Proof. exact default_build_verdict. Qed.
Print Assumptions C01_default_build.

(** The filters the correspondence instantiates (threshold x target set x static/dynamic x hint) satisfy the
    side condition exactly when the hint is not below the threshold. *)
Theorem C01_structured_filters_wf :
  forall l, forallb hint_sound l = true -> forall c, wf_collector (conf_of_list l c).
Proof. exact conf_of_list_wf. Qed.
Print Assumptions C01_structured_filters_wf.

(** Non-vacuity: two collectors, a first hit, a re-evaluation by a later collector, a dynamic flip, a drop. *)
Theorem C01_nonvacuous :
  (forall c, wf_collector (conf_of_list ex_filters c)) /\
  map fst (run src_fx (Some TRACE) (conf_of_list ex_filters) init ex_history) =
  [ ONew 0; OUnit; OEmit None None;
    ONew 1; OUnit; OEmit (Some (DCol 1)) (Some 1);
    OUnit; OEmit (Some (DCol 1)) None;
    OUnit ].
Proof. exact (conj ex_wf (ex_observations src_fx)). Qed.
Print Assumptions C01_nonvacuous.

(** The side condition is needed: a hint that is not an upper bound makes MAX_LEVEL suppress a delivery the
    collector's own filter accepts. *)
Theorem C01_hint_condition_is_needed :
  hint_sound (mk_fspec 5 [0] 0 3) = false /\
  let s := final src_fx (Some TRACE) (conf_of_list lying) init [New; Open 0 (DCol 0)] in
  snd (step src_fx (Some TRACE) (conf_of_list lying) s (Emit 0 ex_cs)) = OEmit None None /\
  own_verdict (Some TRACE) (conf_of_list lying) s 0 ex_cs = Some 0.
Proof. exact (lying_hint_breaks_it src_fx). Qed.
Print Assumptions C01_hint_condition_is_needed.

(** "The process-wide shortcuts may only skip work", one by one, after ANY history: a cached `never` means the
    emitting thread's current collector — whoever it is, whatever happened to other collectors before — rejects the
    callsite; a cached `always` means it accepts it; a level above the global maximum means it rejects it. *)
Theorem C01_shortcuts_only_skip :
  forall fx static_max conf, (forall c, wf_collector (conf c)) ->
  forall h cs t,
  let s := final fx static_max conf init h in
  (cache s cs = Some never -> own_verdict static_max conf s t cs = None) /\
  (cache s cs = Some always -> forall c, current s t = DCol c -> accepts conf s c cs = true) /\
  (lvl_le (cs_lvl cs) (max_level s) = false -> own_verdict static_max conf s t cs = None).
Proof. exact shortcuts_only_skip. Qed.
Print Assumptions C01_shortcuts_only_skip.

(** Dispatch::none() as the current default (or no default at all): nothing is delivered, whatever the caches say. *)
Theorem C01_none_dispatch_discards :
  forall static_max conf s t cs, current s t = DNone -> own_verdict static_max conf s t cs = None.
Proof. exact none_dispatch_discards. Qed.
Print Assumptions C01_none_dispatch_discards.

(** span!, event! and enabled! callsites are judged alike: for the structured filters the verdict depends on
    level and target only, not on the callsite's kind or identity. *)
Theorem C01_verdict_ignores_kind :
  forall static_max l s t id1 id2 lvl tgt k1 k2,
  own_verdict static_max (conf_of_list l) s t {| cs_id := id1; cs_lvl := lvl; cs_tgt := tgt; cs_kind := k1 |} =
  own_verdict static_max (conf_of_list l) s t {| cs_id := id2; cs_lvl := lvl; cs_tgt := tgt; cs_kind := k2 |}.
Proof. exact structured_verdict_ignores_kind. Qed.
Print Assumptions C01_verdict_ignores_kind.

(** `Dispatch::from_static` collectors (zero-sized unit structs in a static are the usual way to write them): the
    registrar of a static collector always upgrades, i.e. it is a collector that never loses its last strong reference.
    In the model that is a collector whose handle is never dropped; in every history without such a drop it stays live,
    so it is listed and asked at every first hit and every rebuild, and the headline above covers it like any other
    collector.  (The correspondence creates such collectors with `Dispatch::from_static` and never drops them.) *)
Theorem C01_static_collector_stays_live :
  forall fx sm conf h s c,
  (forall c', In (DropHandle c') h -> c' <> c) -> handle s c = true ->
  handle (final fx sm conf s h) c = true /\ live (final fx sm conf s h) c = true.
Proof. exact static_collector_stays_live. Qed.
Print Assumptions C01_static_collector_stays_live.

(** * The hand-written model against the source as READ ON THIS RUN (coq/gen/Gen_dispatch.v is regenerated from
      macros.rs, lib.rs, callsite.rs, collect.rs, level_filters.rs by translators/dispatch_shape.py). *)

(** Every shape recognised; every callsite-declaring arm of event! / span! / enabled! carries the recognised guard
    `level_enabled!(lvl) && { interest = CALLSITE.interest(); !interest.is_never() } && CALLSITE.is_enabled(interest)`;
    is_enabled is `interest.is_always() || get_default(|d| d.enabled(meta))`; callsite::register computes and stores
    before it pushes; register_dispatch pushes, then rebuilds; rebuild_interest retains the registrars that upgrade,
    takes the maximum hint with `>` from OFF and TRACE for a missing hint, recomputes every callsite, stores the maximum. *)
Theorem C01_source_recognised :
  gen_guard_unrecognised = [] /\ guard_shape_ok gen_guard = true.
Proof. exact (conj source_recognised source_guard_ok). Qed.
Print Assumptions C01_source_recognised.

(** level_enabled! as read (its relations and operands) is the model's [level_enabled]. *)
Theorem C01_source_level_guard :
  forall static_max s cs,
  interp_level_guard (g_level_enabled gen_guard) static_max s cs = level_enabled static_max s cs.
Proof. exact source_level_guard. Qed.
Print Assumptions C01_source_level_guard.

(** Interest::and as read is the model's [iand]. *)
Theorem C01_source_interest_and :
  forall a b, interp_iand (g_iand gen_guard) a b = Some (iand a b).
Proof. exact source_iand. Qed.
Print Assumptions C01_source_interest_and.

(** The interest byte: set_interest's encoding is decoded back by interest() and by register(); the initial byte
    (0xFF) means "register first"; no other byte reads as a cached interest; and the named constants are that
    encoding.  So the model's [cache : callsite -> option interest] is exact. *)
Theorem C01_source_interest_byte :
  (forall i, meaning_of_byte gen_guard (byte_of_interest gen_guard i) = BCached i) /\
  (forall i, reload_of_byte gen_guard (byte_of_interest gen_guard i) = i) /\
  meaning_of_byte gen_guard (empty_byte gen_guard) = BRegister /\
  (forall b i, meaning_of_byte gen_guard b = BCached i -> b = byte_of_interest gen_guard i) /\
  g_bytes gen_guard = (byte_of_interest gen_guard never, byte_of_interest gen_guard sometimes,
                       byte_of_interest gen_guard always, empty_byte gen_guard).
Proof. exact source_interest_byte. Qed.
Print Assumptions C01_source_interest_byte.

(** rebuild_interest's running maximum as read is the step of the model's [max_hint]. *)
Theorem C01_source_max_hint_step :
  forall conf m c,
  interp_max_step (g_rebuild gen_guard) conf m c =
  Some (if frank m <? frank (hint_or_trace (conf c)) then hint_or_trace (conf c) else m).
Proof. exact source_max_step. Qed.
Print Assumptions C01_source_max_hint_step.

(** STATIC_MAX_LEVEL (the model's [static_max]) of the harness builds, from level_filters.rs's feature table as read:
    with debug assertions (default; `max_level_info`) and without (`max_level_info` + `release_max_level_trace`;
    `max_level_debug` + `release_max_level_info`). *)
Theorem C01_source_static_max :
  src_static_max [] = 5 /\ src_static_max ["max_level_info"%string] = 3 /\
  src_static_max ["release_max_level_off"%string] = 5 /\
  src_static_max ["max_level_debug"%string; "max_level_warn"%string] = 2 /\
  src_static_max_of true ["max_level_info"%string; "release_max_level_trace"%string] = 5 /\
  src_static_max_of true ["max_level_debug"%string; "release_max_level_info"%string] = 3 /\
  src_static_max ["max_level_debug"%string; "max_level_info"%string] = 3 /\
  src_static_max_of true ["release_max_level_debug"%string; "release_max_level_info"%string; "max_level_error"%string] = 3.
Proof. exact source_static_max. Qed.
Print Assumptions C01_source_static_max.

(** The compile-time cap is what the feature NAMES configure, for EVERY feature selection and both profiles:
    `release_max_level_<n>` in a build without debug assertions, `max_level_<n>` in one with them, the most restrictive
    selected one — whenever that family selects anything (otherwise the level is the source's default for the profile).
    So the compile-time shortcut never suppresses a delivery below the configured cap: `own_verdict`'s [static_max] term
    is the configured level, e.g. `release_max_level_trace` means TRACE whatever `max_level_*` features unification adds. *)
Theorem C01_static_cap_is_configured :
  forall release (on : string -> bool),
  match configured_cap release on with
  | Some l => static_max_of (g_static_max gen_guard) (g_static_release_falls_through gen_guard) (g_static_last_wins gen_guard) release on = l
  | None => True
  end.
Proof. exact source_static_cap_is_configured. Qed.
Print Assumptions C01_static_cap_is_configured.
