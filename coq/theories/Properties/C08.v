(** C08 — Static summaries of filters (interest, max-level hint) are sound upper bounds.
    Statements only; proofs live in Summary/Proofs.v (filters, directive sets), Summary/ProofsStack.v (the
    interest pass of layers and stacks), Summary/ProofsHint.v (the max-level hint), Summary/Examples.v (witnesses).
    The model Summary/Model.v mirrors the code as it is now (after the repairs of F8, F14, F81): the model is
    compared with the real crates on every run, case by case.

    Every theorem is by structural induction: every filter expression, every tree of layers, every stack - no
    bound on depth, width or number of layers; every metadata, every context (span scope, closure state). *)
From Coq Require Import List NArith Bool String.
Import ListNotations.
From TV Require Import Summary.Model Summary.Proofs Summary.ProofsStack Summary.ProofsHint Summary.ProofsPlain Summary.ProofsCtx Summary.Examples Summary.ProofsGen.
From TVGen Require Import Gen_summary.
Local Open Scope N_scope.

(** ** Filters and filter combinators.
    [LeafOK] is the contract of USER closures only ([with_max_level_hint] is honest, a custom callsite filter of
    a [DynFilterFn] is consistent with its closure); for [LevelFilter], [Targets], [EnvFilter] and all combinators
    there is no hypothesis.  [Registered]: [callsite_enabled] ran before [enabled] (tracing-core's protocol).
    [f_f12]: known finding F12 (an EnvFilter span directive below the span's level). *)
Theorem C08_filter_sound : forall f, LeafOK f -> forall m cx,
  (f_f12 f m = false -> Registered f m cx ->
   (f_int f m = never -> f_acc f m cx = false) /\ (f_int f m = always -> f_acc f m cx = true)) /\
  (forall h, f_hint f = Some h -> above m h -> f_acc f m cx = false).
Proof. exact filter_sound. Qed.
Print Assumptions C08_filter_sound.

Theorem C08_filter_sound_nonvacuous :
  LeafOK ex_f /\ f_f12 ex_f m_debug_ev = false /\ Registered ex_f m_debug_ev cx0 /\
  f_int ex_f m_debug_ev = never /\ f_acc ex_f m_debug_ev cx0 = false /\
  f_int ex_f m_info_ev = always /\ f_acc ex_f m_info_ev cx0 = true /\
  f_hint ex_f = None /\
  LeafOK ex_f_or /\ f_hint ex_f_or = Some (Some DEBUG) /\ above m_trace_ev (Some DEBUG) /\
  f_acc ex_f_or m_trace_ev cx0 = false /\ f_acc ex_f_or m_debug_ev cx0 = true.
Proof. exact ex_filter_nonvacuous. Qed.
Print Assumptions C08_filter_sound_nonvacuous.

(** [Targets] values parsed from a string may carry field-name directives ([target[{field}]=level]); they are
    inside [C08_filter_sound] ([FTargets] directives are (target, field names, level)): "a=warn,a[{x}]=trace" *)
Theorem C08_targets_field_directives_nonvacuous :
  LeafOK ex_targets_fields /\ f_hint ex_targets_fields = Some (Some TRACE) /\
  f_int ex_targets_fields (pool_meta 49) = always /\ f_acc ex_targets_fields (pool_meta 49) cx0 = true /\
  f_int ex_targets_fields (pool_meta 48) = never /\ f_acc ex_targets_fields (pool_meta 48) cx0 = false /\
  f_int ex_targets_fields (pool_meta 51) = always /\ f_acc ex_targets_fields (pool_meta 51) cx0 = true.
Proof. exact ex_targets_fields_nonvacuous. Qed.
Print Assumptions C08_targets_field_directives_nonvacuous.

(** the context the protocol produces (register every callsite, then enter spans) satisfies [Registered] *)
Theorem C08_real_ctx_registered : forall f envs n spans m,
  (forall id ds, In (id, ds) (f_envs f) -> env_lookup envs id = env_build ds) ->
  Registered f m (real_ctx envs (f_asked f) n spans).
Proof. exact real_ctx_registered. Qed.
Print Assumptions C08_real_ctx_registered.

(** Known finding F12 (pinned by the test `callsite_enabled_includes_span_directive`): the hypothesis is needed,
    in both directions ([Not] turns the wrong [always] into a wrong [never]). *)
Theorem C08_F12_refuted :
  exists f m cx, LeafOK f /\ Registered f m cx /\ f_f12 f m = true /\
                 f_int f m = always /\ f_acc f m cx = false.
Proof. exact F12_refuted. Qed.
Print Assumptions C08_F12_refuted.

Theorem C08_F12_refuted_never :
  exists f m cx, LeafOK f /\ Registered f m cx /\ f_f12 f m = true /\
                 f_int f m = never /\ f_acc f m cx = true.
Proof. exact F12_refuted_never. Qed.
Print Assumptions C08_F12_refuted_never.

(** ** Stacks: the summary of a whole stack against what its layers receive.
    [deliver c m cx] = the recording leaves that receive an emission of [m] in context [cx] when [enabled] is
    consulted; [c_all c] = all leaves (what a cached [always] delivers to: [enabled] is skipped). *)

(** the filters of a stack are sound along the part of it that the registration pass reaches *)
Theorem C08_stack_filters_sound : forall c m cx,
  CLeafOK c -> c_f12 c m = false -> CRegistered c m cx -> CSound c m cx.
Proof. exact CSound_of. Qed.
Print Assumptions C08_stack_filters_sound.

(** the contexts the protocol produces (register every callsite, then enter spans) satisfy [CRegistered] *)
Theorem C08_real_ctx_cregistered : forall c envs n spans m,
  (forall id ds, In (id, ds) (c_envs c) -> env_lookup envs id = env_build ds) ->
  CRegistered c m (real_ctx envs (c_asked c) n spans).
Proof. exact real_ctx_cregistered. Qed.
Print Assumptions C08_real_ctx_cregistered.

(** [never] is only published for callsites no layer would receive - every stack shape, no finding excluded *)
Theorem C08_stack_never : forall c m cx,
  CLeafOK c -> c_f12 c m = false -> CRegistered c m cx ->
  c_interest c m = never -> deliver c m cx = [].
Proof. exact stack_never_full. Qed.
Print Assumptions C08_stack_never.

Theorem C08_stack_never_nonvacuous :
  CLeafOK ex_never /\ c_f12 ex_never m_debug_ev = false /\ CRegistered ex_never m_debug_ev cx0 /\
  c_interest ex_never m_debug_ev = never /\ deliver ex_never m_debug_ev cx0 = [].
Proof. exact ex_never_nonvacuous. Qed.
Print Assumptions C08_stack_never_nonvacuous.

(** [always] is only published when consulting [enabled] would change nothing: exactly the same leaves receive.
    [c_f82]: finding F82 ([Filtered::register_callsite] ignores the wrapped layer's own Interest). *)
Theorem C08_stack_always : forall c m cx,
  CLeafOK c -> c_f12 c m = false -> CRegistered c m cx -> c_f82 c m = false ->
  c_interest c m = always -> deliver c m cx = c_all c.
Proof. exact stack_always_full. Qed.
Print Assumptions C08_stack_always.

Theorem C08_stack_always_nonvacuous :
  CLeafOK ex_always /\ c_f12 ex_always m_info_ev = false /\ CRegistered ex_always m_info_ev cx0 /\
  c_f82 ex_always m_info_ev = false /\ c_interest ex_always m_info_ev = always /\
  deliver ex_always m_info_ev cx0 = [2; 1] /\ c_all ex_always = [2; 1].
Proof. exact ex_always_nonvacuous. Qed.
Print Assumptions C08_stack_always_nonvacuous.

(** after a reload of a layer ([Handle::reload] on a [reload::Subscriber] layer of a live stack) the Registry's
    "has per-subscriber filters" flag can be stale (filter ids registered when the stack was built are kept):
    the interest theorems hold for any value of the flag the code can have *)
Theorem C08_stack_never_after_reload : forall has c m cx,
  CLeafOK c -> c_f12 c m = false -> CRegistered c m cx ->
  fst (c_reg has c m None) = never -> deliver c m cx = [].
Proof. exact stack_never_any_has. Qed.
Print Assumptions C08_stack_never_after_reload.

Theorem C08_stack_always_after_reload : forall has c m cx,
  CLeafOK c -> c_f12 c m = false -> CRegistered c m cx -> c_f82 c m = false ->
  (has = true \/ c_nfilt c = 0) ->
  fst (c_reg has c m None) = always -> deliver c m cx = c_all c.
Proof. exact stack_always_any_has. Qed.
Print Assumptions C08_stack_always_after_reload.

Theorem C08_F82_refuted :
  exists c m cx, CLeafOK c /\ c_f12 c m = false /\ CRegistered c m cx /\ c_f82 c m = true /\
                 c_interest c m = always /\ deliver c m cx = [] /\ c_all c = [1].
Proof. exact F82_refuted. Qed.
Print Assumptions C08_F82_refuted.

(** the max-level hint of a stack is an upper bound of what ANY of its layers receives, in every context.
    [c_f83]: finding F83 (a merged hint [Some x] taken from one side of a [Layered] only, although that side has
    no global filter bounded by [x]; arises from None layers / empty Vecs inside [and_then] pairs and Vecs next to
    per-layer filters, and from the documented restriction of [reload] around a [Filtered]). *)
Theorem C08_stack_hint : forall c, CLeafOK c -> c_f83 c = false -> forall h, c_hint c = Some h ->
  forall m cx, above m h -> deliver c m cx = [].
Proof. exact stack_hint. Qed.
Print Assumptions C08_stack_hint.

Theorem C08_stack_hint_nonvacuous :
  CLeafOK ex_hint /\ c_f83 ex_hint = false /\ c_hint ex_hint = Some (Some DEBUG) /\ above m_trace_ev (Some DEBUG) /\
  deliver ex_hint m_trace_ev cx0 = [] /\ deliver ex_hint m_info_ev cx0 = [1] /\
  c_f83 ex_hint_none = false /\ c_hint ex_hint_none = None /\ deliver ex_hint_none m_debug_ev cx0 = [2].
Proof. exact ex_hint_nonvacuous. Qed.
Print Assumptions C08_stack_hint_nonvacuous.

(** the same for a tree of layers used as one [Subscribe] (and_then pairs, Vec, Option, Box, reload) *)
Theorem C08_layer_hint : forall l, LLeafOK l -> l_f83 l = false -> forall h, l_hint l = Some h ->
  forall m cx, above m h -> l_en l m cx = false \/ l_recv l m cx = [].
Proof. exact layer_hint_sound. Qed.
Print Assumptions C08_layer_hint.

(** every branch of [Layered::pick_level_hint]: the merged hint is at least both sides' hints, or it is one
    side's hint while the other side has none *)
Theorem C08_pick_level_hint_cases : forall fl sn inn o i h,
  fl_inner_is_registry fl = false ->
  pick_level_hint fl sn inn o i = Some h ->
  (exists x y, o = Some x /\ i = Some y /\ frank x <= frank h /\ frank y <= frank h) \/
  (o = None /\ i = Some h) \/
  (o = Some h /\ i = None).
Proof. exact pick_level_hint_cases. Qed.
Print Assumptions C08_pick_level_hint_cases.

(** the refined case analysis: which flags allow a one-sided hint *)
Theorem C08_pick_level_hint_cases_strong : forall fl sn inn o i h,
  fl_inner_is_registry fl = false ->
  pick_level_hint fl sn inn o i = Some h ->
  (exists x y, o = Some x /\ i = Some y /\ frank x <= frank h /\ frank y <= frank h) \/
  (o = None /\ i = Some h /\ fl_inner_has_psf fl = false /\ (sn = true \/ inn && hint_is_off i = false)) \/
  (o = Some h /\ i = None /\ fl_has_psf fl = false /\ sn = false).
Proof. exact pick_level_hint_cases_strong. Qed.
Print Assumptions C08_pick_level_hint_cases_strong.

(** a syntactic domain with NO finding excluded: stacks whose layers are either a None layer as a whole
    (`.with(None)`, `.with(Vec::new())`, possibly boxed / reloaded) or trees without None layers / empty Vecs and
    without a per-subscriber-filtered tree inside a reload, are never in the F83 class, so their hint is sound *)
Theorem C08_plain_not_F83 : forall c, c_plain c = true -> c_f83 c = false.
Proof. exact plain_not_f83. Qed.
Print Assumptions C08_plain_not_F83.

Theorem C08_stack_hint_plain : forall c, CLeafOK c -> c_plain c = true -> forall h, c_hint c = Some h ->
  forall m cx, above m h -> deliver c m cx = [].
Proof. exact stack_hint_plain. Qed.
Print Assumptions C08_stack_hint_plain.

Theorem C08_stack_hint_plain_nonvacuous :
  CLeafOK ex_plain /\ c_plain ex_plain = true /\ c_hint ex_plain = Some (Some INFO) /\ above m_debug_ev (Some INFO) /\
  deliver ex_plain m_debug_ev cx0 = [] /\ deliver ex_plain m_info_ev cx0 = [3] /\
  c_plain f83_stack_for_plain = false.
Proof. exact ex_plain_nonvacuous. Qed.
Print Assumptions C08_stack_hint_plain_nonvacuous.

Theorem C08_F83_refuted :
  exists c h m cx, CLeafOK c /\ c_f83 c = true /\ c_hint c = Some h /\ above m h /\ deliver c m cx = [1].
Proof. exact F83_refuted. Qed.
Print Assumptions C08_F83_refuted.

(** the documented restriction of [reload] (wrap the filter, not the filtered layer) lies in the same class *)
Theorem C08_reload_filtered_in_F83 :
  c_reloaded_filtered reload_filtered_stack = true /\ c_f83 reload_filtered_stack = true /\
  c_hint reload_filtered_stack = Some (Some INFO) /\ deliver reload_filtered_stack m_debug_ev cx0 = [1].
Proof. exact reload_filtered_in_F83. Qed.
Print Assumptions C08_reload_filtered_in_F83.

(** the replays of the repaired findings F8 (Vec interest), F14 (empty Vec), F81 = F15 (and_then pair on the
    registry) satisfy the property in the model of the current source *)
Theorem C08_repaired_replays :
  (c_interest f8_stack m_debug_ev = never /\ deliver f8_stack m_debug_ev cx0 = []) /\
  (c_hint f14_stack = None /\ c_interest f14_stack m_debug_ev = always /\ deliver f14_stack m_debug_ev cx0 = [1] /\
   c_f83 f14_stack = false) /\
  (c_hint f81_stack = None /\ deliver f81_stack m_debug_ev cx0 = [1] /\ c_f83 f81_stack = false).
Proof. exact repaired_replays. Qed.
Print Assumptions C08_repaired_replays.

(** ** DirectiveSet.max_level (Targets, EnvFilter).  However the set was built - any sequence of [add]s, including
    the replacement of an equally specific directive by one with a lower or a higher level - [max_level] is
    EXACTLY the most verbose level among the directives now in the set (since cc87356 a replacement recomputes it):
    it bounds every directive (so the hints of Targets / EnvFilter are upper bounds), it is OFF for the empty set,
    and otherwise some directive in the set has it (so the hint is also the tightest one). *)
Theorem C08_directive_max_exact : forall (A : Type) (cmp : A -> A -> comparison) (lvl : A -> levelfilter) ds,
  let s := ds_of cmp lvl ds in
  (forall d, In d (ds_dirs s) -> frank (lvl d) <= frank (ds_max s)) /\
  (ds_dirs s = [] -> ds_max s = OFF) /\
  (ds_dirs s <> [] -> exists d, In d (ds_dirs s) /\ lvl d = ds_max s).
Proof. exact directive_max_exact. Qed.
Print Assumptions C08_directive_max_exact.

(** one more [add]: the new directive is bounded, and an [add] that replaces nothing never lowers [max_level] *)
Theorem C08_directive_max_mono : forall (A : Type) (cmp : A -> A -> comparison) (lvl : A -> levelfilter) ds d,
  let s := ds_of cmp lvl ds in
  frank (lvl d) <= frank (ds_max (ds_add cmp lvl s d)) /\
  (ds_replaced cmp d (ds_dirs s) = false -> frank (ds_max s) <= frank (ds_max (ds_add cmp lvl s d))).
Proof. exact directive_max_mono. Qed.
Print Assumptions C08_directive_max_mono.

(** "a=trace,ab=warn,a=error": the second `a` replaces the first and max_level drops from TRACE to WARN *)
Theorem C08_directive_max_exact_nonvacuous :
  ds_dirs (ds_of cmp_sdir sd_level ex_dirs) =
    [ {| sd_target := Some "ab"%string; sd_fields := []; sd_level := Some WARN |};
      {| sd_target := Some "a"%string; sd_fields := []; sd_level := Some ERROR |} ] /\
  ds_max (ds_of cmp_sdir sd_level ex_dirs) = Some WARN /\
  ds_max (ds_of cmp_sdir sd_level (firstn 2 ex_dirs)) = Some TRACE /\
  ds_replaced cmp_sdir {| sd_target := Some "a"%string; sd_fields := []; sd_level := Some ERROR |}
     (ds_dirs (ds_of cmp_sdir sd_level (firstn 2 ex_dirs))) = true.
Proof. exact ex_directive_nonvacuous. Qed.
Print Assumptions C08_directive_max_exact_nonvacuous.

(** ** The tie to the Rust source (coq/gen/Gen_summary.v is regenerated from /repo on every run by
    translators/summary_shapes.py): the summary-merging functions of the model ARE the functions of the source,
    on their whole domain. *)
Theorem C08_source_pick_level_hint : forall reg has ihas snone inone o i,
  gen_pick_level_hint reg has ihas snone inone o i =
  pick_level_hint {| fl_inner_is_registry := reg; fl_has_psf := has; fl_inner_has_psf := ihas |} snone inone o i.
Proof. exact source_pick_level_hint. Qed.
Print Assumptions C08_source_pick_level_hint.

Theorem C08_source_pick_interest : forall has ihas o i (p : pend),
  let fl := {| fl_inner_is_registry := false; fl_has_psf := has; fl_inner_has_psf := ihas |} in
  let '(r, asked, taken) := gen_pick_interest has ihas o i in
  pick_interest fl o (fun q => (i, q)) p = (r, if taken then None else p) /\
  (asked = false -> forall inner, pick_interest fl o inner p = (r, None)).
Proof. exact source_pick_interest. Qed.
Print Assumptions C08_source_pick_interest.

Theorem C08_source_combinators : forall a b m,
  f_int (FAnd a b) m = gen_and_interest (f_int a m) (f_int b m) /\
  f_int (FOr a b) m = gen_or_interest (f_int a m) (f_int b m) /\
  f_int (FNot a) m = gen_not_interest (f_int a m) (f_int a m) /\
  f_hint (FAnd a b) = gen_and_hint (f_hint a) (f_hint b) /\
  f_hint (FOr a b) = gen_or_hint (f_hint a) (f_hint b) /\
  f_hint (FNot a) = gen_not_hint (f_hint a) (f_hint a).
Proof. exact source_combinators. Qed.
Print Assumptions C08_source_combinators.

Theorem C08_source_add_interest : forall p i, gen_add_interest p i = add_interest p i.
Proof. exact source_add_interest. Qed.
Print Assumptions C08_source_add_interest.

(** every shape the translator looks for was recognised, and the shapes that are read as flags are the ones the
    model mirrors (Layered::new decides inner_is_registry from the inner value; Vec: conjunction of interests,
    max of hints from OFF, marker rules; Option::None; Filtered; EnvFilter::max_level_hint; DirectiveSet::add) *)
Theorem C08_source_shapes :
  gen_summary_unrecognised = [] /\ gen_inner_is_registry_from_inner_value = true /\
  gen_vec_interest_is_conjunction = true /\ gen_vec_enabled_is_all = true /\ gen_vec_hint_is_max_from_off = true /\
  gen_vec_markers = true /\ gen_layered_markers = true /\ gen_reload_markers = true /\ gen_option_none_summaries = true /\ gen_filtered_summaries = true /\
  gen_targets_summaries = true /\ gen_env_hint = true /\ gen_directive_add_max_exact = true.
Proof. exact (conj source_recognised (conj source_inner_is_registry source_flags)). Qed.
Print Assumptions C08_source_shapes.
