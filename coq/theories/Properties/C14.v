(** C14 — JSON output is always one valid JSON object per line and faithful to the data.
    Statements only; proofs in Fmt/JsonProofs{Render,Parse,Map,Record}.v over the executable model Fmt/JsonModel.v.
    [repo_cfg] takes its two switches from TVGen.Gen_json, which translators/json_fmt.py regenerates from /repo's json.rs on
    every run: fx10 / fx141 are false while the source has the shape of findings F10 / F141 and become true by themselves
    when the repaired shape is recognised, so the hypotheses below that mention them fall away without editing this file.

    Labels: everything here is proved for ALL strings / trees / histories / option combinations.  PARTIAL: the text of
    finite floats (serde_json's shortest round-trip printer) is not modelled — [C14_parse_render] and the stored-string
    refinement carry a float-free hypothesis, floats are compared numerically by the correspondence only (finding F142
    lives exactly there). *)
From Coq Require Import String Ascii NArith ZArith Bool List.
From TV Require Import Fmt.JsonModel Fmt.JsonProofsRender Fmt.JsonProofsParse Fmt.JsonProofsMap Fmt.JsonProofsRecord.
From TVGen Require Import Gen_json.
Import ListNotations.
Local Open Scope N_scope.

(** ** One line.  No byte of the rendering of ANY tree is a control character (all strings, all key names). *)
Theorem C14_single_line : forall j, ~ In 10 (render j) /\ ~ In 13 (render j).
Proof. exact single_line. Qed.
Print Assumptions C14_single_line.

Theorem C14_no_control_bytes : forall j b, In b (render j) -> 32 <= b.
Proof. exact no_control_bytes. Qed.
Print Assumptions C14_no_control_bytes.

(** ** Valid JSON, independent of any JSON library: the strict parser reads back exactly the tree (fuel = input length). *)
Theorem C14_parse_render : forall j, no_float j = true -> parse (render j) = Some j.
Proof. exact parse_render. Qed.
Print Assumptions C14_parse_render.

Theorem C14_parse_line : forall j, no_float j = true -> parse_line (render_line j) = Some j.
Proof. exact parse_line_render. Qed.
Print Assumptions C14_parse_line.

(** the string-escaping fragment, for ALL byte strings and any continuation *)
Theorem C14_parse_string : forall s rest, parse_value 1 (render_string s ++ rest) = Some (JStr s, rest).
Proof. exact parse_string_render. Qed.
Print Assumptions C14_parse_string.

(** ** Unique keys at every level of every record of every history.
    Exclusions (the property's own): span field keys equal to the span object's `name` ([op_ok]); flattened event
    field names among the reserved keys ([event_ok]).  Known finding F143: two fields of one event with the same name
    ([event_ok] demands NoDup names; refuted below). *)
Theorem C14_unique_keys : forall c o en st e p,
  state_ok st -> event_ok o e -> uniq (event_record c o en st e p).
Proof. exact record_uniq. Qed.
Print Assumptions C14_unique_keys.

Theorem C14_reachable_ok : forall c ops, Forall op_ok ops -> state_ok (state_after c ops).
Proof. exact state_after_ok. Qed.
Print Assumptions C14_reachable_ok.

(** every line written by every history: one object, unique keys at every level, no LF / CR before the final LF *)
Theorem C14_run_records : forall c o en ops line,
  Forall op_ok ops -> (forall e p, In (OEvent e p) ops -> event_ok o e) ->
  In line (run c o en ops) ->
  exists kvs, line = render (JObj kvs) ++ [10] /\ uniq (JObj kvs) /\
              ~ In 10 (render (JObj kvs)) /\ ~ In 13 (render (JObj kvs)).
Proof. exact run_records. Qed.
Print Assumptions C14_run_records.

Theorem C14_F143_refuted : forall c o en st p,
  let e := {| ev_level := 2; ev_target := []; ev_file := None; ev_line := None;
              ev_vals := [([97], VU64 1); ([97], VU64 2)] |} in
  o_flatten o = false -> ~ uniq (event_record c o en st e p).
Proof. exact F143_refuted. Qed.
Print Assumptions C14_F143_refuted.

(** ** Event fields: every recorded (name, value) is in the record with the mapped value — nested under `fields`, or in
    the root when flattened; with unique keys that entry is what a consumer reads under the name. *)
Theorem C14_fields_faithful_event : forall e k v,
  NoDup (map fst (ev_vals e)) -> In (k, v) (ev_vals e) ->
  In (k, event_value v) (event_fields e) /\ lookup k (event_fields e) = Some (event_value v).
Proof. exact event_fields_faithful. Qed.
Print Assumptions C14_fields_faithful_event.

Theorem C14_fields_nested : forall c o en st e p,
  o_flatten o = false -> In (bs "fields", JObj (event_fields e)) (event_entries c o en st e p).
Proof. exact record_fields_nested. Qed.
Print Assumptions C14_fields_nested.

Theorem C14_fields_flat : forall c o en st e p k v,
  o_flatten o = true -> In (k, v) (ev_vals e) -> In (k, event_value v) (event_entries c o en st e p).
Proof. exact record_fields_flat. Qed.
Print Assumptions C14_fields_flat.

Theorem C14_record_lookup : forall c o en st e p k j,
  state_ok st -> event_ok o e -> In (k, j) (event_entries c o en st e p) ->
  lookup k (event_entries c o en st e p) = Some j.
Proof. exact record_lookup. Qed.
Print Assumptions C14_record_lookup.

(** ** Span fields after ANY number of record steps: the map is one visit of all writes in order, so every key holds the
    mapped image of the last value recorded under it.  Known finding F141 (while fx141 = false): keys that need a JSON
    escape are excluded, and refuted below. *)
Theorem C14_fields_faithful_span : forall init recs k,
  (fx141 repo_cfg = false -> Forall plain_key (init ++ concat recs)) ->
  fields_after repo_cfg init recs = visit_span [] (init ++ concat recs) /\
  lookup k (fields_after repo_cfg init recs) = last_write k (init ++ concat recs) None.
Proof.
  intros init recs k H.
  assert (H' : fx141 repo_cfg = true \/ Forall plain_key (init ++ concat recs))
    by (destruct (fx141 repo_cfg); [left; reflexivity | right; apply H; reflexivity]).
  split; [exact (fields_after_fold repo_cfg init recs H') | exact (fields_after_faithful repo_cfg init recs k H')].
Qed.
Print Assumptions C14_fields_faithful_span.

Theorem C14_last_write_spec : forall k n v before later,
  Forall (fun kv => span_key (fst kv) (snd kv) <> k) later -> span_key n v = k ->
  last_write k (before ++ (n, v) :: later) None = Some (span_value v).
Proof. exact last_write_spec. Qed.
Print Assumptions C14_last_write_spec.

Theorem C14_F141_refuted : forall c, fx141 c = false ->
  last_write [120] (f141_init ++ concat f141_recs) None = Some (JInt 2) /\
  lookup [120] (fields_after c f141_init f141_recs) = None /\
  ~ Forall plain_key (f141_init ++ concat f141_recs).
Proof. exact F141_refuted. Qed.
Print Assumptions C14_F141_refuted.

(** the fields of a span in the state reached by ANY history are [fields_after] of its creation and its later records *)
Theorem C14_history_fields : forall c ops i s,
  find_span i (spans (state_after c ops)) = Some s ->
  exists init recs, hist_of i ops = Some (init, recs) /\ sp_fields s = fields_after c init recs.
Proof. exact history_fields. Qed.
Print Assumptions C14_history_fields.

(** the code keeps the fields as a serialised string: parse - merge - re-serialise refines the tree-level step, for any
    number of steps, and SerializableSpan's re-parse gives back the span object (float-free values: PARTIAL on floats) *)
Theorem C14_stored_string_refines : forall c init recs,
  float_free init -> Forall float_free recs ->
  stored_after c init recs = render (JObj (fields_after c init recs)).
Proof. exact stored_after_refines. Qed.
Print Assumptions C14_stored_string_refines.

Theorem C14_span_object_refines : forall c name parent init recs,
  float_free init -> Forall float_free recs ->
  span_obj_bytes name (stored_after c init recs) =
  Some (span_obj {| sp_name := name; sp_parent := parent; sp_fields := fields_after c init recs |}).
Proof. exact span_obj_bytes_refines. Qed.
Print Assumptions C14_span_object_refines.

Theorem C14_record_span : forall c o en st e p i s,
  o_cur o = true -> event_span c st p = Some i -> find_span i (spans st) = Some s ->
  In (bs "span", span_obj s) (event_entries c o en st e p).
Proof. exact record_span. Qed.
Print Assumptions C14_record_span.

(** ** The span list = the event's scope, root first.  Known finding F10 (while fx10 = false): events with an explicit
    parent (a span, or explicitly none) are excluded, and refuted below. *)
Theorem C14_span_list : forall o en st e p i,
  (fx10 repo_cfg = false -> p = PCurrent) ->
  o_list o = true -> spec_event_span st p = Some i ->
  In (bs "spans", JArr (map span_obj (spec_scope st p))) (event_entries repo_cfg o en st e p).
Proof. exact (record_span_list repo_cfg). Qed.
Print Assumptions C14_span_list.

Theorem C14_scope_root_to_leaf : forall st i,
  chain (spans st) (rev (scope_from_root st i)) /\
  (forall s, find_span i (spans st) = Some s -> exists l, scope_from_root st i = l ++ [s]).
Proof. intros st i. split; [apply scope_is_parent_chain | apply scope_leaf_last]. Qed.
Print Assumptions C14_scope_root_to_leaf.

Theorem C14_F10_refuted : forall c en, fx10 c = false ->
  let st := state_after c f10_ops in
  In (bs "spans", JArr []) (event_entries c f10_opts en st f10_event (PExplicit 1)) /\
  map sp_name (spec_scope st (PExplicit 1)) = [bs "root"; bs "child"].
Proof. exact F10_refuted. Qed.
Print Assumptions C14_F10_refuted.

Theorem C14_F10_refuted_root : forall c, fx10 c = false ->
  let st := state_after c [ONew 0 (bs "other") PRoot []; OEnter 0] in
  event_span c st PRoot = Some 0 /\ spec_event_span st PRoot = None.
Proof. exact F10_refuted_root. Qed.
Print Assumptions C14_F10_refuted_root.

(** ** The model has the shape the translator reads off the source (key order, trailing newline, which Visit methods the
    two visitors override, where `r#` is stripped, root-first iteration); nothing was unrecognised. *)
Theorem C14_model_matches_source :
  gen_json_unrecognised = [] /\
  gen_event_keys = model_event_keys /\ gen_span_keys = model_span_keys /\
  gen_trailing_newline = true /\ gen_span_list_from_root = true /\
  gen_jsonvisitor_methods = model_jsonvisitor_methods /\
  gen_jsonvisitor_strip_raw = model_jsonvisitor_strip_raw /\
  gen_serdemap_methods = model_serdemap_methods.
Proof. exact gen_matches_model. Qed.
Print Assumptions C14_model_matches_source.
