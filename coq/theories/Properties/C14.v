(** C14 — JSON output is always one valid JSON object per line and faithful to the data.
    Statements only; proofs in Fmt/JsonProofs{Render,Parse,Map,Record}.v over the executable model Fmt/JsonModel.v.
    [repo_cfg_of lg] takes its two switches from TVGen.Gen_json, which translators/json_fmt.py regenerates from /repo's
    json.rs on every run: fx10 / fx141 are false when the source has the shape of findings F10 / F141 and true when the
    repaired shape is recognised.  Both are repaired in /repo (7519e35, c6c3a37), so the headline statements carry no
    hypothesis about them and are proved by computing the switches: on a tree where a repair is reverted these proofs fail
    (and the oracle exhibits the failing history).  [lg] = the build has tracing-subscriber's `tracing-log` feature.

    Labels: everything here is proved for ALL strings / trees / histories / option combinations.  PARTIAL: the text of
    finite floats (serde_json's shortest round-trip printer) is not modelled — [C14_parse_render] and the stored-string
    refinement carry a float-free hypothesis, floats are compared numerically by the correspondence only (finding F142
    lives exactly there). *)
From Coq Require Import String Ascii NArith ZArith Bool List.
From TV Require Import Common.Sched Fmt.JsonModel Fmt.JsonProofsRender Fmt.JsonProofsParse Fmt.JsonProofsMap Fmt.JsonProofsRecord.
From TV Require Import Fmt.JsonConc Fmt.JsonConcProofs Fmt.JsonWide.
From TVGen Require Import Gen_json.
Import ListNotations.
Local Open Scope N_scope.

(** ** One line.  No byte of the rendering of ANY tree is a control character (all strings, all key names). *)
Theorem C14_single_line : forall j, ~ In 10 (render j) /\ ~ In 13 (render j).
Proof. exact single_line. Qed.
Print Assumptions C14_single_line.

Theorem C14_no_control_bytes : forall j b, In b (render j) -> 32 <= b.
Proof. exact no_control_bytes. Qed.
Print Assumptions C14_no_control_bytes.

(** ** Valid JSON, independent of any JSON library: the strict parser reads back exactly the tree (fuel = input length). *)
Theorem C14_parse_render : forall j, no_float j = true -> parse (render j) = Some j.
Proof. exact parse_render. Qed.
Print Assumptions C14_parse_render.

Theorem C14_parse_line : forall j, no_float j = true -> parse_line (render_line j) = Some j.
Proof. exact parse_line_render. Qed.
Print Assumptions C14_parse_line.

(** ... and with finite floats, for ANY float printer whose output the strict parser reads as one RFC 8259 float token
    (sign, digits, fraction and/or exponent) and stops: the line reads back as the same tree — all keys, strings, integers,
    booleans, nulls and the nesting exactly, a float token wherever a float was written ([zero_floats]: the parser does
    not interpret float text, the VALUE of floats is compared numerically by the correspondence only).  serde_json's
    printer (ryu) is not modelled; the driver feeds every float token of every observed line to this very parser. *)
Theorem C14_parse_render_any_float_printer : forall pf, float_token pf -> forall j,
  parse (render_with pf j) = Some (zero_floats j) /\ parse_line (render_with pf j ++ [10]) = Some (zero_floats j).
Proof. intros pf H j. split; [apply parse_render_with | apply parse_line_render_with]; exact H. Qed.
Print Assumptions C14_parse_render_any_float_printer.

Theorem C14_single_line_any_float_printer : forall pf, (forall b x, In x (pf b) -> 32 <= x) ->
  forall j, ~ In 10 (render_with pf j) /\ ~ In 13 (render_with pf j).
Proof. intros pf H. apply single_line_with. intro b. apply Forall_forall. intros x Hx. exact (H b x Hx). Qed.
Print Assumptions C14_single_line_any_float_printer.

Theorem C14_render_with_is_render : forall j,
  render_with render_float j = render j /\ (forall pf, no_float j = true -> render_with pf j = render j /\ zero_floats j = j).
Proof.
  intro j. split; [apply render_with_model|]. intros pf NF. split; [apply render_with_nofloat | apply zero_floats_nofloat]; exact NF.
Qed.
Print Assumptions C14_render_with_is_render.

(** the string-escaping fragment, for ALL byte strings and any continuation *)
Theorem C14_parse_string : forall s rest, parse_value 1 (render_string s ++ rest) = Some (JStr s, rest).
Proof. exact parse_string_render. Qed.
Print Assumptions C14_parse_string.

(** ** Unique keys at every level of every record of every history.
    Exclusions (the property's own): span field keys equal to the span object's `name` ([op_ok]); flattened event
    field names among the reserved keys ([event_ok]).  Known finding F143: two fields of one event with the same name
    ([event_ok] demands NoDup names; refuted below). *)
Theorem C14_unique_keys : forall c o en st e p,
  state_ok st -> event_ok o e -> uniq (event_record c o en st e p).
Proof. exact record_uniq. Qed.
Print Assumptions C14_unique_keys.

Theorem C14_reachable_ok : forall c ops, Forall op_ok ops -> state_ok (state_after c ops).
Proof. exact state_after_ok. Qed.
Print Assumptions C14_reachable_ok.

(** every line written by every history: one object, unique keys at every level, no LF / CR before the final LF *)
Theorem C14_run_records : forall c o en ops line,
  Forall op_ok ops -> (forall e p, In (OEvent e p) ops -> event_ok o e) ->
  In line (run c o en ops) ->
  exists kvs, line = render (JObj kvs) ++ [10] /\ uniq (JObj kvs) /\
              ~ In 10 (render (JObj kvs)) /\ ~ In 13 (render (JObj kvs)).
Proof. exact run_records. Qed.
Print Assumptions C14_run_records.

(** HEADLINE.  Every line written by every history (events and lifecycle records, every option combination, both builds):
    one JSON object with unique keys at every level, which the strict parser reads back — exactly when the record carries
    no finite float, and with float tokens left uninterpreted for any float printer writing RFC 8259 float tokens. *)
Theorem C14_run_lines_parse : forall pf c o en ops line,
  float_token pf ->
  Forall op_ok ops -> (forall e p, In (OEvent e p) ops -> event_ok o e) ->
  In line (run c o en ops) ->
  exists kvs, line = render (JObj kvs) ++ [10] /\ uniq (JObj kvs) /\
              parse_line (render_with pf (JObj kvs) ++ [10]) = Some (zero_floats (JObj kvs)) /\
              (no_float (JObj kvs) = true -> parse_line line = Some (JObj kvs)).
Proof. exact run_lines_parse. Qed.
Print Assumptions C14_run_lines_parse.

Theorem C14_F143_refuted : forall c o en st p,
  let e := {| ev_level := 2; ev_target := []; ev_file := None; ev_line := None;
              ev_vals := [([97], VU64 1); ([97], VU64 2)] |} in
  o_flatten o = false -> ~ uniq (event_record c o en st e p).
Proof. exact F143_refuted. Qed.
Print Assumptions C14_F143_refuted.

(** ** Event fields: every recorded (name, value) is in the record with the mapped value — nested under `fields`, or in
    the root when flattened; with unique keys that entry is what a consumer reads under the name. *)
Theorem C14_fields_faithful_event : forall e k v,
  NoDup (map fst (ev_vals e)) -> In (k, v) (ev_vals e) ->
  In (k, event_value v) (event_fields e) /\ lookup k (event_fields e) = Some (event_value v).
Proof. exact event_fields_faithful. Qed.
Print Assumptions C14_fields_faithful_event.

Theorem C14_fields_nested : forall c o en st e p,
  o_flatten o = false -> In (bs "fields", JObj (event_fields e)) (event_entries c o en st e p).
Proof. exact record_fields_nested. Qed.
Print Assumptions C14_fields_nested.

Theorem C14_fields_flat : forall c o en st e p k v,
  o_flatten o = true -> In (k, v) (ev_vals e) -> In (k, event_value v) (event_entries c o en st e p).
Proof. exact record_fields_flat. Qed.
Print Assumptions C14_fields_flat.

Theorem C14_record_lookup : forall c o en st e p k j,
  state_ok st -> event_ok o e -> In (k, j) (event_entries c o en st e p) ->
  lookup k (event_entries c o en st e p) = Some j.
Proof. exact record_lookup. Qed.
Print Assumptions C14_record_lookup.

(** ** Span fields after ANY number of record steps: the map is one visit of all writes in order, so every key holds the
    mapped image of the last value recorded under it — for every field-name form, in both builds.  (Finding F141, repaired
    in /repo by c6c3a37: while add_fields re-parsed into borrowed keys, a key that needs a JSON escape lost every later
    record.  The statement below has no hypothesis because the translator finds the owned-key shape in the source
    (fx141 (repo_cfg_of lg) computes to true); on a tree without the repair this proof fails and the oracle produces the
    failing history.  [C14_fields_faithful_span_any_cfg] is the statement for either variant, [C14_F141_refuted] the
    witness for the unrepaired one.) *)
Theorem C14_fields_faithful_span : forall lg init recs k,
  fields_after (repo_cfg_of lg) init recs = visit_span [] (init ++ concat recs) /\
  lookup k (fields_after (repo_cfg_of lg) init recs) = last_write k (init ++ concat recs) None.
Proof.
  intros lg init recs k.
  assert (H' : fx141 (repo_cfg_of lg) = true \/ Forall plain_key (init ++ concat recs)) by (left; reflexivity).
  split; [exact (fields_after_fold (repo_cfg_of lg) init recs H') | exact (fields_after_faithful (repo_cfg_of lg) init recs k H')].
Qed.
Print Assumptions C14_fields_faithful_span.

Theorem C14_fields_faithful_span_any_cfg : forall c init recs k,
  (fx141 c = false -> Forall plain_key (init ++ concat recs)) ->
  fields_after c init recs = visit_span [] (init ++ concat recs) /\
  lookup k (fields_after c init recs) = last_write k (init ++ concat recs) None.
Proof.
  intros c init recs k H.
  assert (H' : fx141 c = true \/ Forall plain_key (init ++ concat recs))
    by (destruct (fx141 c); [left; reflexivity | right; apply H; reflexivity]).
  split; [exact (fields_after_fold c init recs H') | exact (fields_after_faithful c init recs k H')].
Qed.
Print Assumptions C14_fields_faithful_span_any_cfg.

Theorem C14_last_write_spec : forall k n v before later,
  Forall (fun kv => span_key (fst kv) (snd kv) <> k) later -> span_key n v = k ->
  last_write k (before ++ (n, v) :: later) None = Some (span_value v).
Proof. exact last_write_spec. Qed.
Print Assumptions C14_last_write_spec.

Theorem C14_F141_refuted : forall c, fx141 c = false ->
  last_write [120] (f141_init ++ concat f141_recs) None = Some (JInt 2) /\
  lookup [120] (fields_after c f141_init f141_recs) = None /\
  ~ Forall plain_key (f141_init ++ concat f141_recs).
Proof. exact F141_refuted. Qed.
Print Assumptions C14_F141_refuted.

(** the fields of a live span in the state reached by ANY history (creations, records, enters, exits, closes, events) are
    [fields_after] of its creation and its later records; [hist_of] lists those writes in order ([eff]: all of them,
    except — in a build with the `tracing-log` feature — `log.*` names recorded through Debug/Display) *)
Theorem C14_history_fields : forall c ops i s,
  find_span i (spans (state_after c ops)) = Some s ->
  exists init recs, hist_of c i ops = Some (init, recs) /\ sp_fields s = fields_after c init recs.
Proof. exact history_fields. Qed.
Print Assumptions C14_history_fields.

Theorem C14_history_inv : forall c ops i,
  match hist_of c i ops with
  | Some (init, recs) =>
      exists s, find_span i (spans (state_after c ops)) = Some s /\ sp_fields s = fields_after c init recs
  | None => find_span i (spans (state_after c ops)) = None
  end.
Proof. exact history_inv. Qed.
Print Assumptions C14_history_inv.

Theorem C14_closed_span_gone : forall c ops i busy idle,
  find_span i (spans (state_after c (ops ++ [OClose i busy idle]))) = None.
Proof. exact closed_span_gone. Qed.
Print Assumptions C14_closed_span_gone.

(** a `record` call that UNWINDS out of add_fields (a recorded value's Debug / Display impl panics and the caller catches it;
    build with parking_lot, whose locks do not poison) changes nothing: add_fields builds the merged text in a fresh String
    and assigns it only after finish() succeeded ([repo_fresh], read off the source; this statement does not compile on a
    tree that serialises into the stored string after clearing it — which loses every field recorded so far) *)
Theorem C14_aborted_record_changes_nothing : forall c st i,
  spans (next c st (ORecordAborted i)) = spans st /\ stack (next c st (ORecordAborted i)) = stack st.
Proof. exact aborted_record_changes_nothing. Qed.
Print Assumptions C14_aborted_record_changes_nothing.

Theorem C14_aborted_in_place_loses_everything : forall m, aborted_effect false m = [] /\ aborted_effect true m = m.
Proof. exact aborted_in_place_loses_everything. Qed.
Print Assumptions C14_aborted_in_place_loses_everything.

(** which writes reach the map: all of them without the `tracing-log` feature; with it, all but `log.*` names whose
    value arrives through record_debug (documented exclusion: those names are tracing-log's own metadata) *)
Theorem C14_effective_writes : forall c vals kv,
  (In kv (eff c vals) <-> In kv vals /\ log_skipped c kv = false) /\
  (feat_log c = false -> eff c vals = vals) /\
  (via_debug (snd kv) = false -> log_skipped c kv = false) /\
  (has_prefix (bs "log.") (fst kv) = false -> log_skipped c kv = false).
Proof.
  intros c vals [k v]. split; [apply eff_in|]. split; [apply eff_nolog|]. split; [apply log_skipped_typed | apply log_skipped_prefix].
Qed.
Print Assumptions C14_effective_writes.

(** the code keeps the fields as a serialised string: parse - merge - re-serialise refines the tree-level step, for any
    number of steps, and SerializableSpan's re-parse gives back the span object (float-free values: PARTIAL on floats) *)
Theorem C14_stored_string_refines : forall c init recs,
  float_free init -> Forall float_free recs ->
  stored_after c init recs = render (JObj (fields_after c init recs)).
Proof. exact stored_after_refines. Qed.
Print Assumptions C14_stored_string_refines.

Theorem C14_span_object_refines : forall c m parent init recs,
  float_free init -> Forall float_free recs ->
  span_obj_bytes (sm_name m) (stored_after c init recs) =
  Some (span_obj {| sp_meta := m; sp_parent := parent; sp_fields := fields_after c init recs |}).
Proof. exact span_obj_bytes_refines. Qed.
Print Assumptions C14_span_object_refines.

Theorem C14_record_span : forall c o en st e p i s,
  o_cur o = true -> event_span c st p = Some i -> find_span i (spans st) = Some s ->
  In (bs "span", span_obj s) (event_entries c o en st e p).
Proof. exact record_span. Qed.
Print Assumptions C14_record_span.

(** which JsonVisitor methods treat names specially, per method as the source has it: only values recorded through
    record_debug (u128 / i128 / ?x / %x / errors / format_args) lose a leading `r#` and, in the tracing-log build, are
    skipped under a `log.*` name; str / integer / bool / float / bytes values are stored under the name as written *)
Theorem C14_special_names_only_through_debug : forall v k,
  strips_raw v = via_debug v /\ skips_log v = via_debug v /\
  (via_debug v = false -> span_key k v = k /\ forall c, log_skipped c (k, v) = false).
Proof.
  intros v k. split; [apply strips_raw_is_via_debug|]. split; [apply skips_log_is_via_debug|].
  intro H. split; [unfold span_key; rewrite strips_raw_is_via_debug, H; reflexivity | intro c; apply log_skipped_typed; exact H].
Qed.
Print Assumptions C14_special_names_only_through_debug.

(** the two builds write the same lines for every history whose span field names never start with `log.` *)
Theorem C14_log_feature_inert : forall lg o en ops,
  Forall no_log_names ops -> run_ops (repo_cfg_of lg) o en ops = run_ops (repo_cfg_of false) o en ops.
Proof. intros lg o en ops H. exact (log_feature_inert (repo_cfg_of false) lg o en ops init_state H). Qed.
Print Assumptions C14_log_feature_inert.

(** ** The span list = the event's scope, root first, and `span` = its leaf — for EVERY event: contextual, explicit parent,
    explicit root (and the lifecycle records, whose parent is the span itself).  (Finding F10, repaired in /repo by 7519e35:
    the list used to come from lookup_current().  No hypothesis: the translator finds the repaired shape, fx10 computes to
    true; [C14_span_list_any_cfg] is the statement for either variant, the [C14_F10_refuted*] lemmas are the witnesses for
    the unrepaired one.) *)
Theorem C14_span_list : forall lg o en st e p i,
  o_list o = true -> spec_event_span st p = Some i ->
  In (bs "spans", JArr (map span_obj (spec_scope st p))) (event_entries (repo_cfg_of lg) o en st e p).
Proof.
  intros lg o en st e p i. apply (record_span_list (repo_cfg_of lg)). intro H. discriminate H.
Qed.
Print Assumptions C14_span_list.

Theorem C14_span_is_scope_leaf : forall lg o en st e p i s,
  o_cur o = true -> spec_event_span st p = Some i -> find_span i (spans st) = Some s ->
  In (bs "span", span_obj s) (event_entries (repo_cfg_of lg) o en st e p).
Proof.
  intros lg o en st e p i s Hc Hi Hs. apply record_span with (i := i); [exact Hc | | exact Hs].
  rewrite event_span_spec; [exact Hi | intro H; discriminate H].
Qed.
Print Assumptions C14_span_is_scope_leaf.

(** an event outside every span (explicit root, or contextual with nothing entered) has neither `span` nor `spans` *)
Theorem C14_no_scope_no_span_keys : forall lg o en st e p,
  event_ok o e -> spec_event_span st p = None ->
  ~ In (bs "span") (map fst (event_entries (repo_cfg_of lg) o en st e p)) /\
  ~ In (bs "spans") (map fst (event_entries (repo_cfg_of lg) o en st e p)).
Proof. intros lg o en st e p. apply (record_no_scope (repo_cfg_of lg)). intro F. discriminate F. Qed.
Print Assumptions C14_no_scope_no_span_keys.

Theorem C14_span_list_any_cfg : forall c o en st e p i,
  (fx10 c = false -> p = PCurrent) ->
  o_list o = true -> spec_event_span st p = Some i ->
  In (bs "spans", JArr (map span_obj (spec_scope st p))) (event_entries c o en st e p).
Proof. exact record_span_list. Qed.
Print Assumptions C14_span_list_any_cfg.

Theorem C14_scope_root_to_leaf : forall st i,
  chain (spans st) (rev (scope_from_root st i)) /\
  (forall s, find_span i (spans st) = Some s -> exists l, scope_from_root st i = l ++ [s]).
Proof. intros st i. split; [apply scope_is_parent_chain | apply scope_leaf_last]. Qed.
Print Assumptions C14_scope_root_to_leaf.

Theorem C14_F10_refuted : forall c en, fx10 c = false ->
  let st := state_after c f10_ops in
  In (bs "spans", JArr []) (event_entries c f10_opts en st f10_event (PExplicit 1)) /\
  map sp_name (spec_scope st (PExplicit 1)) = [bs "root"; bs "child"].
Proof. exact F10_refuted. Qed.
Print Assumptions C14_F10_refuted.

Theorem C14_F10_refuted_root : forall c, fx10 c = false ->
  let st := state_after c [ONew 0 (meta_named (bs "other")) PRoot []; OEnter 0] in
  event_span c st PRoot = Some 0 /\ spec_event_span st PRoot = None.
Proof. exact F10_refuted_root. Qed.
Print Assumptions C14_F10_refuted_root.

Theorem C14_F10_refuted_lifecycle : forall c en, fx10 c = false ->
  let st := state_after c f10_ops in
  forall s, find_span 1 (spans st) = Some s ->
  In (bs "spans", JArr []) (event_entries c f10_opts en st (life_event s "new" None) (PExplicit 1)) /\
  In (bs "span", span_obj s) (event_entries c f10_opts en st (life_event s "new" None) (PExplicit 1)).
Proof. exact F10_refuted_lifecycle. Qed.
Print Assumptions C14_F10_refuted_lifecycle.

(** ** Every record, not only those of events: the span-lifecycle records (with_span_events: NEW / ENTER / EXIT / CLOSE).
    Each configured point writes exactly one record — an event with the span's own metadata, the span as explicit parent,
    `message` = the point's name (+ time.busy / time.idle at close when a timer is configured); an unconfigured point
    writes nothing; [C14_run_records] above covers these lines too (one object, unique keys, one line). *)
Theorem C14_event_writes_one_record : forall c o en st e p,
  emit c o en st (OEvent e p) = [render_line (event_record c o en st e p)] /\ next c st (OEvent e p) = st.
Proof. exact event_writes_one_record. Qed.
Print Assumptions C14_event_writes_one_record.

Theorem C14_lifecycle_points : forall c o en st,
  (forall i m p vals s, find_span i (spans (next c st (ONew i m p vals))) = Some s ->
     emit c o en st (ONew i m p vals) =
     if o_new o then [render_line (event_record c o en (next c st (ONew i m p vals)) (life_event s "new" None) (PExplicit i))] else []) /\
  (forall i s, find_span i (spans st) = Some s ->
     emit c o en st (OEnter i) =
     (if o_enter o then [render_line (event_record c o en (next c st (OEnter i)) (life_event s "enter" None) (PExplicit i))] else []) /\
     emit c o en st (OExit i) =
     (if o_exit o then [render_line (event_record c o en (next c st (OExit i)) (life_event s "exit" None) (PExplicit i))] else []) /\
     forall busy idle, emit c o en st (OClose i busy idle) =
     (if o_close o then [render_line (event_record c o en st
                           (life_event s "close" (if has_timer o then Some (busy, idle) else None)) (PExplicit i))] else [])).
Proof. exact lifecycle_points. Qed.
Print Assumptions C14_lifecycle_points.

Theorem C14_lifecycle_record_content : forall c o en st i s msg t,
  find_span i (spans st) = Some s ->
  In (bs "message", JStr (bs msg)) (event_fields (life_event s msg t)) /\
  (o_cur o = true -> In (bs "span", span_obj s) (event_entries c o en st (life_event s msg t) (PExplicit i))) /\
  (o_level o = true -> In (bs "level", JStr (level_text (sm_level (sp_meta s)))) (event_entries c o en st (life_event s msg t) (PExplicit i))) /\
  (o_target o = true -> In (bs "target", JStr (sm_target (sp_meta s))) (event_entries c o en st (life_event s msg t) (PExplicit i))).
Proof. exact lifecycle_record_content. Qed.
Print Assumptions C14_lifecycle_record_content.

Theorem C14_lifecycle_fields_ok : forall o s msg t, event_ok o (life_event s msg t).
Proof. exact life_event_ok. Qed.
Print Assumptions C14_lifecycle_fields_ok.

(** ** "In any number of steps" when the steps OVERLAP: concurrent `record` calls on one span.  fmt_subscriber.rs on_record as
    micro-steps (acquire the extensions write lock - read the stored object - format (user Debug / Display impls run here) -
    store - release), any number of threads, each with any list of calls, EVERY schedule (Common/Sched.v).  [repo_atomic] is
    read off on_record's source on every run (the write lock is taken before the stored fields are read and held until
    add_fields has stored the merged text); these statements do not compile on a tree where it is not. *)
Theorem C14_concurrent_records_serializable : forall lg m0 progs sched,
  let s := crun (repo_cfg_of lg) repo_atomic m0 progs sched in
  c_stored s = serial (repo_cfg_of lg) m0 (c_log s) /\
  (forall t th, nth_error (c_threads s) t = Some th ->
     log_of t (c_log s) = th_done th /\ nth_error progs t = Some (th_done th ++ th_todo th)).
Proof. intros lg m0 progs sched. exact (serializable (repo_cfg_of lg) m0 progs sched). Qed.
Print Assumptions C14_concurrent_records_serializable.

Theorem C14_concurrent_records_all_kept : forall lg m0 progs sched,
  let s := crun (repo_cfg_of lg) repo_atomic m0 progs sched in
  finished s ->
  c_stored s = serial (repo_cfg_of lg) m0 (c_log s) /\ forall t p, nth_error progs t = Some p -> log_of t (c_log s) = p.
Proof. intros lg m0 progs sched. exact (serializable_finished (repo_cfg_of lg) m0 progs sched). Qed.
Print Assumptions C14_concurrent_records_all_kept.

(** no recorded field is lost, whatever the interleaving: the key of every write of every stored call is present afterwards
    and holds the value of the last write to it in the serial order *)
Theorem C14_concurrent_no_lost_field : forall lg m0 progs sched t vals n v,
  let s := crun (repo_cfg_of lg) repo_atomic m0 progs sched in
  In (t, vals) (c_log s) -> In (n, v) (eff (repo_cfg_of lg) vals) ->
  lookup (span_key n v) (c_stored s) =
    last_write (span_key n v) (concat (map (fun e => eff (repo_cfg_of lg) (snd e)) (c_log s))) (lookup (span_key n v) m0) /\
  exists j, lookup (span_key n v) (c_stored s) = Some j.
Proof. intros lg m0 progs sched t vals n v. exact (no_lost_field (repo_cfg_of lg) m0 progs sched t vals n v eq_refl). Qed.
Print Assumptions C14_concurrent_no_lost_field.

(** two threads: the object left behind is one of the serial outcomes (an executable list: one per order-preserving merge) *)
Theorem C14_race_outcome : forall lg m0 p1 p2 sched,
  let s := crun (repo_cfg_of lg) repo_atomic m0 [p1; p2] sched in
  finished s -> In (c_stored s) (race_outcomes (repo_cfg_of lg) m0 p1 p2).
Proof. intros lg m0 p1 p2 sched. exact (race_outcome (repo_cfg_of lg) m0 p1 p2 sched). Qed.
Print Assumptions C14_race_outcome.

(** the variant without the lock (a private snapshot, the lock taken only to store) loses an update under a concrete
    two-thread schedule — the locked machine keeps both fields under the same schedule *)
Theorem C14_lost_update_without_lock : forall c,
  let p1 := [[([97], VU64 1)]] in
  let p2 := [[([98], VU64 2)]] in
  let s := crun c false [] [p1; p2] lost_update_sched in
  finished s /\ lookup [97] (c_stored s) = None /\ lookup [98] (c_stored s) = Some (JInt 2%Z) /\
  ~ In (c_stored s) (race_outcomes c [] p1 p2).
Proof. exact lost_update. Qed.
Print Assumptions C14_lost_update_without_lock.

(** ** 128-bit integer fields (u128 / i128): written as a JSON string whose content is exactly the decimal numeral of the
    value ('-' first for negatives), identically in event fields and in span fields (at creation and in later records: span
    fields all go through [span_value]); the strict parser reads the token back as that string and the numeral denotes
    exactly the recorded value — for every u128 / i128 (the range hypothesis is not even needed).  The switches
    [serde_u128_native] / [serde_i128_native] are read off tracing-serde's source on every run: if SerdeMapVisitor starts
    handing 128-bit values to the serializer as numbers these theorems stop compiling (seeded change C14-I). *)
Theorem C14_wide_integer_unsigned : forall n rest, n < 2 ^ 128 ->
  event_value (VU128 n) = span_value (VU128 n) /\
  exists s, parse_value 1 (render (event_value (VU128 n)) ++ rest) = Some (JStr s, rest) /\ numeral_Z s = Z.of_N n.
Proof. exact wide_unsigned_faithful. Qed.
Print Assumptions C14_wide_integer_unsigned.

Theorem C14_wide_integer_signed : forall z rest, (- 2 ^ 127 <= z < 2 ^ 127)%Z ->
  event_value (VI128 z) = span_value (VI128 z) /\
  exists s, parse_value 1 (render (event_value (VI128 z)) ++ rest) = Some (JStr s, rest) /\ numeral_Z s = z.
Proof. exact wide_signed_faithful. Qed.
Print Assumptions C14_wide_integer_signed.

Theorem C14_wide_integer_is_its_numeral :
  (forall n, event_value (VU128 n) = JStr (dec_N n) /\ span_value (VU128 n) = JStr (dec_N n) /\ numeral_Z (dec_N n) = Z.of_N n) /\
  (forall z, event_value (VI128 z) = JStr (dec_Z z) /\ span_value (VI128 z) = JStr (dec_Z z) /\ numeral_Z (dec_Z z) = z).
Proof.
  split; intro x; (split; [apply wide_event_value | split; [apply wide_span_value |]]);
    [apply numeral_dec_N | apply numeral_dec_Z].
Qed.
Print Assumptions C14_wide_integer_is_its_numeral.

(** non-vacuity: i128::MIN as an event field is the 40-byte string "-170141183460469231731687303715884105728" *)
Example C14_wide_integer_example :
  render (event_value (VI128 (- 2 ^ 127))) =
    34 :: 45 :: map (fun d => 48 + d) [1;7;0;1;4;1;1;8;3;4;6;0;4;6;9;2;3;1;7;3;1;6;8;7;3;0;3;7;1;5;8;8;4;1;0;5;7;2;8] ++ [34] /\
  (- 2 ^ 127 <= - 2 ^ 127 < 2 ^ 127)%Z.
Proof. split; [vm_compute; reflexivity | split; [apply Z.le_refl | reflexivity]]. Qed.

(** a bare number instead (what a native serde 128-bit override prints): 2^127 + 1 has 39 digits; a binary64 reader
    ([b64_of_N]: round to nearest, ties to even) holds 2^127, not the recorded value *)
Theorem C14_bare_wide_number_refuted :
  let n := 2 ^ 127 + 1 in
  n < 2 ^ 128 /\ render (JInt (Z.of_N n)) = dec_N n /\ length (dec_N n) = 39%nat /\
  b64_of_N n = 2 ^ 127 /\ b64_of_N n <> n /\ numeral_Z (dec_N n) = Z.of_N n /\
  b64_of_N (2 ^ 53) = 2 ^ 53 /\ b64_of_N (2 ^ 53 + 1) = 2 ^ 53.
Proof. exact bare_wide_number_lossy. Qed.
Print Assumptions C14_bare_wide_number_refuted.

(** ** The model has the shape the translator reads off the source (key order, trailing newline, which Visit methods the
    two visitors override, where `r#` is stripped, root-first iteration); nothing was unrecognised. *)
Theorem C14_model_matches_source :
  gen_json_unrecognised = [] /\
  gen_event_keys = model_event_keys /\ gen_span_keys = model_span_keys /\
  gen_trailing_newline = true /\ gen_span_list_from_root = true /\
  gen_jsonvisitor_methods = model_jsonvisitor_methods /\
  gen_jsonvisitor_strip_raw = model_jsonvisitor_strip_raw /\
  gen_serdemap_methods = model_serdemap_methods /\
  gen_jsonvisitor_log_skip = model_jsonvisitor_log_skip /\
  gen_lifecycle = model_lifecycle /\ gen_lifecycle_parent_is_span = true /\ gen_timing_off_without_time = true /\
  gen_metadata_normalised_under_log = true.
Proof. exact gen_matches_model. Qed.
Print Assumptions C14_model_matches_source.

(** [render_string]'s escaping is serde_json's own ESCAPE table (of the version in the lock file, read from the cargo
    registry on every run) on every byte value: the theorems about [render] are about the text serde_json writes *)
Theorem C14_escape_table : forall b, b < 256 -> escape_byte b = escape_from_table gen_escape_table b.
Proof. exact escape_table_matches. Qed.
Print Assumptions C14_escape_table.
