(** C13 — fmt writes one complete record per event, to exactly the selected writers.
    Statements only; proofs live in Fmt/{BufferProofs,WriterProofs,RecordProofs}.v.

    The buffer model is parametric in where [on_event] clears its thread-local buffer
    ([policy]: [ClearAfterOnly] = tracing-subscriber while finding F9 is open, [ClearBefore] /
    [ClearGuard] = the two repairs).  Which one the tree under check has is read from the source on
    every run (translators/fmtbuf.py -> TVGen.Gen_fmtbuf.clear_policy, used by Fmt/RecordEval.v for the
    correspondence); the theorems below hold for every policy, with the hypothesis [NoAbortedFormat]
    needed exactly for [ClearAfterOnly]. *)
From Coq Require Import String.
From TV Require Import Fmt.RecordModel Fmt.BufferProofs Fmt.WriterProofs Fmt.RecordProofs.
From TVGen Require Gen_fmtbuf.
Local Open Scope N_scope.

(** (a) For every history of events reaching the layer on a thread (nested ones included), the calls on
    the configured writer are: per event one [make_writer_for] with its metadata, then one [write_all]
    with exactly its record.  [A] = buffer element type, [M] = metadata type.  [unw]: which writes do
    not return because a sink panicked — arbitrary; what a write RETURNS ([Ok] / an [io::Error]) is not even
    an input of the protocol, the code ignores it (translators/fmtbuf.py checks that on every run). *)
Theorem C13_one_factory_one_write : forall (A M : Type) (unw : M -> list A -> bool) (c : cfg) (es : list (event A M)),
  (pol c = ClearAfterOnly -> NoAbortedFormat unw (lie c) es) ->
  snd (run_thread unw c [] es) = spec_actions (flat_map (records (lie c)) es).
Proof. exact one_factory_one_write. Qed.
Print Assumptions C13_one_factory_one_write.

(** ... seen from the recording sinks, through any writer expression Rust accepts: one factory call +
    one whole-record write per routed record, on exactly the denoted sinks. *)
Theorem C13_sinks_see_one_factory_one_write : forall (M : Type) (pm : M -> meta) (c : cfg) (w : wexp) (es : list (event N M)),
  well_typed w = true ->
  (pol c = ClearAfterOnly -> NoAbortedFormat no_unwind (lie c) es) ->
  distribute pm w (snd (run_thread no_unwind c [] es)) = sink_spec pm w (flat_map (records (lie c)) es).
Proof. exact sinks_see_one_factory_one_write. Qed.
Print Assumptions C13_sinks_see_one_factory_one_write.

(** After the repair (either form) the hypothesis is gone: a caught panic during formatting affects no
    later record. *)
Theorem C13_panic_safe_when_repaired : forall (A M : Type) (unw : M -> list A -> bool) (c : cfg) (es : list (event A M)),
  pol c <> ClearAfterOnly ->
  snd (run_thread unw c [] es) = spec_actions (flat_map (records (lie c)) es).
Proof. exact panic_safe_when_repaired. Qed.
Print Assumptions C13_panic_safe_when_repaired.

(** The statement for the tree under check, whichever policy the translator found in it. *)
Theorem C13_one_factory_one_write_current_tree : forall (A M : Type) (unw : M -> list A -> bool) (l : bool) (es : list (event A M)),
  (Gen_fmtbuf.clear_policy = ClearAfterOnly -> NoAbortedFormat unw l es) ->
  snd (run_thread unw (Cfg Gen_fmtbuf.clear_policy l) [] es) = spec_actions (flat_map (records l) es).
Proof. intros A M unw l es H. exact (one_factory_one_write A M unw (Cfg Gen_fmtbuf.clear_policy l) es H). Qed.
Print Assumptions C13_one_factory_one_write_current_tree.

(** Known finding F9: with [ClearAfterOnly] the hypothesis is necessary.  info!(a=1); a caught panic in
    info!(x=7, b=?PanickingDebug); info!(c=3): the third write starts with the second record's prefix. *)
Theorem C13_F9_refuted :
  ~ NoAbortedFormat no_unwind true f9_history /\
  snd (run_thread no_unwind (Cfg ClearAfterOnly true) [] f9_history)
    = [AMake 1; AWrite 1 [105; 49; 10]; AMake 3; AWrite 3 [120; 55; 98; 61; 99; 51; 10]] /\
  snd (run_thread no_unwind (Cfg ClearAfterOnly true) [] f9_history) <> spec_actions (flat_map (records true) f9_history).
Proof. exact F9_refuted. Qed.
Print Assumptions C13_F9_refuted.

(** (a') Every thread count, every program per thread, every schedule of the micro-steps
    "format into own buffer" / "make_writer_for" / "write": each thread's part of the global call log is
    a prefix of what it emits when run alone (all of it once finished) — the log is an interleaving of
    whole calls ... *)
Theorem C13_no_interleave : forall (A M : Type) (unw : M -> list A -> bool) (c : cfg) (progs : list (list (event A M))) (sched : list nat) (t : nat) (es : list (event A M)),
  nth_error progs t = Some es ->
  let g := run_sched unw c sched (init progs) in
  exists s, nth_error (fst g) t = Some s
         /\ proj t (snd g) ++ remaining unw c s = snd (run_thread unw c [] es)
         /\ (finished s = true -> proj t (snd g) = snd (run_thread unw c [] es)).
Proof. exact no_interleave. Qed.
Print Assumptions C13_no_interleave.

(** ... and every single write in it carries exactly one whole record of the writing thread. *)
Theorem C13_every_write_is_a_whole_record : forall (A M : Type) (unw : M -> list A -> bool) (c : cfg) (progs : list (list (event A M))) (sched : list nat) (t : nat) (es : list (event A M)) (m : M) (b : list A),
  nth_error progs t = Some es ->
  (pol c = ClearAfterOnly -> NoAbortedFormat unw (lie c) es) ->
  In (t, AWrite m b) (snd (run_sched unw c sched (init progs))) ->
  In (m, b) (flat_map (records (lie c)) es).
Proof. exact every_write_is_a_whole_record. Qed.
Print Assumptions C13_every_write_is_a_whole_record.

(** (b) Routing: for every writer expression (any depth) and every metadata, the sinks the code writes
    to are the sinks the documentation denotes, in order and multiplicity; likewise [make_writer()]
    without metadata (level bounds select nothing, predicates are not consulted). *)
Theorem C13_routing : forall w m, route w m = denote w m.
Proof. exact routing. Qed.
Print Assumptions C13_routing.

Theorem C13_routing_without_metadata : forall w, route0 w = denote0 w.
Proof. exact routing0. Qed.
Print Assumptions C13_routing_without_metadata.

Theorem C13_factory_asked_iff_written : forall w m, well_typed w = true -> asked w m = route w m.
Proof. exact asked_is_route. Qed.
Print Assumptions C13_factory_asked_iff_written.

Theorem C13_level_bounds_are_level_sets : forall l i m,
  (In i (route (WMax l (WSink i)) m) <-> m_level m <= l) /\ (In i (route (WMin l (WSink i)) m) <-> l <= m_level m).
Proof. intros. split; [apply max_level_set | apply min_level_set]. Qed.
Print Assumptions C13_level_bounds_are_level_sets.

Theorem C13_orelse_selects_anything : forall a b m, gate_exact a = true ->
  route (WOrElse a b) m = match route a m with [] => route b m | l => l end.
Proof. exact orelse_selects_anything. Qed.
Print Assumptions C13_orelse_selects_anything.

(** Span lifecycle points ([with_span_events]) are emissions like any other: each configured point reaches
    [on_event] exactly once with the span's own metadata and scope, an unconfigured one never. *)
Theorem C13_lifecycle_reaches_on_event : forall sc timing k m scope,
  (lifecycle_on sc k = true -> exists fl, expand sc timing (OpSpan k m scope) = [Em m scope fl])
  /\ (lifecycle_on sc k = false -> expand sc timing (OpSpan k m scope) = []).
Proof. intros. split; [apply lifecycle_reaches_on_event | apply lifecycle_off_is_silent]. Qed.
Print Assumptions C13_lifecycle_reaches_on_event.

(** The whole pipeline of one thread (events and lifecycle points -> Full/Compact text -> buffer protocol
    -> writer expression): what each recording sink receives. *)
Theorem C13_thread_sinks : forall c f o sc w th ops,
  well_typed w = true ->
  (pol c = ClearAfterOnly -> NoAbortedFormat no_unwind (lie c) (thread_events f o sc th ops)) ->
  thread_sink_log c f o sc w th ops
  = sink_spec meta_of w (flat_map (records (lie c)) (thread_events f o sc th ops)).
Proof. exact thread_sinks. Qed.
Print Assumptions C13_thread_sinks.

(** (c) Record content.  Full, Compact and Pretty are modelled byte for byte (Fmt/RecordModel.v) for EVERY
    combination of the options the model has: timer on/off (one opaque "TIME" token), level, thread name, thread id,
    target, file, line number, span events new/enter/exit/close (lifecycle records), any scope depth, any number of
    fields, span fields given at creation and recorded later.  Outside the byte model (RecordModel.v header): ANSI
    escapes ([with_ansi(true)]; stripped by the driver before comparison), real timers, [with_source_location(false)],
    the tracing-log normalisation, custom [FormatFields] / [FormatEvent], thread names of different widths.
    The event's scope (C06) and the [Debug] / [Display] text of the values are inputs.
    JSON is not re-proved here: the clauses are C14's theorems over Fmt/Json*.v — one line [C14_single_line],
    [C14_run_lines_parse]; level [C14_lifecycle_record_content] / the [level] entry of [event_entries]; every event field
    with its value [C14_fields_faithful_event], [C14_fields_nested], [C14_fields_flat]; spans root -> leaf with their fields
    [C14_span_list], [C14_span_is_scope_leaf], [C14_scope_root_to_leaf], [C14_fields_faithful_span]; one record per event
    [C14_event_writes_one_record].

    Full / Compact: a completed record IS the concatenation of the renderings of the specified tokens ... *)
Theorem C13_content_full_compact : forall f o th m sc fl fs, ok_fields fl = Some fs ->
  format_event f o th (Em m sc fl) = OOk (concat (map (render_tok f) (tokens_spec f o th m sc fs))).
Proof. exact content_tokens. Qed.
Print Assumptions C13_content_full_compact.

(** ... which name the level, every span in scope root -> leaf with its fields (Compact, as documented: only the
    fields), every event field with its value in order, and end with the one newline token. *)
Theorem C13_record_names_everything_full_compact : forall f o th m sc fs,
  let toks := tokens_spec f o th m sc fs in
  (o_level o = true -> In (TLevel (e_level m)) toks)
  /\ filter is_span_tok toks = match f with
                               | Full => map (fun s => TSpan (s_name s) (span_fields s)) sc
                               | Compact => span_toks_compact sc
                               end
  /\ filter is_field_tok toks = field_toks true fs
  /\ exists pre, toks = pre ++ [TNewline] /\ ~ In TNewline pre.
Proof. exact tokens_name_everything. Qed.
Print Assumptions C13_record_names_everything_full_compact.

(** "with its fields": a span's formatted fields name every field given at creation, then every field recorded
    later, in order ([groups_ftoks]: one token per field; [s_groups]: the creation group, then one group per
    [record] call) — DefaultFields (Full / Compact) and Pretty's field formatter. *)
Theorem C13_span_fields_name_every_field : forall s,
  (span_fields s = concat (map render_ftok (groups_ftoks [] (s_groups s)))
   /\ ftok_fields (groups_ftoks [] (s_groups s)) = concat (s_groups s))
  /\ (p_span_fields s = concat (map render_pftok (p_groups_ftoks [] (s_groups s)))
      /\ pftok_fields (p_groups_ftoks [] (s_groups s)) = concat (s_groups s)).
Proof. intros s. split; [apply span_fields_names_every_field | apply pretty_span_fields_names_every_field]. Qed.
Print Assumptions C13_span_fields_name_every_field.

(** ... also when several threads [record] on the same span at overlapping times: [on_record] holds the span's
    extensions write lock across its read - append - store (read from the source on every run), so for EVERY number of
    threads and EVERY schedule the stored fields are the groups of the calls that have returned, appended in the order
    they returned — no recorded field is lost ([add]: any field formatter's [add_fields]).  The read-copy-replace form
    loses an update ([C13_record_lost_update_refuted]).  JSON's stored fields (merge, last write wins on re-record) are
    C14's: [C14_concurrent_no_lost_field], [C14_last_write_spec], [C14_history_fields]. *)
Theorem C13_concurrent_records_keep_every_field : forall add gs init sched,
  let s := rec_run true add gs init sched in
  r_stored s = fold_left add (map gs (r_done s)) init /\ NoDup (r_done s).
Proof. exact record_atomic_keeps_every_group. Qed.
Print Assumptions C13_concurrent_records_keep_every_field.

Theorem C13_concurrent_records_name_every_field : forall gs init sched,
  let s := rec_run true add_group gs init sched in
  r_stored s = init ++ concat (map render_ftok (groups_ftoks init (map gs (r_done s))))
  /\ ftok_fields (groups_ftoks init (map gs (r_done s))) = concat (map gs (r_done s)).
Proof. exact record_atomic_names_every_field. Qed.
Print Assumptions C13_concurrent_records_name_every_field.

Theorem C13_on_record_atomic_in_tree : Gen_fmtbuf.on_record_atomic = true.
Proof. reflexivity. Qed.
Print Assumptions C13_on_record_atomic_in_tree.

Theorem C13_record_lost_update_refuted :
  let gs := fun t => match t with O => [(str "a", str "1")] | _ => [(str "b", str "2")] end in
  r_stored (rec_run false add_group gs [] [0; 1; 0; 1]%nat) = str "b=2"
  /\ r_done (rec_run false add_group gs [] [0; 1; 0; 1]%nat) = [0; 1]%nat
  /\ r_stored (rec_run true add_group gs [] [0; 1; 0; 1]%nat) = str "a=1 b=2".
Proof. exact record_lost_update_without_lock. Qed.
Print Assumptions C13_record_lost_update_refuted.

(** Exactly one line (the property names full, compact and JSON for this clause): no input text with a raw newline
    (the property's exclusion) -> the record is [body ++ "\n"] with no newline in [body]. *)
Theorem C13_single_line_full_compact : forall f o th m sc fl fs, ok_fields fl = Some fs ->
  inputs_nl_free th m sc fs = true ->
  exists body, format_event f o th (Em m sc fl) = OOk (body ++ [10]) /\ has10 body = false.
Proof. exact single_line. Qed.
Print Assumptions C13_single_line_full_compact.

(** A configured span lifecycle point is the record of an event called "new" / "enter" / "exit" / "close" (with the two
    durations when a timer is configured), in the span's own scope, with the span's metadata — all three formats. *)
Theorem C13_lifecycle_record_content : forall o th sc timing k m scope, lifecycle_on sc k = true ->
  (forall f, exists em, expand sc timing (OpSpan k m scope) = [em]
     /\ format_event f o th em = OOk (concat (map (render_tok f) (tokens_spec f o th m scope (lifecycle_fields k timing)))))
  /\ (exists em, expand sc timing (OpSpan k m scope) = [em]
     /\ format_event_pretty o th em = OOk (concat (map render_ptok (ptokens_spec o th m scope (lifecycle_fields k timing))))).
Proof.
  intros. split; [intros f; apply lifecycle_record_content; assumption | apply pretty_lifecycle_record_content; assumption].
Qed.
Print Assumptions C13_lifecycle_record_content.

(** Pretty (multi-line by design; the one-line clause does not name it): a completed record IS the concatenation of the
    renderings of its tokens ... *)
Theorem C13_content_pretty : forall o th m sc fl fs, ok_fields fl = Some fs ->
  format_event_pretty o th (Em m sc fl) = OOk (concat (map render_ptok (ptokens_spec o th m sc fs))).
Proof. exact pretty_content_tokens. Qed.
Print Assumptions C13_content_pretty.

(** ... which name the level, every span of the scope INNERMOST FIRST (Pretty's nesting order) each with its fields, every
    event field with its value in order; the record starts with the indent and ends with the blank line. *)
Theorem C13_record_names_everything_pretty : forall o th m sc fs,
  let toks := ptokens_spec o th m sc fs in
  (o_level o = true -> In (PLevel (e_level m)) toks)
  /\ filter is_pspan_tok toks = map (pspan_tok o) (rev sc)
  /\ filter is_pfield_tok toks = pfield_toks true fs
  /\ exists mid, toks = PStart :: mid ++ [PEnd] /\ ~ In PEnd mid.
Proof. exact pretty_names_everything. Qed.
Print Assumptions C13_record_names_everything_pretty.

(** Which spans Pretty walks: the event's own scope (explicit parent first, none for an explicit root, else the current
    span) like every other formatter — EXCEPT, while the tree has Pretty's own lookup (finding F131), for an explicit
    root: [Event::parent()] is [None] for it, the lookup falls back to the thread's current span and the record names spans
    the event is explicitly not in.  The flag is read from pretty.rs on every run; the hypothesis disappears with it. *)
Theorem C13_pretty_walks_the_event_scope : forall is_root ev cur,
  (Gen_fmtbuf.pretty_root_falls_back = true -> is_root = false) ->
  pretty_scope Gen_fmtbuf.pretty_root_falls_back is_root ev cur = ev.
Proof. intros. apply pretty_scope_is_event_scope. assumption. Qed.
Print Assumptions C13_pretty_walks_the_event_scope.

Theorem C13_F131_refuted :
  let cur := [Span (str "req") [[(str "id", str "7")]] (str "app") false] in
  pretty_scope true true [] cur = cur
  /\ format_event_pretty (Opts false true false false false false false) (Thr [] [])
       (Em (EMeta 3 (str "app") (str "event e") None None false None) (pretty_scope true true [] cur) (FOk (str "message") (str "root event") FNil))
     = OOk (str "   INFO  root event" ++ [10] ++ str "    in req with id: 7" ++ [10; 10])
  /\ format_event_pretty (Opts false true false false false false false) (Thr [] [])
       (Em (EMeta 3 (str "app") (str "event e") None None false None) (pretty_scope false true [] cur) (FOk (str "message") (str "root event") FNil))
     = OOk (str "   INFO  root event" ++ [10; 10]).
Proof. exact pretty_root_fallback_refuted. Qed.
Print Assumptions C13_F131_refuted.

Theorem C13_translator_recognised_everything : Gen_fmtbuf.gen_unrecognised = [].
Proof. reflexivity. Qed.
Print Assumptions C13_translator_recognised_everything.

(** ---- appended by fixes/F9.flip.py after the F9 repair was committed to /repo ----
    The tree clears the buffer before formatting (or in a drop guard): the statement for the tree under
    check needs no hypothesis on the history — a caught panic during formatting affects no later record.
    (This compiles only when translators/fmtbuf.py finds a repaired policy in fmt_subscriber.rs.) *)
Theorem C13_one_factory_one_write_no_hypothesis : forall (A M : Type) (unw : M -> list A -> bool) (l : bool) (es : list (event A M)),
  snd (run_thread unw (Cfg Gen_fmtbuf.clear_policy l) [] es) = spec_actions (flat_map (records l) es).
Proof. intros A M unw l es. apply panic_safe_when_repaired. vm_compute. discriminate. Qed.
Print Assumptions C13_one_factory_one_write_no_hypothesis.

Theorem C13_F9_history_is_a_regression_case :
  snd (run_thread no_unwind (Cfg Gen_fmtbuf.clear_policy true) [] f9_history)
    = [AMake 1; AWrite 1 [105; 49; 10]; AMake 3; AWrite 3 [99; 51; 10]].
Proof. apply F9_history_repaired. vm_compute. discriminate. Qed.
Print Assumptions C13_F9_history_is_a_regression_case.

(** ---- sink faults (a sink's [write] fails, accepts only a part, is interrupted, or panics) ----

    (b') Routing under faults.  For every writer expression, metadata, [io::Write] method ([leaf]: what the
    method does on one recording writer given its script) and fault plan: the recording writers that are
    CALLED are those of exactly the denoted sinks, in order, each with its own script and independently of
    the others' ([spec_calls]); which of the calls fail does not matter.  Only a panic (unwinding) cuts the
    walk short: then the sinks called are a prefix of the denotation. *)
Theorem C13_routing_with_faults : forall w m leaf plan,
  let run := tee_apply true leaf (fst (make_for w m)) plan 0%nat in
  fst (fst run) = spec_calls leaf plan 0%nat (denote w m)
  /\ snd (fst run) = spec_res leaf plan 0%nat (denote w m)
  /\ (snd (fst run) <> WUnwind -> map fst (fst (fst run)) = denote w m)
  /\ exists rest, denote w m = map fst (fst (fst run)) ++ rest.
Proof. exact routing_with_faults. Qed.
Print Assumptions C13_routing_with_faults.

Theorem C13_routing_without_metadata_with_faults : forall w leaf plan,
  let run := tee_apply true leaf (fst (make0 w)) plan 0%nat in
  fst (fst run) = spec_calls leaf plan 0%nat (denote0 w)
  /\ snd (fst run) = spec_res leaf plan 0%nat (denote0 w)
  /\ (snd (fst run) <> WUnwind -> map fst (fst (fst run)) = denote0 w).
Proof. exact routing0_with_faults. Qed.
Print Assumptions C13_routing_without_metadata_with_faults.

(** The tree under check has the [Tee] that theorem is about ([impl_tee!] runs both writers before it
    propagates an error): read from writer.rs on every run.  The one-line variant is a different writer:
    [tee_short_circuit_loses_the_record]. *)
Theorem C13_tee_runs_both_in_tree : Gen_fmtbuf.tee_runs_both = true.
Proof. reflexivity. Qed.
Print Assumptions C13_tee_runs_both_in_tree.

Theorem C13_tee_short_circuit_refuted :
  let x := fst (make_for (WTee (WSink 0) (WSink 1)) (Meta 3 [] [] false)) in
  let plan := planf [[RsFail]] in
  fst (fst (tee_apply true (leaf_of MWriteAll [65; 10]) x plan 0%nat))
    = [(0, [CWrite [65; 10] RsFail]); (1, [CWrite [65; 10] (RsAccept 2)])]
  /\ fst (fst (tee_apply false (leaf_of MWriteAll [65; 10]) x plan 0%nat))
    = [(0, [CWrite [65; 10] RsFail])]
  /\ snd (fst (tee_apply true (leaf_of MWriteAll [65; 10]) x plan 0%nat)) = WErr.
Proof. exact tee_short_circuit_loses_the_record. Qed.
Print Assumptions C13_tee_short_circuit_refuted.

(** A healthy sink next to failing ones receives the whole record in one [write]. *)
Theorem C13_healthy_sink_gets_the_whole_record : forall w m buf plan j i,
  buf <> [] ->
  nth_error (denote w m) j = Some i ->
  plan j = [] ->
  (forall j', ~ In RsPanic (plan j')) ->
  nth_error (fst (fst (tee_apply true (leaf_of MWriteAll buf) (fst (make_for w m)) plan 0%nat))) j
  = Some (i, [CWrite buf (RsAccept (blen buf))]).
Proof. exact healthy_sink_gets_the_whole_record. Qed.
Print Assumptions C13_healthy_sink_gets_the_whole_record.

(** "In a single write", when the sink accepts only a part (or is interrupted): fmt issues ONE [write_all];
    std's loop offers the sink the whole record first and afterwards exactly the suffix it has not accepted
    yet; when the loop returns [Ok] the accepted pieces, in call order, are the record. *)
Theorem C13_one_write_all_seen_from_the_sink : forall s buf,
  (Forall (fun c => exists pre, buf = pre ++ offered_of c) (fst (sink_write_all s buf))
   /\ (buf <> [] -> exists r rest, fst (sink_write_all s buf) = CWrite buf r :: rest))
  /\ (snd (sink_write_all s buf) = WOk -> concat (map accepted (fst (sink_write_all s buf))) = buf).
Proof. intros. split; [apply sink_write_all_offers | apply sink_write_all_delivers]. Qed.
Print Assumptions C13_one_write_all_seen_from_the_sink.

(** The whole pipeline under faults, seen from the sinks, for every history, fault plan and expression Rust
    accepts: per routed record, [make_writer_for(meta)] on every denoted sink, then on every denoted sink
    what ITS script makes of the whole record.  No hypothesis on the history for the code as repaired. *)
Theorem C13_sinks_see_faulty_writes : forall (M : Type) (pm : M -> meta) (c : cfg) (w : wexp) (es : list (event N (M * list script))),
  well_typed w = true ->
  (pol c = ClearAfterOnly -> NoAbortedFormat (unw_f true pm w) (lie c) es) ->
  distribute_f true pm w (snd (run_thread (unw_f true pm w) c [] es))
  = sink_spec_f pm w (flat_map (records (lie c)) es).
Proof. exact sinks_see_faulty_writes. Qed.
Print Assumptions C13_sinks_see_faulty_writes.

(** A failed write (or a panicking sink, or an aborted format) does not affect the next record: in the tree
    under check, the calls made for a suffix of a thread's history are those of a fresh thread. *)
Theorem C13_history_independent : forall (A M : Type) (unw : M -> list A -> bool) (l : bool) (es1 es2 : list (event A M)),
  snd (run_thread unw (Cfg Gen_fmtbuf.clear_policy l) [] (es1 ++ es2))
  = snd (run_thread unw (Cfg Gen_fmtbuf.clear_policy l) [] es1) ++ snd (run_thread unw (Cfg Gen_fmtbuf.clear_policy l) [] es2).
Proof. intros. apply history_independent. vm_compute. discriminate. Qed.
Print Assumptions C13_history_independent.

(** ... which the unrepaired code would not have had for a panicking sink either (F9's other face). *)
Theorem C13_sink_panic_would_leak_when_unrepaired :
  snd (run_thread unw2 (Cfg ClearAfterOnly true) [] sink_panic_history)
    = [AMake 1; AWrite 1 [1; 10]; AMake 2; AWrite 2 [2; 10]; AMake 3; AWrite 3 [2; 10; 3; 10]]
  /\ ~ NoAbortedFormat unw2 true sink_panic_history.
Proof. exact sink_panic_leaks_when_unrepaired. Qed.
Print Assumptions C13_sink_panic_would_leak_when_unrepaired.

(** ---- F132 (known, not repaired): a [Span::record] whose value's Debug impl panics (caught by the caller) poisons the
    span's extensions lock (std locks); every later event with that span in scope reaches the layer and is NOT written.
    The headline for the record of an event therefore carries the hypothesis "no record call unwound on a span of the
    event's scope" exactly while the tree's locks poison (flag read from the source: on_record runs the value's Debug under
    the extensions write guard, registry/sharded.rs unwraps the lock result). *)
Theorem C13_event_record_is_written : forall f o th m sc fl fs,
  (Gen_fmtbuf.record_unwind_poisons = true -> scope_poisoned sc = false) -> ok_fields fl = Some fs ->
  records true (gev_of (guarded Gen_fmtbuf.record_unwind_poisons (format_event f o th)) (Em m sc fl))
  = flat_map (records true) (gnested_of (guarded Gen_fmtbuf.record_unwind_poisons (format_event f o th)) fl)
    ++ [(m, concat (map (render_tok f) (tokens_spec f o th m sc fs)))].
Proof. intros. apply event_record_is_written; assumption. Qed.
Print Assumptions C13_event_record_is_written.

Theorem C13_F132_refuted :
  let sp := Span (str "sp") [[(str "a", str "1")]] (str "app") true in
  let m := EMeta 3 (str "app") (str "event e") None None false None in
  let o := Opts false true false false true false false in
  let em := Em m [sp] (FOk (str "message") (str "inside") FNil) in
  ok_fields (FOk (str "message") (str "inside") FNil) = Some [(str "message", str "inside")]
  /\ records true (gev_of (guarded true (format_event Full o (Thr [] [])) ) em) = []
  /\ records true (gev_of (guarded false (format_event Full o (Thr [] []))) em)
     = [(m, str " INFO sp{a=1}: app: inside" ++ [10])].
Proof. exact F132_witness. Qed.
Print Assumptions C13_F132_refuted.

(** ---- a timer that fails.  Every content theorem above already covers it: the timestamp token is [time_text m] =
    what the timer wrote ++ "<unknown time>" when the configured [FormatTime] returned [Err] for this emission
    ([e_time m = Some pre]) and the rest of the token list is unchanged ([C13_content_full_compact], [C13_content_pretty],
    [C13_lifecycle_record_content]).  What remains is that [format_event] does not bail: read from format_timestamp on
    every run.  The [?] form (seeded C13-H) drops the record: [C13_timer_bail_refuted]. *)
Theorem C13_failing_timer_keeps_the_record : forall timer_on fe em,
  time_guard Gen_fmtbuf.timer_fallback timer_on fe em = fe em.
Proof. exact (time_guard_fallback). Qed.
Print Assumptions C13_failing_timer_keeps_the_record.

Theorem C13_failing_timer_token : forall f o th m sc fs pre, o_timer o = true -> e_time m = Some pre ->
  exists rest, tokens_spec f o th m sc fs = TTimer (pre ++ str "<unknown time>") :: rest.
Proof. exact timer_token_when_failing. Qed.
Print Assumptions C13_failing_timer_token.

Theorem C13_timer_bail_refuted :
  let o := Opts true true false false true false false in
  let m := EMeta 3 (str "app") (str "event e") None None false (Some (str "12:")) in
  let em := Em m [] (FOk (str "message") (str "hello") FNil) in
  format_event Full o (Thr [] []) em = OOk (str "12:<unknown time>  INFO app: hello" ++ [10])
  /\ format_event_pretty o (Thr [] []) em = OOk (str "  12:<unknown time>  INFO app: hello" ++ [10; 10])
  /\ time_guard true true (format_event Full o (Thr [] [])) em = format_event Full o (Thr [] []) em
  /\ time_guard false true (format_event Full o (Thr [] [])) em = OErr (str "12:") (errline m)
  /\ records false (gev_of (time_guard false true (format_event Full o (Thr [] []))) em) = [].
Proof. exact timer_failure_example. Qed.
Print Assumptions C13_timer_bail_refuted.

(** ---- span events reconfigured at run time ([reload::Handle::modify(|s| s.set_span_events(..))] / [Handle::reload] on a fmt
    subscriber behind [reload::Subscriber]).  For EVERY history of events, span creations / enters / exits / closes and
    reconfigurations, from every state (whatever spans already carry [Timings]): each lifecycle point that is configured AT
    THE MOMENT IT HAPPENS reaches [on_event] as exactly one emission with the span's metadata and scope, named after the
    point; one that is not configured then, none; an event itself; a reconfiguration nothing.  In particular the [close]
    record does not depend on whether the span carries [Timings] (stored at creation only when CLOSE was configured
    then): the extension decides the two duration fields, nothing else. *)
Theorem C13_reconf_each_configured_point_one_record : forall timing ops st,
  Forall2 (fun scx ems => point_spec (fst scx) (snd scx) ems)
          (combine (cfgs_at (r_cfg st) ops) ops) (rtrace false timing st ops).
Proof. exact reconf_each_point_one_record. Qed.
Print Assumptions C13_reconf_each_configured_point_one_record.

Theorem C13_reconf_close_record_with_or_without_timings : forall timing st id m scope, sc_close (r_cfg st) = true ->
  fst (rstep false timing st (RClose id m scope)) = [Em m scope (close_flds (has_timings st id))].
Proof. exact reconf_close_record. Qed.
Print Assumptions C13_reconf_close_record_with_or_without_timings.

Theorem C13_reconf_timings_decided_at_creation : forall gated timing st id m scope,
  has_timings (snd (rstep gated timing st (RNew id m scope))) id = (timing && sc_close (r_cfg st) || has_timings st id)%bool.
Proof. exact reconf_timings_at_creation. Qed.
Print Assumptions C13_reconf_timings_decided_at_creation.

(** the tree under check has the shape the theorem is about (read from on_close on every run; does not compile on seeded C13-J) *)
Theorem C13_close_not_timing_gated_in_tree : Gen_fmtbuf.close_timing_gated = false.
Proof. reflexivity. Qed.
Print Assumptions C13_close_not_timing_gated_in_tree.

(** the gated shape ([if fmt_timing { if let Some(timing) = .. { timed record } } else { plain record }], seeded C13-J)
    loses the configured close record of a span created before CLOSE was switched on *)
Theorem C13_close_timing_gated_refuted : forall m s0 s1,
  rexpand false true (SpanCfg false false false false) (reconf_history m s0 s1)
    = [Em m [s0; s1] (close_flds true); Em m [s0] (close_flds false)]
  /\ rexpand true true (SpanCfg false false false false) (reconf_history m s0 s1)
    = [Em m [s0; s1] (close_flds true)].
Proof. exact reconf_gated_witness. Qed.
Print Assumptions C13_close_timing_gated_refuted.
