(** C09 — Every layer sees every notification exactly once; wrappers are transparent.
    Statements only; proofs live in Forwarding/Proofs*.v.

    [gen_tables] is decoded from TVGen.Gen_forwarding, which translators/forwarding.py regenerates from the Rust source on
    every run: one row per (implementor, trait method) of Box / Arc / Option / Vec / reload / Identity / Layered (as a
    collector and as a subscriber) / Dispatch, plus the default bodies of the three traits.  The semantics of every object
    below ([coll_obj], [sub_obj], [dispatch_sem], [run_case]) is *defined from these rows*, so each theorem is about the
    code as it is in the repository under check.  Stacks ([coll]) are arbitrary trees: any number of layers, `and_then`
    pairs, Vecs, wrappers, `None`, Identity, filter probes, on a root that is a recording collector or the `Registry`
    ([b_registry]: it records nothing, answers always / true / no hint; whether `try_close` closes is an oracle, C05);
    workloads ([list op]) are arbitrary.  `Layered`'s three private flags are computed from the built stack
    ([flags_of_root]: `inner_is_registry` and `inner_has_subscriber_filter` hold exactly for the `Layered` whose inner value is
    the `Registry` itself; `has_subscriber_filter` is false throughout).  [root_ents] is what the root records of a call
    (nothing for a `Registry`).  Out of scope: per-layer filters (`Filtered`, C07), covered by the harness differentially. *)
From TV Require Import Forwarding.Model Forwarding.Expected Forwarding.Spec Forwarding.Proofs.
From TV Require Import Forwarding.ReloadConc Forwarding.ProofsReloadConc.
From Coq Require Import Permutation.
Local Open Scope N_scope.

(** ** The generated table: one obligation per (wrapper, trait, method) *)
(** Every row has the class the hand-written expected column demands (forwarding rows forward, `None` arms answer
    always / true / OFF, defaults are what the model mirrors, nothing was left unrecognised, no unknown method or implementor). *)
Theorem C09_table_transparent : table_ok = true.
Proof. exact table_transparent. Qed.
Print Assumptions C09_table_transparent.

(** ** Exactly once, inner before outer (any stack, any arguments) *)
(** record, follows-from, event, enter, exit: the root collector, then each layer once, inner layers before outer ones. *)
Theorem C09_once_inner_first : forall c mc ms a, In (mc, ms) notif_pairs ->
  call (coll_obj gen_tables c) mc a = (root_ents c mc a ++ ents ms a (coll_recv false ms c), RUnit).
Proof. exact once_inner_first. Qed.
Print Assumptions C09_once_inner_first.

Example C09_once_inner_first_nonvacuous :
  let c := CLayered (SLeaf 3 unhinted) (CLayered (SPair (SLeaf 2 unhinted) (SWrap SwBox (SLeaf 1 unhinted))) (CLeaf 0 unhinted)) in
  In (event, on_event) notif_pairs /\
  fst (call (coll_obj gen_tables c) event (2, 0, 0)) = [(0, event, (2,0,0)); (1, on_event, (2,0,0)); (2, on_event, (2,0,0)); (3, on_event, (2,0,0))].
Proof. split; [cbn; tauto|vm_compute; reflexivity]. Qed.

(** new span: the root hands out the id; every layer then sees `on_new_span` with that id. *)
Theorem C09_once_new_span : forall c a,
  call (coll_obj gen_tables c) new_span a =
    (root_ents c new_span a ++ ents on_new_span (a_cs a, a_id a, 0) (coll_recv false on_new_span c), RId (a_id a)).
Proof. exact once_new_span. Qed.
Print Assumptions C09_once_new_span.

(** close: the layers hear `on_close` (each once, inner first) iff the root collector says the span closed. *)
Theorem C09_once_close : forall c a,
  call (coll_obj gen_tables c) try_close a =
    if b_close (root_beh c) (a_id a)
    then (root_ents c try_close a ++ ents on_close a (coll_recv false on_close c), RBool true)
    else (root_ents c try_close a, RBool false).
Proof. exact once_close. Qed.
Print Assumptions C09_once_close.

(** id change: the layers hear `on_id_change` iff `clone_span` of the root returned a different id. *)
Theorem C09_once_id_change : forall c a,
  call (coll_obj gen_tables c) clone_span a =
    let nw := r_clone (root_beh c) (a_id a) in
    (root_ents c clone_span a ++
       (if nw =? a_id a then [] else ents on_id_change (a_cs a, a_id a, nw) (coll_recv false on_id_change c)), RId nw).
Proof. exact once_id_change. Qed.
Print Assumptions C09_once_id_change.

(** dispatcher registration: the root, then every layer exactly once ... *)
Theorem C09_register_dispatch_once : forall c a, exists ids,
  call (coll_obj gen_tables c) on_register_dispatch a =
    (root_ents c on_register_dispatch a ++ ents on_register_dispatch a ids, RUnit) /\
  Permutation ids (coll_recv false on_register_dispatch c).
Proof. exact register_dispatch_once. Qed.
Print Assumptions C09_register_dispatch_once.

(** ... inner before outer in every stack without an `and_then` pair; in every stack at all once F18 is repaired
    ([f18_fixed] is read off the generated row of `impl Subscribe for Layered`). *)
Theorem C09_register_dispatch_inner_first : forall c a, f18_fixed gen_tables = true \/ pair_free c = true ->
  call (coll_obj gen_tables c) on_register_dispatch a =
    (root_ents c on_register_dispatch a ++ ents on_register_dispatch a (coll_recv false on_register_dispatch c), RUnit).
Proof. exact register_dispatch_inner_first. Qed.
Print Assumptions C09_register_dispatch_inner_first.

Example C09_register_dispatch_inner_first_nonvacuous :
  pair_free (CLayered (SVec [SLeaf 2 unhinted; SLeaf 3 unhinted]) (CLayered (SLeaf 1 unhinted) (CLeaf 0 unhinted))) = true.
Proof. reflexivity. Qed.

(** ... and that is so whichever constructor installs the stack: `Dispatch::new` and `Dispatch::from_static` each issue the
    notification exactly once ([reg_log] repeats it as often as the translator counted in the source). *)
Theorem C09_register_dispatch_either_constructor : forall i c,
  reg_log gen_tables c i = fst (call (coll_obj gen_tables c) on_register_dispatch arg0).
Proof. exact register_dispatch_either_constructor. Qed.
Print Assumptions C09_register_dispatch_either_constructor.

(** Known finding F18: as long as the source hands `on_register_dispatch` to a pair's outer half first,
    rec.with(L1.and_then(L2)) tells L2 before L1. *)
Theorem C09_F18_refuted : f18_fixed gen_tables = false ->
  let c := CLayered (SPair (SLeaf 2 unhinted) (SLeaf 1 unhinted)) (CLeaf 0 unhinted) in
  pair_free c = false /\
  fst (call (coll_obj gen_tables c) on_register_dispatch arg0) <>
    root_ents c on_register_dispatch arg0 ++ ents on_register_dispatch arg0 (coll_recv false on_register_dispatch c).
Proof. exact F18_refuted. Qed.
Print Assumptions C09_F18_refuted.

(** `on_subscribe` (not one of the property's notification kinds; at build time): every layer exactly once. *)
Theorem C09_on_subscribe_once : forall c, exists ids,
  build_log gen_tables c = ents on_subscribe arg0 ids /\ Permutation ids (coll_recv false on_subscribe c).
Proof. exact on_subscribe_once. Qed.
Print Assumptions C09_on_subscribe_once.

(** ** Queries: outer first, each layer at most once, nobody after the first veto *)
Theorem C09_query_outer_first_until_veto : forall c q a,
  call (coll_obj gen_tables c) (q_meth q) a = q_out q a (until_veto (q_ans q a) (coll_ask c)).
Proof. exact query_outer_first_until_veto. Qed.
Print Assumptions C09_query_outer_first_until_veto.

(** callsite registration is a query in the code (DESIGN §7).  For EVERY stack shape the model's `register_callsite` is the
    tree walk [rc_coll] of Forwarding/Spec.v, which is what "outer first until `never`" means for a tree:
    - traversal order = [coll_ask] (a layer before the collector underneath, a pair's outer half before its inner half, Vec
      elements left to right); the log is a subsequence of it ([sublist]): nobody twice, nobody out of order;
    - `c.with(s)` and `inner.and_then(outer)`: if the outer side's interest is `never` the whole inner side is skipped and the
      answer is `never`; otherwise the inner side is walked too and the answer is `sometimes` if the outer side said so, else
      the inner side's ([C09_register_callsite_skips_after_never]);
    - a Vec asks all its elements whatever they answer and folds never-if-any / always-iff-all / else sometimes (f08c5cd);
    - `None`, Identity, a `None` filter and a `Registry` root are not recorded and count as `always`. *)
Theorem C09_register_callsite_outer_first_until_never : forall c a,
  call (coll_obj gen_tables c) register_callsite a = rc_out (rc_coll a c) /\
  sublist (ids (fst (rc_coll a c))) (ask_ids (coll_ask c)).
Proof. exact register_callsite_outer_first_until_never. Qed.
Print Assumptions C09_register_callsite_outer_first_until_never.

Theorem C09_register_callsite_skips_after_never :
  (forall a s c, snd (rc_sub a s) = INever -> rc_coll a (CLayered s c) = (fst (rc_sub a s), INever)) /\
  (forall a o i, snd (rc_sub a o) = INever -> rc_sub a (SPair o i) = (fst (rc_sub a o), INever)) /\
  (forall a s c, snd (rc_sub a s) <> INever -> fst (rc_coll a (CLayered s c)) = fst (rc_sub a s) ++ fst (rc_coll a c)) /\
  (forall a o i, snd (rc_sub a o) <> INever -> fst (rc_sub a (SPair o i)) = fst (rc_sub a o) ++ fst (rc_sub a i)) /\
  (forall a xs, fst (rc_sub a (SVec xs)) = List.concat (map (fun x => fst (rc_sub a x)) xs)).
Proof. exact rc_skips_after_never. Qed.
Print Assumptions C09_register_callsite_skips_after_never.

(** On a linear stack (each layer one recording leaf at most, however wrapped) the walk is the plain list walk. *)
Theorem C09_register_callsite_linear : forall c a, a = (a_cs a, 0, 0) -> linear c = true ->
  call (coll_obj gen_tables c) register_callsite a = rc_out (rc_until (a_cs a) (coll_ask c)).
Proof. exact register_callsite_linear. Qed.
Print Assumptions C09_register_callsite_linear.

Example C09_register_callsite_nonvacuous :
  (* rec.with(L1).with(vec![L2(never), L3]).with(L4(sometimes).and_then(L5)) on callsite 0:
     L5 (outer half) first, then L4; the Vec asks both L2 and L3 although L2 says never; after the Vec's never, L1 and the root are
     skipped; the answer is `sometimes` because the pair above (L4) said so *)
  let c := CLayered (SPair (SLeaf 5 unhinted) (SLeaf 4 (beh_of [1] [] [] None 255 false)))
             (CLayered (SVec [SLeaf 2 (beh_of [0] [] [] None 255 false); SLeaf 3 unhinted]) (CLayered (SLeaf 1 unhinted) (CLeaf 0 unhinted))) in
  call (coll_obj gen_tables c) register_callsite (0,0,0) =
    ([(5, register_callsite, (0,0,0)); (4, register_callsite, (0,0,0)); (2, register_callsite, (0,0,0)); (3, register_callsite, (0,0,0))], RInt ISometimes) /\
  linear c = false.
Proof. split; vm_compute; reflexivity. Qed.

(** ** A veto stops delivery to all *)
(** What `Dispatch::event` does: the `event_enabled` round (outer first, until the first `false`), then - only if nobody
    vetoed - the root's `event` and every layer's `on_event`, inner first. *)
Theorem C09_dispatch_event : forall c a,
  dispatch_sem gen_tables (call (coll_obj gen_tables c)) event a = (expected_event c a, RUnit).
Proof. exact dispatch_event. Qed.
Print Assumptions C09_dispatch_event.

Theorem C09_veto_stops_delivery : forall c a,
  snd (until_veto (q_ans QEvent a) (coll_ask c)) = false ->
  forall e, In e (fst (dispatch_sem gen_tables (call (coll_obj gen_tables c)) event a)) -> snd (fst e) = event_enabled.
Proof. exact veto_stops_delivery. Qed.
Print Assumptions C09_veto_stops_delivery.

Example C09_veto_stops_delivery_nonvacuous :
  let c := CLayered (SLeaf 2 unhinted) (CLayered (SLeaf 1 (beh_of [] [] [false] None 255 false)) (CLeaf 0 unhinted)) in
  snd (until_veto (q_ans QEvent (0,0,0)) (coll_ask c)) = false /\
  fst (dispatch_sem gen_tables (call (coll_obj gen_tables c)) event (0,0,0)) = [(2, event_enabled, (0,0,0)); (1, event_enabled, (0,0,0))].
Proof. split; vm_compute; reflexivity. Qed.

(** The metadata check: after a `false` from any layer `Dispatch::enabled` is `false` (the macros then dispatch nothing). *)
Theorem C09_enabled_veto : forall c a,
  snd (until_veto (q_ans QEnabled a) (coll_ask c)) = false ->
  snd (dispatch_sem gen_tables (call (coll_obj gen_tables c)) enabled a) = RBool false.
Proof. exact enabled_veto. Qed.
Print Assumptions C09_enabled_veto.

(** ** The three clauses above, operation by operation (what the harness observes and the driver compares) *)
(** [spec_op c o] is computed from the stack's shape and the leaves' answers alone (Forwarding/Spec.v); it makes a claim for
    every operation except `max_level_hint`. *)
Theorem C09_spec_op_sound : forall c o l, spec_op c o = Some l -> fst (run_op gen_tables (coll_obj gen_tables c) o) = l.
Proof. exact spec_op_sound. Qed.
Print Assumptions C09_spec_op_sound.

Example C09_spec_op_nonvacuous :
  let c := CLayered (SVec [SLeaf 2 unhinted; SLeaf 3 (beh_of [] [] [true; false] None 255 false)]) (CLayered (SLeaf 1 unhinted) (CLeaf 0 unhinted)) in
  spec_op c (OEvent 1) = Some [(2, event_enabled, (1,0,0)); (3, event_enabled, (1,0,0))] /\
  spec_op c (OEvent 0) = Some [(2, event_enabled, (0,0,0)); (3, event_enabled, (0,0,0)); (1, event_enabled, (0,0,0)); (0, event_enabled, (0,0,0));
                               (0, event, (0,0,0)); (1, on_event, (0,0,0)); (2, on_event, (0,0,0)); (3, on_event, (0,0,0))].
Proof. split; vm_compute; reflexivity. Qed.

(** ** Wrappers are transparent: any nest, around any element, anywhere in any stack, for any workload *)
(** Box, Box<dyn Subscribe>, Some, reload::Subscriber, a one-element Vec, an Identity paired on either side.
    Side condition (known finding F19, refuted below): an Identity is not paired with something that is itself `None`-like. *)
Theorem C09_wrappers_transparent : forall K ps x ops,
  (existsb uses_id ps = true -> is_none (sub_obj gen_tables x) = false) ->
  run_case gen_tables (cplug K (wrap_nest ps x)) ops = run_case gen_tables (cplug K x) ops.
Proof. exact wrappers_transparent. Qed.
Print Assumptions C09_wrappers_transparent.

Example C09_wrappers_transparent_nonvacuous :
  let K := CCUnder (SLeaf 3 unhinted) (CCHere (SCPairI (SLeaf 2 (hinted 2)) SHole) (CLeaf 0 unhinted)) in
  let ps := [PW SwSome; PVec1; PIdOuter; PW SwReload; PW SwBoxDyn] in
  (existsb uses_id ps = true -> is_none (sub_obj gen_tables (SLeaf 1 (hinted 4))) = false) /\
  wrap_nest ps (SLeaf 1 unhinted) = SWrap SwSome (SVec [SPair SIdentity (SWrap SwReload (SWrap SwBoxDyn (SLeaf 1 unhinted)))]).
Proof. split; [intros _; vm_compute; reflexivity|reflexivity]. Qed.

(** Known finding F19: the side condition is needed.  rec[WARN].with(vec![None.and_then(Identity), L[TRACE]]) reports WARN,
    rec[WARN].with(vec![None, L[TRACE]]) reports TRACE. *)
Theorem C09_F19_refuted :
  let K := CCHere (SCVec [] SHole [SLeaf 1 (hinted 5)]) (CLeaf 0 (hinted 2)) in
  is_none (sub_obj gen_tables SNone) = true /\
  run_case gen_tables (cplug K (wrap_nest [PIdOuter] SNone)) [OHint] <> run_case gen_tables (cplug K SNone) [OHint].
Proof. exact F19_refuted. Qed.
Print Assumptions C09_F19_refuted.

(** ** Transparency holds on unwind paths too *)
(** [run_case_u tb o c ops k]: ops [k..] run inside a Drop impl while a panic propagates (caught at the top); [gen_order] is the
    branch order of the crate's `try_lock!` as found in the source (the lock first, `panicking()` only for a poisoned lock).
    With that order a workload means the same whether or not part of it runs during unwinding, so every theorem of this file
    applies to such workloads as well (spelled out for the wrapper theorem). *)
Theorem C09_unwinding_changes_nothing : forall c ops k, run_case_u gen_tables gen_order c ops k = run_case gen_tables c ops.
Proof. exact unwinding_changes_nothing. Qed.
Print Assumptions C09_unwinding_changes_nothing.

Theorem C09_wrappers_transparent_while_unwinding : forall K ps x ops k,
  (existsb uses_id ps = true -> is_none (sub_obj gen_tables x) = false) ->
  run_case_u gen_tables gen_order (cplug K (wrap_nest ps x)) ops k = run_case_u gen_tables gen_order (cplug K x) ops k.
Proof. exact wrappers_transparent_while_unwinding. Qed.
Print Assumptions C09_wrappers_transparent_while_unwinding.

Theorem C09_collector_wrappers_transparent_while_unwinding : forall K ws c ops k, flags_of_root c = noflags ->
  run_case_u gen_tables gen_order (kplug K (cwrap_nest ws c)) ops k = run_case_u gen_tables gen_order (kplug K c) ops k.
Proof. exact collector_wrappers_transparent_while_unwinding. Qed.
Print Assumptions C09_collector_wrappers_transparent_while_unwinding.

(** Why the order matters: with `panicking()` first the reload-wrapped L2 misses the `exit` delivered during unwinding. *)
Theorem C09_panicking_first_refuted :
  let c := CLayered (SLeaf 3 unhinted) (CLayered (SWrap SwReload (SLeaf 2 unhinted)) (CLayered (SLeaf 1 unhinted) (CLeaf 0 unhinted))) in
  let c0 := CLayered (SLeaf 3 unhinted) (CLayered (SLeaf 2 unhinted) (CLayered (SLeaf 1 unhinted) (CLeaf 0 unhinted))) in
  run_case_u gen_tables PanickingFirst c0 [OEnter 1; OExit 1] 1 = run_case gen_tables c0 [OEnter 1; OExit 1] /\
  run_case_u gen_tables PanickingFirst c [OEnter 1; OExit 1] 1 <> run_case gen_tables c0 [OEnter 1; OExit 1] /\
  snd (run_case_u gen_tables PanickingFirst c [OEnter 1; OExit 1] 1) =
    [([(0, enter, (0,1,0)); (1, on_enter, (0,1,0)); (2, on_enter, (0,1,0)); (3, on_enter, (0,1,0))], RUnit);
     ([(0, exit, (0,1,0)); (1, on_exit, (0,1,0)); (3, on_exit, (0,1,0))], RUnit)].
Proof. exact panicking_first_refuted. Qed.
Print Assumptions C09_panicking_first_refuted.

(** ** The reload wrapper while another thread is inside `Handle::modify` / `Handle::reload` *)
(** The reload cell as an RwLock (Forwarding/ReloadConc.v): notifier threads read-lock around each callback, modifier threads
    write-lock around their closure; micro-steps acquire / call / release; [gen_mode] = how the callbacks acquire the lock in
    the source under check, read off the generated rows (`try_lock!(self.inner.read())` = [Blocking]; `try_read()` = [Try]).
    For EVERY schedule, any number of threads and any programs: what a thread has got through to the wrapped value so far,
    followed by what it still has to do, is its program, each callback delivered once and in order; a finished thread has
    delivered its whole program; nothing is ever skipped.  (With the single-threaded theorems above: a delivered callback
    returns the wrapped value's own answer, so the neighbours are not affected either.) *)
Theorem C09_reload_transparent_under_concurrent_modify : forall progs sched u,
  let s := run (cstep gen_mode) (cinit progs) sched in
  outs u (clog s) ++ all_delivered (pending (threads s u)) = all_delivered (pending (progs u)) /\
  (finished (threads s u) = true -> outs u (clog s) = all_delivered (pending (progs u))) /\
  (forall e, In e (clog s) -> snd e = true).
Proof. exact reload_transparent_under_concurrent_modify. Qed.
Print Assumptions C09_reload_transparent_under_concurrent_modify.

(** While a writer is inside, nobody holds a read guard or is in the middle of a callback (so a callback never sees a
    half-modified value), in either mode. *)
Theorem C09_reload_never_read_while_modified : forall mode progs sched, (forall u, fresh (progs u) = true) ->
  let s := run (cstep mode) (cinit progs) sched in
  forall w, wr s = Some w -> rd s = [] /\ forall u pc r, threads s u = TN pc r -> pc = NIdle.
Proof. exact mutual_exclusion. Qed.
Print Assumptions C09_reload_never_read_while_modified.

(** Waiting is not wedging: whenever some thread is not finished, some thread can move (closures of `modify` terminate). *)
Theorem C09_reload_blocking_makes_progress : forall progs sched, (forall u, fresh (progs u) = true) ->
  let s := run (cstep Blocking) (cinit progs) sched in
  forall t, finished (threads s t) = false -> exists u, cstep Blocking s u <> None.
Proof. exact blocking_progress. Qed.
Print Assumptions C09_reload_blocking_makes_progress.

(** Non-vacuity, and why the mode matters: with `try_read` the callback made while thread 1 is inside `modify` is skipped;
    with the blocking `read` the same schedule makes thread 0 wait and deliver afterwards. *)
Theorem C09_reload_try_read_refuted :
  let s := run (cstep Try) (cinit try_progs) [1; 0; 1; 1; 1]%nat in
  finished (threads s 0%nat) = true /\ finished (threads s 1%nat) = true /\ outs 0%nat (clog s) = [(7, false)].
Proof. exact try_skips. Qed.
Print Assumptions C09_reload_try_read_refuted.

Example C09_reload_blocking_waits :
  let s := run (cstep Blocking) (cinit try_progs) [1; 0; 1; 1; 1; 0; 0; 0]%nat in
  clog (run (cstep Blocking) (cinit try_progs) [1; 0; 1; 1; 1]%nat) = [] /\
  finished (threads s 0%nat) = true /\ outs 0%nat (clog s) = [(7, true)].
Proof. exact blocking_waits. Qed.

(** Filter wrappers (Box<dyn Filter>, Arc<dyn Filter>, Some, reload), method by method through a probe layer. *)
Theorem C09_filter_wrappers_transparent : forall K ws f ops,
  run_case gen_tables (cplug K (SProbe (fwrap_nest ws f))) ops = run_case gen_tables (cplug K (SProbe f)) ops.
Proof. exact filter_wrappers_transparent. Qed.
Print Assumptions C09_filter_wrappers_transparent.

(** Collector wrappers (Box<C>, Arc<C>) around any sub-stack, under any further layers. *)
Theorem C09_collector_wrappers_transparent : forall K ws c ops, flags_of_root c = noflags ->
  run_case gen_tables (kplug K (cwrap_nest ws c)) ops = run_case gen_tables (kplug K c) ops.
Proof. exact collector_wrappers_transparent. Qed.
Print Assumptions C09_collector_wrappers_transparent.

(** [flags_of_root c = noflags]: [c] is anything but the bare `Registry` value.  Boxing the `Registry` itself changes the
    type that the `Layered` directly above compares with `Registry` (`inner_is_registry`); it shows only where the code
    special-cases that layer by design: `registry().with(None)` reports OFF, `Box::new(registry()).with(None)` no hint. *)
Theorem C09_boxed_registry_differs :
  let reg := CLeaf 0 (beh_registry (fun _ => true)) in
  flags_of_root reg <> noflags /\
  run_case gen_tables (kplug (KUnder SNone KHole) (cwrap_nest [CwBox] reg)) [OHint] <>
  run_case gen_tables (kplug (KUnder SNone KHole) reg) [OHint].
Proof. exact boxed_registry_differs. Qed.
Print Assumptions C09_boxed_registry_differs.

Example C09_collector_wrappers_nonvacuous :
  flags_of_root (CLayered (SLeaf 1 unhinted) (CLeaf 0 (beh_registry (fun _ => true)))) = noflags /\
  flags_of_root (CLeaf 0 unhinted) = noflags.
Proof. split; reflexivity. Qed.

(** `registry().with(L1).with(L2)`: the Registry records nothing, L1 then L2 see the event; the stack's hint is the layers'. *)
Example C09_registry_root_example :
  let c := CLayered (SLeaf 2 (hinted 4)) (CLayered (SLeaf 1 (hinted 2)) (CLeaf 0 (beh_registry (fun _ => true)))) in
  snd (run_case gen_tables c [OEvent 2; OHint; ORegisterCallsite 1; OTryClose 1]) =
    [([(2, event_enabled, (2,0,0)); (1, event_enabled, (2,0,0)); (1, on_event, (2,0,0)); (2, on_event, (2,0,0))], RUnit);
     ([(2, max_level_hint, arg0); (1, max_level_hint, arg0)], RHint (Some 4));
     ([(2, register_callsite, (1,0,0)); (1, register_callsite, (1,0,0))], RInt IAlways);
     ([(1, on_close, (0,1,0)); (2, on_close, (0,1,0))], RBool true)].
Proof. vm_compute. reflexivity. Qed.

(** ** None / an empty Vec behaves as if absent *)
(** For every absent subscriber [z] (`None`, `vec![]`, a Vec of such, inside any Box / Some / reload): as a layer anywhere,
    as either half of a pair anywhere, as a Vec element anywhere, it changes no callback log and no answer of any operation
    except possibly `max_level_hint` (finding F17, below); as the top layer it does not change that either. *)
Theorem C09_absent_as_if_absent : forall z, absent z = true ->
  (forall K c ops, coll_has_layer c = true -> forallb no_hint_op ops = true ->
     run_case gen_tables (kplug K (CLayered z c)) ops = run_case gen_tables (kplug K c) ops) /\
  (forall K c ops, forallb no_hint_op ops = true -> forallb no_drop_op ops = true ->
     run_case gen_tables (kplug K (CLayered z c)) ops = run_case gen_tables (kplug K c) ops) /\
  (forall K x ops, forallb no_hint_op ops = true ->
     run_case gen_tables (cplug K (SPair z x)) ops = run_case gen_tables (cplug K x) ops /\
     run_case gen_tables (cplug K (SPair x z)) ops = run_case gen_tables (cplug K x) ops) /\
  (forall K pre post ops, forallb no_hint_op ops = true ->
     run_case gen_tables (cplug K (SVec (pre ++ z :: post))) ops = run_case gen_tables (cplug K (SVec (pre ++ post))) ops) /\
  (forall ws c ops, coll_has_layer c = true ->
     run_case gen_tables (cwrap_nest ws (CLayered z c)) ops = run_case gen_tables (cwrap_nest ws c) ops).
Proof. exact absent_as_if_absent. Qed.
Print Assumptions C09_absent_as_if_absent.

Theorem C09_none_absent : forall ws K c ops, coll_has_layer c = true -> forallb no_hint_op ops = true ->
  run_case gen_tables (kplug K (CLayered (swraps ws SNone) c)) ops = run_case gen_tables (kplug K c) ops.
Proof. exact none_absent. Qed.
Print Assumptions C09_none_absent.

(** F14 is repaired (178eca9): the empty Vec needs no exclusion any more. *)
Theorem C09_empty_vec_absent : forall ws K c ops, coll_has_layer c = true -> forallb no_hint_op ops = true ->
  run_case gen_tables (kplug K (CLayered (swraps ws (SVec [])) c)) ops = run_case gen_tables (kplug K c) ops.
Proof. exact empty_vec_absent. Qed.
Print Assumptions C09_empty_vec_absent.

Theorem C09_none_empty_vec_absent_on_top : forall z ws c ops, (z = SNone \/ z = SVec []) -> coll_has_layer c = true ->
  run_case gen_tables (cwrap_nest ws (CLayered z c)) ops = run_case gen_tables (cwrap_nest ws c) ops.
Proof. exact none_empty_vec_absent_on_top. Qed.
Print Assumptions C09_none_empty_vec_absent_on_top.

Example C09_absent_nonvacuous :
  let c := CLayered (SLeaf 1 (hinted 4)) (CLeaf 0 unhinted) in
  let ops := [ORegisterCallsite 1; OEnabled 1; ONewSpan 0 1; OEvent 2; OTryClose 1; ODropSpan 1] in
  coll_has_layer c = true /\ forallb no_hint_op ops = true /\
  fst (nth 3 (snd (run_case gen_tables (kplug (KUnder (SLeaf 2 unhinted) KHole) (CLayered (SWrap SwBox (SVec [SNone])) c)) ops)) ([], RPoison))
    = [(2, event_enabled, (2,0,0)); (1, event_enabled, (2,0,0)); (0, event_enabled, (2,0,0)); (0, event, (2,0,0)); (1, on_event, (2,0,0)); (2, on_event, (2,0,0))].
Proof. repeat split; vm_compute; reflexivity. Qed.

(** As a layer anywhere, `max_level_hint` included, unless some collector level underneath a further layer reports a
    genuine OFF ([no_off]: the hypothesis that keeps finding F17's "more permissive" half out; its witness is the first
    conjunct of [C09_F17_refuted]). *)
Theorem C09_absent_layer_hint_unless_off : forall K z c ops, absent z = true -> coll_has_layer c = true -> no_off gen_tables K c ->
  run_case gen_tables (kplug K (CLayered z c)) ops = run_case gen_tables (kplug K c) ops.
Proof. exact absent_layer_hint. Qed.
Print Assumptions C09_absent_layer_hint_unless_off.

Example C09_absent_layer_hint_nonvacuous :
  let K := KUnder (SLeaf 3 (hinted 2)) (KWrap CwArc KHole) in let c := CLayered (SLeaf 1 (hinted 4)) (CLeaf 0 unhinted) in
  absent (SVec []) = true /\ coll_has_layer c = true /\ no_off gen_tables K c /\
  snd (run_case gen_tables (kplug K (CLayered (SVec []) c)) [OHint]) = [([(3, max_level_hint, arg0); (1, max_level_hint, arg0); (0, max_level_hint, arg0)], RHint (Some 4))].
Proof. repeat split; try (vm_compute; reflexivity). intro a. vm_compute. discriminate. Qed.

(** Known finding F17: *below* another layer, a `None` / empty Vec does change `max_level_hint`, in both directions:
    root(OFF).with(L2).with(None).with(L1) reports no hint instead of OFF, and
    root.with(L1(TRACE).and_then(None)).with(L2(INFO)) reports INFO instead of TRACE (likewise with `vec![]`). *)
Theorem C09_F17_refuted :
  (let K := KUnder (SLeaf 1 unhinted) KHole in let c := CLayered (SLeaf 2 unhinted) (CLeaf 0 (hinted 0)) in
   coll_has_layer c = true /\ ~ no_off gen_tables K c /\
   run_case gen_tables (kplug K (CLayered SNone c)) [OHint] <> run_case gen_tables (kplug K c) [OHint]) /\
  (let K := CCUnder (SLeaf 2 (hinted 3)) (CCHere SHole (CLeaf 0 unhinted)) in let x := SLeaf 1 (hinted 5) in
   run_case gen_tables (cplug K (SPair SNone x)) [OHint] <> run_case gen_tables (cplug K x) [OHint]) /\
  (let K := CCUnder (SLeaf 2 (hinted 3)) (CCHere SHole (CLeaf 0 unhinted)) in let x := SLeaf 1 (hinted 5) in
   run_case gen_tables (cplug K (SPair (SVec []) x)) [OHint] <> run_case gen_tables (cplug K x) [OHint]).
Proof. exact F17_refuted. Qed.
Print Assumptions C09_F17_refuted.
