(** C09 — statements only (first increment). *)
From TV Require Import Forwarding.Expected Forwarding.Proofs.
Theorem C09_table_transparent : table_ok = true.
Proof. exact table_transparent. Qed.
Print Assumptions C09_table_transparent.
