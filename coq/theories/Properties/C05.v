(** C05 — A registry span closes exactly once, after its last reference and last child.
    Statements only; proofs live in Registry/{Inv,Close,Steps,NewSpan,Run,C05Proofs}.v and Registry/MicroProofs.v.

    Vocabulary (Registry/Model.v, mirrors sharded.rs / stack.rs / layered.rs as they are now in /repo):
      [op]                 one API call, tagged with the thread that executes it: ONewSpan (root / contextual / explicit parent),
                           OClone, ODrop, OEnter, OExit (by id, works after every handle is gone), OExitH, OCurrent
                           (Span::current / SpanTrace capture), OEvent_, OSetDef / OUnsetDef (scoped default: an instance
                           or Dispatch::none), OReadTrace.  A history is a LIST of ops: any length, any number of threads,
                           any number of registry instances, every interleaving of the calls of different threads.
      [init layers g]      configuration: [layers i] = number of Layered frames on registry instance i (arbitrary nesting
                           depth), [g] = the global default.
      [final], [trace]     state after the history / everything the layers and the user observed, in order:
                           [OClose i l q e] = layer l of instance i got on_close for the span with creation number q, its
                           ctx.span(id) lookup succeeded and read extension e; [OCloseGone] = that lookup failed;
                           [ONew .. stale ..] = on_new_span found extension [stale] before inserting its own; [OPanic].
      [closed_n l q tr]    number of on_close reports of span q at layer l.
      [st_created]         (instance, id = (slot index, generation), creation number) of every span created so far.
      [handles_n], [entered_n], [open_children]   live Span values (SpanTraces included) / stack entries on any thread /
                           live children of a span (Registry/C05Proofs.v).
    Hypotheses:
      [Config_ok layers]   every instance has at least one layer (a bare Registry never frees a slot: nobody holds a CloseGuard).
      [WellFormed]         handle ids fresh, handles used are live, explicit parents belong to the creating collector, the
                           allocator's choice is legal (slot vacant, generation fresh).
      [OwnDefault]         every release that sharded.rs routes through dispatch::get_default (Registry::exit's pop, the
                           parent release in Clear for DataInner) reached the span's own collector.  Its negation is the
                           known finding F2 ([C05_F2_refuted]).
    The reference-count races INSIDE the calls (every schedule of fetch_add / fetch_sub / on_close / clear over any number
    of threads) are the [C05_sched_*] theorems about Registry/Micro.v (idealised: clearing a slot is one step of the closer)
    and the [C05_sched_real_*] theorems about Registry/MicroReal.v (faithful to what forced schedules of the real code
    showed: slot guards, deferred clear by the last guard holder, nested CLOSE_COUNT), with the known finding F51
    ([C05_F51_refuted]) and its repair as a parameter read off the source by the translator. *)
From Coq Require Import List NArith Bool Arith.
From TV Require Import Registry.Model Registry.Inv Registry.Run Registry.C05Proofs Registry.Single Registry.Guards.
From TV Require Registry.Micro Registry.MicroProofs Registry.MicroReal Registry.MicroRealProofs.
From TVGen Require Gen_registry.
Import ListNotations.
Local Open Scope nat_scope.

(** The reference-count invariant: ref_count = handles + threads on which the span is entered + open children; never 0
    while the span is in the registry. *)
Theorem C05_refcount_invariant : forall layers g h, Config_ok layers -> WellFormed layers g h -> OwnDefault layers g h ->
  forall i s sl, lookup (final (init layers g) h) i s = Some sl ->
    s_refs sl = N.of_nat (handles_n (final (init layers g) h) i s + entered_threads_n (final (init layers g) h) i s +
                          open_children (final (init layers g) h) i s) /\
    (1 <= s_refs sl)%N.
Proof. exact refcount_invariant. Qed.
Print Assumptions C05_refcount_invariant.

(** Headline.  Every layer gets at most one on_close per span; exactly one iff no handle, no stack entry and no open child
    is left; spans that were never created are never reported. *)
Theorem C05_exactly_once : forall layers g h, Config_ok layers -> WellFormed layers g h -> OwnDefault layers g h ->
  (forall i s q, In (i, s, q) (st_created (final (init layers g) h)) -> forall l,
     closed_n l q (trace (init layers g) h) <= 1 /\
     (closed_n l q (trace (init layers g) h) = 1 <->
      l < layers i /\ handles_n (final (init layers g) h) i s = 0 /\ entered_n (final (init layers g) h) i s = 0 /\
      open_children (final (init layers g) h) i s = 0)) /\
  (forall q l, st_count (final (init layers g) h) <= q -> closed_n l q (trace (init layers g) h) = 0).
Proof. exact exactly_once_history. Qed.
Print Assumptions C05_exactly_once.

(** Never earlier: at every point of every history, a span that still has a handle, a stack entry or an open child has
    not been reported closed to any layer. *)
Theorem C05_not_early : forall layers g h, Config_ok layers -> WellFormed layers g h -> OwnDefault layers g h ->
  forall i s q, In (i, s, q) (st_created (final (init layers g) h)) ->
  1 <= handles_n (final (init layers g) h) i s + entered_n (final (init layers g) h) i s + open_children (final (init layers g) h) i s ->
  forall l, closed_n l q (trace (init layers g) h) = 0.
Proof. exact not_early_history. Qed.
Print Assumptions C05_not_early.

(** ... and the call during which a close is reported: it is the first and only report, and when the call returns the
    span is gone and nothing refers to it. *)
Theorem C05_not_early_step : forall layers g h o, Config_ok layers -> WellFormed layers g (h ++ [o]) -> OwnDefault layers g (h ++ [o]) ->
  forall i s q, In (i, s, q) (st_created (final (init layers g) (h ++ [o]))) -> forall l,
  1 <= closed_n l q (snd (step (final (init layers g) h) o)) ->
  closed_n l q (trace (init layers g) h) = 0 /\ closed_n l q (snd (step (final (init layers g) h) o)) = 1 /\
  lookup (final (init layers g) (h ++ [o])) i s = None /\
  handles_n (final (init layers g) (h ++ [o])) i s = 0 /\ entered_n (final (init layers g) (h ++ [o])) i s = 0 /\
  open_children (final (init layers g) (h ++ [o])) i s = 0.
Proof. exact not_early_step. Qed.
Print Assumptions C05_not_early_step.

(** Children first: when layer l is told that q closed, every span whose creation-time parent is q has already been
    reported closed to every layer of its registry. *)
Theorem C05_children_first : forall layers g h, Config_ok layers -> WellFormed layers g h -> OwnDefault layers g h ->
  forall tr1 i l q e tr2, trace (init layers g) h = tr1 ++ OClose i l q e :: tr2 ->
  forall ic sc c, In (ic, sc, c) (st_created (final (init layers g) h)) ->
  cpar_get c (st_cpar (final (init layers g) h)) = Some (Some q) ->
  forall l', l' < layers ic -> closed_n l' c tr1 = 1.
Proof. exact children_first_history. Qed.
Print Assumptions C05_children_first.

(** Readable during close, for ANY number of Layered frames (the CLOSE_COUNT argument): the lookup a layer makes inside
    on_close never fails and reads the span's own data; nothing panics. *)
Theorem C05_readable_during_close : forall layers g h, Config_ok layers -> WellFormed layers g h -> OwnDefault layers g h ->
  forall o, In o (trace (init layers g) h) ->
    match o with
    | OCloseGone _ _ => False
    | OClose _ _ q e => e = Some q
    | OPanic _ | OFuel => False
    | _ => True
    end.
Proof. exact readable_during_close_history. Qed.
Print Assumptions C05_readable_during_close.

(** Gone afterwards: once reported closed a span can no longer be looked up (now and, the history being arbitrary, at any
    later point); and a created span is absent exactly when every layer has been told. *)
Theorem C05_gone_after : forall layers g h, Config_ok layers -> WellFormed layers g h -> OwnDefault layers g h ->
  forall i s q, In (i, s, q) (st_created (final (init layers g) h)) ->
  (forall l, closed_n l q (trace (init layers g) h) = 1 -> lookup (final (init layers g) h) i s = None) /\
  (lookup (final (init layers g) h) i s = None <-> forall l, l < layers i -> closed_n l q (trace (init layers g) h) = 1).
Proof. exact gone_after_history. Qed.
Print Assumptions C05_gone_after.

(** No stale data, after any amount of slot reuse: no on_new_span ever finds an earlier occupant's extension; what a live
    span stores (metadata = creation number, every layer's extension, parent) is a function of its own creation only;
    a vacant slot holds neither extensions nor a parent. *)
Theorem C05_no_stale_data : forall layers g h, Config_ok layers -> WellFormed layers g h -> OwnDefault layers g h ->
  (forall o, In o (trace (init layers g) h) -> match o with ONew _ _ _ stale _ => stale = None | _ => True end) /\
  (forall i s sl, lookup (final (init layers g) h) i s = Some sl ->
     In (i, s, s_seq sl) (st_created (final (init layers g) h)) /\
     (forall q, In (i, s, q) (st_created (final (init layers g) h)) -> s_seq sl = q) /\
     (forall l, l < layers i -> ext_get l (s_ext sl) = Some (s_seq sl)) /\
     cpar_get (s_seq sl) (st_cpar (final (init layers g) h)) =
       Some (match s_parent sl with None => None | Some p => seq_at (final (init layers g) h) i p end) /\
     (forall p, s_parent sl = Some p -> exists pl, lookup (final (init layers g) h) i p = Some pl /\ s_seq pl < s_seq sl)) /\
  (forall i x, s_occ (st_slots (final (init layers g) h) i x) = false ->
     s_ext (st_slots (final (init layers g) h) i x) = [] /\ s_parent (st_slots (final (init layers g) h) i x) = None).
Proof. exact no_stale_data_history. Qed.
Print Assumptions C05_no_stale_data.

(** Unique ids: within a registry an id names one span for ever (generations), a span has one id, and two live spans
    differ even in their slot index. *)
Theorem C05_unique_ids : forall layers g h, Config_ok layers -> WellFormed layers g h -> OwnDefault layers g h ->
  (forall i s q q', In (i, s, q) (st_created (final (init layers g) h)) -> In (i, s, q') (st_created (final (init layers g) h)) -> q = q') /\
  (forall i s s' q, In (i, s, q) (st_created (final (init layers g) h)) -> In (i, s', q) (st_created (final (init layers g) h)) -> s = s') /\
  (forall i s s' sl sl', lookup (final (init layers g) h) i s = Some sl -> lookup (final (init layers g) h) i s' = Some sl' ->
     s_seq sl <> s_seq sl' -> s <> s' /\ fst s <> fst s').
Proof. exact unique_ids_history. Qed.
Print Assumptions C05_unique_ids.

(** Non-vacuity: a history with a parent dropped before its child, an out-of-order exit, a handle dropped while entered and
    a reused slot satisfies the hypotheses, and each of its four spans is reported closed exactly once. *)
Example C05_nonvacuous : WellFormed two_layers None h_good /\ OwnDefault two_layers None h_good /\
  map (fun q => closed_n 1 q (trace (init two_layers None) h_good)) [0; 1; 2; 3] = [1; 1; 1; 1] /\
  st_count (final (init two_layers None) h_good) = 4.
Proof. exact h_good_ok. Qed.

(** Known finding F2: outside OwnDefault the property fails.  First witness (two registries, DESIGN 1.2): a span is
    reported closed while a handle to it is alive ([early]), another span is never reported although nothing refers to
    it ([never]), and dropping the handle of the first one panics.  Second witness: the default guard dropped before the
    span guard — the span never closes. *)
Theorem C05_F2_refuted :
  (exists layers g h, Config_ok layers /\ WellFormed layers g h /\ ~ OwnDefault layers g h /\ early layers g h /\ never layers g h /\
                      exists h', WellFormed layers g (h ++ h') /\ st_panicked (final (init layers g) (h ++ h')) = true) /\
  (exists layers g h, Config_ok layers /\ WellFormed layers g h /\ ~ OwnDefault layers g h /\ never layers g h).
Proof. exact F2_refuted. Qed.
Print Assumptions C05_F2_refuted.

(** ... and the third route (the parent release of Clear for DataInner with no default). *)
Theorem C05_F2_refuted_parent_release :
  WellFormed two_layers None f2_parent /\ ~ OwnDefault two_layers None f2_parent /\ never two_layers None f2_parent.
Proof. exact f2_parent_refutes. Qed.
Print Assumptions C05_F2_refuted_parent_release.

(** Under the hypotheses neither symptom exists, and nothing panics. *)
Theorem C05_no_symptom : forall layers g h, Config_ok layers -> WellFormed layers g h -> OwnDefault layers g h ->
  ~ early layers g h /\ ~ never layers g h.
Proof. exact no_early_no_never. Qed.
Print Assumptions C05_no_symptom.

Theorem C05_no_panic : forall layers g h, Config_ok layers -> WellFormed layers g h -> OwnDefault layers g h ->
  st_panicked (final (init layers g) h) = false.
Proof. exact no_panic_history. Qed.
Print Assumptions C05_no_panic.

(* ------------------------------------------------------------------------------------------------------------------
   Slab guards.  A history may also keep SpanRefs (OHold_ k h: `registry.span(&id)` kept under key k), write an extension
   through them (OPoke), read it back (OPeek_) and drop them (ORelease).  A guard keeps the slot's storage alive: a span that
   becomes unreferenced under a guard is reported closed and can no longer be looked up, but its slot is only MARKED
   ([st_limbo]); the reference it holds on its parent is parked as a phantom handle (odd id) and released — with the slot's
   extension storage — by the release of the last guard.  Every theorem above is about ALL histories, these operations
   included (the invariant is preserved by them: Run.inv_step): exactly once, children first, gone after ... hold unchanged,
   with `handles_n` = the user's handles + the parked references ([C05_handles_split]).  The three theorems below need no
   hypothesis on the history at all. *)

(** a span reported closed while a guard keeps its storage: unlookupable by id, its slot not occupied (nor handed out) *)
Theorem C05_guards_gone_after : forall layers g h i s q p, In (i, s, q, p) (st_limbo (final (init layers g) h)) ->
  lookup (final (init layers g) h) i s = None /\ s_occ (st_slots (final (init layers g) h) i (fst s)) = false.
Proof. exact limbo_gone. Qed.
Print Assumptions C05_guards_gone_after.

(** no new span ever finds in its slot an extension that a guard of an earlier occupant wrote — whatever was poked through
    held guards, before or after the close, and whenever they were released *)
Theorem C05_guards_no_stale_data : forall layers g h x, In x (trace (init layers g) h) ->
  match x with OStaleNote _ _ _ => False | _ => True end.
Proof. exact no_stale_note. Qed.
Print Assumptions C05_guards_no_stale_data.

(** the bookkeeping invariant behind both: notes sit in occupied or limbo slots, guards are on live or limbo spans, limbo
    slots are vacant *)
Theorem C05_guards_invariant : forall layers g h, GN (final (init layers g) h).
Proof. exact GN_history. Qed.
Print Assumptions C05_guards_invariant.

Theorem C05_handles_split : forall st i s, handles_n st i s = user_handles_n st i s + parked_n st i s.
Proof. exact handles_split. Qed.
Print Assumptions C05_handles_split.

(** A syntactic sufficient condition for OwnDefault: one collector installed as the global default and no scoped default
    anywhere in the history (no hypothesis on well-formedness or on the configuration is needed). *)
Theorem C05_own_default_single_collector : forall layers i0 h, forallb no_setdef h = true -> OwnDefault layers (Some i0) h.
Proof. exact single_collector_own_default. Qed.
Print Assumptions C05_own_default_single_collector.

(** Tie to the source text: the constants and function shapes read by translators/registry_shapes.py on every run are
    the ones Registry/Model.v mirrors (see Registry.C05Proofs.model_mirrors_source for which model definition uses which). *)
Theorem C05_model_mirrors_source :
  (Gen_registry.fetch_sub_by, Gen_registry.close_threshold, Gen_registry.fetch_add_by, Gen_registry.closed_mark,
   Gen_registry.init_refs, Gen_registry.guard_dec, Gen_registry.guard_clear_at, Gen_registry.start_inc)
  = (1, 1, 1, 0, 1, 1, 1, 1)%N /\
  forallb snd Gen_registry.shapes = true /\ length Gen_registry.shapes = 21 /\ Gen_registry.gen_unrecognised = [].
Proof. exact model_mirrors_source. Qed.
Print Assumptions C05_model_mirrors_source.

(* ------------------------------------------------------------------------------------------------------------------
   Schedules.  Registry/Micro.v: every fetch_add (MClone), fetch_sub (MDrop; MRel = the cascade's), on_close (MOnClose)
   and slot clear (MClear) is its own atomic step; [ops] is an arbitrary list of such steps by any number of threads =
   every schedule (handles may move between threads: MSend).  [Micro.mrun ops] is the state after the schedule. *)

Theorem C05_sched_refcount : forall (ops : list Micro.mop) (s : nat),
  let st := Micro.mrun ops in
  s < Micro.m_count st -> Micro.m_cleared st s = false ->
  Micro.m_refs st s = Micro.held_n st s + Micro.kids_n st s + Micro.rel_n st s.
Proof. exact MicroProofs.micro_refcount. Qed.
Print Assumptions C05_sched_refcount.

(** no panic, no underflow, every on_close finds its span — under every schedule *)
Theorem C05_sched_no_bad : forall ops : list Micro.mop, Micro.m_bad (Micro.mrun ops) = false.
Proof. exact MicroProofs.micro_no_bad. Qed.
Print Assumptions C05_sched_no_bad.

Theorem C05_sched_at_most_once : forall (ops : list Micro.mop) (s : nat), Micro.m_closed (Micro.mrun ops) s <= 1.
Proof. exact MicroProofs.micro_at_most_once. Qed.
Print Assumptions C05_sched_at_most_once.

(** once reported: no reference is left, and every child was reported AND removed before *)
Theorem C05_sched_not_early_children_first : forall (ops : list Micro.mop) (s : nat),
  let st := Micro.mrun ops in
  Micro.m_closed st s = 1 ->
  Micro.held_n st s = 0 /\ Micro.rel_n st s = 0 /\ Micro.m_refs st s = 0 /\
  (forall c, c < Micro.m_count st -> Micro.m_parent st c = Some s -> Micro.m_closed st c = 1 /\ Micro.m_cleared st c = true).
Proof. exact MicroProofs.micro_closed_not_early. Qed.
Print Assumptions C05_sched_not_early_children_first.

(** the thread whose fetch_sub took the count to zero is unique; between that fetch_sub and the clear the count stays 0
    and the span stays in the registry *)
Theorem C05_sched_unique_closer : forall (ops : list Micro.mop) (s : nat),
  let st := Micro.mrun ops in
  NoDup (map fst (Micro.m_tasks st)) /\
  Micro.close_n st s + Micro.clear_n st s <= 1 /\
  (forall t1 t2,
      (Micro.m_task st t1 = Some (Micro.TClose s) \/ Micro.m_task st t1 = Some (Micro.TClear s)) ->
      (Micro.m_task st t2 = Some (Micro.TClose s) \/ Micro.m_task st t2 = Some (Micro.TClear s)) -> t1 = t2) /\
  (forall t, Micro.m_task st t = Some (Micro.TClose s) ->
             Micro.m_refs st s = 0 /\ Micro.m_closed st s = 0 /\ Micro.m_cleared st s = false) /\
  (forall t, Micro.m_task st t = Some (Micro.TClear s) ->
             Micro.m_refs st s = 0 /\ Micro.m_closed st s = 1 /\ Micro.m_cleared st s = false).
Proof. exact MicroProofs.micro_unique_closer. Qed.
Print Assumptions C05_sched_unique_closer.

(** whenever no thread is inside try_close: reported exactly once iff no handle and no live child is left, iff removed *)
Theorem C05_sched_exactly_once : forall (ops : list Micro.mop),
  let st := Micro.mrun ops in
  (forall t, Micro.m_task st t = None) ->
  forall s, s < Micro.m_count st ->
    (Micro.m_closed st s = 1 <-> Micro.held_n st s = 0 /\ Micro.kids_n st s = 0) /\
    (Micro.m_closed st s = 1 <-> Micro.m_cleared st s = true).
Proof. exact MicroProofs.micro_quiescent_exactly_once. Qed.
Print Assumptions C05_sched_exactly_once.

(** and every schedule can be completed to such a state (the cascade terminates) *)
Theorem C05_sched_can_quiesce : forall ops : list Micro.mop,
  exists ops', forall t, Micro.m_task (Micro.mrun (ops ++ ops')) t = None.
Proof. exact MicroProofs.micro_can_quiesce. Qed.
Print Assumptions C05_sched_can_quiesce.

(* ------------------------------------------------------------------------------------------------------------------
   Schedules, faithfully.  Registry/MicroReal.v refines Micro.v by what the forced-schedule runs against the real code
   showed to matter: Registry::try_close holds a sharded_slab guard on the slot until it RETURNS (RRet is a step of its own
   after the fetch_sub RDrop / RRel); spans.clear only MARKS a slot while another thread holds a guard on it, and the
   storage is cleared (parent reference released: the cascade) by whichever thread drops the last guard, nested inside that
   thread's own Layered::try_close frames; a CloseGuard that runs nested does not clear (CLOSE_COUNT <> 1) unless
   `Clear for DataInner` resets the count (the parameter [fixed] = fixes/F51.patch).  [rrun fixed ops]: any schedule. *)

(** safety holds with and without the repair, under every schedule *)
Theorem C05_sched_real_no_bad : forall (fixed : bool) (ops : list MicroReal.rop), MicroReal.r_bad (MicroReal.rrun fixed ops) = false.
Proof. exact MicroRealProofs.real_no_bad. Qed.
Print Assumptions C05_sched_real_no_bad.

Theorem C05_sched_real_at_most_once : forall fixed ops s, MicroReal.r_closed (MicroReal.rrun fixed ops) s <= 1.
Proof. exact MicroRealProofs.real_at_most_once. Qed.
Print Assumptions C05_sched_real_at_most_once.

Theorem C05_sched_real_refcount : forall fixed ops s, let st := MicroReal.rrun fixed ops in s < MicroReal.r_count st ->
  MicroReal.r_refs st s = MicroReal.rheld_n st s + MicroReal.rkids_n st s + MicroReal.rrel_n st s /\
  MicroReal.rguard_n st s = MicroReal.rret1_n st s + MicroReal.rret0_n st s /\
  (MicroReal.r_marked st s = true -> MicroReal.r_refs st s = 0 /\ MicroReal.r_closed st s = 1) /\
  (MicroReal.r_cleared st s = true -> MicroReal.r_marked st s = true /\ MicroReal.rguard_n st s = 0).
Proof. exact MicroRealProofs.real_refcount. Qed.
Print Assumptions C05_sched_real_refcount.

Theorem C05_sched_real_not_early_children_first : forall fixed ops s, let st := MicroReal.rrun fixed ops in
  MicroReal.r_closed st s = 1 ->
  MicroReal.rheld_n st s = 0 /\ MicroReal.rrel_n st s = 0 /\ MicroReal.r_refs st s = 0 /\
  (forall c, c < MicroReal.r_count st -> MicroReal.r_parent st c = Some s -> MicroReal.r_closed st c = 1 /\ MicroReal.r_cleared st c = true).
Proof. exact MicroRealProofs.real_closed_not_early. Qed.
Print Assumptions C05_sched_real_not_early_children_first.

(** exactly once and gone afterwards, in every quiescent state of every schedule — for the repaired Clear *)
Theorem C05_sched_real_exactly_once_repaired : forall ops, let st := MicroReal.rrun true ops in MicroReal.rquiescent st = true ->
  forall s, s < MicroReal.r_count st ->
    (MicroReal.r_closed st s = 1 <-> MicroReal.rheld_n st s = 0 /\ MicroReal.rkids_n st s = 0) /\
    (MicroReal.r_closed st s = 1 <-> MicroReal.r_marked st s = true) /\
    MicroReal.r_marked st s = MicroReal.r_cleared st s.
Proof. exact MicroRealProofs.real_quiescent_exactly_once. Qed.
Print Assumptions C05_sched_real_exactly_once_repaired.

(** ... which is the code under check as soon as the translator reads the repaired variant out of sharded.rs *)
Theorem C05_sched_source_exactly_once : forall ops,
  Gen_registry.clear_resets_close_count = true -> MicroReal.rquiescent (source_run ops) = true ->
  forall s, s < MicroReal.r_count (source_run ops) ->
    (MicroReal.r_closed (source_run ops) s = 1 <-> MicroReal.rheld_n (source_run ops) s = 0 /\ MicroReal.rkids_n (source_run ops) s = 0) /\
    (MicroReal.r_closed (source_run ops) s = 1 <-> MicroReal.r_marked (source_run ops) s = true) /\
    MicroReal.r_marked (source_run ops) s = MicroReal.r_cleared (source_run ops) s.
Proof. exact source_exactly_once_if_repaired. Qed.
Print Assumptions C05_sched_source_exactly_once.

Theorem C05_sched_real_can_quiesce : forall fixed ops, exists ops', MicroReal.rquiescent (MicroReal.rrun fixed (ops ++ ops')) = true.
Proof. exact MicroRealProofs.real_can_quiesce. Qed.
Print Assumptions C05_sched_real_can_quiesce.

(** Known finding F51 (found by the forced-schedule runs): as the code stands, there is a schedule — G <- P <- C, two
    threads drop the last two handles of C, the loser of the race is still inside Registry::try_close when the winner clears
    C — after which every thread is idle, P has been reported closed but is still in the registry (never marked, never
    cleared), and G, to which nothing refers any more (no handle; its only child was reported closed), is never reported. *)
Theorem C05_F51_refuted : let st := MicroReal.rrun false MicroReal.f51_schedule in
  MicroReal.rquiescent st = true /\ MicroReal.r_bad st = false /\
  MicroReal.r_closed st 1 = 1 /\ MicroReal.r_marked st 1 = false /\ MicroReal.r_cleared st 1 = false /\ MicroReal.r_refs st 1 = 0 /\
  MicroReal.rheld_n st 0 = 0 /\ MicroReal.rkids_n st 0 = 1 /\ MicroReal.r_refs st 0 = 1 /\ MicroReal.r_closed st 0 = 0 /\
  MicroReal.r_closed st 2 = 1 /\ MicroReal.r_marked st 2 = true /\ MicroReal.r_cleared st 2 = true.
Proof. exact MicroRealProofs.real_F51_refuted. Qed.
Print Assumptions C05_F51_refuted.

(** the same schedule with the repair: all three spans are reported once and removed *)
Theorem C05_F51_repaired_witness : let st := MicroReal.rrun true MicroReal.f51_schedule in
  MicroReal.rquiescent st = true /\ MicroReal.r_bad st = false /\
  (MicroReal.r_closed st 0 = 1 /\ MicroReal.r_marked st 0 = true /\ MicroReal.r_cleared st 0 = true) /\
  (MicroReal.r_closed st 1 = 1 /\ MicroReal.r_marked st 1 = true /\ MicroReal.r_cleared st 1 = true) /\
  (MicroReal.r_closed st 2 = 1 /\ MicroReal.r_marked st 2 = true /\ MicroReal.r_cleared st 2 = true).
Proof. exact MicroRealProofs.real_F51_fixed. Qed.
Print Assumptions C05_F51_repaired_witness.
