(** C03 — Span handles drive their collector through a well-formed, balanced protocol.
    Statements only; proofs live in SpanApi/Proofs.v.  Vocabulary: SpanApi/Model.v (programs, [WFprog] = the static
    ownership discipline rustc enforces, [run], [trace] = chronological collector log) and SpanApi/Spec.v (counting:
    [cnt g (id, collector) l] = calls of kind g about that id RECEIVED BY that collector, [cnt_at] = ... on a thread,
    [news_id] = new_span calls returning that id at any collector, [depth], [live_handles], [live_guards]).

    Every theorem quantifies over ALL programs: any length, any number of threads / handles / guards / futures /
    collectors, any interleaving of the threads' operations, any default collector at any point (SetDefault / CloseScope
    are ordinary operations of the program, including "no collector"). *)
From Coq Require Import List NArith Bool.
From TV Require Import SpanApi.Model SpanApi.Spec SpanApi.Proofs SpanApi.ShapeSyntax SpanApi.Shapes SpanApi.ShapesProofs SpanApi.WireProofs SpanApi.ExitUnwind.
From TVGen Require Gen_span.
Import ListNotations.
Local Open Scope N_scope.

(** Headline 1.  Ids are issued once, and every call about an id arrives at the collector whose new_span returned it
    — whatever the thread's default collector is when the call is made. *)
Theorem C03_to_own_collector : forall p, WFprog p ->
  (forall i, (news_id i (trace p) <= 1)%nat) /\
  (forall l1 c t k l2, trace p = l1 ++ ECall c t k :: l2 ->
     match k with
     | CNew i _ => news_id i l1 = 0%nat
     | _ => cnt TNew (subject k, c) l1 = 1%nat
     end).
Proof. exact to_own_collector. Qed.
Print Assumptions C03_to_own_collector.

(** Headline 2.  Per span v: at most one new_span, exactly one as soon as a handle exists; [made] (Span values with
    that inner that ever came into existence: new / clone / Span::current / or_current) = 1 + #clone_span;
    [dropped] (such values dropped: handles, EnteredSpans, Instrumented futures, into_inner) = #try_close;
    made = dropped + live; hence once every handle is dropped, #try_close = 1 + #clone_span. *)
Theorem C03_counts : forall p, WFprog p -> exists s, run p = Some s /\ forall v,
  let tr := trace p in
  let made := count_key v (d_made (snd s)) in
  let dropped := count_key v (d_dropped (snd s)) in
  (cnt TNew v tr <= 1)%nat /\
  ((1 <= made)%nat -> cnt TNew v tr = 1%nat) /\
  (made = cnt TNew v tr + cnt TClone v tr)%nat /\
  dropped = cnt TClose v tr /\
  (made = dropped + live_handles s v)%nat /\
  (live_handles s v = 0%nat -> (1 <= made)%nat -> cnt TClose v tr = (1 + cnt TClone v tr)%nat).
Proof. exact counts. Qed.
Print Assumptions C03_counts.

(** Headline 3.  Per (span, thread): the enter/exit subsequence is a Dyck prefix ([depth] is [Some]: no exit ever
    arrived on a thread without an unmatched enter ON THAT THREAD), its current nesting is exactly the number of live
    guards / EnteredSpans / running in_scope, poll and PinnedDrop bodies of that span on that thread — so it is
    balanced as soon as those are gone —, and in every chronological prefix exits never outnumber enters. *)
Theorem C03_enter_exit : forall p, WFprog p -> exists s, run p = Some s /\ forall v t,
  depth (d_log (snd s)) v t = Some (live_guards s v t) /\
  (forall l1 l2, trace p = l1 ++ l2 -> (cnt_at TExit v t l1 <= cnt_at TEnter v t l1)%nat) /\
  (cnt_at TEnter v t (trace p) = cnt_at TExit v t (trace p) + live_guards s v t)%nat.
Proof. exact enter_exit. Qed.
Print Assumptions C03_enter_exit.

(** When any call other than new_span about a span arrives, not all of its handles have been closed yet:
    nothing arrives after the last handle's close notification. *)
Theorem C03_nothing_after_last_close : forall p, WFprog p ->
  forall l1 c t k l2, trace p = l1 ++ ECall c t k :: l2 -> tag_of k <> TNew ->
  (cnt TClose (subject k, c) l1 < 1 + cnt TClone (subject k, c) l1)%nat.
Proof. exact nothing_after_last_close. Qed.
Print Assumptions C03_nothing_after_last_close.

(** After any program, an operation ON spans that are all disabled (inner = None) or belong to no collector appends
    no collector call (only the harness' own markers).  [on_unlogged] covers clone, drop, enter, guard drop, entered,
    exit, in_scope begin / end, record chains, follows_from, the pure accessors, instrument, with_collector, poll begin /
    end, into_inner, the inner-future accessors, Clone for Instrumented and swapping through span_mut. *)
Theorem C03_disabled_silent : forall p x, WFprog (p ++ [x]) ->
  exists s s', run p = Some s /\ run (p ++ [x]) = Some s' /\
    (on_unlogged s x = true -> quiet (d_log (snd s)) (d_log (snd s'))).
Proof. exact disabled_silent. Qed.
Print Assumptions C03_disabled_silent.

(** The disabled branch of span! yields a Span with no inner and calls nothing. *)
Theorem C03_disabled_branch_silent : forall s t n par s',
  step s (t, New n (ViaMacro false) par) = Some s' ->
  d_log (snd s') = d_log (snd s) /\ val_of (snd s') n = SNone.
Proof. exact disabled_branch_silent. Qed.
Print Assumptions C03_disabled_branch_silent.

(** What an Instrumented future (WithDispatch-wrapped or not) contributes (logs are newest first): poll = enter, body
    ... ; dropping it = enter, the inner future's drop, exit, then the span handle's try_close; into_inner = try_close,
    inner returned. *)
Theorem C03_instrumented : forall s t f s', is_anyfut (fst s) f = true ->
  let v := val_of (snd s) f in
  (step s (t, PollBegin f) = Some s' ->
     d_log (snd s') = EMark t (MBody f) :: enter_entries v t ++ d_log (snd s)) /\
  (step s (t, Drop f) = Some s' ->
     d_log (snd s') = close_entries v t ++ exit_entries v t ++ EMark t (MInnerDrop f) :: enter_entries v t ++ d_log (snd s)) /\
  (step s (t, IntoInner f) = Some s' ->
     d_log (snd s') = EMark t (MInnerDrop f) :: close_entries v t ++ d_log (snd s)).
Proof. exact instrumented_step. Qed.
Print Assumptions C03_instrumented.

Theorem C03_instrumented_poll_end : forall s t r s', step s (t, PollEnd r) = Some s' ->
  exists e, top_frame (fst s) t = Some e /\ e_kind e = EPoll /\ e_tid e = t /\
            d_log (snd s') = exit_entries (val_of (snd s) (e_holder e)) t ++ d_log (snd s).
Proof. exact instrumented_poll_end. Qed.
Print Assumptions C03_instrumented_poll_end.

(** Polling a WithDispatch-wrapped future (either nesting order): while the body runs the thread's default is the
    wrapper's Dispatch, yet the span is entered and exited at its own collector; afterwards the previous default is back. *)
Theorem C03_with_dispatch : forall s t f b s', kind_of (fst s) f = Some (KFutW b) ->
  step s (t, PollBegin f) = Some s' ->
  d_log (snd s') = EMark t (MBody f) :: enter_entries (val_of (snd s) f) t ++ d_log (snd s) /\
  cur_default (snd s') t = disp_of (snd s) f /\
  kind_of (fst s') f = Some (KFutW b) /\
  forall r s'', step s' (t, PollEnd r) = Some s'' ->
    d_log (snd s'') = exit_entries (val_of (snd s) f) t ++ d_log (snd s') /\
    cur_default (snd s'') t = cur_default (snd s) t.
Proof. exact with_dispatch_step. Qed.
Print Assumptions C03_with_dispatch.

(** is_none / is_disabled / id / metadata, follows_from(None), record on fields the span does not have: nothing happens at
    all; inner / inner_mut / inner_pin_ref / inner_pin_mut of an Instrumented: the inner future is reached WITHOUT entering
    the span; mem::swap through span_mut: no call, the two Span values change places (so the counting theorems above
    keep holding for programs that re-seat the span of a future). *)
Theorem C03_accessors_silent : forall s t s',
  (forall r q, step s (t, Query r q) = Some s' -> s' = s) /\
  (forall r, step s (t, FollowsFrom r FNone) = Some s' -> s' = s) /\
  (forall r ks, forallb negb ks = true -> step s (t, Record r ks) = Some s' -> s' = s) /\
  (forall f k, step s (t, InnerAccess f k) = Some s' -> d_log (snd s') = EMark t (MInnerTouch f) :: d_log (snd s)) /\
  (forall f n, step s (t, SpanMutSwap f n) = Some s' ->
     d_log (snd s') = d_log (snd s) /\ val_of (snd s') f = val_of (snd s) n /\ val_of (snd s') n = val_of (snd s) f).
Proof. exact accessors_silent. Qed.
Print Assumptions C03_accessors_silent.

(** The static predicate is exactly "the program runs": it reads no span value, default collector or log. *)
Theorem C03_wf_static : forall p, WFprog p <-> exists s, run p = Some s.
Proof. exact wf_runs. Qed.
Print Assumptions C03_wf_static.

(** Non-vacuity: a well-formed two-thread program with a clone, out-of-order guard drops under a foreign default,
    Span::current, an Instrumented future dropped between polls, a disabled span and an EnteredSpan; and two programs
    the predicate rejects (handle dropped while a guard borrows it; guard dropped on another thread). *)
Theorem C03_nonvacuous :
  WFprog p_demo /\
  (length (trace p_demo) = 18%nat /\ cnt TNew (1, 1) (trace p_demo) = 1%nat /\ cnt TClone (1, 1) (trace p_demo) = 2%nat /\
   cnt TClose (1, 1) (trace p_demo) = 3%nat /\ cnt_at TEnter (1, 1) 1 (trace p_demo) = 3%nat /\
   cnt_at TExit (1, 1) 1 (trace p_demo) = 3%nat) /\
  (exists s s', run [(0, SetDefault 1); (0, New 3 (ViaMacro false) PRoot)] = Some s /\
     step s (0, Enter 3 7) = Some s' /\ on_unlogged s (0, Enter 3 7) = true) /\
  (wf_prog [(0, SetDefault 1); (0, New 0 Direct PRoot); (1, Enter 0 0); (0, Drop 0)] = false /\
   wf_prog [(0, New 0 Direct PRoot); (0, Enter 0 0); (1, DropGuard 0)] = false).
Proof. exact (conj demo_wf (conj demo_trace (conj demo_disabled_step demo_illformed))). Qed.
Print Assumptions C03_nonvacuous.

(** Non-vacuity of the extended op language: child_of(None) / child_of(id), a record chain with a missing field,
    follows_from(id) / follows_from(None), both WithDispatch nestings polled under a foreign default, Span::current inside
    them, inner_mut, Clone for Instrumented, span_mut swap, entered on the result, into_inner. *)
Theorem C03_nonvacuous_ext :
  WFprog p_demo2 /\
  length (trace p_demo2) = 31%nat /\
  cnt TNew (3, 2) (trace p_demo2) = 1%nat /\ cnt_at TEnter (1, 1) 1 (trace p_demo2) = 1%nat /\
  cnt_at TExit (1, 1) 1 (trace p_demo2) = 1%nat /\
  cnt TClone (2, 1) (trace p_demo2) = 2%nat /\ cnt TClose (2, 1) (trace p_demo2) = 3%nat /\
  cnt TRecord (2, 1) (trace p_demo2) = 2%nat /\ cnt TFollows (2, 1) (trace p_demo2) = 1%nat.
Proof. exact (conj demo2_wf demo2_trace). Qed.
Print Assumptions C03_nonvacuous_ext.

(** * Collectors whose clone_span returns an alias

    `Collect::clone_span` returns the id the new handle must use; it may differ from its argument ("if `id` is itself a
    pointer of some kind this can be used as a hook to clone the pointer").  In the model collectors 3, 4, ... hand out a
    fresh id per handle.  [trace p], about which every theorem above speaks, names a span by the id new_span returned,
    whichever alias a call carried; [wire p] is the same sequence of calls with the ids the collector really sees (the
    id of the handle the call goes through = what Span::id() returns, and the call's second id).  The counting theorems
    are therefore statements per SPAN; this one adds that every call carries an id which that collector itself issued
    earlier for that span (as new_span's result, or as the result of a clone_span about it). *)
Theorem C03_wire_ids : forall p, WFprog p ->
  map fst (wire p) = trace p /\
  forall l1 c t k x l2, wire p = l1 ++ (ECall c t k, x) :: l2 -> tag_of k <> TNew ->
    exists ex, In ex l1 /\ issues c (subject k) (fst x) ex.
Proof. exact wire_ids. Qed.
Print Assumptions C03_wire_ids.

Theorem C03_nonvacuous_alias :
  WFprog p_demo3 /\
  map enc_entry (wire p_demo3) =
    [(3, 0, 1, 1, 0, 0); (3, 0, 2, 1, 2, 0); (3, 0, 3, 1, 0, 0); (3, 0, 4, 2, 0, 0); (3, 0, 5, 2, 0, 0); (3, 0, 3, 2, 0, 0)] /\
  cnt TClose (1, 3) (trace p_demo3) = 2%nat /\ cnt TClone (1, 3) (trace p_demo3) = 1%nat.
Proof. exact demo3. Qed.
Print Assumptions C03_nonvacuous_alias.

(** * The tie to the source: collector-call shapes

    translators/span_shapes.py reads, on every run, one row per method of tracing/src/span.rs, tracing/src/instrument.rs,
    tracing-futures/src/lib.rs, the span! macro and MacroCallsite::disabled_span — the ordered collector calls, the
    conditions they sit under, calls of other methods, RAII guards and foreign code (vocabulary: SpanApi/ShapeSyntax.v) —
    into TVGen.Gen_span.src_shapes.  The generated table IS the table the model was written against, and nothing in the
    read methods was unrecognised: *)
Theorem C03_source_shapes : Gen_span.src_shapes = model_shapes /\ Gen_span.gen_unrecognised = [].
Proof. exact source_shapes. Qed.
Print Assumptions C03_source_shapes.

(** ... and that table is the one the model's micro-action compiler implements: whenever [compile] accepts an action, the
    micro-actions it emits are those [emit_tbl] computes from the rows (flattening calls of other methods, putting the drop
    of every RAII guard at the end of its function — also on unwind — and splitting in_scope / poll at the foreign code). *)
Theorem C03_compile_from_shapes : forall o t a ms, compile o t a = Some ms -> emit_tbl model_shapes o t a = Some ms.
Proof. exact compile_from_shapes. Qed.
Print Assumptions C03_compile_from_shapes.

(** Between a handle and its collector there may be a Dispatch and a Box<C> / Arc<C> (a collector chosen at run time or
    shared): in the table every one of them hands new_span, record, record_follows_from, enter, exit, clone_span, try_close
    and current_span on to the same method of the collector (none is left to a provided default of the trait), which is why
    the model has no wrapper. *)
Theorem C03_forwarding_transparent :
  forall w m, In w wrappers -> In m forwarded -> lookup_row model_shapes (fwd_key w m) = Some (fwd_row m).
Proof. exact forwarding_transparent. Qed.
Print Assumptions C03_forwarding_transparent.

(** The own-collector micro-actions mean: that call, at the Dispatch stored in the handle, about the handle's own id, and
    nothing if the handle has no inner (the `if let Some(inner) = self.inner` of every row). *)
Theorem C03_own_calls : forall d,
  (forall e, md0 (MEnterE e) d = own_sem KEnter (val_of d (e_holder e)) (e_tid e) None d) /\
  (forall e, md0 (MExitE e) d = own_sem KExit (val_of d (e_holder e)) (e_tid e) None d) /\
  (forall n t, md0 (MRelease n t) d = own_sem KTryClose (val_of d n) t None d) /\
  (forall r t, md0 (MRecord r t) d = own_sem KRecord (val_of d r) t None d) /\
  (forall r r' t, md0 (MFollows r r' t) d = own_sem KFollows (val_of d r) t (id_of_val (val_of d r')) d) /\
  (forall r n t, md0 (MCloneTo r n t) d = set_val (own_sem KCloneSpan (val_of d r) t None d) n (val_of d r)).
Proof. exact md_own. Qed.
Print Assumptions C03_own_calls.

(** The constructor micro-actions are what the rows of span! / Span::new / new_root / child_of (-> make_with), Span::current
    and Span::or_current compute on the thread's default dispatcher ([ctor]): new_span (or nothing under no collector),
    current_span + clone_span, the disabled branch, the handle remembering that dispatcher. *)
Theorem C03_constructors_from_shapes : forall n t d,
  (forall h p, md0 (MNewSpan n t h p) d =
               ctor_run model_shapes (new_entry h p) d n t (new_parg d p) (new_enabled d t h) SNone) /\
  md0 (MCurrentTo n t) d = ctor_run model_shapes row_current d n t None true SNone /\
  md0 (MOrCurrent n t) d = ctor_run model_shapes row_or_current d n t None true (val_of d n).
Proof.
  intros n t d. exact (conj (fun h p => md_new_from_shapes n t h p d)
                            (conj (md_current_from_shapes n t d) (md_or_current_from_shapes n t d))).
Qed.
Print Assumptions C03_constructors_from_shapes.

(** Non-vacuity of the shape interpreter: with the rows the two seeded mutants produce (in_scope = do_enter; f(); do_exit
    — Instrumented::into_inner forgetting the span) the same actions compile to different micro-actions: an unwinding
    in_scope no longer exits, into_inner no longer closes. *)
Theorem C03_shapes_sensitive :
  let o := mkOwn [(0, KHandle)] [mkEnt EScope 0 0] in
  let e := mkEnt EScope 0 0 in
  emit_tbl model_shapes o 0 (ScopeEnd true) = Some [MExitE e] /\
  emit_tbl shapes_A o 0 (ScopeEnd false) = Some [MExitE e] /\
  emit_tbl shapes_A o 0 (ScopeEnd true) = Some [] /\
  emit_tbl model_shapes (mkOwn [(0, KFut)] []) 0 (IntoInner 0) = Some [MRelease 0 0; MMark 0 (MInnerDrop 0)] /\
  emit_tbl shapes_B (mkOwn [(0, KFut)] []) 0 (IntoInner 0) = Some [MMark 0 (MInnerDrop 0)].
Proof. exact shapes_sensitive. Qed.
Print Assumptions C03_shapes_sensitive.

(** The unwind path of `EnteredSpan::exit` (SpanApi/ExitUnwind.v): with the row the source has (the span is moved into a
    local BEFORE `do_exit` runs), whether or not the collector's exit callback panics there is exactly one exit callback;
    if the call returns the caller owns the handle and nothing was closed; if it unwinds the handle is gone and the
    collector has received exactly one close notification.  The row is the one C03_source_shapes ties to the source. *)
Theorem C03_exit_unwind_closes_once : exit_ok exit_row_model /\ lookup_row model_shapes row_entered_exit = Some exit_row_model.
Proof. exact (conj exit_row_unwind_safe exit_row_model_lookup). Qed.
Print Assumptions C03_exit_unwind_closes_once.

(** Non-vacuity / sensitivity: the ManuallyDrop::new(self) + ptr::read shape (seeded C03-I) agrees on the normal path and
    fails the same statement: on the unwind path nobody owns the span and no close notification is ever sent. *)
Theorem C03_exit_manually_drop_refuted :
  (exit_ok row_manually_drop -> False) /\
  (let s := urun false row_manually_drop u0 in exits s = 1%nat /\ where_ s = Returned /\ closes s = 0%nat) /\
  (let s := urun true row_manually_drop u0 in where_ s = InSelf /\ self_forgotten s = true /\ closes s = 0%nat).
Proof. exact (conj exit_row_manually_drop_refuted (conj exit_row_manually_drop_normal_path exit_row_manually_drop_leaks)). Qed.
Print Assumptions C03_exit_manually_drop_refuted.
