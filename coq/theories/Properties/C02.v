(** C02 — An emission goes to the thread's scoped default, else to the global default.
    Statements only; proofs in Dispatch/Proofs_C02.v and Dispatch/Proofs_Shape_C02.v, executable model and
    specification in Dispatch/Model.v, what the translator read off the Rust source on this run in
    coq/gen/Gen_dispatch.v (meaning: Dispatch/Shape.v, Dispatch/Source.v).

    Reading guide.  [src_fx] is the variant of dispatch.rs that translators/dispatch_shape.py READ OFF THE SOURCE on
    this run: [true] = get_default_slow, Entered::current, State::set_default and Drop for DefaultGuard never
    populate the thread-local from the global default (fix aa353f7 of finding F1); anything else = [false], for which
    the headline below is false (C02_unrepaired_variant_refuted), so this file stops compiling if the repair is
    reverted.  [run src_fx sm conf init h] are the observations of history [h] in the model of dispatch.rs;
    [aspec ainit h] is what the abstract specification — one scope stack per thread plus a write-once global cell,
    nothing else — says about each op: [ADefault d] "if this op asks for the thread's default it is handed d"
    (d = innermost live scope of that thread, else the global default if set, else the no-op dispatcher),
    [ASetGlobal ok] "set_global_default returns Ok iff the cell was empty", [ABad] "not expressible, ignored".
    [agrees] compares an observation with that.  [Nested h]: guards are dropped innermost-first (LIFO). *)
From Coq Require Import NArith List.
From TV Require Import Dispatch.Model Dispatch.Shape Dispatch.Reentry Dispatch.Source.
From TV Require Import Dispatch.Proofs_C01 Dispatch.Proofs_C02 Dispatch.Proofs_Reentry Dispatch.Proofs_Shape_C02.
From TVGen Require Import Gen_dispatch.
Import ListNotations.
Local Open Scope N_scope.

(** The source as read on this run: every shape recognised, everything the model takes for granted present
    (fast path iff SCOPED_COUNT = 0, the counter is incremented / decremented, compare-exchange then store then
    publish with three distinct constants, get_global tests for the published constant, with_default is a guard),
    and the four thread-local sites all have the repaired shape. *)
Theorem C02_source_recognised :
  gen_dispatch_unrecognised = [] /\ dispatch_shape_ok gen_dispatch = true /\ fx_of_shape gen_dispatch = Some true.
Proof. exact (conj source_dispatch_recognised (conj source_dispatch_ok source_is_repaired)). Qed.
Print Assumptions C02_source_recognised.

(** Headline, hypothesis-free: EVERY properly nested history (any length, any number of threads / collectors,
    set_global_default at any position or never — in particular after a thread used a scope or merely emitted —,
    emissions filtered or not, every compile-time cap, every filter assignment) refines the specification. *)
Theorem C02_spec :
  forall static_max conf h, Nested h ->
  Forall2 agrees (map fst (run src_fx static_max conf init h)) (aspec ainit h).
Proof. exact spec_refinement_fixed. Qed.
Print Assumptions C02_spec.

(** Who RECEIVES an emission (C01 composed with C02), in terms of the specification's stacks only: after any
    properly nested history, the collector installed by the innermost still-live scope of the emitting thread —
    else the global default when one has been set — if its own filter accepts the callsite; otherwise nobody. *)
Theorem C02_emission_receiver :
  forall sm conf, (forall c, wf_collector (conf c)) ->
  forall h t cs, Nested h ->
  exists con, snd (step src_fx sm conf (final src_fx sm conf init h) (Emit t cs)) =
              OEmit con (spec_receiver sm conf (final src_fx sm conf init h) (afinal ainit h) t cs).
Proof. exact emission_receiver. Qed.
Print Assumptions C02_emission_receiver.

(** ... and with collectors that accept everything, exactly the specification's default (or nobody: "discarded"). *)
Theorem C02_emission_receiver_unfiltered :
  forall conf,
  (forall c cs, c_reg (conf c) cs = always) -> (forall c fl cs, c_en (conf c) fl cs = true) -> (forall c, c_hint (conf c) = None) ->
  forall h t cs, Nested h ->
  exists con, snd (step src_fx (Some TRACE) conf (final src_fx (Some TRACE) conf init h) (Emit t cs)) =
              OEmit con (match a_default (afinal ainit h) t with DCol c => Some c | DNone => None end).
Proof. exact emission_receiver_unfiltered. Qed.
Print Assumptions C02_emission_receiver_unfiltered.

(** Non-vacuity of C02_spec: a nested two-thread history with nesting, a set_global_default that comes after
    scoped use on another thread, and a second, failing, attempt. *)
Theorem C02_nonvacuous :
  Nested ex2_history /\
  map fst (run src_fx (Some TRACE) (conf_of_list [all_pass; all_pass; all_pass]) init ex2_history) =
  [ ONew 0; ONew 1; ONew 2; OUnit; OUnit; ODefault (DCol 1); OUnit; ODefault (DCol 0);
    OSetGlobal true; OSetGlobal false; ODefault (DCol 2); OUnit ].
Proof. exact (conj (nested_b_sound ex2_history eq_refl) ex2_fixed). Qed.
Print Assumptions C02_nonvacuous.

(** F1's replay (T0 scope opened and closed; set_global_default(G); T1 holds a scope; T0 emits) is a regression
    case that holds: the emission reaches the global default. *)
Theorem C02_F1_replay_holds :
  Nested f1_history /\
  nth 7 (map fst (run src_fx (Some TRACE) (conf_of_list [all_pass; all_pass; all_pass]) init f1_history)) OBad
    = OEmit (Some (DCol 1)) (Some 1).
Proof. exact (conj (nested_b_sound f1_history eq_refl) F1_replay_holds_when_fixed). Qed.
Print Assumptions C02_F1_replay_holds.

(** Why the repair is load-bearing: in the variant from before fix aa353f7 ([fx = false]: the thread-local caches
    a clone of the global default) the same replay is properly nested and the code hands T0 the no-op dispatcher
    where the specification says G — the headline is FALSE for [false]. *)
Theorem C02_unrepaired_variant_refuted :
  Nested f1_history /\
  F1_class (Some TRACE) (conf_of_list [all_pass; all_pass; all_pass]) f1_history /\
  nth 7 (map fst (run false (Some TRACE) (conf_of_list [all_pass; all_pass; all_pass]) init f1_history)) OBad
    = OEmit (Some DNone) None /\
  nth 7 (aspec ainit f1_history) AAny = ADefault (DCol 1) /\
  ~ Forall2 agrees (map fst (run false (Some TRACE) (conf_of_list [all_pass; all_pass; all_pass]) init f1_history))
                   (aspec ainit f1_history).
Proof. exact F1_refuted. Qed.
Print Assumptions C02_unrepaired_variant_refuted.

(** ... and exactly where: in that variant a properly nested history refines the specification if AND ONLY IF it is
    outside [F1_class] (some thread used the dispatcher machinery before the global default existed and later, with
    no live scope of its own, asks for its default on the slow path). *)
Theorem C02_unrepaired_variant_exact_boundary :
  forall static_max conf h, Nested h ->
  (Forall2 agrees (map fst (run false static_max conf init h)) (aspec ainit h) <-> ~ F1_class static_max conf h).
Proof. exact F1_class_is_exact. Qed.
Print Assumptions C02_unrepaired_variant_exact_boundary.

(** "Never affect another thread" (state): an op of thread t (or a thread-less op) leaves every other thread's
    thread-local default and guards untouched.  (Both variants.) *)
Theorem C02_thread_isolation :
  forall fx sm conf s o u, op_thread o <> Some u -> tls (fst (step fx sm conf s o)) u = tls s u.
Proof. exact thread_frame. Qed.
Print Assumptions C02_thread_isolation.

(** "Never affect another thread" (observably): after any properly nested history, an op of another thread (or a
    thread-less op) other than set_global_default does not change the dispatcher handed to thread u — although it
    may flip the process-wide fast/slow path (SCOPED_COUNT). *)
Theorem C02_isolation_observable :
  forall sm conf h o u,
  Nested (h ++ [o]) -> op_thread o <> Some u -> (forall t c, o <> SetGlobal t c) ->
  current (final src_fx sm conf init (h ++ [o])) u = current (final src_fx sm conf init h) u.
Proof. exact isolation_observable. Qed.
Print Assumptions C02_isolation_observable.

(** ... and set_global_default does not change what a thread WITH a live scope is handed. *)
Theorem C02_set_global_keeps_scoped_threads :
  forall sm conf h t c u d stk,
  Nested (h ++ [SetGlobal t c]) ->
  a_stack (afinal ainit h) u = d :: stk ->
  current (final src_fx sm conf init (h ++ [SetGlobal t c])) u = d /\ current (final src_fx sm conf init h) u = d.
Proof. exact set_global_keeps_scoped_threads. Qed.
Print Assumptions C02_set_global_keeps_scoped_threads.

(** "Scopes nest and unwind in LIFO order, are restored on panic" (specification side): opening n scopes and
    dropping the n guards innermost-first (unwinding, or leaving nested with_default closures) restores every
    thread's stack. *)
Theorem C02_panic_restores :
  forall ds a t, forallb (a_valid a) ds = true ->
  forall u, a_stack (afinal a (map (Open t) ds ++ repeat (Close t 0%nat) (length ds))) u = a_stack a u.
Proof. exact unwind_restores. Qed.
Print Assumptions C02_panic_restores.

(** ... and on the code's own state, from ANY state: the thread-local default, the guard list, SCOPED_COUNT, the
    global default, the handles and the callsite caches are exactly what they were before the outermost scope. *)
Theorem C02_panic_restores_state :
  forall sm conf t ds s,
  forallb (valid_disp s) ds = true ->
  let s' := final src_fx sm conf s (map (Open t) ds ++ repeat (Close t 0%nat) (length ds)) in
  (forall u, tls s' u = tls s u) /\ scoped s' = scoped s /\ global s' = global s /\ handle s' = handle s /\
  next s' = next s /\ cache s' = cache s /\ max_level s' = max_level s /\ dispatchers s' = dispatchers s.
Proof. exact unwind_restores_concrete. Qed.
Print Assumptions C02_panic_restores_state.

(** "Restored on panic", where a COLLECTOR CALLBACK panics while handling an emission and the panic is caught above the
    emission (catch_unwind, a surviving worker thread).  Dispatch/Reentry.v extends the model with the per-thread
    re-entrancy flag `can_enter` and with callbacks that return, panic, or emit re-entrantly; [src_unwind_resets] is
    read off get_default_slow (the RAII guard whose Drop sets the flag back).  After ANY history of such operations and
    whatever the callback of this emission does: every thread's flag is set again, and every thread is handed the
    dispatcher it was handed before — its receiver function is unchanged. *)
Theorem C02_panic_in_callback_restores :
  forall sm conf h t cs b,
  let x := xfinal src_fx src_unwind_resets src_dead_counts sm conf xinit h in
  let x' := fst (xstep src_fx src_unwind_resets src_dead_counts sm conf x (XEmitCb t cs b)) in
  (forall u, ce x' u = true) /\
  (forall u, current (xs x') u = current (xs x) u) /\
  (forall u, xdefault src_fx x' u = current (xs x) u) /\
  (forall u, xdefault src_fx x u = current (xs x) u).
Proof. exact (fun sm conf => panic_in_callback_restores src_unwind_resets src_dead_counts sm conf eq_refl). Qed.
Print Assumptions C02_panic_in_callback_restores.

(** ... hence histories in which callbacks panic refine the specification exactly like histories in which they return
    (the headline, over the extended operations; [erase] forgets what the callbacks did). *)
Theorem C02_spec_with_callback_panics :
  forall sm conf h, no_reentry h -> Nested (erase h) ->
  Forall2 agrees (map base_obs (map fst (xrun src_fx src_unwind_resets src_dead_counts sm conf xinit h))) (aspec ainit (erase h)).
Proof. exact (fun sm conf h => spec_refinement_with_callback_panics src_unwind_resets src_dead_counts sm conf h eq_refl). Qed.
Print Assumptions C02_spec_with_callback_panics.

(** Re-entrancy: an emission made from inside a collector callback that runs under the slow path (some scope live
    anywhere) is handed the no-op dispatcher — nobody receives it (documented: get_default must not be nested) — and by
    the theorem above the flag is set back afterwards. *)
Theorem C02_reentrant_emission_gets_none :
  forall sm conf x t cs cs' p con c nested pp,
  scoped (xs x) <> 0%nat -> ce x t = true ->
  snd (do_emit_cb src_fx src_unwind_resets sm conf x t cs (CbEmit cs' p)) = XOEmitCb con (Some c) nested pp ->
  nested = Some None.
Proof. exact (reentrant_gets_none src_unwind_resets). Qed.
Print Assumptions C02_reentrant_emission_gets_none.

(** The unwinding half of the guard is load-bearing: with a flag that is set back on normal return only, one caught
    callback panic inside a scope makes the thread's next emission vanish although its scope is still live (witness:
    set_default(c0); an emission whose callback panics; an emission); and the same history with the guard. *)
Theorem C02_unwind_guard_is_needed :
  map fst (xrun true false true (Some TRACE) (conf_of_list [all_pass]) xinit cb_history) =
    [ XO (ONew 0); XO OUnit; XOEmitCb (Some (DCol 0)) (Some 0) None true; XO (OEmit (Some DNone) None) ] /\
  current (xs (xfinal true false true (Some TRACE) (conf_of_list [all_pass]) xinit cb_history)) 0 = DCol 0 /\
  map fst (xrun true true true (Some TRACE) (conf_of_list [all_pass]) xinit cb_history) =
    [ XO (ONew 0); XO OUnit; XOEmitCb (Some (DCol 0)) (Some 0) None true; XO (OEmit (Some (DCol 0)) (Some 0)) ].
Proof. exact unwind_guard_is_needed. Qed.
Print Assumptions C02_unwind_guard_is_needed.

(** "Never affect another thread", at THREAD TEARDOWN: `with_default` / `set_default` (and an emission inside it) called
    from a thread-local destructor that runs after tracing-core's own CURRENT_STATE thread-local is destroyed — every
    `try_with` fails: nothing is installed, the emission gets the no-op dispatcher — leaves every thread's thread-local
    default and guards, SCOPED_COUNT, the global default and hence the dispatcher every thread is handed exactly as they
    were, from ANY state.  [src_dead_counts] is read off State::set_default (SCOPED_COUNT is incremented outside the
    `try_with` closure, as the guard's drop decrements it outside). *)
Theorem C02_teardown_scope_affects_nobody :
  forall sm conf x t cs,
  let x' := fst (xstep src_fx src_unwind_resets src_dead_counts sm conf x (XDeadScope t cs)) in
  thr_eq (xs x) (xs x') /\ (forall u, ce x' u = ce x u) /\ (forall u, current (xs x') u = current (xs x) u).
Proof. exact (dead_scope_affects_nobody src_fx src_unwind_resets). Qed.
Print Assumptions C02_teardown_scope_affects_nobody.

(** The increment is load-bearing: were such a scope not counted when opened (while its guard's drop still decrements),
    another thread's live scope would be bypassed — its emission goes to the global default (collector 0) instead of its
    own scoped collector (1). *)
Theorem C02_teardown_count_is_needed :
  nth 5 (map fst (xrun true true false (Some TRACE) (conf_of_list [all_pass; all_pass]) xinit dead_history)) XONoCurrent
    = XO (OEmit (Some (DCol 0)) (Some 0)) /\
  nth 5 (map fst (xrun true true true (Some TRACE) (conf_of_list [all_pass; all_pass]) xinit dead_history)) XONoCurrent
    = XO (OEmit (Some (DCol 1)) (Some 1)).
Proof. exact dead_scope_count_is_needed. Qed.
Print Assumptions C02_teardown_count_is_needed.

(** "set_global_default succeeds exactly once", under EVERY interleaving of its three micro-steps
    (compare-exchange; store the dispatcher; store INITIALIZED) for any number of concurrent attempts. *)
Theorem C02_set_global_once :
  forall cand sched,
  let s := sg_run cand sched in
  (forall t u, sg_res s t = Some SgOk -> sg_res s u = Some SgOk -> t = u) /\
  (forall t, sg_res s t = Some SgOk -> sg_get_global s = Some (cand t)) /\
  ((forall t, sg_res s t <> Some SgOk) -> sg_get_global s = None) /\
  (forall t, sg_res s t = Some SgErr -> exists w, w <> t /\ sg_pc s w <> 0%nat /\ sg_res s w <> Some SgErr).
Proof. exact set_global_once. Qed.
Print Assumptions C02_set_global_once.

Theorem C02_set_global_some_success :
  forall cand sched,
  let s := sg_run cand sched in
  (exists t, sg_res s t <> None) ->
  (forall t, sg_pc s t <> 0%nat -> sg_res s t <> None) ->
  exists w, sg_res s w = Some SgOk.
Proof. exact set_global_some_success. Qed.
Print Assumptions C02_set_global_some_success.

(** The micro-step model's three states are the source's three constants, and its moves are the source's
    compare-exchange / publish / get_global test, as read on this run. *)
Theorem C02_global_init_numbers :
  (forall g, cas_num gen_dispatch (ginit_num gen_dispatch g) =
             match g with Uninit => Some (ginit_num gen_dispatch Initializing) | _ => None end) /\
  publish_num gen_dispatch = Some (ginit_num gen_dispatch Initialized) /\
  (forall g, global_visible_num gen_dispatch (ginit_num gen_dispatch g) = match g with Initialized => true | _ => false end) /\
  (forall g g', ginit_num gen_dispatch g = ginit_num gen_dispatch g' -> g = g').
Proof. exact source_ginit_moves. Qed.
Print Assumptions C02_global_init_numbers.

(** ... and at the granularity of whole calls, for EVERY history (nested or not, both variants): at most one call
    ever returns Ok; the first call with a live handle does; every later one returns Err and changes nothing. *)
Theorem C02_set_global_once_history :
  forall fx sm conf h, (length (filter is_set_ok (map fst (run fx sm conf init h))) <= 1)%nat.
Proof. exact set_global_once_history. Qed.
Print Assumptions C02_set_global_once_history.

Theorem C02_set_global_first_attempt_succeeds :
  forall fx sm conf s t c, global s = None -> handle s c = true ->
  step fx sm conf s (SetGlobal t c) = (set_global s (Some c), OSetGlobal true).
Proof. exact set_global_first_attempt_succeeds. Qed.
Print Assumptions C02_set_global_first_attempt_succeeds.

Theorem C02_set_global_later_attempts_fail :
  forall fx sm conf s t c g, global s = Some g -> handle s c = true ->
  step fx sm conf s (SetGlobal t c) = (s, OSetGlobal false).
Proof. exact set_global_later_attempts_fail. Qed.
Print Assumptions C02_set_global_later_attempts_fail.
