(** C02 — An emission goes to the thread's scoped default, else to the global default.
    Statements only; proofs in Dispatch/Proofs_C02.v, executable model and specification in Dispatch/Model.v.

    THIS FILE IS THE VARIANT FOR /repo AS IT IS NOW (finding F1 present, model variant [fx = false]).
    The variant for the repaired dispatch.rs is Properties/C02F.v (same theorems without the [~ F1_class]
    hypothesis and without the refutation); notes/C02.md says how to flip.

    Reading guide.  [run false sm conf init h] are the observations of history [h] in the model of dispatch.rs as
    it is; [aspec ainit h] is what the abstract specification — one scope stack per thread plus a write-once
    global cell, nothing else — says about each op: [ADefault d] "if this op asks for the thread's default it is
    handed d" (d = innermost live scope of that thread, else the global default if set, else the no-op dispatcher),
    [ASetGlobal ok] "set_global_default returns Ok iff the cell was empty", [ABad] "not expressible, ignored".
    [agrees] compares an observation with that.  [Nested h]: guards are dropped innermost-first (LIFO).
    [F1_class] is delimited by a ghost monitor that never looks at a thread-local: some thread first used the
    dispatcher machinery (opened a scope, asked for its default while any scope was live anywhere, or called
    get_current) BEFORE the global default existed, and later — after set_global_default, with no live scope of
    its own, while some scope is live elsewhere (or via get_current) — asks for its default. *)
From Coq Require Import NArith List.
From TV Require Import Dispatch.Model Dispatch.Proofs_C02.
Import ListNotations.
Local Open Scope N_scope.

(** Headline: every properly nested history (any length, any number of threads / collectors, set_global_default
    at any position or never, emissions filtered or not, every compile-time cap, every filter assignment)
    outside the F1 class refines the specification. *)
Theorem C02_spec :
  forall static_max conf h, Nested h -> ~ F1_class static_max conf h ->
  Forall2 agrees (map fst (run false static_max conf init h)) (aspec ainit h).
Proof. exact spec_refinement_unfixed. Qed.
Print Assumptions C02_spec.

(** The class is the exact boundary of the finding: a properly nested history refines the specification
    if AND ONLY IF it is outside F1_class. *)
Theorem C02_spec_iff_outside_F1 :
  forall static_max conf h, Nested h ->
  (Forall2 agrees (map fst (run false static_max conf init h)) (aspec ainit h) <-> ~ F1_class static_max conf h).
Proof. exact F1_class_is_exact. Qed.
Print Assumptions C02_spec_iff_outside_F1.

(** Known finding F1: the replay (T0 scope opened and closed; set_global_default(G); T1 holds a scope; T0 emits)
    is properly nested, lies in the class, and the code hands T0 the no-op dispatcher where the specification says G. *)
Theorem C02_F1_refuted :
  Nested f1_history /\
  F1_class (Some TRACE) (conf_of_list [all_pass; all_pass; all_pass]) f1_history /\
  nth 7 (map fst (run false (Some TRACE) (conf_of_list [all_pass; all_pass; all_pass]) init f1_history)) OBad
    = OEmit (Some DNone) None /\
  nth 7 (aspec ainit f1_history) AAny = ADefault (DCol 1) /\
  ~ Forall2 agrees (map fst (run false (Some TRACE) (conf_of_list [all_pass; all_pass; all_pass]) init f1_history))
                   (aspec ainit f1_history).
Proof. exact F1_refuted. Qed.
Print Assumptions C02_F1_refuted.

(** Non-vacuity of C02_spec: a nested two-thread history outside the class with nesting, a set_global_default that
    comes after scoped use on another thread, and a second, failing, attempt. *)
Theorem C02_nonvacuous :
  Nested ex2_history /\ ~ F1_class (Some TRACE) (conf_of_list [all_pass; all_pass; all_pass]) ex2_history /\
  map fst (run false (Some TRACE) (conf_of_list [all_pass; all_pass; all_pass]) init ex2_history) =
  [ ONew 0; ONew 1; ONew 2; OUnit; OUnit; ODefault (DCol 1); OUnit; ODefault (DCol 0);
    OSetGlobal true; OSetGlobal false; ODefault (DCol 2); OUnit ].
Proof. exact ex2_nonvacuous. Qed.
Print Assumptions C02_nonvacuous.

(** Scopes never affect another thread: an op of thread t (or a thread-less op) leaves every other thread's
    thread-local default and guards untouched.  (Both variants.) *)
Theorem C02_thread_isolation :
  forall fx sm conf s o u, op_thread o <> Some u -> tls (fst (step fx sm conf s o)) u = tls s u.
Proof. exact thread_frame. Qed.
Print Assumptions C02_thread_isolation.

(** Scopes unwind LIFO and are restored on panic: opening n scopes and dropping the n guards innermost-first
    (unwinding, or leaving nested with_default closures) restores every thread's stack. *)
Theorem C02_panic_restores :
  forall ds a t, forallb (a_valid a) ds = true ->
  forall u, a_stack (afinal a (map (Open t) ds ++ repeat (Close t 0%nat) (length ds))) u = a_stack a u.
Proof. exact unwind_restores. Qed.
Print Assumptions C02_panic_restores.

(** set_global_default succeeds exactly once, under EVERY interleaving of its three micro-steps
    (compare-exchange; store the dispatcher; store INITIALIZED) for any number of concurrent attempts. *)
Theorem C02_set_global_once :
  forall cand sched,
  let s := sg_run cand sched in
  (forall t u, sg_res s t = Some SgOk -> sg_res s u = Some SgOk -> t = u) /\
  (forall t, sg_res s t = Some SgOk -> sg_get_global s = Some (cand t)) /\
  ((forall t, sg_res s t <> Some SgOk) -> sg_get_global s = None) /\
  (forall t, sg_res s t = Some SgErr -> exists w, w <> t /\ sg_pc s w <> 0%nat /\ sg_res s w <> Some SgErr).
Proof. exact set_global_once. Qed.
Print Assumptions C02_set_global_once.

Theorem C02_set_global_some_success :
  forall cand sched,
  let s := sg_run cand sched in
  (exists t, sg_res s t <> None) ->
  (forall t, sg_pc s t <> 0%nat -> sg_res s t <> None) ->
  exists w, sg_res s w = Some SgOk.
Proof. exact set_global_some_success. Qed.
Print Assumptions C02_set_global_some_success.
