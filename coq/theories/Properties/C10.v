(** C10 — Macros record each field once, typed, in order; disabled ones evaluate nothing.
    Statements only; proofs live in Fields/Proofs.v.  [run], [route], [vs_record], [span_record], [guard]
    (Fields/Model.v) interpret TVGen.Gen_values, which is regenerated from /repo's field.rs / macros.rs / span.rs
    on every run, so every theorem below is re-checked against the current source.  [spec_*], [declared_name],
    [well_typed], [wf_inv] (Fields/Spec.v) are the property's own statement and do not mention the tables.

    Scope ("partial" for "every macro form"): the theorems quantify over the modelled form grammar — any list of
    fields, each `k = v | k = ?v | k = %v | path | ?path | %path` with k a dotted/raw identifier path, a string literal
    or a `{ CONST }`, an optional trailing format-string message, an optional trailing comma, the `{ fields }, fmt`
    event form, every name:/target:/parent: prefix set, any level, any collector answers.  Which *forwarding* arm
    rustc selects for a concrete token sequence is not modelled (translator checks their shape; the compiled corpus
    exercises them). *)
From TV Require Import Fields.Spec Fields.Proofs.
Local Open Scope N_scope.

(** ** Headline: the model of the code does exactly what the specification functions say — for every invocation
    of the grammar, every value, every collector. *)
Theorem C10_run_meets_spec : forall inv c, wf_inv inv = true ->
  run inv c = Some (spec_outcome inv (guard c (i_level inv))).
Proof. exact run_spec. Qed.
Print Assumptions C10_run_meets_spec.

(** ** ... spelled out: when enabled, the callsite declares message? ++ the written names; the visitor sees the
    message first (if any) and then every non-empty field, under its declared name, in declaration order, each
    exactly once (distinct field indices = positions), with what [spec_item_seen] prescribes. *)
Theorem C10_order_once_named : forall inv c, wf_inv inv = true -> guard c (i_level inv) = true ->
  let f := i_fields inv in
  exists vis ticks,
    run inv c = Some (mk_out (msg_names f ++ map declared_name (f_items f)) (Some vis) ticks)
    /\ map visit_name vis = msg_names f ++ map declared_name (filter is_visited (f_items f))
    /\ NoDup (map visit_index vis)
    /\ (forall v, In v vis ->
          (v = (message_name, 0, MDebug, SDbg (match f_fmt f with Some m => fm_text m | None => [] end)) /\ f_fmt f <> None)
          \/ exists k it, nth_error (f_items f) k = Some it /\ visit_name v = declared_name it
                          /\ visit_index v = (msg_offset f + N.of_nat k)%N
                          /\ spec_item_seen it = Some (snd (fst v), snd v)).
Proof. exact order_once_named. Qed.
Print Assumptions C10_order_once_named.

Definition ex_u8 : rvalue := mk_rv (TPrim U8) (PInt 255) [50; 53; 53] [50; 53; 53].
Definition ex_str : rvalue := mk_rv TStr (PText [104; 105]) [104; 105] [34; 104; 105; 34].       (* "hi": Display hi, Debug "hi" *)
Definition ex_empty : rvalue := mk_rv TEmpty PNothing [] [].
Definition ex_fields : fields :=
  mk_fields [IKV (KeyPath [[97]; [98]]) SNone [0] ex_u8;         (* a.b = t(0, 255u8) *)
             ISh SDebug [[120]] [] ex_str;                       (* ?x *)
             IKV (KeyLit [108; 32; 49]) SDisplay [1] ex_str;     (* "l 1" = %t(1, "hi") *)
             IKV (KeyConst [99]) SNone [2] ex_empty]             (* { C } = t(2, Empty) *)
            false (Some (mk_fmt [3; 4] [109])).                  (* "..{}..{}", t(3, _), t(4, _)  rendering "m" *)
Definition ex_inv : invocation := mk_inv MEvent "target" 3 false ex_fields.
Definition ex_on : collector := mk_coll 5 5 Always true.

Example C10_order_once_named_nonvacuous :
  wf_inv ex_inv = true /\ guard ex_on (i_level ex_inv) = true /\
  run ex_inv ex_on =
    Some (mk_out [[109; 101; 115; 115; 97; 103; 101]; [97; 46; 98]; [120]; [108; 32; 49]; [99]]
                 (Some [([109; 101; 115; 115; 97; 103; 101], 0, MDebug, SDbg [109]);
                        ([97; 46; 98], 1, MU64, SInt 255);
                        ([120], 2, MDebug, SDbg [34; 104; 105; 34]);
                        ([108; 32; 49], 3, MDebug, SDbg [104; 105])])
                 [3; 4; 0; 1; 2]) /\
  (* the brace form `{ fields }, fmt` gives the same *)
  run (mk_inv MEvent "" 3 true ex_fields) ex_on = run ex_inv ex_on.
Proof. vm_compute. repeat split. Qed.

(** `r#` is kept in the declared name (stringify! of the path), also inside a dotted path and as a shorthand. *)
Example C10_raw_names :
  option_map o_names (run (mk_inv MSpan "parent" 5 false
         (mk_fields [IKV (KeyPath [[114; 35; 116; 121; 112; 101]; [120]]) SNone [0] ex_u8;      (* r#type.x = .. *)
                     ISh SDisplay [[107]; [114; 35; 102; 110]] [1] ex_str] true None)) ex_on)    (* %k.r#fn, *)
  = Some [[114; 35; 116; 121; 112; 101; 46; 120]; [107; 46; 114; 35; 102; 110]].
Proof. vm_compute. reflexivity. Qed.

(** ** Typed: for every type of the grammar and EVERY value of that type, the value goes through the specified
    method unchanged (all integer widths incl. 64-bit usize/isize, NonZero*, Wrapping, references, f32 -> f64). *)
Theorem C10_typed : forall t v, well_typed t v = true -> route t v = Some (spec_route t v).
Proof. exact route_typed. Qed.
Print Assumptions C10_typed.

(** ... and row by row over the generated [impl_values!] table. *)
Theorem C10_typed_table :
  (forall p, exists m c, lookup_row gen_value_rows p = Some (m, c)) /\
  (forall p m c, lookup_row gen_value_rows p = Some (m, c) ->
     m = spec_method p
     /\ (forall z, is_int p = true -> in_range p z = true -> apply_cast p c (PInt z) = Some (PInt z))
     /\ (forall f, is_float p = true -> fits p f = true -> apply_cast p c (PFloat f) = Some (PFloat f))
     /\ (forall b, p = PBool -> apply_cast p c (PBoolv b) = Some (PBoolv b))).
Proof. exact (conj table_complete typed_table). Qed.
Print Assumptions C10_typed_table.

Example C10_typed_nonvacuous :
  well_typed (TPrim U64) (mk_rv (TPrim U64) (PInt 18446744073709551615) [] []) = true /\
  route (TPrim U64) (mk_rv (TPrim U64) (PInt 18446744073709551615) [] []) = Some (Some (MU64, SInt 18446744073709551615)) /\
  route (TNonZero I8) (mk_rv (TNonZero I8) (PInt (-128)) [] []) = Some (Some (MI64, SInt (-128))) /\
  route (TRef (TWrapping (TPrim Isize))) (mk_rv (TPrim Isize) (PInt (-9223372036854775808)) [] []) = Some (Some (MI64, SInt (-9223372036854775808))) /\
  route (TPrim F32) (mk_rv (TPrim F32) (PFloat (FFin true 1 (-149))) [] []) = Some (Some (MF64, SFloat (FFin true 1 (-149)))) /\
  well_typed (TPrim U8) (mk_rv (TPrim U8) (PInt 256) [] []) = false /\
  (* a cast that does NOT contain the range loses the value: the theorem is not true of arbitrary rows *)
  apply_cast U64 (CastAs I64) (PInt 18446744073709551615) = Some (PInt (-1)).
Proof. vm_compute. repeat split. Qed.

(** ** Sigils: `?x` presents x's Debug text and `%x` its Display text, through record_debug, whatever x's type. *)
Theorem C10_sigils : forall inv c k it, wf_inv inv = true -> guard c (i_level inv) = true ->
  nth_error (f_items (i_fields inv)) k = Some it ->
  forall text, (item_sigil it = SDebug /\ text = rv_dbg (item_value it)) \/ (item_sigil it = SDisplay /\ text = rv_disp (item_value it)) ->
  exists o vis, run inv c = Some o /\ o_delivered o = Some vis
    /\ In (declared_name it, (msg_offset (i_fields inv) + N.of_nat k)%N, MDebug, SDbg text) vis.
Proof. exact sigils. Qed.
Print Assumptions C10_sigils.

Example C10_sigils_nonvacuous :
  nth_error (f_items (i_fields ex_inv)) 2 = Some (IKV (KeyLit [108; 32; 49]) SDisplay [1] ex_str) /\
  (* a type that is not a Value at all is fine under a sigil *)
  wf_inv (mk_inv MSpan "" 1 false (mk_fields [ISh SDebug [[120]] [] (mk_rv TOther PNothing [68] [71])] true None)) = true.
Proof. vm_compute. repeat split. Qed.

(** ** Empty and unset fields are not visited. *)
Theorem C10_empty_unset_skipped :
  (forall v, route TEmpty v = Some None)
  /\ (forall cs f v r, rv_ty v = TEmpty -> vs_record cs ((f, Some v) :: r) = vs_record cs r)
  /\ (forall cs f r, vs_record cs ((f, None) :: r) = vs_record cs r)
  /\ (forall it, item_sigil it = SNone -> rv_ty (item_value it) = TEmpty -> is_visited it = false).
Proof. exact empty_unset_skipped. Qed.
Print Assumptions C10_empty_unset_skipped.

(** ** Recording an undeclared field (by name, by a Field of another callsite, by a hand-built ValueSet entry of
    another callsite) is ignored; a declared one is recorded under its first position. *)
Theorem C10_undeclared_record_ignored :
  (forall cs names n v, ~ In n names -> span_record cs names (RByName n v) = Some [])
  /\ (forall cs names f v, fd_callsite f <> cs -> span_record cs names (RByField f v) = Some [])
  /\ (forall cs f ov r, fd_callsite f <> cs -> vs_record cs ((f, ov) :: r) = vs_record cs r)
  /\ (forall cs names n v i, position 0 names n = Some i -> well_typed (rv_ty v) v = true ->
        span_record cs names (RByName n v)
        = Some (match spec_route (rv_ty v) v with Some (m, s) => [(n, i, m, s)] | None => [] end)).
Proof. exact undeclared_record_ignored. Qed.
Print Assumptions C10_undeclared_record_ignored.

Example C10_record_nonvacuous :
  span_record 7 [[97]; [98]] (RByName [98] ex_u8) = Some [([98], 1, MU64, SInt 255)] /\
  span_record 7 [[97]; [98]] (RByName [99] ex_u8) = Some [] /\
  span_record 7 [[97]; [98]] (RByField (mk_field 8 1 [98]) ex_u8) = Some [] /\
  span_record 7 [[97]; [98]] (RValueSet [(mk_field 7 0 [97], None); (mk_field 8 1 [98], Some ex_u8); (mk_field 7 1 [98], Some ex_str)])
    = Some [([98], 1, MStr, SStr [104; 105])].
Proof. vm_compute. repeat split. Qed.

(** ** Lazy: disabled -> no expression is evaluated and nothing is delivered; enabled -> the counters hit are
    exactly those of the invocation, each as often as it is written (once).  Feature `log` off. *)
Theorem C10_lazy : forall inv c, wf_inv inv = true ->
  exists o, run inv c = Some o
    /\ (guard c (i_level inv) = false -> o_ticks o = [] /\ o_delivered o = None)
    /\ (guard c (i_level inv) = true -> o_ticks o = spec_ticks (i_fields inv) /\ o_delivered o <> None).
Proof. exact lazy. Qed.
Print Assumptions C10_lazy.

(** ... "exactly once", literally: with pairwise distinct counters in the written expressions, each counter is hit
    exactly once when enabled and no counter is hit when disabled. *)
Theorem C10_evaluated_exactly_once : forall inv c, wf_inv inv = true -> NoDup (spec_ticks (i_fields inv)) ->
  exists o, run inv c = Some o /\
    forall i, count_occ N.eq_dec (o_ticks o) i =
      if guard c (i_level inv) then (if in_dec N.eq_dec i (spec_ticks (i_fields inv)) then 1 else 0)%nat else 0%nat.
Proof. exact exactly_once. Qed.
Print Assumptions C10_evaluated_exactly_once.

Example C10_evaluated_exactly_once_nonvacuous :
  wf_inv ex_inv = true /\ NoDup (spec_ticks (i_fields ex_inv)).
Proof. split; [vm_compute; reflexivity|]. vm_compute. repeat constructor; simpl; intuition discriminate. Qed.

(** `enabled!` / `event_enabled!` / `span_enabled!`: the callsite declares the written names (nothing is evaluated: the
    macro has no value expressions), and the answer is the guard followed by the collector's `enabled`. *)
Theorem C10_enabled_macro : forall f lvl c,
  run_enabled f lvl c = Some (spec_names f, guard c lvl && c_enabled c).
Proof. exact enabled_macro. Qed.
Print Assumptions C10_enabled_macro.

(** With the cargo feature `log` (and `log-always`) the `log` side is one more filtering stage: enabled -> still exactly
    once; disabled -> nothing reaches the collector, and the expressions are evaluated (once) exactly when the log record
    is ACTUALLY BUILT ([spec_log_formats]: level within log's static cap, no dispatcher ever set unless `log-always`, level
    within `log::max_level()`, the logger's `enabled` accepts) - what `log` then does with it is property C18.  The
    log-only conditions of the model are read from `if_log_enabled!` / `__tracing_log!` under each feature set.
    Hypothesis: not the known finding F101 (a disabled SPAN builds its value set before `Span::log` makes the
    max_level / enabled tests). *)
Theorem C10_lazy_with_log : forall ls inv c, wf_inv inv = true ->
  known_F101 ls (i_kind inv) (guard c (i_level inv)) = false ->
  exists o, run_log ls inv c = Some o
    /\ (guard c (i_level inv) = true -> o_ticks o = spec_ticks (i_fields inv) /\ o_delivered o <> None)
    /\ (guard c (i_level inv) = false -> o_delivered o = None
         /\ o_ticks o = (if spec_log_formats ls then spec_ticks (i_fields inv) else []))
    /\ (l_mode ls = LogOn -> l_dispatch_ever ls = true -> guard c (i_level inv) = false -> o_ticks o = []).
Proof. exact lazy_with_log. Qed.
Print Assumptions C10_lazy_with_log.

(** F101 is real in the model of the current source: span, `log` on, no dispatcher ever, the logger rejecting. *)
Theorem C10_F101_refuted :
  wf_inv f101_inv = true /\ guard f101_coll (i_level f101_inv) = false /\ spec_log_formats f101_ls = false
  /\ known_F101 f101_ls (i_kind f101_inv) false = true
  /\ option_map o_ticks (run_log f101_ls f101_inv f101_coll) = Some [0]
  /\ run_log f101_ls f101_inv f101_coll <> Some (spec_outcome_log f101_ls f101_inv false).
Proof. exact F101_refuted. Qed.
Print Assumptions C10_F101_refuted.

Example C10_lazy_with_log_nonvacuous :
  let off := mk_coll 5 5 Never true in
  (* the hypothesis holds for every event, and for spans whenever the log record is built *)
  known_F101 (mk_ls LogOn true false true false) MEvent false = false /\
  known_F101 (mk_ls LogOn true false true true) MSpan false = false /\
  (* `log` on, no dispatcher ever set, logger wants it: a disabled event evaluates its fields (for the log record) *)
  option_map o_ticks (run_log (mk_ls LogOn true false true true) ex_inv off) = Some [3; 4; 0; 1; 2] /\
  (* ... not when the logger declines or the level is above log::max_level() *)
  option_map o_ticks (run_log (mk_ls LogOn true false true false) ex_inv off) = Some [] /\
  option_map o_ticks (run_log (mk_ls LogOn true false false true) ex_inv off) = Some [] /\
  (* ... and never once a dispatcher has been set *)
  option_map o_ticks (run_log (mk_ls LogOn true true true true) ex_inv off) = Some [] /\
  (* enabled: once, whatever the log side says *)
  option_map o_ticks (run_log (mk_ls LogAlways true true true true) ex_inv ex_on) = Some [3; 4; 0; 1; 2].
Proof. vm_compute. repeat split. Qed.

(** Each filtering stage alone disables: static (interest never), dynamic (enabled = false), the level cap
    (max_level_hint / the static max level). *)
Theorem C10_disabled_stages : forall c lvl,
  (c_interest c = Never -> guard c lvl = false)
  /\ (c_interest c = Sometimes -> c_enabled c = false -> guard c lvl = false)
  /\ ((c_current_max c < lvl)%N -> guard c lvl = false)
  /\ ((c_static_max c < lvl)%N -> guard c lvl = false)
  /\ ((lvl <= c_static_max c)%N -> (lvl <= c_current_max c)%N ->
      (c_interest c = Always \/ (c_interest c = Sometimes /\ c_enabled c = true)) -> guard c lvl = true).
Proof. exact disabled_stages. Qed.
Print Assumptions C10_disabled_stages.

Example C10_lazy_nonvacuous :
  run ex_inv (mk_coll 5 5 Never true) = Some (mk_out [[109; 101; 115; 115; 97; 103; 101]; [97; 46; 98]; [120]; [108; 32; 49]; [99]] None []) /\
  run ex_inv (mk_coll 5 5 Sometimes false) = run ex_inv (mk_coll 5 5 Never true) /\
  run ex_inv (mk_coll 5 2 Always true) = run ex_inv (mk_coll 5 5 Never true) /\
  spec_ticks ex_fields = [3; 4; 0; 1; 2].
Proof. vm_compute. repeat split. Qed.

(** ** The translator recognised every shape it read (fail closed), including every forwarding arm. *)
Theorem C10_translator_recognised_everything : gen_unrecognised = [] /\ fst gen_forwarders = snd gen_forwarders.
Proof. exact (conj nothing_unrecognised forwarders_recognised). Qed.
Print Assumptions C10_translator_recognised_everything.
