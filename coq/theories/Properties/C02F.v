(** C02 — post-fix variant (dispatch.rs after fixes/F1.patch, model variant [fx = true]).

    NOT the pinned statement while /repo still has F1: driver/props/c02.py proves and pins this file instead of
    Properties/C02.v when the F1 state is "fixed" (driver/props/F1_state.txt or VERIF_F1=fixed); see notes/C02.md.
    It is compiled on every `make` so that it cannot rot.  Same reading guide as Properties/C02.v. *)
From Coq Require Import NArith List.
From TV Require Import Dispatch.Model Dispatch.Proofs_C02.
Import ListNotations.
Local Open Scope N_scope.

(** Headline at full strength: EVERY properly nested history refines the specification. *)
Theorem C02_spec :
  forall static_max conf h, Nested h ->
  Forall2 agrees (map fst (run true static_max conf init h)) (aspec ainit h).
Proof. exact spec_refinement_fixed. Qed.
Print Assumptions C02_spec.

(** F1's replay is now a regression case that holds: the emission reaches the global default. *)
Theorem C02_F1_replay_holds :
  Nested f1_history /\
  nth 7 (map fst (run true (Some TRACE) (conf_of_list [all_pass; all_pass; all_pass]) init f1_history)) OBad
    = OEmit (Some (DCol 1)) (Some 1).
Proof. exact (conj (nested_b_sound f1_history eq_refl) F1_replay_holds_when_fixed). Qed.
Print Assumptions C02_F1_replay_holds.

Theorem C02_thread_isolation :
  forall fx sm conf s o u, op_thread o <> Some u -> tls (fst (step fx sm conf s o)) u = tls s u.
Proof. exact thread_frame. Qed.
Print Assumptions C02_thread_isolation.

Theorem C02_panic_restores :
  forall ds a t, forallb (a_valid a) ds = true ->
  forall u, a_stack (afinal a (map (Open t) ds ++ repeat (Close t 0%nat) (length ds))) u = a_stack a u.
Proof. exact unwind_restores. Qed.
Print Assumptions C02_panic_restores.

Theorem C02_set_global_once :
  forall cand sched,
  let s := sg_run cand sched in
  (forall t u, sg_res s t = Some SgOk -> sg_res s u = Some SgOk -> t = u) /\
  (forall t, sg_res s t = Some SgOk -> sg_get_global s = Some (cand t)) /\
  ((forall t, sg_res s t <> Some SgOk) -> sg_get_global s = None) /\
  (forall t, sg_res s t = Some SgErr -> exists w, w <> t /\ sg_pc s w <> 0%nat /\ sg_res s w <> Some SgErr).
Proof. exact set_global_once. Qed.
Print Assumptions C02_set_global_once.

Theorem C02_set_global_some_success :
  forall cand sched,
  let s := sg_run cand sched in
  (exists t, sg_res s t <> None) ->
  (forall t, sg_pc s t <> 0%nat -> sg_res s t <> None) ->
  exists w, sg_res s w = Some SgOk.
Proof. exact set_global_some_success. Qed.
Print Assumptions C02_set_global_some_success.
