(** C18 — `log` and `tracing` interoperate without losing, inventing or mislabelling records.
    Statements only; proofs live in LogBridge/Proofs.v.  The functions these statements mention (bridge, normalize,
    run, ...) interpret TVGen.Gen_logbridge and TVGen.Gen_levels, which are regenerated from /repo's
    tracing-log/src/{lib,log_tracer}.rs, tracing/src/{macros,span,lib}.rs and tracing-core/src/metadata.rs on every
    run, so every theorem below is re-checked against the current source.

    Quantifiers: [st] ranges over every `LevelFilter::current()`, every ignore list and EVERY function
    target -> level -> bool as the current collector's filter; [r] over every record (5 levels, arbitrary byte
    strings, file/line/module present or absent); [en] over the three entry points (the logger called directly,
    through `log!` with any `log::max_level()`, `format_trace`); [ops] over every history of events, span
    lifecycle steps and (un)installs of any length, with arbitrary field lists. *)
From TV Require Import Levels.Model Levels.Proofs LogBridge.Model LogBridge.Proofs.
Local Open Scope N_scope.

(** A record becomes exactly one event iff its level passes the gate(s), its target has no ignored prefix and the
    current collector enables the RECORD's own (target, level); otherwise none.  [passes] never mentions the
    synthetic callsite. *)
Theorem C18_bridge_iff : forall st en r, exists o, bridge st en r = Some o /\
  (List.length (events_of o) = 1%nat <-> passes st en r) /\
  (List.length (events_of o) = 0%nat <-> ~ passes st en r).
Proof. exact bridge_iff_total. Qed.
Print Assumptions C18_bridge_iff.

(** Whatever the bridge asks the collector, it asks about the record's own target and level. *)
Theorem C18_bridge_asks_about_record : forall st en r o, bridge st en r = Some o ->
  Forall (fun m => tm_target m = r_target r /\ tm_level m = r_level r) (asked_of o).
Proof. exact bridge_asks_about_record. Qed.
Print Assumptions C18_bridge_asks_about_record.

(** The event carries the message and normalises to the record's target, level, file, line, module path
    (absent ones absent); it sits on the synthetic callsite (target "log") and says so (`is_log`). *)
Theorem C18_normalized : forall st en r o e, bridge st en r = Some o -> In e (events_of o) -> line_fits r ->
  ev_target e = log_target /\ ev_level e = r_level r /\ is_log e = Some true /\ message_of e = Some (r_msg r) /\
  normalize e = Some (Some (mkN log_event_name (r_target r) (r_level r) (r_file r) (r_line r) (r_module r) [MESSAGE])).
Proof. exact normalized. Qed.
Print Assumptions C18_normalized.

Theorem C18_normalized_foreign : forall e,
  (forall l, ev_cs e <> (match assoc_lv l gen_level_to_cs with Some (cs, _) => cs | None => EmptyString end)) ->
  is_log e = Some false /\ normalize e = Some None.
Proof. exact normalized_foreign. Qed.
Print Assumptions C18_normalized_foreign.

(** tracing -> log, feature `log`: over every history in which no collector is installed, each event and each
    span lifecycle step yields exactly one record with level `as_log`, the specified target, and a text that
    contains the message and every `k=v` ([step_spec]). *)
Theorem C18_reverse_before : forall cfg ops, accepting cfg -> ~ In OpInstall ops ->
  Forall2 step_spec ops (snd (run cfg false ops)) /\ fst (run cfg false ops) = false.
Proof. exact reverse_before. Qed.
Print Assumptions C18_reverse_before.

(** Once a collector has been installed (anywhere in any history) nothing is emitted any more, whatever follows
    (uninstalls included), and the flag is set at the end. *)
Theorem C18_reverse_after : forall cfg ex before after, c_always cfg = false ->
  let '(exf, outs) := run cfg ex (before ++ OpInstall :: after) in
  exf = true /\
  exists o1, outs = o1 ++ [] :: map (fun _ => []) after /\ List.length o1 = List.length before.
Proof. exact reverse_after. Qed.
Print Assumptions C18_reverse_after.

Theorem C18_exists_never_resets : forall cfg ops1 ops2 ex,
  fst (run cfg ex ops1) = true -> fst (run cfg ex (ops1 ++ ops2)) = true.
Proof. exact exists_never_resets. Qed.
Print Assumptions C18_exists_never_resets.

(** `log-always`: one record per step over every history, installs included. *)
Theorem C18_reverse_always : forall cfg ops ex, accepting cfg -> c_always cfg = true ->
  Forall2 step_spec ops (snd (run cfg ex ops)).
Proof. exact reverse_always. Qed.
Print Assumptions C18_reverse_always.

(** For EVERY `log`-side configuration: a step never emits more than one record, and exactly one iff its gates
    (static max, has_been_set / log-always, log::max_level, logger.enabled) are open. *)
Theorem C18_reverse_step_count : forall cfg ex o,
  List.length (snd (step cfg ex o)) = if step_gates cfg ex o then 1%nat else 0%nat.
Proof. exact step_count. Qed.
Print Assumptions C18_reverse_step_count.

(** Level conversion is an order-preserving bijection (corollary of C19_log_level_bijection); the macro-side
    `level_to_log!` is the same function. *)
Theorem C18_level_bijection :
  (forall l, opt_bind (as_log_level l) as_trace_level = Some l) /\
  (forall l, opt_bind (as_trace_level l) as_log_level = Some l) /\
  (forall f, opt_bind (as_log_filter f) as_trace_filter = Some f) /\
  (forall f, opt_bind (as_trace_filter f) as_log_filter = Some f) /\
  (forall a b a' b', as_log_level a = Some a' -> as_log_level b = Some b' ->
                     (rank_lv a <= rank_lv b <-> rank_lv a' <= rank_lv b')) /\
  (forall a b a' b', as_trace_level a = Some a' -> as_trace_level b = Some b' ->
                     (rank_lv a <= rank_lv b <-> rank_lv a' <= rank_lv b')) /\
  (forall l, as_log_level l = Some (level_to_log l)).
Proof. exact level_bijection. Qed.
Print Assumptions C18_level_bijection.

Theorem C18_translator_recognised_everything : gen_lb_unrecognised = [].
Proof. exact nothing_unrecognised. Qed.
Print Assumptions C18_translator_recognised_everything.
