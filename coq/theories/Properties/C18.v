(** C18 — `log` and `tracing` interoperate without losing, inventing or mislabelling records.
    Statements only; proofs live in LogBridge/Proofs.v.  The functions these statements mention (bridge, normalize,
    run, ...) interpret TVGen.Gen_logbridge and TVGen.Gen_levels, which are regenerated from /repo's
    tracing-log/src/{lib,log_tracer}.rs, tracing/src/{macros,span,lib}.rs and tracing-core/src/metadata.rs on every
    run, so every theorem below is re-checked against the current source.

    Quantifiers: [st] ranges over every `LevelFilter::current()`, every ignore list and EVERY function
    target -> level -> bool as the current collector's filter; [r] over every record (5 levels, arbitrary byte
    strings, file/line/module present or absent); [en] over the three entry points (the logger called directly,
    through `log!` with any `log::max_level()`, `format_trace`); [ops] over every history of events, span
    lifecycle steps and (un)installs of any length, with arbitrary field lists; [h] over every history of machine
    steps: any thread entering `set_default` / `DefaultGuard::drop` / `set_global_default`, any thread performing
    its next atomic action, any thread running an event / span step — all interleavings, any number of threads. *)
From TV Require Import Levels.Model Levels.Proofs LogBridge.Model LogBridge.Proofs.
Local Open Scope N_scope.

(** A record becomes exactly one event iff its level passes the gate(s), its target has no ignored prefix and the
    current collector enables the RECORD's own (target, level); otherwise none.  [passes] never mentions the
    synthetic callsite. *)
Theorem C18_bridge_iff : forall st en r, exists o, bridge st en r = Some o /\
  (List.length (events_of o) = 1%nat <-> passes st en r) /\
  (List.length (events_of o) = 0%nat <-> ~ passes st en r).
Proof. exact bridge_iff_total. Qed.
Print Assumptions C18_bridge_iff.

(** Whatever the bridge asks the collector, it asks about the record's own target and level. *)
Theorem C18_bridge_asks_about_record : forall st en r o, bridge st en r = Some o ->
  Forall (fun m => tm_target m = r_target r /\ tm_level m = r_level r) (asked_of o).
Proof. exact bridge_asks_about_record. Qed.
Print Assumptions C18_bridge_asks_about_record.

(** The event carries the message and normalises to the record's target, level, file, line, module path
    (absent ones absent); it sits on the synthetic callsite (target "log") and says so (`is_log`). *)
Theorem C18_normalized : forall st en r o e, bridge st en r = Some o -> In e (events_of o) -> line_fits r ->
  ev_target e = log_target /\ ev_level e = r_level r /\ is_log e = Some true /\ message_of e = Some (r_msg r) /\
  normalize e = Some (Some (mkN log_event_name (r_target r) (r_level r) (r_file r) (r_line r) (r_module r) [MESSAGE])).
Proof. exact normalized. Qed.
Print Assumptions C18_normalized.

Theorem C18_normalized_foreign : forall e,
  (forall l, ev_cs e <> (match assoc_lv l gen_level_to_cs with Some (cs, _) => cs | None => EmptyString end)) ->
  is_log e = Some false /\ normalize e = Some None.
Proof. exact normalized_foreign. Qed.
Print Assumptions C18_normalized_foreign.

(** tracing -> log, feature `log`: over every history in which no collector is installed, each event and each
    span lifecycle step yields exactly one record with level `as_log`, the specified target, and a text that
    contains the message and every `k=v` ([step_spec]). *)
Theorem C18_reverse_before : forall cfg ops, accepting cfg -> ~ In OpInstall ops ->
  Forall2 step_spec ops (snd (run cfg false ops)) /\ fst (run cfg false ops) = false.
Proof. exact reverse_before. Qed.
Print Assumptions C18_reverse_before.

(** Once a collector has been installed (anywhere in any history) nothing is emitted any more, whatever follows
    (uninstalls included), and the flag is set at the end. *)
Theorem C18_reverse_after : forall cfg ex before after, c_always cfg = false ->
  let '(exf, outs) := run cfg ex (before ++ OpInstall :: after) in
  exf = true /\
  exists o1, outs = o1 ++ [] :: map (fun _ => []) after /\ List.length o1 = List.length before.
Proof. exact reverse_after. Qed.
Print Assumptions C18_reverse_after.

Theorem C18_exists_never_resets : forall cfg ops1 ops2 ex,
  fst (run cfg ex ops1) = true -> fst (run cfg ex (ops1 ++ ops2)) = true.
Proof. exact exists_never_resets. Qed.
Print Assumptions C18_exists_never_resets.

(** `log-always`: one record per step over every history, installs included. *)
Theorem C18_reverse_always : forall cfg ops ex, accepting cfg -> c_always cfg = true ->
  Forall2 step_spec ops (snd (run cfg ex ops)).
Proof. exact reverse_always. Qed.
Print Assumptions C18_reverse_always.

(** For EVERY `log`-side configuration: a step never emits more than one record, and exactly one iff its gates
    (static max, has_been_set / log-always, log::max_level, logger.enabled) are open. *)
Theorem C18_reverse_step_count : forall cfg ex o,
  List.length (snd (step cfg ex o)) = if step_gates cfg ex o then 1%nat else 0%nat.
Proof. exact step_count. Qed.
Print Assumptions C18_reverse_step_count.

(** Level conversion is an order-preserving bijection (corollary of C19_log_level_bijection); the macro-side
    `level_to_log!` is the same function. *)
Theorem C18_level_bijection :
  (forall l, opt_bind (as_log_level l) as_trace_level = Some l) /\
  (forall l, opt_bind (as_trace_level l) as_log_level = Some l) /\
  (forall f, opt_bind (as_log_filter f) as_trace_filter = Some f) /\
  (forall f, opt_bind (as_trace_filter f) as_log_filter = Some f) /\
  (forall a b a' b', as_log_level a = Some a' -> as_log_level b = Some b' ->
                     (rank_lv a <= rank_lv b <-> rank_lv a' <= rank_lv b')) /\
  (forall a b a' b', as_trace_level a = Some a' -> as_trace_level b = Some b' ->
                     (rank_lv a <= rank_lv b <-> rank_lv a' <= rank_lv b')) /\
  (forall l, as_log_level l = Some (level_to_log l)).
Proof. exact level_bijection. Qed.
Print Assumptions C18_level_bijection.

(** ** The flag on every thread (tracing-core/src/dispatch.rs, action lists generated from the source) *)

(** Over all histories of calls and single atomic actions of any threads: `has_been_set()` never goes back to false. *)
Theorem C18_exists_never_resets_mt : forall cfg h1 h2,
  has_been_set (m_regs (fst (mrun cfg minit h1))) = true ->
  has_been_set (m_regs (fst (mrun cfg minit (h1 ++ h2)))) = true.
Proof. exact exists_never_resets_mt. Qed.
Print Assumptions C18_exists_never_resets_mt.

(** Once `set_default` or a successful `set_global_default` has returned on ANY thread, the flag is set. *)
Theorem C18_installed_sets_flag : forall cfg h,
  m_installed (fst (mrun cfg minit h)) = true -> has_been_set (m_regs (fst (mrun cfg minit h))) = true.
Proof. exact installed_sets_flag. Qed.
Print Assumptions C18_installed_sets_flag.

(** ... and from then on no thread emits a log record, whatever any thread does afterwards (guards dropped, more
    installs, half-finished calls). *)
Theorem C18_reverse_after_mt : forall cfg h1 h2, c_always cfg = false ->
  m_installed (fst (mrun cfg minit h1)) = true ->
  exists o1, snd (mrun cfg minit (h1 ++ h2)) = o1 ++ map (fun _ => []) h2 /\ List.length o1 = List.length h1 /\
             has_been_set (m_regs (fst (mrun cfg minit (h1 ++ h2)))) = true.
Proof. exact reverse_after_mt. Qed.
Print Assumptions C18_reverse_after_mt.

(** While no thread has entered an installing function, every event and span lifecycle step of every thread emits
    exactly its record ([mop_spec] = [step_spec] on logging steps). *)
Theorem C18_reverse_before_mt : forall cfg h s, accepting cfg -> quiet s -> no_install h ->
  Forall2 mop_spec h (snd (mrun cfg s h)) /\ has_been_set (m_regs (fst (mrun cfg s h))) = false.
Proof. exact reverse_before_mt. Qed.
Print Assumptions C18_reverse_before_mt.

Theorem C18_reverse_always_mt : forall cfg h s, accepting cfg -> c_always cfg = true ->
  Forall2 mop_spec h (snd (mrun cfg s h)).
Proof. exact reverse_always_mt. Qed.
Print Assumptions C18_reverse_always_mt.

(** In every state, under every configuration: a machine step emits at most one record; a logging step exactly one
    iff its gates are open for the value `has_been_set()` has at that moment. *)
Theorem C18_reverse_step_count_mt : forall cfg s o,
  List.length (snd (mstep cfg s o)) =
    match o with MLog _ op => if step_gates cfg (has_been_set (m_regs s)) op then 1%nat else 0%nat | _ => 0%nat end.
Proof. exact mstep_count. Qed.
Print Assumptions C18_reverse_step_count_mt.

(** The sequential histories of [run] (C18_reverse_before / _after / _always above) are exactly the machine histories in
    which every `set_default` / guard drop / `set_global_default` runs to completion, on whichever threads: same
    records in the same order, same flag. *)
Theorem C18_run_is_machine : forall cfg h, Forall sop_ok h ->
  List.concat (snd (mrun cfg minit (flat_map sop_block h))) = List.concat (snd (run cfg false (map sop_op h))) /\
  has_been_set (m_regs (fst (mrun cfg minit (flat_map sop_block h)))) = fst (run cfg false (map sop_op h)).
Proof. exact run_is_machine. Qed.
Print Assumptions C18_run_is_machine.

(** ** The other public entries *)

(** `<LogTracer as log::Log>::enabled`: true iff gate, no ignored prefix, and the collector enables the record's own
    (target, level); it never produces an event and asks only about the record. *)
Theorem C18_enabled_iff : forall st r, exists o,
  tracer_enabled st r = Some (true, o) /\ enabled_passes st r \/ tracer_enabled st r = Some (false, o) /\ ~ enabled_passes st r.
Proof. exact enabled_iff. Qed.
Print Assumptions C18_enabled_iff.

(** `log::Metadata::as_trace` / `log::Record::as_trace`: name "log record", the record's own target and level, the
    location only from a `Record`; `Metadata::as_log`: converted level, own target; the builder's max level. *)
Theorem C18_conversions :
  (forall r, (exists m, as_trace_meta gen_as_trace_metadata r = Some m /\ asks_record r false m) /\
             (exists m, as_trace_meta gen_as_trace_record r = Some m /\ asks_record r true m)) /\
  (forall m, as_log_meta m = Some (m_level m, m_target m)) /\
  (forall w, builder_log_max w = Some (match w with Some f => f | None => Some Trace end)).
Proof. exact (conj as_trace_public (conj as_log_meta_ok builder_max_ok)). Qed.
Print Assumptions C18_conversions.

(** Normalisation without the `u32` hypothesis on the line. *)
Theorem C18_normalized_any_line : forall st en r o e, bridge st en r = Some o -> In e (events_of o) ->
  message_of e = Some (r_msg r) /\ normalize e = Some (Some (normal_of r)).
Proof. exact normalized_any_line. Qed.
Print Assumptions C18_normalized_any_line.

(** ** What the translator read, pinned to the values the theorems above are about *)
Theorem C18_source_flag :
  gen_has_been_set = HLoad AExists /\
  gen_fn_set_default = [ActLocal; ActStore AExists 1; ActFetchAdd AScopedCount 1] /\
  gen_fn_guard_drop = [ActFetchSub AScopedCount 1; ActLocal] /\
  gen_fn_set_global = [ActCas AGlobalInit 0 1; ActLocal; ActStore AGlobalInit 2; ActStore AExists 1].
Proof. exact source_flag. Qed.
Print Assumptions C18_source_flag.

Theorem C18_source_tracer :
  gen_tracer_gate = RGt /\ gen_tracer_ignore_test = MStartsWith /\ gen_tracer_asks_about_record = true /\
  gen_dispatch_checks_enabled = true /\
  gen_as_trace_metadata = (log_record_name, (false, false, false)) /\
  gen_as_trace_record = (log_record_name, (true, true, true)) /\
  gen_builder_default_max = Some Trace /\ gen_builder_init_sets_max = true /\ gen_as_log_metadata = (true, true).
Proof. exact source_tracer. Qed.
Print Assumptions C18_source_tracer.

(** A `LogTracer` init attempted in a process that already has a logger fails and changes nothing: `log`'s max level
    stays what it was (the builder publishes its level only after the install succeeded — read off `Builder::init` by the
    translator on every run), so no record is lost in either direction because of the attempt. *)
Theorem C18_failed_init_changes_nothing :
  gen_builder_max_before_install = false /\
  forall cur w, init_again_log_max cur w = cur.
Proof. exact failed_init_changes_nothing. Qed.
Print Assumptions C18_failed_init_changes_nothing.

Theorem C18_failed_init_other_order_refuted :
  init_again_log_max (Some Trace) (Some (Some Error)) = Some Trace /\
  (let other cur (w : option (option lv)) := match w with Some f => f | None => gen_builder_default_max end in
   other (Some Trace) (Some (Some Error)) = Some Error /\ other (Some Trace) (Some (Some Error)) <> Some Trace).
Proof. exact failed_init_other_order_refuted. Qed.
Print Assumptions C18_failed_init_other_order_refuted.

Theorem C18_source_event :
  gen_cs_name = log_event_name /\ gen_cs_target = log_target /\
  gen_field_names = [MESSAGE; LOG_TARGET_F; LOG_MODULE_F; LOG_FILE_F; LOG_LINE_F] /\
  gen_fields_new = [("message", MESSAGE); ("target", LOG_TARGET_F); ("module", LOG_MODULE_F); ("file", LOG_FILE_F); ("line", LOG_LINE_F)]%string /\
  gen_dispatch_values = [("message", "args"); ("target", "target"); ("module", "module_path"); ("file", "file"); ("line", "line")]%string /\
  (forall l, exists cs fields meta,
     assoc_lv l gen_level_to_cs = Some (cs, fields) /\ assoc_lv l gen_loglevel_to_cs = Some (cs, fields, meta) /\
     assoc_str cs gen_log_cs = Some (l, meta) /\ assoc_str fields gen_fields_static = Some cs) /\
  (forall l1 l2 c1 c2, assoc_lv l1 gen_level_to_cs = Some c1 -> assoc_lv l2 gen_level_to_cs = Some c2 -> fst c1 = fst c2 -> l1 = l2).
Proof. exact source_event. Qed.
Print Assumptions C18_source_event.

Theorem C18_source_normalize :
  gen_norm_name = log_event_name /\ gen_norm_default_target = log_target /\
  gen_norm_slots = ("file", "line", "module_path")%string /\ gen_norm_fields = [MESSAGE] /\
  gen_visit_str = [("file", "file"); ("target", "target"); ("module", "module_path")]%string /\
  gen_visit_u64 = [("line", "line")]%string.
Proof. exact source_normalize. Qed.
Print Assumptions C18_source_normalize.

Theorem C18_source_reverse :
  gen_iflog_checks_exists = true /\ gen_iflog_always_checks_exists = false /\
  (forall l, level_to_log l = l) /\
  gen_lifecycle_target = lifecycle_target /\ gen_activity_target = activity_target /\
  gen_span_enter = (Trace, activity_target, Trace, [s_enter; s_semi]) /\
  gen_span_exit = (Trace, activity_target, Trace, [s_exit; s_semi]) /\
  gen_span_drop = (Trace, lifecycle_target, Trace, [s_close; s_semi]) /\
  gen_span_new = (lifecycle_target, [s_plusplus; s_semi; []], false) /\
  gen_span_record = (lifecycle_target, [[]; s_semi; []], false) /\
  gen_span_id_fmt = [[]; s_span_eq; []] /\
  gen_span_log_max_on_span_level = true /\
  gen_span_log_builder = [("module_path", "module_path"); ("file", "file"); ("line", "line")]%string /\
  gen_macro_log_builder = [("file", "file"); ("module_path", "module_path"); ("line", "line")]%string /\
  gen_follows_from_logs = false /\
  gen_lvs_message = [[]; []] /\ gen_lvs_first = [[]; EQ; []] /\ gen_lvs_rest = [[32]; EQ; []] /\
  gen_lvs_message_name = MESSAGE.
Proof. exact source_reverse. Qed.
Print Assumptions C18_source_reverse.

(** Entering a span by polling an `Instrumented` future (tracing's or tracing-futures'), by dropping one, or through
    `in_scope` is the same pair of lifecycle steps: at any point of any history without an install each poll emits the
    `->` and the `<-` record, the drop `->`, `<-`, `--`. *)
Theorem C18_poll_emits : forall cfg before s after, accepting cfg ->
  ~ In OpInstall (before ++ poll_ops s ++ idrop_ops s ++ after) ->
  Forall2 step_spec (before ++ [OpEnter s; OpExit s] ++ [OpEnter s; OpExit s; OpDrop s] ++ after)
          (snd (run cfg false (before ++ poll_ops s ++ idrop_ops s ++ after))).
Proof. exact poll_emits. Qed.
Print Assumptions C18_poll_emits.

Theorem C18_source_entries : gen_instrumented_poll_enters = true /\ gen_instrumented_drop_enters = true.
Proof. exact source_entries. Qed.
Print Assumptions C18_source_entries.

Theorem C18_translator_recognised_everything : gen_lb_unrecognised = [].
Proof. exact nothing_unrecognised. Qed.
Print Assumptions C18_translator_recognised_everything.
