(** C11 — span-scoped directives, stated against the property text: after a well-nested history an event is enabled
    exactly when a span entered (and not yet exited) on its thread is matched — target prefix, name, field names, and
    the recorded values satisfy the value matchers — by a directive whose level allows the event, or a static directive
    allows it.  Values recorded while the span is entered are finding F24 (hypothesis [quiet]); the span itself is
    enabled when a directive naming it allows its level, and (finding F12) also when none does. *)
From TV Require Import Levels.Model Levels.Proofs Directive.Model Directive.Order Directive.Static Directive.Text Directive.Dyn Directive.Scope.
From Coq Require Import Lia.
Local Open Scope N_scope.
Local Opaque gen_add_recomputes_max gen_debug_match_exact gen_valuematch_eq_debug.

(** * filters as the builder makes them *)
Definition wf_env (e : envf) : Prop :=
  (exists ls, e_statics e = s_build ls) /\ (exists ld, e_dynamics e = d_build ld) /\
  e_has_dyn e = negb (is_nil (ds_dirs (e_dynamics e))).

Lemma d_build_snoc l d : d_build (l ++ [d]) = d_add (d_build l) d.
Proof. unfold d_build, ds_build. now rewrite fold_left_app. Qed.
Lemma insert_nonnil {T} (cmp : T -> T -> comparison) d l : is_nil (insert cmp d l) = false.
Proof. destruct l as [|x l]; simpl; auto. destruct (cmp x d); reflexivity. Qed.

Lemma wf_env_add e d : wf_env e -> wf_env (add_directive e d).
Proof.
  intros ((ls & Hs) & (ld & Hd) & Hh). unfold add_directive. destruct (to_static d) as [s|].
  - split; [|split]; simpl.
    + exists (ls ++ [s]). rewrite Hs. symmetry. apply s_build_snoc.
    + exists ld. exact Hd.
    + exact Hh.
  - split; [|split]; simpl.
    + exists ls. exact Hs.
    + exists (ld ++ [d]). rewrite Hd. symmetry. apply d_build_snoc.
    + unfold d_add, ds_add. simpl. now rewrite insert_nonnil.
Qed.

Lemma wf_env_build default dirs : wf_env (env_build default dirs).
Proof.
  unfold env_build.
  match goal with |- wf_env (if ?c then _ else ?e) => assert (W : wf_env e); [|destruct c; auto] end.
  { split; [eexists; reflexivity | split; [eexists; reflexivity | reflexivity]]. }
  destruct default as [d|]; auto. now apply wf_env_add.
Qed.

Lemma wf_env_parse regex lossy default s e : parse_env regex lossy default s = POk e -> wf_env e.
Proof.
  unfold parse_env. destruct (parse_dirs regex lossy s) as [| |ds]; try discriminate.
  intros H; inversion H; subst. apply wf_env_build.
Qed.

(** * the specification side *)
(** some directive matches the span (metadata and recorded values) at a level that admits [x] *)
Definition span_matches_level (e : envf) (sp : aspan) (x : lv) : bool :=
  existsb (fun d => cares_d d (a_meta sp) && satisfied d (a_vals sp) && allows (d_level d) x) (ds_dirs (e_dynamics e)).
(** some span entered on the thread does *)
Definition scope_spec (e : envf) (a : ast) (tid : N) (x : lv) : bool :=
  existsb (fun en => match assoc_n (fst en) (a_spans a) with Some sp => span_matches_level e sp x | None => false end)
          (astack a tid).

(** no value is recorded on a span while it is entered somewhere (the complement is finding F24) *)
Definition quiet_ev (a : ast) (ev : fev) : Prop :=
  match ev with FRecord id _ => forall tid, ~ In id (map fst (astack a tid)) | _ => True end.
Fixpoint quiet_from (e : envf) (a : ast) (evs : list fev) : Prop :=
  match evs with [] => True | ev :: r => quiet_ev a ev /\ quiet_from e (astep e a ev) r end.
Definition quiet (e : envf) (evs : list fev) : Prop := quiet_from e ast0 evs.

(** every stack entry carries the level its span has now *)
Definition fresh_levels (e : envf) (a : ast) : Prop :=
  forall tid id x, In (id, x) (astack a tid) ->
    exists sp, assoc_n id (a_spans a) = Some sp /\ x = span_level (e_dynamics e) (a_meta sp) (a_vals sp).

Lemma in_remove_first id l y : In y (remove_first id l) -> In y l.
Proof.
  induction l as [|[i x] l IH]; simpl; auto. destruct (i =? id); simpl; auto. intros [H|H]; auto.
Qed.

Lemma fresh_step e a ev : fresh_levels e a -> ok_ev a ev -> quiet_ev a ev -> fresh_levels e (astep e a ev).
Proof.
  intros F OK Q. destruct ev as [cs m|cs id vals|id vals|tid id|tid id|id]; simpl in *.
  - destruct (tracks e m); auto.
  - destruct (assoc_n cs (a_cs a)) as [m|]; auto. intros t i x H. simpl in H.
    destruct (F t i x H) as (sp & E & L). exists sp. split; auto. simpl. rewrite assoc_put.
    destruct (i =? id) eqn:Q'; auto. apply N.eqb_eq in Q'. subst. congruence.
  - destruct (assoc_n id (a_spans a)) as [sp0|] eqn:E0; auto. intros t i x H. simpl in H.
    destruct (F t i x H) as (sp & E & L). exists sp. split; auto. simpl. rewrite assoc_put.
    destruct (i =? id) eqn:Q'; auto. apply N.eqb_eq in Q'. subst. exfalso. apply (Q t).
    apply in_map_iff. eexists. split; [|exact H]. reflexivity.
  - destruct (assoc_n id (a_spans a)) as [sp0|] eqn:E0; auto. intros t i x. rewrite astack_put.
    destruct (t =? tid) eqn:T.
    + intros [H|H].
      * inversion H; subst. exists sp0. auto.
      * apply N.eqb_eq in T. subst. apply (F tid i x H).
    + apply F.
  - intros t i x. rewrite astack_put. destruct (t =? tid) eqn:T.
    + intros H. apply in_remove_first in H. apply N.eqb_eq in T. subst. apply (F tid i x H).
    + apply F.
  - intros t i x H. simpl in H. destruct (F t i x H) as (sp & E & L). exists sp. split; auto. simpl.
    rewrite assoc_del. destruct (i =? id) eqn:Q'; auto. apply N.eqb_eq in Q'. subst. exfalso. apply (OK t).
    apply in_map_iff. eexists. split; [|exact H]. reflexivity.
Qed.

Lemma fresh_run e : forall evs a, fresh_levels e a -> well_nested_from e a evs -> quiet_from e a evs ->
  fresh_levels e (fold_left (astep e) evs a).
Proof.
  induction evs as [|ev evs IH]; simpl; intros a F W Q; auto.
  destruct W as [OK W], Q as [Q1 Q]. apply IH; auto. now apply fresh_step.
Qed.

Lemma entered_is_spec e a tid x : fresh_levels e a -> entered_allows e a tid x = scope_spec e a tid x.
Proof.
  intros F. unfold entered_allows, scope_spec.
  assert (G : forall l, (forall en, In en l -> In en (astack a tid)) ->
              existsb (fun en => allows (snd en) x) l =
              existsb (fun en => match assoc_n (fst en) (a_spans a) with Some sp => span_matches_level e sp x | None => false end) l).
  { induction l as [|[i y] l IH]; simpl; auto. intros H. rewrite IH by (intros; apply H; auto). f_equal.
    destruct (F tid i y (H _ (or_introl eq_refl))) as (sp & E & L). rewrite E, L.
    unfold span_matches_level. apply span_level_allows. }
  apply G. auto.
Qed.

Lemma scope_stack_refines : forall (e : envf) (evs : list fev), well_nested e evs ->
  forall tid, scope_of (frun e evs) tid = map snd (astack (arun e evs) tid).
Proof. intros e evs W. exact (i_scope _ _ _ (scope_refines e evs W)). Qed.

(** * The theorem *)
Theorem scope_event : forall e evs tid cs m,
  wf_env e -> well_nested e evs -> quiet e evs -> is_span m = false ->
  env_enabled e (frun e evs) tid cs m =
  scope_spec e (arun e evs) tid (m_level m) || enabled_s (e_statics e) m.
Proof.
  intros e evs tid cs m ((ls & Hs) & (ld & Hd) & Hh) W Q NS.
  rewrite (scope_enabled_event e evs tid cs m W NS) by (exists ld; exact Hd).
  assert (F : fresh_levels e (arun e evs)).
  { apply fresh_run; auto. intros t i x []. }
  rewrite (entered_is_spec _ _ _ _ F). rewrite Hs, guard_transparent. rewrite <- Hs.
  destruct (e_has_dyn e) eqn:D; auto. simpl.
  (* no dynamic directives: nothing can match *)
  assert (N : ds_dirs (e_dynamics e) = []).
  { destruct (ds_dirs (e_dynamics e)); [reflexivity | discriminate]. }
  assert (Z : scope_spec e (arun e evs) tid (m_level m) = false); [|now rewrite Z].
  unfold scope_spec, span_matches_level. rewrite N. simpl.
  induction (astack (arun e evs) tid) as [|[i y] l IH]; simpl; auto.
  rewrite IH. destruct (assoc_n i (a_spans (arun e evs))); reflexivity.
Qed.

(** nothing leaks: with no span entered on the thread only the static directives speak, and an exit undoes its enter *)
Corollary scope_nothing_entered : forall e evs tid cs m,
  wf_env e -> well_nested e evs -> quiet e evs -> is_span m = false ->
  astack (arun e evs) tid = [] ->
  env_enabled e (frun e evs) tid cs m = enabled_s (e_statics e) m.
Proof. intros. rewrite scope_event by auto. unfold scope_spec. now rewrite H3. Qed.

(** an exit removes exactly the most recent entry of its span, so enter-then-exit leaves every stack as it was *)
Lemma astack_enter e a tid id sp t : assoc_n id (a_spans a) = Some sp ->
  astack (astep e a (FEnter tid id)) t =
  if t =? tid then (id, span_level (e_dynamics e) (a_meta sp) (a_vals sp)) :: astack a tid else astack a t.
Proof. intros H. unfold astep. rewrite H. apply astack_put. Qed.
Lemma astack_exit e a tid id t :
  astack (astep e a (FExit tid id)) t = if t =? tid then remove_first id (astack a tid) else astack a t.
Proof. apply astack_put. Qed.
Lemma enter_exit_restores e a tid id t : assoc_n id (a_spans a) <> None ->
  astack (astep e (astep e a (FEnter tid id)) (FExit tid id)) t = astack a t.
Proof.
  intros K. destruct (assoc_n id (a_spans a)) as [sp|] eqn:E; [|congruence].
  rewrite astack_exit, !(astack_enter e a tid id sp) by exact E. rewrite N.eqb_refl.
  destruct (t =? tid) eqn:T; auto. simpl. rewrite N.eqb_refl. apply N.eqb_eq in T. now subst.
Qed.

(** * The span itself *)
Lemma a_cs_mono e cs : forall evs a, assoc_n cs (a_cs a) <> None -> assoc_n cs (a_cs (fold_left (astep e) evs a)) <> None.
Proof.
  induction evs as [|ev evs IH]; simpl; auto. intros a H. apply IH.
  destruct ev as [cs' m|cs' id vals|id vals|tid id|tid id|id]; simpl; auto.
  - destruct (tracks e m); auto. simpl. rewrite assoc_put. destruct (cs =? cs'); congruence.
  - destruct (assoc_n cs' (a_cs a)); auto.
  - destruct (assoc_n id (a_spans a)); auto.
  - destruct (assoc_n id (a_spans a)); auto.
Qed.
Lemma registered_tracked e cs m : tracks e m = true ->
  forall evs a, In (FRegister cs m) evs -> assoc_n cs (a_cs (fold_left (astep e) evs a)) <> None.
Proof.
  intros T. induction evs as [|ev evs IH]; simpl; [tauto|]. intros a [->|H]; auto.
  apply a_cs_mono. simpl. rewrite T. simpl. rewrite assoc_put, N.eqb_refl. congruence.
Qed.

Theorem span_itself : forall e evs tid cs m,
  wf_env e -> well_nested e evs -> In (FRegister cs m) evs -> is_span m = true ->
  (exists d, In d (ds_dirs (e_dynamics e)) /\ cares_d d m = true /\ allows (d_level d) (m_level m) = true) ->
  env_enabled e (frun e evs) tid cs m = true.
Proof.
  intros e evs tid cs m ((ls & Hs) & (ld & Hd) & Hh) W R S (d & Hin & C & A).
  assert (HD : e_has_dyn e = true).
  { rewrite Hh. destruct (ds_dirs (e_dynamics e)); [destruct Hin | reflexivity]. }
  assert (T : tracks e m = true).
  { unfold tracks. rewrite HD, S. simpl. apply negb_true_iff. unfold caring.
    destruct (filter (fun d => cares_d d m) (ds_dirs (e_dynamics e))) eqn:F; auto.
    assert (I : In d (filter (fun d => cares_d d m) (ds_dirs (e_dynamics e)))) by (apply filter_In; auto).
    rewrite F in I. destruct I. }
  destruct (scope_refines e evs W) as [Ics _ _ _].
  assert (B : assoc_n cs (by_cs (frun e evs)) <> None).
  { rewrite Ics. pose proof (registered_tracked e cs m T evs ast0 R) as K. unfold arun.
    destruct (assoc_n cs (a_cs (fold_left (astep e) evs ast0))); [discriminate | congruence]. }
  unfold env_enabled. rewrite HD, S. simpl.
  assert (G : allows (ds_max (e_dynamics e)) (m_level m) = true).
  { eapply allows_mono; [|exact A]. rewrite Hd in *. apply (ds_max_ge cmp_d d_level ld d Hin). }
  rewrite G. simpl. destruct (assoc_n cs (by_cs (frun e evs))); [reflexivity | congruence].
Qed.

(** * Witnesses *)
Definition b_sp : bytes := [115; 112].
Definition b_sq : bytes := [115; 113].
Definition b_x : bytes := [120].
Definition b_app : bytes := [97; 112; 112].
Definition m_span (l : lv) : meta := mk_meta b_app l KSpan b_sp [b_x].
Definition m_event (l : lv) : meta := mk_meta b_app l KEvent [101; 118] [].

(** "[sp{x=1}]=debug" *)
Definition env_x1 : envf :=
  env_build None [mk_ddir None (Some b_sp) [mk_fmatch b_x (Some (VU64 1))] (Some Debug)].
Definition hist_enter_x1 : list fev :=
  [FRegister 7 (m_span Info); FNewSpan 7 1 [(b_x, RU64 1)]; FEnter 0 1].

(** non-vacuity of [scope_event]: an entered matching span enables a DEBUG event, and after the exit it does not *)
Example scope_raises_and_restores :
  well_nested env_x1 hist_enter_x1 /\ quiet env_x1 hist_enter_x1 /\
  env_enabled env_x1 (frun env_x1 hist_enter_x1) 0 9 (m_event Debug) = true /\
  env_enabled env_x1 (frun env_x1 hist_enter_x1) 1 9 (m_event Debug) = false /\
  env_enabled env_x1 (frun env_x1 (hist_enter_x1 ++ [FExit 0 1])) 0 9 (m_event Debug) = false.
Proof.
  split; [|split; [|split; [|split]]]; try (vm_compute; reflexivity).
  - simpl. repeat split; auto; vm_compute; reflexivity.
  - simpl. repeat split; auto.
Qed.

(** F24: the value arrives while the span is entered; the event stays disabled although the span now matches *)
Definition hist_f24 : list fev :=
  [FRegister 7 (m_span Info); FNewSpan 7 1 []; FEnter 0 1; FRecord 1 [(b_x, RU64 1)]].
Lemma F24_refuted :
  wf_env env_x1 /\ well_nested env_x1 hist_f24 /\ ~ quiet env_x1 hist_f24 /\
  scope_spec env_x1 (arun env_x1 hist_f24) 0 Debug = true /\
  env_enabled env_x1 (frun env_x1 hist_f24) 0 9 (m_event Debug) = false.
Proof.
  split; [apply wf_env_build|]. split; [|split; [|split]]; try (vm_compute; reflexivity).
  - simpl. repeat split; auto; vm_compute; reflexivity.
  - intros Q. simpl in Q. destruct Q as (_ & _ & _ & Q & _). apply (Q 0). vm_compute. auto.
Qed.

(** F12: "[sq]=trace,[sp]=debug": a TRACE span `sp` is enabled although the only directive naming it stops at DEBUG *)
Definition env_f12 : envf :=
  env_build None [mk_ddir None (Some b_sq) [] (Some Trace); mk_ddir None (Some b_sp) [] (Some Debug)].
Lemma F12_refuted :
  wf_env env_f12 /\
  (forall d, In d (ds_dirs (e_dynamics env_f12)) -> cares_d d (m_span Trace) = true -> allows (d_level d) Trace = false) /\
  enabled_s (e_statics env_f12) (m_span Trace) = false /\
  env_enabled env_f12 (frun env_f12 [FRegister 7 (m_span Trace)]) 0 7 (m_span Trace) = true.
Proof.
  split; [apply wf_env_build|]. split; [|split]; try (vm_compute; reflexivity).
  intros d H. vm_compute in H. destruct H as [<-|[<-|[]]]; vm_compute; congruence.
Qed.

(** * Debug literals (finding F25) *)
Lemma debug_literal_exact : gen_debug_match_exact = true ->
  forall p t, vm_matches (VDebugLit p) (RDebug t) = true <-> t = p.
Proof.
  intros G p t. simpl. unfold debug_matches. rewrite G. apply list_eqb_eq.
Qed.
Lemma F25_refuted : gen_debug_match_exact = false ->
  exists p t, t <> p /\ vm_matches (VDebugLit p) (RDebug t) = true.
Proof.
  intros G. exists [49; 97], [49]. split; [discriminate|]. simpl. unfold debug_matches. rewrite G. reflexivity.
Qed.

(** * From op histories (what the harness drives, [run_history]) to filter-level histories (what the theorems speak of).
    [step] is a composition of the callbacks [fstep] applies; [hist_trace] lists the callbacks a history performs, in
    order: a callsite's first hit registers it, a span the filter disables is never created, and ops on a span that does
    not exist reach nobody. *)
Definition est_of (s : est * list N * list N) : est := fst (fst s).
Definition op_fevs (e : envf) (s : est * list N * list N) (o : op) : list fev :=
  let '(st, seen, live) := s in
  let reg cs m := if existsb (N.eqb cs) seen then [] else [FRegister cs m] in
  match o with
  | OSpan tid cs id m vals =>
      reg cs m ++ (if env_enabled e (fst (reg_if_new e st seen cs m)) tid cs m then [FNewSpan cs id vals] else [])
  | OSpanAbort tid cs m => reg cs m
  | ORecord id vals => if existsb (N.eqb id) live then [FRecord id vals] else []
  | OEnter tid id => if existsb (N.eqb id) live then [FEnter tid id] else []
  | OExit tid id => if existsb (N.eqb id) live then [FExit tid id] else []
  | OClose id => if existsb (N.eqb id) live then [FClose id] else []
  | OEvent tid cs m => reg cs m
  end.
Fixpoint run_state (e : envf) (s : est * list N * list N) (ops : list op) : est * list N * list N :=
  match ops with [] => s | o :: r => run_state e (fst (step e s o)) r end.
Fixpoint hist_trace (e : envf) (s : est * list N * list N) (ops : list op) : list fev :=
  match ops with [] => [] | o :: r => op_fevs e s o ++ hist_trace e (fst (step e s o)) r end.
Definition s0 : est * list N * list N := (est0, [], []).

Lemma reg_if_new_est e st seen cs m :
  fst (reg_if_new e st seen cs m) =
  fold_left (fstep e) (if existsb (N.eqb cs) seen then [] else [FRegister cs m]) st.
Proof. unfold reg_if_new. destruct (existsb (N.eqb cs) seen); reflexivity. Qed.

Lemma step_est e s o : est_of (fst (step e s o)) = fold_left (fstep e) (op_fevs e s o) (est_of s).
Proof.
  destruct s as [[st seen] live]. unfold est_of. cbn [fst].
  destruct o as [tid cs id m vals|tid cs m|id vals|tid id|tid id|id|tid cs m]; unfold step, op_fevs.
  - rewrite fold_left_app. rewrite <- reg_if_new_est.
    remember (reg_if_new e st seen cs m) as rr eqn:R. destruct rr as [st1 seen1]. simpl fst.
    destruct (env_enabled e st1 tid cs m); reflexivity.
  - rewrite <- reg_if_new_est. remember (reg_if_new e st seen cs m) as rr eqn:R. destruct rr as [st1 seen1]. reflexivity.
  - destruct (existsb (N.eqb id) live); reflexivity.
  - destruct (existsb (N.eqb id) live); reflexivity.
  - destruct (existsb (N.eqb id) live); reflexivity.
  - destruct (existsb (N.eqb id) live); reflexivity.
  - rewrite <- reg_if_new_est. remember (reg_if_new e st seen cs m) as rr eqn:R. destruct rr as [st1 seen1]. reflexivity.
Qed.

Lemma run_state_est e : forall ops s,
  est_of (run_state e s ops) = fold_left (fstep e) (hist_trace e s ops) (est_of s).
Proof.
  induction ops as [|o r IH]; intros s; simpl; auto. rewrite IH, fold_left_app. f_equal. apply step_est.
Qed.

Lemma run_ops_app e : forall a b s, run_ops e s (a ++ b) = run_ops e s a ++ run_ops e (run_state e s a) b.
Proof.
  induction a as [|o a IH]; intros b s; simpl; auto. destruct (step e s o) as [s' ob]. simpl. now rewrite IH.
Qed.
Lemma hist_trace_app e : forall a b s, hist_trace e s (a ++ b) = hist_trace e s a ++ hist_trace e (run_state e s a) b.
Proof.
  induction a as [|o a IH]; intros b s; simpl; auto. now rewrite IH, app_assoc.
Qed.

(** the answer the harness sees for an event at the end of a history is [env_enabled] in the state the callbacks built *)
Lemma history_event_obs : forall e ops tid cs m,
  run_history e (ops ++ [OEvent tid cs m]) =
  run_history e ops ++ [Some (env_enabled e (frun e (hist_trace e s0 (ops ++ [OEvent tid cs m]))) tid cs m)].
Proof.
  intros e ops tid cs m. unfold run_history. fold s0. rewrite run_ops_app. f_equal.
  rewrite hist_trace_app. unfold frun. rewrite fold_left_app.
  pose proof (run_state_est e ops s0) as RS. change (est_of s0) with est0 in RS. rewrite <- RS.
  destruct (run_state e s0 ops) as [[st seen] live]. unfold est_of. simpl fst.
  simpl run_ops. simpl hist_trace. rewrite app_nil_r. rewrite <- reg_if_new_est.
  remember (reg_if_new e st seen cs m) as rr eqn:R. destruct rr as [st1 seen1]. reflexivity.
Qed.

(** C11_scope for the histories the correspondence runs *)
Theorem scope_history : forall e ops tid cs m,
  wf_env e -> is_span m = false ->
  let evs := hist_trace e s0 (ops ++ [OEvent tid cs m]) in
  well_nested e evs -> quiet e evs ->
  run_history e (ops ++ [OEvent tid cs m]) =
  run_history e ops ++ [Some (scope_spec e (arun e evs) tid (m_level m) || enabled_s (e_statics e) m)].
Proof.
  intros e ops tid cs m W NS evs WN Q. rewrite history_event_obs. fold evs. now rewrite scope_event.
Qed.

(** non-vacuity: the F24-free history of the regression corpus, as ops *)
Definition ex_ops : list op :=
  [OSpan 0 7 1 (m_span Info) [(b_x, RU64 1)]; OEnter 0 1; OEvent 0 9 (m_event Debug); OExit 0 1].
Example scope_history_example :
  well_nested env_x1 (hist_trace env_x1 s0 (ex_ops ++ [OEvent 0 9 (m_event Debug)])) /\
  quiet env_x1 (hist_trace env_x1 s0 (ex_ops ++ [OEvent 0 9 (m_event Debug)])) /\
  run_history env_x1 (ex_ops ++ [OEvent 0 9 (m_event Debug)]) = [Some true; None; Some true; None; Some false].
Proof.
  split; [|split]; [| |vm_compute; reflexivity].
  - vm_compute. repeat split; auto. eexists _, _. reflexivity.
  - vm_compute. repeat split; auto.
Qed.

(** * "matched" is a function of the values recorded so far, and only grows: a later value that does not match never
    un-matches a span (the per-field flags are only ever set), whatever was entered or exited in between *)
Lemma hit_app k v v1 v2 : hit k v (v1 ++ v2) = hit k v v1 || hit k v v2.
Proof. unfold hit. apply existsb_app. Qed.
Lemma satisfied_mono : forall d v1 v2, satisfied d v1 = true -> satisfied d (v1 ++ v2) = true.
Proof.
  intros d v1 v2. unfold satisfied. rewrite !forallb_forall. intros H kv Hkv. rewrite hit_app, (H kv Hkv). reflexivity.
Qed.
Lemma span_matches_mono : forall e m v1 v2 x,
  span_matches_level e (mk_aspan m v1) x = true -> span_matches_level e (mk_aspan m (v1 ++ v2)) x = true.
Proof.
  intros e m v1 v2 x. unfold span_matches_level. rewrite !existsb_exists. intros (d & Hd & C). exists d. split; auto.
  simpl in *. apply andb_true_iff in C. destruct C as [C A]. apply andb_true_iff in C. destruct C as [C S].
  now rewrite C, A, (satisfied_mono d v1 v2 S).
Qed.
(** the concrete flags after recording [v1] then [v2] are those after recording [v1 ++ v2]: no history dependence *)
Lemma record_order_irrelevant : forall c v1 v2, record_vals v2 (sm_of v1 c) = sm_of (v1 ++ v2) c.
Proof. intros. symmetry. apply sm_of_app. Qed.
