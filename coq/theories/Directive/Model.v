(** C11 — executable model of filter directives (tracing-subscriber/src/filter/{directive,targets}.rs and
    filter/env/{mod,directive,field,builder}.rs).  No proofs here.

    Text is a list of bytes ([list N]); Rust's [String::len] / [str::cmp] / [starts_with] are byte-wise, and every
    separator the parsers look for is ASCII, so the byte view is exact for valid UTF-8 input.
    Level parsing / printing / order is imported from the C19 model (an interpreter of tables generated from
    metadata.rs).  Two booleans and three regex texts come from TVGen.Gen_directive (translators/directive.py). *)
From TV Require Export Levels.Model.
From TVGen Require Export Gen_directive.
From Coq Require Export ZArith.
Local Open Scope N_scope.

Definition bytes := list N.

Definition cEQ : N := 61.     (* = *)
Definition cCOMMA : N := 44.  (* , *)
Definition cLB : N := 91.     (* [ *)
Definition cRB : N := 93.     (* ] *)
Definition cLC : N := 123.    (* { *)
Definition cRC : N := 125.    (* } *)
Definition cDOT : N := 46.
Definition cQUOTE : N := 34.

(** * Comparison combinators (std: Ordering::then_with, Option / slice / str orderings) *)
Definition then_with (c d : comparison) : comparison := match c with Eq => d | _ => c end.
Fixpoint list_cmp {A} (cmp : A -> A -> comparison) (a b : list A) : comparison :=
  match a, b with
  | [], [] => Eq
  | [], _ :: _ => Lt
  | _ :: _, [] => Gt
  | x :: a', y :: b' => then_with (cmp x y) (list_cmp cmp a' b')
  end.
Definition opt_cmp {A} (cmp : A -> A -> comparison) (a b : option A) : comparison :=
  match a, b with
  | None, None => Eq
  | None, Some _ => Lt
  | Some _, None => Gt
  | Some x, Some y => cmp x y
  end.
Definition bool_cmp (a b : bool) : comparison :=
  match a, b with false, true => Lt | true, false => Gt | _, _ => Eq end.
Definition bytes_cmp : bytes -> bytes -> comparison := list_cmp N.compare.
Definition is_eq (c : comparison) : bool := match c with Eq => true | _ => false end.
Definition is_nil {A} (l : list A) : bool := match l with [] => true | _ => false end.

Fixpoint is_prefix (p s : bytes) : bool :=     (* s.starts_with(p) *)
  match p, s with
  | [], _ => true
  | x :: p', y :: s' => (x =? y) && is_prefix p' s'
  | _ :: _, [] => false
  end.
Definition mem_b (x : bytes) (l : list bytes) : bool := existsb (list_eqb x) l.

(** * Level filters as thresholds (order proved in C19: OFF < ERROR < ... < TRACE) *)
Definition lf_rank (f : option lv) : N := rank (VF f).
Definition allows (f : option lv) (l : lv) : bool := rank_lv l <=? lf_rank f.      (* `filter >= *level` *)
Definition lf_max (a b : option lv) : option lv := if lf_rank a <? lf_rank b then b else a.

(** * DirectiveSet<T>: a vector kept sorted by [cmp], most specific first, plus the largest level seen *)
Record dset (T : Type) := mk_dset { ds_dirs : list T; ds_max : option lv }.
Arguments mk_dset {T}.
Arguments ds_dirs {T}.
Arguments ds_max {T}.
Definition ds_empty {T} : dset T := mk_dset [] None.

(** `binary_search(&d)` then replace (Ok) / insert (Err), written as the linear search it equals on a vector
    sorted by a total order ([x] is the vector element, the probe is [cmp x d]). *)
Fixpoint insert {T} (cmp : T -> T -> comparison) (d : T) (l : list T) : list T :=
  match l with
  | [] => [d]
  | x :: r => match cmp x d with
              | Lt => x :: insert cmp d r
              | Eq => d :: r
              | Gt => d :: x :: r
              end
  end.
Definition ds_add {T} (cmp : T -> T -> comparison) (lvl : T -> option lv) (ds : dset T) (d : T) : dset T :=
  let dirs' := insert cmp d (ds_dirs ds) in
  let raised := lf_max (ds_max ds) (lvl d) in                       (* if level > self.max_level { .. } *)
  let replaced := existsb (fun x => is_eq (cmp x d)) (ds_dirs ds) in
  mk_dset dirs' (if gen_add_recomputes_max && replaced then fold_left lf_max (map lvl dirs') None else raised).
Definition ds_build {T} cmp lvl (l : list T) : dset T := fold_left (ds_add cmp lvl) l ds_empty.

(** * StaticDirective *)
Record sdir := mk_sdir { s_target : option bytes; s_fields : list bytes; s_level : option lv }.

(** impl Ord for StaticDirective (the whole chain is `.reverse()`d) *)
Definition cmp_s (a b : sdir) : comparison :=
  CompOpp
    (then_with (opt_cmp Nat.compare (option_map (@List.length N) (s_target a)) (option_map (@List.length N) (s_target b)))
    (then_with (Nat.compare (List.length (s_fields a)) (List.length (s_fields b)))
    (then_with (opt_cmp bytes_cmp (s_target a) (s_target b))
               (list_cmp bytes_cmp (s_fields a) (s_fields b))))).

Inductive mkind := KEvent | KSpan | KHint.
Record meta := mk_meta { m_target : bytes; m_level : lv; m_kind : mkind; m_name : bytes; m_fields : list bytes }.
Definition is_event (m : meta) : bool := match m_kind m with KEvent => true | _ => false end.
Definition is_span (m : meta) : bool := match m_kind m with KSpan => true | _ => false end.

Definition target_matches (t : option bytes) (s : bytes) : bool :=
  match t with Some p => is_prefix p s | None => true end.
(** Match::cares_about for StaticDirective *)
Definition cares_s (d : sdir) (m : meta) : bool :=
  target_matches (s_target d) (m_target m) &&
  (if is_event m && negb (is_nil (s_fields d)) then forallb (fun n => mem_b n (m_fields m)) (s_fields d) else true).
Definition cares_target (d : sdir) (t : bytes) : bool :=
  target_matches (s_target d) t && is_nil (s_fields d).

Definition sset := dset sdir.
Definition s_add : sset -> sdir -> sset := ds_add cmp_s s_level.
Definition s_build : list sdir -> sset := ds_build cmp_s s_level.
(** DirectiveSet<StaticDirective>::enabled / target_enabled: the first caring directive decides *)
Definition enabled_s (ds : sset) (m : meta) : bool :=
  match find (fun d => cares_s d m) (ds_dirs ds) with
  | Some d => allows (s_level d) (m_level m)
  | None => false
  end.
Definition target_enabled (ds : sset) (t : bytes) (l : lv) : bool :=
  match find (fun d => cares_target d t) (ds_dirs ds) with
  | Some d => allows (s_level d) l
  | None => false
  end.

(** * Splitting text *)
(** str::split(char): one more piece than there are separators *)
Fixpoint split1 (c : N) (s : bytes) : bytes * list bytes :=
  match s with
  | [] => ([], [])
  | x :: r => let '(p, ps) := split1 c r in if x =? c then ([], p :: ps) else (x :: p, ps)
  end.
Definition split_on (c : N) (s : bytes) : list bytes := let '(p, ps) := split1 c s in p :: ps.
(** first occurrence of the two-byte pattern [a b]: (text before, text after) *)
Fixpoint find2 (a b : N) (s : bytes) : option (bytes * bytes) :=
  match s with
  | [] => None
  | x :: r =>
      match r with
      | [] => None
      | y :: r' =>
          if (x =? a) && (y =? b) then Some ([], r')
          else match find2 a b r with Some (p, q) => Some (x :: p, q) | None => None end
      end
  end.
Definition strip_suffix2 (a b : N) (s : bytes) : option bytes :=
  match rev s with
  | y :: x :: r => if (x =? a) && (y =? b) then Some (rev r) else None
  | _ => None
  end.
Fixpoint join (sep : bytes) (l : list bytes) : bytes :=
  match l with
  | [] => []
  | [x] => x
  | x :: r => x ++ sep ++ join sep r
  end.

(** * impl FromStr / Display for StaticDirective *)
Definition parse_sdir (s : bytes) : option sdir :=
  match split_on cEQ s with
  | [p0] =>                                        (* bare level, else bare target (=> TRACE) *)
      Some (match parse_filter p0 with
            | Some l => mk_sdir None [] l
            | None => mk_sdir (Some p0) [] (Some Trace)
            end)
  | [p0; p1] =>
      match find2 cLB cLC p0 with                  (* part0.split("[{") *)
      | None => option_map (mk_sdir (Some p0) []) (parse_filter p1)
      | Some (t, mf) =>
          match find2 cLB cLC mf with
          | Some _ => None                         (* too many '[{' *)
          | None =>
              match strip_suffix2 cRC cRB mf with
              | None => None                       (* expected fields list to end with '}]' *)
              | Some fs =>
                  option_map (mk_sdir (Some t) (filter (fun f => negb (is_nil f)) (split_on cCOMMA fs)))
                             (parse_filter p1)
              end
          end
      end
  | _ => None                                      (* too many '=' *)
  end.

Definition disp_level (f : option lv) : bytes := match display_filter f with Some s => s | None => [] end.
Definition display_fields (fs : list bytes) : bytes :=
  match fs with [] => [] | _ => [cLB; cLC] ++ join [cCOMMA] fs ++ [cRC; cRB] end.
Definition display_sdir (d : sdir) : bytes :=
  let t := match s_target d with Some t => t | None => [] end in
  let wrote_any := match s_target d, s_fields d with None, [] => false | _, _ => true end in
  t ++ display_fields (s_fields d) ++ (if wrote_any then [cEQ] else []) ++ disp_level (s_level d).

(** * Targets *)
Fixpoint sequence {A} (l : list (option A)) : option (list A) :=
  match l with
  | [] => Some []
  | None :: _ => None
  | Some x :: r => match sequence r with Some xs => Some (x :: xs) | None => None end
  end.
Definition parse_targets (s : bytes) : option sset :=
  option_map s_build (sequence (map parse_sdir (split_on cCOMMA s))).
Definition display_targets (t : sset) : bytes := join [cCOMMA] (map display_sdir (ds_dirs t)).
Definition targets_enabled (t : sset) (m : meta) : bool := enabled_s t m.          (* Subscribe::enabled, Filter::enabled *)
Definition would_enable (t : sset) (target : bytes) (l : lv) : bool := target_enabled t target l.
Definition targets_hint (t : sset) : option lv := ds_max t.                          (* max_level_hint = Some(max_level) *)
Definition default_level (t : sset) : option (option lv) :=
  option_map s_level (find (fun d => match s_target d with None => true | Some _ => false end) (ds_dirs t)).
Definition targets_iter (t : sset) : list (bytes * option lv) :=
  flat_map (fun d => match s_target d with Some x => [(x, s_level d)] | None => [] end) (ds_dirs t).
(** the builder API: with_target / with_default *)
Definition with_target (t : sset) (target : bytes) (l : option lv) : sset := s_add t (mk_sdir (Some target) [] l).
Definition with_default (t : sset) (l : option lv) : sset := s_add t (mk_sdir None [] l).
(** derived PartialEq on Targets *)
Definition olv_eq (a b : option lv) : bool := olv_eqb a b.
Definition obytes_eqb (a b : option bytes) : bool :=
  match a, b with Some x, Some y => list_eqb x y | None, None => true | _, _ => false end.
Fixpoint lbytes_eqb (a b : list bytes) : bool :=
  match a, b with [], [] => true | x :: a', y :: b' => list_eqb x y && lbytes_eqb a' b' | _, _ => false end.
Definition sdir_eqb (a b : sdir) : bool :=
  obytes_eqb (s_target a) (s_target b) && lbytes_eqb (s_fields a) (s_fields b) && olv_eqb (s_level a) (s_level b).
Fixpoint lsdir_eqb (a b : list sdir) : bool :=
  match a, b with [], [] => true | x :: a', y :: b' => sdir_eqb x y && lsdir_eqb a' b' | _, _ => false end.
Definition targets_eqb (a b : sset) : bool := lsdir_eqb (ds_dirs a) (ds_dirs b) && olv_eqb (ds_max a) (ds_max b).

(** * EnvFilter directives *)
Inductive vmatch := VBool (b : bool) | VU64 (n : N) | VI64 (z : Z) | VDebugLit (p : bytes).
Record fmatch := mk_fmatch { f_name : bytes; f_value : option vmatch }.
Record ddir := mk_ddir { d_target : option bytes; d_span : option bytes; d_fields : list fmatch; d_level : option lv }.

(** impl Ord for ValueMatch restricted to the modelled constructors: Bool < U64 < I64 < Debug *)
Definition vm_tag (v : vmatch) : N := match v with VBool _ => 0 | VU64 _ => 3 | VI64 _ => 4 | VDebugLit _ => 6 end.
Definition vm_cmp (a b : vmatch) : comparison :=
  match a, b with
  | VBool x, VBool y => bool_cmp x y
  | VU64 x, VU64 y => N.compare x y
  | VI64 x, VI64 y => Z.compare x y
  | VDebugLit x, VDebugLit y => bytes_cmp x y
  | _, _ => N.compare (vm_tag a) (vm_tag b)
  end.
(** impl Ord for field::Match: has_value, then name, then value *)
Definition fm_cmp (a b : fmatch) : comparison :=
  then_with (match f_value a, f_value b with Some _, None => Gt | None, Some _ => Lt | _, _ => Eq end)
  (then_with (bytes_cmp (f_name a) (f_name b)) (opt_cmp vm_cmp (f_value a) (f_value b))).
Definition is_some {A} (o : option A) : bool := match o with Some _ => true | None => false end.
(** impl Ord for Directive *)
Definition cmp_d (a b : ddir) : comparison :=
  CompOpp
    (then_with (opt_cmp Nat.compare (option_map (@List.length N) (d_target a)) (option_map (@List.length N) (d_target b)))
    (then_with (bool_cmp (is_some (d_span a)) (is_some (d_span b)))
    (then_with (Nat.compare (List.length (d_fields a)) (List.length (d_fields b)))
    (then_with (opt_cmp bytes_cmp (d_target a) (d_target b))
    (then_with (opt_cmp bytes_cmp (d_span a) (d_span b))
               (list_cmp fm_cmp (d_fields a) (d_fields b))))))).

(** impl PartialEq for ValueMatch / derived PartialEq for field::Match.  Whether two Debug literals can be equal is read
    from the source (gen_valuematch_eq_debug: the `(Debug(a), Debug(b))` arm of `ValueMatch::eq`). *)
Definition vm_peq (a b : vmatch) : bool :=
  match a, b with
  | VBool x, VBool y => Bool.eqb x y
  | VU64 x, VU64 y => x =? y
  | VI64 x, VI64 y => (x =? y)%Z
  | VDebugLit x, VDebugLit y => gen_valuematch_eq_debug && list_eqb x y
  | _, _ => false
  end.
Definition fm_peq (a b : fmatch) : bool :=
  list_eqb (f_name a) (f_name b) &&
  match f_value a, f_value b with Some x, Some y => vm_peq x y | None, None => true | _, _ => false end.
Fixpoint fields_peq (a b : list fmatch) : bool :=
  match a, b with [], [] => true | x :: a', y :: b' => fm_peq x y && fields_peq a' b' | _, _ => false end.
(** the `#[cfg(debug_assertions)]` block of `Directive::cmp`: Equal must imply equal target, span and fields *)
Definition ord_assert_fails (a b : ddir) : bool :=
  is_eq (cmp_d a b) &&
  negb (obytes_eqb (d_target a) (d_target b) && obytes_eqb (d_span a) (d_span b) && fields_peq (d_fields a) (d_fields b)).

Definition has_value (f : fmatch) : bool := is_some (f_value f).
Definition is_static (d : ddir) : bool := negb (is_some (d_span d)) && negb (existsb has_value (d_fields d)).
Definition is_dynamic (d : ddir) : bool := is_some (d_span d) || negb (is_nil (d_fields d)).
Definition to_static (d : ddir) : option sdir :=
  if is_static d then Some (mk_sdir (d_target d) (map f_name (d_fields d)) (d_level d)) else None.
(** Match::cares_about for Directive *)
Definition cares_d (d : ddir) (m : meta) : bool :=
  target_matches (d_target d) (m_target m) &&
  (match d_span d with Some n => list_eqb n (m_name m) | None => true end) &&
  forallb (fun f => mem_b (f_name f) (m_fields m)) (d_fields d).

(** ** Parsing one directive: a hand-written recogniser of the three regexes of Directive::parse, for ASCII input.
    Outside what is modelled (non-ASCII bytes, a comma inside a field list, float-looking values, regex patterns)
    the answer is [PUnmodelled]; the correspondence skips those and the Python oracle covers floats / patterns. *)
Inductive presult (A : Type) := PUnmodelled | PErr | POk (a : A).
Arguments PUnmodelled {A}.
Arguments PErr {A}.
Arguments POk {A}.

Definition pinned_directive_re : string :=
  "(?x) ^(?P<global_level>(?i:trace|debug|info|warn|error|off|[0-5]))$ | # ^^^. # `note: we match log level names case-insensitively ^ (?: # target name or span name (?P<target>[\w:-]+)|(?P<span>\[[^\]]*\]) ){1,2} (?: # level or nothing =(?P<level>(?i:trace|debug|info|warn|error|off|[0-5]))? # ^^^. # `note: we match log level names case-insensitively )? $".
Definition pinned_span_part_re : string := "(?P<name>[^\]\{]+)?(?:\{(?P<fields>[^\}]*)\})?".
Definition pinned_field_filter_re : string :=
  "(?x) ( # field name [[:word:]][[[:word:]]\.]* # value part (optional) (?:=[^,]+)? ) # trailing comma or EOS (?:,\s?|$)".

Definition in_range (lo hi b : N) : bool := (lo <=? b) && (b <=? hi).
Definition is_word (b : N) : bool := in_range 48 57 b || in_range 65 90 b || in_range 97 122 b || (b =? 95).
Definition is_target_char (b : N) : bool := is_word b || (b =? 58) || (b =? 45).          (* [\w:-] *)
Definition is_ascii (s : bytes) : bool := forallb (fun b => b <? 128) s.

Fixpoint span_while (p : N -> bool) (s : bytes) : bytes * bytes :=   (* longest prefix of p-bytes, rest *)
  match s with
  | [] => ([], [])
  | x :: r => if p x then let '(a, b) := span_while p r in (x :: a, b) else ([], s)
  end.
Fixpoint drop_while (p : N -> bool) (s : bytes) : bytes :=
  match s with [] => [] | x :: r => if p x then drop_while p r else s end.

Definition level_tok_names : list bytes :=
  [[116; 114; 97; 99; 101]; [100; 101; 98; 117; 103]; [105; 110; 102; 111]; [119; 97; 114; 110];
   [101; 114; 114; 111; 114]; [111; 102; 102]].
(** (?i:trace|debug|info|warn|error|off|[0-5]) against a whole string *)
Definition is_level_tok (s : bytes) : bool :=
  existsb (eq_ic s) level_tok_names || match s with [d] => in_range 48 53 d | _ => false end.

Inductive part := PT (t : bytes) | PB (inner : bytes).
Definition take_part (s : bytes) : option (part * bytes) :=
  match s with
  | [] => None
  | x :: r =>
      if is_target_char x then let '(t, rest) := span_while is_target_char s in Some (PT t, rest)
      else if x =? cLB then
        let '(inner, rest) := span_while (fun b => negb (b =? cRB)) r in
        match rest with _ :: rest' => Some (PB inner, rest') | [] => None end
      else None
  end.
(** (?:=(?P<level>...)?)?$  — [Some None]: no level group; [Some (Some l)]: level text l *)
Definition parse_suffix (s : bytes) : option (option bytes) :=
  match s with
  | [] => Some None
  | c :: l => if c =? cEQ then (if is_nil l then Some None else if is_level_tok l then Some (Some l) else None) else None
  end.
Definition last_target (ps : list part) : option bytes :=
  fold_left (fun acc p => match p with PT t => Some t | PB _ => acc end) ps None.
Definition last_span (ps : list part) : option bytes :=
  fold_left (fun acc p => match p with PB i => Some i | PT _ => acc end) ps None.

(** Rust integer / bool literals as `str::parse` accepts them *)
Fixpoint digits_to_N (acc : N) (s : bytes) : option N :=
  match s with
  | [] => Some acc
  | d :: r => if is_digit d then digits_to_N (acc * 10 + (d - 48)) r else None
  end.
Definition I64_MAX : N := 9223372036854775807.
Definition parse_i64 (s : bytes) : option Z :=
  match s with
  | [] => None
  | [c] => if is_digit c then Some (Z.of_N (c - 48)) else None
  | c :: rest =>
      if c =? 45 then match digits_to_N 0 rest with
                      | Some n => if n <=? I64_MAX + 1 then Some (- Z.of_N n)%Z else None
                      | None => None end
      else match digits_to_N 0 (if c =? 43 then rest else s) with
           | Some n => if n <=? I64_MAX then Some (Z.of_N n) else None
           | None => None end
  end.
Definition b_true : bytes := [116; 114; 117; 101].
Definition b_false : bytes := [102; 97; 108; 115; 101].
(** over-approximation of the strings `f64::from_str` accepts (digits, sign, dot, exponent; inf / infinity / nan) *)
Definition maybe_float (s : bytes) : bool :=
  forallb (fun b => is_digit b || (b =? 43) || (b =? 45) || (b =? 46) || (b =? 69) || (b =? 101)) s ||
  (let t := match s with c :: r => if (c =? 43) || (c =? 45) then r else s | [] => s end in
   existsb (eq_ic t) [[105; 110; 102]; [105; 110; 102; 105; 110; 105; 116; 121]; [110; 97; 110]]).
(** ValueMatch::parse_regex / parse_non_regex: bool, u64, i64, f64, then pattern / Debug literal *)
Definition parse_value (regex : bool) (s : bytes) : presult vmatch :=
  if list_eqb s b_true then POk (VBool true) else if list_eqb s b_false then POk (VBool false) else
  match parse_usize s with
  | Some n => POk (VU64 n)
  | None => match parse_i64 s with
            | Some z => POk (VI64 z)
            | None => if maybe_float s then PUnmodelled else if regex then PUnmodelled else POk (VDebugLit s)
            end
  end.
(** field::Match::parse: name = text before the first '=', value = text between the first and second '=' *)
Definition parse_fmatch (regex : bool) (s : bytes) : presult fmatch :=
  match split_on cEQ s with
  | name :: v :: _ => match parse_value regex v with
                      | POk x => POk (mk_fmatch name (Some x))
                      | PErr => PErr
                      | PUnmodelled => PUnmodelled
                      end
  | [name] => POk (mk_fmatch name None)
  | [] => PErr
  end.
(** FIELD_FILTER_RE.find_iter on a comma-free string: the leftmost suffix of the form  word (word|.)* (= .+)?  *)
Definition field_ok (c : bytes) : bool :=
  let '(_, rest) := span_while (fun b => is_word b || (b =? cDOT)) c in
  match rest with [] => true | e :: v => (e =? cEQ) && negb (is_nil v) end.
Fixpoint find_field (c : bytes) : option bytes :=
  match c with
  | [] => None
  | x :: r => if is_word x && field_ok c then Some c else find_field r
  end.
Definition parse_fields (regex : bool) (c : bytes) : presult (list fmatch) :=
  if existsb (fun b => b =? cCOMMA) c then PUnmodelled else
  match find_field c with
  | None => POk []
  | Some f => match parse_fmatch regex f with POk m => POk [m] | PErr => PErr | PUnmodelled => PUnmodelled end
  end.
(** the span capture: trim_matches('[' | ']'), then SPAN_PART_RE *)
Definition is_bracket (b : N) : bool := (b =? cLB) || (b =? cRB).
Definition trim_brackets (s : bytes) : bytes := rev (drop_while is_bracket (rev (drop_while is_bracket s))).
Definition parse_span_part (regex : bool) (inner : bytes) : presult (option bytes * list fmatch) :=
  let cap := trim_brackets inner in
  let '(name, rest) := span_while (fun b => negb ((b =? cRB) || (b =? cLC))) cap in
  let in_span := if is_nil name then None else Some name in
  match rest with
  | c :: r =>
      if c =? cLC then
        let '(fs, rest2) := span_while (fun b => negb (b =? cRC)) r in
        match rest2 with
        | _ :: _ => match parse_fields regex fs with
                    | POk l => POk (in_span, l) | PErr => PErr | PUnmodelled => PUnmodelled end
        | [] => POk (in_span, [])
        end
      else POk (in_span, [])
  | [] => POk (in_span, [])
  end.

Definition parse_ddir (regex : bool) (s : bytes) : presult ddir :=
  if negb (is_ascii s) then PUnmodelled else
  if is_level_tok s then                                  (* first alternative: global level *)
    POk (mk_ddir None None [] (match parse_filter s with Some l => l | None => Some Trace end))
  else
    let finish (ps : list part) (lvl : option bytes) : presult ddir :=
      let target := match last_target ps with
                    | Some t => if is_some (parse_filter t) then None else Some t
                    | None => None end in
      let level := match lvl with
                   | Some l => match parse_filter l with Some f => f | None => Some Trace end
                   | None => Some Trace end in
      match last_span ps with
      | None => POk (mk_ddir target None [] level)
      | Some inner => match parse_span_part regex inner with
                      | POk (sp, fs) => POk (mk_ddir target sp fs level)
                      | PErr => PErr | PUnmodelled => PUnmodelled end
      end in
    match take_part s with
    | None => PErr
    | Some (p1, r1) =>
        match take_part r1 with
        | Some (p2, r2) => match parse_suffix r2 with Some l => finish [p1; p2] l | None => PErr end
        | None => match parse_suffix r1 with Some l => finish [p1] l | None => PErr end
        end
    end.

(** ** Display *)
Fixpoint dec_digits (fuel : nat) (n : N) (acc : bytes) : bytes :=
  match fuel with
  | O => acc
  | S f => let acc' := (48 + n mod 10) :: acc in
           if n / 10 =? 0 then acc' else dec_digits f (n / 10) acc'
  end.
Definition N_to_dec (n : N) : bytes := dec_digits (S (N.size_nat n)) n [].
Definition display_vmatch (v : vmatch) : bytes :=
  match v with
  | VBool true => b_true
  | VBool false => b_false
  | VU64 n => N_to_dec n
  | VI64 z => if (z <? 0)%Z then 45 :: N_to_dec (Z.to_N (- z)) else N_to_dec (Z.to_N z)
  | VDebugLit p => p
  end.
Definition display_fmatch (f : fmatch) : bytes :=
  f_name f ++ match f_value f with Some v => cEQ :: display_vmatch v | None => [] end.
Definition display_ddir (d : ddir) : bytes :=
  let t := match d_target d with Some t => t | None => [] end in
  let has_br := is_some (d_span d) || negb (is_nil (d_fields d)) in
  let br := if has_br then
              [cLB] ++ (match d_span d with Some n => n | None => [] end)
              ++ (match d_fields d with [] => [] | fs => [cLC] ++ join [cCOMMA] (map display_fmatch fs) ++ [cRC] end)
              ++ [cRB]
            else [] in
  let wrote_any := is_some (d_target d) || has_br in
  t ++ br ++ (if wrote_any then [cEQ] else []) ++ disp_level (d_level d).

(** ** The filter: statics / dynamics (Directive::make_tables, Builder::from_directives) *)
Definition dyset := dset ddir.
Definition d_add : dyset -> ddir -> dyset := ds_add cmp_d d_level.
Record envf := mk_envf { e_statics : sset; e_dynamics : dyset; e_has_dyn : bool }.
Fixpoint filter_map {A B} (f : A -> option B) (l : list A) : list B :=
  match l with [] => [] | x :: r => match f x with Some y => y :: filter_map f r | None => filter_map f r end end.
Definition add_directive (e : envf) (d : ddir) : envf :=
  match to_static d with
  | Some s => mk_envf (s_add (e_statics e) s) (e_dynamics e) (e_has_dyn e)
  | None => mk_envf (e_statics e) (d_add (e_dynamics e) d) true
  end.
Definition env_build (default : option ddir) (dirs : list ddir) : envf :=
  let dyns := filter is_dynamic dirs in
  let stats := filter (fun d => negb (is_dynamic d)) dirs in
  let statics := s_build (filter_map to_static stats ++ filter_map to_static dyns) in
  let dynamics := ds_build cmp_d d_level dyns in
  let e := mk_envf statics dynamics (negb (is_nil (ds_dirs dynamics))) in
  if negb (e_has_dyn e) && is_nil (ds_dirs statics) then
    match default with Some d => add_directive e d | None => e end
  else e.

Fixpoint collect_parse {A} (lossy : bool) (l : list (presult A)) : presult (list A) :=
  match l with
  | [] => POk []
  | PUnmodelled :: _ => PUnmodelled
  | PErr :: r => if lossy then collect_parse lossy r else
                 (match collect_parse lossy r with PUnmodelled => PUnmodelled | _ => PErr end)
  | POk x :: r => match collect_parse lossy r with POk xs => POk (x :: xs) | o => o end
  end.
(** Builder::parse (strict) / parse_lossy: split on ',', drop empty pieces, parse each *)
Definition parse_dirs (regex lossy : bool) (s : bytes) : presult (list ddir) :=
  collect_parse lossy (map (parse_ddir regex) (filter (fun p => negb (is_nil p)) (split_on cCOMMA s))).
Definition parse_env (regex lossy : bool) (default : option ddir) (s : bytes) : presult envf :=
  match parse_dirs regex lossy s with
  | POk ds => POk (env_build default ds)
  | PErr => PErr
  | PUnmodelled => PUnmodelled
  end.
(** a debug build: `Dynamics::from_iter` adds the dynamic directives one by one; `binary_search` compares the new one with
    the element of equal key, if there is one, and the assertion inside `Directive::cmp` is evaluated on that pair *)
Fixpoint build_panics (dirs : list ddir) (acc : dyset) : bool :=
  match dirs with
  | [] => false
  | d :: r => existsb (fun x => ord_assert_fails x d) (ds_dirs acc) || build_panics r (d_add acc d)
  end.
Definition env_build_panics (dirs : list ddir) : bool := build_panics (filter is_dynamic dirs) ds_empty.
Definition display_env (e : envf) : bytes :=
  join [cCOMMA] (map display_sdir (ds_dirs (e_statics e)) ++ map display_ddir (ds_dirs (e_dynamics e))).
Definition has_value_filters (e : envf) : bool :=
  existsb (fun d => existsb has_value (d_fields d)) (ds_dirs (e_dynamics e)).
Definition env_hint (e : envf) : option lv :=
  if has_value_filters e then Some Trace else lf_max (ds_max (e_statics e)) (ds_max (e_dynamics e)).

(** ** Span matching state *)
(** recorded values: which `Visit` method the value reaches, with what payload *)
Inductive rval := RBool (b : bool) | RU64 (n : N) | RI64 (z : Z) | RStr (s : bytes) | RDebug (text : bytes).
(** `{:?}` of a str made of printable ASCII other than quote and backslash is the text in quotes *)
Definition simple_str (s : bytes) : bool := forallb (fun b => in_range 32 126 b && negb (b =? 34) && negb (b =? 92)) s.
Definition debug_text (v : rval) : option bytes :=
  match v with
  | RStr s => if simple_str s then Some ([cQUOTE] ++ s ++ [cQUOTE]) else None
  | RDebug t => Some t
  | _ => None
  end.
(** MatchDebug::debug_matches: every written chunk must continue the pattern; whether the pattern must also be
    exhausted is read from the source (gen_debug_match_exact) *)
Definition debug_matches (pat text : bytes) : bool :=
  if gen_debug_match_exact then list_eqb text pat else is_prefix text pat.
(** impl Visit for MatchVisitor *)
Definition vm_matches (v : vmatch) (r : rval) : bool :=
  match r, v with
  | RBool x, VBool e => Bool.eqb x e
  | RU64 x, VU64 e => x =? e
  | RI64 x, VI64 e => (x =? e)%Z
  | RI64 x, VU64 e => (e <=? I64_MAX) && (x =? Z.of_N e)%Z        (* Ok(value) == e.try_into() *)
  | RStr _, VDebugLit p | RDebug _, VDebugLit p =>
      match debug_text r with Some t => debug_matches p t | None => false end
  | _, _ => false
  end.

Record cs_match := mk_cs_match { cm_fields : list (bytes * vmatch); cm_level : option lv }.      (* field::CallsiteMatch *)
Record cs_matcher := mk_cs_matcher { csm_matches : list cs_match; csm_base : option lv }.         (* MatchSet<CallsiteMatch> *)
Record sp_match := mk_sp_match { sm_fields : list (bytes * (vmatch * bool)); sm_level : option lv }.  (* field::SpanMatch *)
Record sp_matcher := mk_sp_matcher { spm_matches : list sp_match; spm_base : option lv }.

Fixpoint assoc_b {A} (k : bytes) (l : list (bytes * A)) : option A :=
  match l with [] => None | (k', v) :: r => if list_eqb k k' then Some v else assoc_b k r end.
Fixpoint map_insert {A} (k : bytes) (v : A) (l : list (bytes * A)) : list (bytes * A) :=    (* HashMap::insert *)
  match l with
  | [] => [(k, v)]
  | (k', v') :: r => if list_eqb k k' then (k, v) :: r else (k', v') :: map_insert k v r
  end.
(** Directive::field_matcher *)
Fixpoint field_matcher_go (fs : list fmatch) (mf : list bytes) (acc : list (bytes * vmatch)) : option (list (bytes * vmatch)) :=
  match fs with
  | [] => Some acc
  | f :: r => if mem_b (f_name f) mf then
                match f_value f with
                | Some v => field_matcher_go r mf (map_insert (f_name f) v acc)
                | None => field_matcher_go r mf acc
                end
              else None
  end.
Definition field_matcher (d : ddir) (m : meta) : option cs_match :=
  option_map (fun fs => mk_cs_match fs (d_level d)) (field_matcher_go (d_fields d) (m_fields m) []).
(** Dynamics::matcher *)
Fixpoint matcher_go (ds : list ddir) (m : meta) (base : option (option lv)) (acc : list cs_match)
  : option (option lv) * list cs_match :=
  match ds with
  | [] => (base, rev acc)
  | d :: r =>
      if cares_d d m then
        match field_matcher d m with
        | Some f => matcher_go r m base (f :: acc)
        | None => let base' := match base with
                               | Some b => if lf_rank b <? lf_rank (d_level d) then Some (d_level d) else base
                               | None => Some (d_level d) end in
                  matcher_go r m base' acc
        end
      else matcher_go r m base acc
  end.
Definition matcher (dyn : dyset) (m : meta) : option cs_matcher :=
  let '(base, fms) := matcher_go (ds_dirs dyn) m None [] in
  match base with
  | Some b => Some (mk_cs_matcher fms b)
  | None => if is_nil fms then None else Some (mk_cs_matcher fms None)
  end.

(** visiting recorded values: sticky per-field flags *)
Definition record_one (nv : bytes * rval) (sm : sp_match) : sp_match :=     (* matched.store(true) when the value matches *)
  mk_sp_match (map (fun e => let '(k, (v, flag)) := e in
                             (k, (v, flag || (list_eqb k (fst nv) && vm_matches v (snd nv))))) (sm_fields sm))
              (sm_level sm).
Definition record_vals (vals : list (bytes * rval)) (sm : sp_match) : sp_match := fold_left (fun s nv => record_one nv s) vals sm.
Definition to_span_match (cm : cs_matcher) (vals : list (bytes * rval)) : sp_matcher :=
  mk_sp_matcher (map (fun c => record_vals vals (mk_sp_match (map (fun kv => (fst kv, (snd kv, false))) (cm_fields c)) (cm_level c)))
                     (csm_matches cm))
                (csm_base cm).
Definition sm_matched (sm : sp_match) : bool := forallb (fun e => snd (snd e)) (sm_fields sm).
(** SpanMatcher::level *)
Definition spm_level (sp : sp_matcher) : option lv :=
  match filter sm_matched (spm_matches sp) with
  | [] => spm_base sp
  | x :: r => fold_left lf_max (map sm_level r) (sm_level x)
  end.

(** ** The EnvFilter callbacks.  Callsites, spans and threads are numbered. *)
Fixpoint assoc_n {A} (k : N) (l : list (N * A)) : option A :=
  match l with [] => None | (k', v) :: r => if k =? k' then Some v else assoc_n k r end.
Fixpoint put_n {A} (k : N) (v : A) (l : list (N * A)) : list (N * A) :=
  match l with [] => [(k, v)] | (k', v') :: r => if k =? k' then (k, v) :: r else (k', v') :: put_n k v r end.
Fixpoint del_n {A} (k : N) (l : list (N * A)) : list (N * A) :=           (* HashMap::remove *)
  match l with [] => [] | (k', v') :: r => if k =? k' then del_n k r else (k', v') :: del_n k r end.

Record est := mk_est { by_cs : list (N * cs_matcher); by_id : list (N * sp_matcher); scope : list (N * list (option lv)) }.
Definition est0 : est := mk_est [] [] [].
Definition scope_of (st : est) (tid : N) : list (option lv) := match assoc_n tid (scope st) with Some l => l | None => [] end.

Inductive interest := INever | ISometimes | IAlways.
Definition base_interest (e : envf) : interest := if e_has_dyn e then ISometimes else INever.
Definition register_callsite (e : envf) (st : est) (cs : N) (m : meta) : est * interest :=
  match (if e_has_dyn e && is_span m then matcher (e_dynamics e) m else None) with
  | Some mt => (mk_est (put_n cs mt (by_cs st)) (by_id st) (scope st), IAlways)
  | None => (st, if enabled_s (e_statics e) m then IAlways else base_interest e)
  end.
Definition on_new_span (st : est) (cs id : N) (vals : list (bytes * rval)) : est :=
  match assoc_n cs (by_cs st) with
  | Some cm => mk_est (by_cs st) (put_n id (to_span_match cm vals) (by_id st)) (scope st)
  | None => st
  end.
Definition on_record (st : est) (id : N) (vals : list (bytes * rval)) : est :=
  match assoc_n id (by_id st) with
  | Some sp => mk_est (by_cs st)
                      (put_n id (mk_sp_matcher (map (record_vals vals) (spm_matches sp)) (spm_base sp)) (by_id st))
                      (scope st)
  | None => st
  end.
Definition on_enter (st : est) (tid id : N) : est :=
  match assoc_n id (by_id st) with
  | Some sp => mk_est (by_cs st) (by_id st) (put_n tid (spm_level sp :: scope_of st tid) (scope st))
  | None => st
  end.
Definition on_exit (st : est) (tid id : N) : est :=
  match assoc_n id (by_id st) with
  | Some _ => mk_est (by_cs st) (by_id st) (put_n tid (tl (scope_of st tid)) (scope st))      (* Vec::pop *)
  | None => st
  end.
Definition on_close (st : est) (id : N) : est := mk_est (by_cs st) (del_n id (by_id st)) (scope st).

(** EnvFilter::enabled, verbatim *)
Definition env_enabled (e : envf) (st : est) (tid cs : N) (m : meta) : bool :=
  if e_has_dyn e && allows (ds_max (e_dynamics e)) (m_level m) &&
     ((is_span m && is_some (assoc_n cs (by_cs st))) || existsb (fun f => allows f (m_level m)) (scope_of st tid))
  then true
  else if allows (ds_max (e_statics e)) (m_level m) then enabled_s (e_statics e) m else false.

(** ** Histories (what the harness drives through the real macros) *)
Inductive op :=
| OSpan (tid cs id : N) (m : meta) (vals : list (bytes * rval))    (* span! hit on thread tid: callsite cs, fresh id *)
| OSpanAbort (tid cs : N) (m : meta)     (* span! hit whose creation unwinds inside on_new_span (a field value's Debug impl
                                            panics while the span match is built; the application catches it): the filter was
                                            asked, nothing was stored — the match is built BEFORE by_id is locked for writing *)
| ORecord (id : N) (vals : list (bytes * rval))
| OEnter (tid id : N)
| OExit (tid id : N)
| OClose (id : N)                                                  (* the registry reports the span closed *)
| OEvent (tid cs : N) (m : meta).
(** one step; the observation is EnvFilter::enabled's answer for OSpan / OEvent (the harness wraps the filter so that
    `enabled` is consulted on every hit: interest `sometimes`, no level hint).  A span the filter disables is never
    created, so later ops on its id find nothing. *)
Definition reg_if_new (e : envf) (st : est) (seen : list N) (cs : N) (m : meta) : est * list N :=
  if existsb (N.eqb cs) seen then (st, seen) else (fst (register_callsite e st cs m), cs :: seen).
Definition step (e : envf) (s : est * list N * list N) (o : op) : (est * list N * list N) * option bool :=
  let '(st, seen, live) := s in
  match o with
  | OSpan tid cs id m vals =>
      let '(st1, seen1) := reg_if_new e st seen cs m in
      let en := env_enabled e st1 tid cs m in
      if en then ((on_new_span st1 cs id vals, seen1, id :: live), Some true) else ((st1, seen1, live), Some false)
  | OSpanAbort tid cs m =>
      let '(st1, seen1) := reg_if_new e st seen cs m in
      ((st1, seen1, live), Some (env_enabled e st1 tid cs m))
  | ORecord id vals => ((if existsb (N.eqb id) live then on_record st id vals else st, seen, live), None)
  | OEnter tid id => ((if existsb (N.eqb id) live then on_enter st tid id else st, seen, live), None)
  | OExit tid id => ((if existsb (N.eqb id) live then on_exit st tid id else st, seen, live), None)
  | OClose id => ((if existsb (N.eqb id) live then on_close st id else st, seen, filter (fun x => negb (x =? id)) live), None)
  | OEvent tid cs m =>
      let '(st1, seen1) := reg_if_new e st seen cs m in
      ((st1, seen1, live), Some (env_enabled e st1 tid cs m))
  end.
Fixpoint run_ops (e : envf) (s : est * list N * list N) (ops : list op) : list (option bool) :=
  match ops with
  | [] => []
  | o :: r => let '(s', ob) := step e s o in ob :: run_ops e s' r
  end.
Definition run_history (e : envf) (ops : list op) : list (option bool) := run_ops e (est0, [], []) ops.

(** the unwrapped stack registry().with(recorder).with(filter): the callsite cache and the global maximum level
    (mechanisms of C01 / C08, repeated here only to predict deliveries): delivered iff level <= hint and the cached
    interest is `always`, or `sometimes` and `enabled` says yes. *)
Definition delivered (e : envf) (st : est) (tid cs : N) (m : meta) (i : interest) : bool :=
  allows (env_hint e) (m_level m) &&
  match i with IAlways => true | INever => false | ISometimes => env_enabled e st tid cs m end.
Fixpoint assoc_i (k : N) (l : list (N * interest)) : option interest :=
  match l with [] => None | (k', v) :: r => if k =? k' then Some v else assoc_i k r end.
Definition step_plain (e : envf) (s : est * list (N * interest) * list N) (o : op)
  : (est * list (N * interest) * list N) * option bool :=
  let '(st, seen, live) := s in
  let reg cs m := match assoc_i cs seen with
                  | Some i => (st, seen, i)
                  | None => let '(st1, i) := register_callsite e st cs m in (st1, (cs, i) :: seen, i) end in
  match o with
  | OSpan tid cs id m vals =>
      let '(st1, seen1, i) := reg cs m in
      if delivered e st1 tid cs m i then ((on_new_span st1 cs id vals, seen1, id :: live), Some true)
      else ((st1, seen1, live), Some false)
  | OSpanAbort tid cs m =>
      let '(st1, seen1, i) := reg cs m in ((st1, seen1, live), Some (delivered e st1 tid cs m i))
  | ORecord id vals => ((if existsb (N.eqb id) live then on_record st id vals else st, seen, live), None)
  | OEnter tid id => ((if existsb (N.eqb id) live then on_enter st tid id else st, seen, live), None)
  | OExit tid id => ((if existsb (N.eqb id) live then on_exit st tid id else st, seen, live), None)
  | OClose id => ((if existsb (N.eqb id) live then on_close st id else st, seen, filter (fun x => negb (x =? id)) live), None)
  | OEvent tid cs m =>
      let '(st1, seen1, i) := reg cs m in ((st1, seen1, live), Some (delivered e st1 tid cs m i))
  end.
Fixpoint run_plain_go (e : envf) (s : est * list (N * interest) * list N) (ops : list op) : list (option bool) :=
  match ops with
  | [] => []
  | o :: r => let '(s', ob) := step_plain e s o in ob :: run_plain_go e s' r
  end.
Definition run_plain (e : envf) (ops : list op) : list (option bool) := run_plain_go e (est0, [], []) ops.

(** * Encodings for the correspondence driver *)
Definition enc_lf (f : option lv) : N := lf_rank f.
Definition enc_b (b : bool) : N := if b then 1 else 0.
Definition enc_interest (i : interest) : N := match i with INever => 0 | ISometimes => 1 | IAlways => 2 end.
(** Targets on a string: None = parse error; Some (display, hint, reparse-equal, enabled per meta, would_enable per
    (target, level)) *)
Definition all_lv_list : list lv := [Error; Warn; Info; Debug; Trace].
Definition run_targets (s : bytes) (pool : list meta) (tpool : list bytes)
  : option (bytes * N * N * list N * list N) :=
  match parse_targets s with
  | None => None
  | Some t =>
      let d := display_targets t in
      let rt := match parse_targets d with Some t2 => if targets_eqb t t2 then 1 else 0 | None => 2 end in
      Some (d, enc_lf (targets_hint t), rt,
            map (fun m => enc_b (targets_enabled t m)) pool,
            flat_map (fun tg => map (fun l => enc_b (would_enable t tg l)) all_lv_list) tpool)
  end.
(** EnvFilter on a string (fresh state): 0 = unmodelled, 1 = error, 2 = ok (display, hint, (interest, enabled) per meta) *)
Definition run_env (regex lossy : bool) (s : bytes) (pool : list meta) : N * bytes * N * list (N * N) :=
  match parse_env regex lossy None s with
  | PUnmodelled => (0, [], 0, [])
  | PErr => (1, [], 0, [])
  | POk e =>
      (2, display_env e, enc_lf (env_hint e),
       map (fun m => let '(st, i) := register_callsite e est0 0 m in (enc_interest i, enc_b (env_enabled e st 0 0 m))) pool)
  end.
(** does building the filter trip the debug assertion?  0 = no, 1 = yes, 2 = not modelled / parse error *)
Definition run_env_panics (regex lossy : bool) (s : bytes) : N :=
  match parse_dirs regex lossy s with
  | POk ds => enc_b (env_build_panics ds)
  | _ => 2
  end.
Definition enc_obs (o : option bool) : N := match o with None => 2 | Some true => 1 | Some false => 0 end.
Definition run_env_history (regex : bool) (s : bytes) (ops : list op) : N * list N * list N :=
  match parse_env regex false None s with
  | PUnmodelled => (0, [], [])
  | PErr => (1, [], [])
  | POk e => (2, map enc_obs (run_history e ops), map enc_obs (run_plain e ops))
  end.
