(** C11 — the specificity order is a strict total order on directive keys; sorted insertion with replace-on-equal. *)
From TV Require Import Levels.Model Directive.Model.
From Coq Require Import Lia Sorted Permutation.
Local Open Scope N_scope.

(** A hypothesis about a source-read switch ([gen_... = b]) is kept sealed in proofs, so that no tactic can see whether
    it is convertible to [true = false] in the tree at hand: every proof script then behaves the same for both shapes. *)
Inductive sealed (P : Prop) : Prop := seal : P -> sealed P.
Lemma unseal (P : Prop) : sealed P -> P.
Proof. intros [H]. exact H. Qed.

(** * Lawful comparisons *)
Record lawful {A} (c : A -> A -> comparison) : Prop := {
  l_eq : forall a b, c a b = Eq <-> a = b;
  l_sym : forall a b, c b a = CompOpp (c a b);
  l_trans : forall a b d, c a b = Lt -> c b d = Lt -> c a d = Lt }.

Lemma lawful_refl {A} (c : A -> A -> comparison) : lawful c -> forall a, c a a = Eq.
Proof. intros L a. apply (l_eq c L). reflexivity. Qed.

Lemma lawful_gt_lt {A} (c : A -> A -> comparison) : lawful c -> forall a b, c a b = Gt <-> c b a = Lt.
Proof. intros L a b. rewrite (l_sym c L a b). destruct (c a b); simpl; split; congruence. Qed.

Lemma lawful_N : lawful N.compare.
Proof.
  split.
  - intros; apply N.compare_eq_iff.
  - intros; apply N.compare_antisym.
  - intros a b d; rewrite !N.compare_lt_iff; lia.
Qed.
Lemma lawful_nat : lawful Nat.compare.
Proof.
  split.
  - intros; apply Nat.compare_eq_iff.
  - intros; apply Nat.compare_antisym.
  - intros a b d; rewrite !Nat.compare_lt_iff; lia.
Qed.
Lemma lawful_Z : lawful Z.compare.
Proof.
  split.
  - intros; apply Z.compare_eq_iff.
  - intros; apply Z.compare_antisym.
  - intros a b d; rewrite !Z.compare_lt_iff; lia.
Qed.
Lemma lawful_bool : lawful bool_cmp.
Proof. split; intros; repeat match goal with b : bool |- _ => destruct b end; simpl in *; split || idtac; congruence. Qed.

Lemma then_with_eq c d : then_with c d = Eq <-> c = Eq /\ d = Eq.
Proof. destruct c; simpl; split; intros; try tauto; try (destruct H; congruence); try congruence. Qed.
Lemma then_with_opp c d : then_with (CompOpp c) (CompOpp d) = CompOpp (then_with c d).
Proof. destruct c; reflexivity. Qed.
Lemma then_with_lt c d : then_with c d = Lt <-> c = Lt \/ (c = Eq /\ d = Lt).
Proof. destruct c; simpl; split; intros; try tauto; try (destruct H as [H | [H ?]]; congruence). Qed.

(** refine a lawful comparison of a derived quantity [h a] by a lawful comparison of [a] itself *)
Lemma lawful_refine {A H} (h : A -> H) (w : H -> H -> comparison) (c : A -> A -> comparison) :
  lawful w -> lawful c -> lawful (fun a b => then_with (w (h a) (h b)) (c a b)).
Proof.
  intros W C. split.
  - intros a b. rewrite then_with_eq. split.
    + intros [_ E]. now apply (l_eq c C).
    + intros ->. split; [apply lawful_refl; auto | apply lawful_refl; auto].
  - intros a b. rewrite (l_sym w W (h a) (h b)), (l_sym c C a b). apply then_with_opp.
  - intros a b d. rewrite !then_with_lt. intros [H1 | [H1 H1']] [H2 | [H2 H2']].
    + left. eapply (l_trans w W); eauto.
    + left. apply (l_eq w W) in H2. rewrite <- H2. exact H1.
    + left. apply (l_eq w W) in H1. rewrite H1. exact H2.
    + right. apply (l_eq w W) in H1. apply (l_eq w W) in H2. split.
      * apply (l_eq w W). congruence.
      * eapply (l_trans c C); eauto.
Qed.

(** lexicographic product through two projections that determine the value *)
Lemma lawful_lex {A P Q} (p : A -> P) (q : A -> Q) (cp : P -> P -> comparison) (cq : Q -> Q -> comparison) :
  (forall a b, p a = p b -> q a = q b -> a = b) ->
  lawful cp -> lawful cq -> lawful (fun a b => then_with (cp (p a) (p b)) (cq (q a) (q b))).
Proof.
  intros inj CP CQ. split.
  - intros a b. rewrite then_with_eq. split.
    + intros [E1 E2]. apply inj; [now apply (l_eq cp CP) | now apply (l_eq cq CQ)].
    + intros ->. split; apply lawful_refl; auto.
  - intros a b. rewrite (l_sym cp CP (p a) (p b)), (l_sym cq CQ (q a) (q b)). apply then_with_opp.
  - intros a b d. rewrite !then_with_lt. intros [H1 | [H1 H1']] [H2 | [H2 H2']].
    + left. eapply (l_trans cp CP); eauto.
    + left. apply (l_eq cp CP) in H2. rewrite <- H2. exact H1.
    + left. apply (l_eq cp CP) in H1. rewrite H1. exact H2.
    + right. apply (l_eq cp CP) in H1. apply (l_eq cp CP) in H2. split.
      * apply (l_eq cp CP). congruence.
      * eapply (l_trans cq CQ); eauto.
Qed.

Lemma lawful_opp {A} (c : A -> A -> comparison) : lawful c -> lawful (fun a b => CompOpp (c a b)).
Proof.
  intros C. split.
  - intros a b. rewrite <- (l_eq c C a b). destruct (c a b); simpl; split; congruence.
  - intros a b. rewrite (l_sym c C a b). reflexivity.
  - intros a b d H1 H2. rewrite <- (l_sym c C) in *. eapply (l_trans c C); eauto.
Qed.

Lemma lawful_opt {A} (c : A -> A -> comparison) : lawful c -> lawful (opt_cmp c).
Proof.
  intros C. split.
  - intros [a|] [b|]; simpl; try (split; congruence).
    rewrite (l_eq c C). split; congruence.
  - intros [a|] [b|]; simpl; auto. apply (l_sym c C).
  - intros [a|] [b|] [d|]; simpl; try congruence. apply (l_trans c C).
Qed.

Lemma lawful_list {A} (c : A -> A -> comparison) : lawful c -> lawful (list_cmp c).
Proof.
  intros C. split.
  - induction a as [|x a IH]; destruct b as [|y b]; simpl; try (split; congruence).
    rewrite then_with_eq, (l_eq c C), IH. split; [intros [-> ->]; auto | intros E; inversion E; auto].
  - induction a as [|x a IH]; destruct b as [|y b]; simpl; auto.
    rewrite (l_sym c C x y), IH. apply then_with_opp.
  - induction a as [|x a IH]; destruct b as [|y b]; destruct d as [|z d]; simpl; try congruence.
    rewrite !then_with_lt. intros [H1 | [H1 H1']] [H2 | [H2 H2']].
    + left. eapply (l_trans c C); eauto.
    + left. apply (l_eq c C) in H2. rewrite <- H2. exact H1.
    + left. apply (l_eq c C) in H1. rewrite H1. exact H2.
    + right. apply (l_eq c C) in H1. apply (l_eq c C) in H2. split.
      * apply (l_eq c C). congruence.
      * eapply IH; eauto.
Qed.

Lemma lawful_bytes : lawful bytes_cmp.
Proof. apply lawful_list, lawful_N. Qed.

(** * The static key order *)
Definition skey : Type := option bytes * list bytes.
Definition key_s (d : sdir) : skey := (s_target d, s_fields d).
(** the documented specificity order, most specific = greatest: target length (no target lowest), number of
    field names, then the lexicographic fallback *)
Definition spec_cmp_k (a b : skey) : comparison :=
  then_with (opt_cmp Nat.compare (option_map (@List.length N) (fst a)) (option_map (@List.length N) (fst b)))
  (then_with (Nat.compare (List.length (snd a)) (List.length (snd b)))
  (then_with (opt_cmp bytes_cmp (fst a) (fst b)) (list_cmp bytes_cmp (snd a) (snd b)))).
Definition spec_cmp (a b : sdir) : comparison := spec_cmp_k (key_s a) (key_s b).

Lemma cmp_s_spec a b : cmp_s a b = CompOpp (spec_cmp a b).
Proof. reflexivity. Qed.

Lemma lawful_spec_k : lawful spec_cmp_k.
Proof.
  unfold spec_cmp_k.
  apply (lawful_refine (fun k : skey => option_map (@List.length N) (fst k)) (opt_cmp Nat.compare)).
  { apply lawful_opt, lawful_nat. }
  apply (lawful_refine (fun k : skey => List.length (snd k)) Nat.compare).
  { apply lawful_nat. }
  apply (lawful_lex (@fst (option bytes) (list bytes)) (@snd (option bytes) (list bytes))).
  - intros [a1 a2] [b1 b2]; simpl; congruence.
  - apply lawful_opt, lawful_bytes.
  - apply lawful_list, lawful_bytes.
Qed.

(** * Keyed sorted insertion (generic) *)
Section Keyed.
  Context {T K : Type} (key : T -> K) (ck : K -> K -> comparison) (LK : lawful ck).
  (** the code's comparison: the reversed key order *)
  Let cmp (a b : T) : comparison := CompOpp (ck (key a) (key b)).
  Variable lvl : T -> option lv.

  Definition sorted (l : list T) : Prop := StronglySorted (fun a b => cmp a b = Lt) l.

  Lemma cmp_eq_key a b : cmp a b = Eq <-> key a = key b.
  Proof. unfold cmp. rewrite <- (l_eq ck LK). destruct (ck (key a) (key b)); simpl; split; congruence. Qed.
  Lemma cmp_sym a b : cmp b a = CompOpp (cmp a b).
  Proof. unfold cmp. rewrite (l_sym ck LK (key a) (key b)). reflexivity. Qed.
  Lemma cmp_trans a b d : cmp a b = Lt -> cmp b d = Lt -> cmp a d = Lt.
  Proof. apply (l_trans _ (lawful_opp ck LK)). Qed.
  Lemma cmp_eq_l a b d : cmp a b = Eq -> cmp a d = cmp b d.
  Proof. intros E. apply cmp_eq_key in E. unfold cmp. now rewrite E. Qed.
  Lemma cmp_eq_r a b d : cmp a b = Eq -> cmp d a = cmp d b.
  Proof. intros E. apply cmp_eq_key in E. unfold cmp. now rewrite E. Qed.
  Lemma cmp_lt_irrefl a b : cmp a b = Lt -> key a <> key b.
  Proof. intros L E. apply cmp_eq_key in E. congruence. Qed.

  Lemma insert_in d l x : In x (insert cmp d l) -> x = d \/ In x l.
  Proof.
    induction l as [|y l IH]; simpl.
    - intros [<-|[]]; auto.
    - destruct (cmp y d); simpl.
      + intros [<-|H]; auto.
      + intros [<-|H]; auto. destruct (IH H); auto.
      + intros [<-|[<-|H]]; auto.
  Qed.

  Lemma insert_sorted d l : sorted l -> sorted (insert cmp d l).
  Proof.
    unfold sorted. induction 1 as [|y l S IH F]; simpl.
    - repeat constructor.
    - destruct (cmp y d) eqn:E.
      + (* replace *) constructor; auto.
        rewrite Forall_forall in *. intros z Hz. rewrite <- (cmp_eq_l _ _ z E). auto.
      + constructor; auto. rewrite Forall_forall in *. intros z Hz.
        destruct (insert_in _ _ _ Hz) as [->|Hz']; auto.
      + assert (L : cmp d y = Lt) by (rewrite cmp_sym, E; reflexivity).
        constructor; [constructor; auto|]. constructor; auto.
        rewrite Forall_forall in *. intros z Hz. eapply cmp_trans; eauto.
  Qed.

  (** membership after an insertion: the new element, and the old ones with another key *)
  Lemma insert_mem d l : sorted l -> forall x, In x (insert cmp d l) <-> x = d \/ (In x l /\ key x <> key d).
  Proof.
    unfold sorted. induction 1 as [|y l S IH F]; simpl; intros x.
    - split; [intros [<-|[]]; auto | intros [->|[[] _]]; auto].
    - rewrite Forall_forall in F. destruct (cmp y d) eqn:E; simpl.
      + apply cmp_eq_key in E. split.
        * intros [<-|H]; auto. right. split; auto. rewrite <- E. apply not_eq_sym, cmp_lt_irrefl; auto.
        * intros [->|[[<-|H] N]]; auto. congruence.
      + rewrite IH. split.
        * intros [<-|[->|[H N]]]; auto. right; split; auto. apply cmp_lt_irrefl; auto.
        * intros [->|[[<-|H] N]]; auto.
      + assert (L : cmp d y = Lt) by (rewrite cmp_sym, E; reflexivity). split.
        * intros [<-|[<-|H]]; auto.
          -- right; split; auto. apply not_eq_sym, cmp_lt_irrefl; auto.
          -- right; split; auto. apply not_eq_sym, cmp_lt_irrefl. eapply cmp_trans; eauto.
        * intros [->|[[<-|H] N]]; auto.
  Qed.

  Lemma sorted_key_inj l : sorted l -> forall a b, In a l -> In b l -> key a = key b -> a = b.
  Proof.
    unfold sorted. induction 1 as [|y l S IH F]; simpl; [tauto|].
    rewrite Forall_forall in F. intros a b [<-|Ha] [<-|Hb] E; auto.
    - exfalso. eapply cmp_lt_irrefl; eauto.
    - exfalso. eapply cmp_lt_irrefl; [apply (F a Ha)|]; auto.
  Qed.

  Lemma insert_sorted_id l : sorted l -> forall d r, l = d :: r -> True.
  Proof. auto. Qed.

  (** * DirectiveSet *)
  Definition build (l : list T) : dset T := ds_build cmp lvl l.

  Lemma build_snoc l d : build (l ++ [d]) = ds_add cmp lvl (build l) d.
  Proof. unfold build, ds_build. now rewrite fold_left_app. Qed.

  Lemma build_sorted l : sorted (ds_dirs (build l)).
  Proof.
    induction l as [|d l IH] using rev_ind.
    - constructor.
    - rewrite build_snoc. simpl. now apply insert_sorted.
  Qed.

  (** "a later duplicate key wins": the set holds exactly the last entry for every key *)
  Definition last_occ (l : list T) (x : T) : Prop :=
    exists l1 l2, l = l1 ++ x :: l2 /\ forall y, In y l2 -> key y <> key x.

  Lemma last_occ_snoc l d x : last_occ (l ++ [d]) x <-> x = d \/ (last_occ l x /\ key x <> key d).
  Proof.
    split.
    - intros (l1 & l2 & E & N). destruct l2 as [|z l2 _] using rev_ind.
      + apply app_inj_tail in E. left. symmetry. tauto.
      + right. rewrite app_comm_cons, app_assoc in E. apply app_inj_tail in E. destruct E as [E ->].
        split.
        * exists l1, l2. split; auto. intros y Hy. apply N. apply in_or_app; auto.
        * apply not_eq_sym, N. apply in_or_app; right; simpl; auto.
    - intros [->|[(l1 & l2 & -> & N) D]].
      + exists l, []. split; [auto | intros y []].
      + exists l1, (l2 ++ [d]). split.
        * now rewrite <- app_assoc.
        * intros y Hy. apply in_app_or in Hy. destruct Hy as [Hy|[<-|[]]]; auto.
  Qed.

  Lemma build_mem l x : In x (ds_dirs (build l)) <-> last_occ l x.
  Proof.
    revert x. induction l as [|d l IH] using rev_ind; intros x.
    - simpl. split; [tauto|]. intros (l1 & l2 & E & _). destruct l1; discriminate.
    - rewrite build_snoc, last_occ_snoc. simpl. rewrite insert_mem by apply build_sorted. now rewrite IH.
  Qed.

  (** the first element of a sorted list satisfying [f] is the least such under [cmp] *)
  Lemma find_least f l : sorted l ->
    match find f l with
    | Some d => In d l /\ f d = true /\ forall d', In d' l -> f d' = true -> d' = d \/ cmp d d' = Lt
    | None => forall d', In d' l -> f d' = false
    end.
  Proof.
    unfold sorted. induction 1 as [|y l S IH F]; simpl.
    - tauto.
    - rewrite Forall_forall in F. destruct (f y) eqn:Fy.
      + split; auto. split; auto. intros d' [<-|H] _; auto.
      + destruct (find f l) as [d|].
        * destruct IH as (I & Fd & M). split; auto. split; auto.
          intros d' [<-|H] Fd'; [congruence|]. auto.
        * intros d' [<-|H]; auto.
  Qed.

  (** a sorted list is its own build *)
  Lemma insert_last l d : sorted (l ++ [d]) -> insert cmp d l = l ++ [d].
  Proof.
    induction l as [|y l IH]; simpl; auto.
    intros S. inversion S as [|? ? S' F]; subst. rewrite Forall_forall in F.
    rewrite (F d) by (apply in_or_app; right; simpl; auto). f_equal. auto.
  Qed.
  Lemma sorted_app_l l r : sorted (l ++ r) -> sorted l.
  Proof.
    induction l as [|y l IH]; simpl; [constructor|].
    intros S. inversion S as [|? ? S' F]; subst. constructor.
    - apply IH. exact S'.
    - rewrite Forall_forall in *. intros z Hz. apply F. apply in_or_app; auto.
  Qed.
  Lemma build_dirs_sorted_id l : sorted l -> ds_dirs (build l) = l.
  Proof.
    induction l as [|d l IH] using rev_ind; auto.
    intros S. rewrite build_snoc. simpl. rewrite IH by (eapply sorted_app_l; eauto). now apply insert_last.
  Qed.
End Keyed.
