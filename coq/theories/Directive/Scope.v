(** C11 — span-scoped directives: the per-thread stack of raised levels equals, for well-nested histories, the list of
    currently entered spans that a dynamic directive cares about, each with the level of the directives its values
    satisfied when it was entered; nothing stays behind after an exit. *)
From TV Require Import Levels.Model Levels.Proofs Directive.Model Directive.Order Directive.Static Directive.Text Directive.Dyn.
From Coq Require Import Lia.
Local Open Scope N_scope.
Local Opaque gen_add_recomputes_max gen_debug_match_exact gen_valuematch_eq_debug.

(** * association lists *)
Lemma assoc_put {A} k k' (v : A) l : assoc_n k (put_n k' v l) = if k =? k' then Some v else assoc_n k l.
Proof.
  induction l as [|[k0 v0] l IH]; simpl.
  - destruct (k =? k'); reflexivity.
  - destruct (k' =? k0) eqn:E0; simpl.
    + apply N.eqb_eq in E0; subst k0. destruct (k =? k'); reflexivity.
    + destruct (k =? k0) eqn:E1; [|exact IH].
      apply N.eqb_eq in E1; subst k0. destruct (k =? k') eqn:E2; auto.
      apply N.eqb_eq in E2; subst. rewrite N.eqb_refl in E0; discriminate.
Qed.
Lemma assoc_del {A} k k' (l : list (N * A)) : assoc_n k (del_n k' l) = if k =? k' then None else assoc_n k l.
Proof.
  induction l as [|[k0 v0] l IH]; simpl.
  - destruct (k =? k'); reflexivity.
  - destruct (k' =? k0) eqn:E0; simpl.
    + apply N.eqb_eq in E0; subst k0. rewrite IH. destruct (k =? k'); reflexivity.
    + rewrite IH. destruct (k =? k0) eqn:E1; auto. apply N.eqb_eq in E1; subst k0.
      destruct (k =? k') eqn:E2; auto. apply N.eqb_eq in E2; subst. rewrite N.eqb_refl in E0; discriminate.
Qed.

(** * what the matcher of a callsite is *)
Definition fm_go (fs : list fmatch) (acc : list (bytes * vmatch)) : list (bytes * vmatch) :=
  fold_left (fun acc f => match f_value f with Some v => map_insert (f_name f) v acc | None => acc end) fs acc.
(** the value constraints of a directive, as the map Field -> ValueMatch the code builds (a later entry for the same
    field replaces an earlier one) *)
Definition constraints (d : ddir) : list (bytes * vmatch) := fm_go (d_fields d) [].

Lemma field_matcher_go_total fs mf : forall acc,
  forallb (fun f => mem_b (f_name f) mf) fs = true -> field_matcher_go fs mf acc = Some (fm_go fs acc).
Proof.
  induction fs as [|f fs IH]; simpl; intros acc H; auto.
  apply andb_true_iff in H. destruct H as [H1 H2]. rewrite H1. destruct (f_value f); apply IH; auto.
Qed.
Lemma field_matcher_cares d m : cares_d d m = true -> field_matcher d m = Some (mk_cs_match (constraints d) (d_level d)).
Proof.
  unfold cares_d, field_matcher, constraints. intros C. apply andb_true_iff in C. destruct C as [_ C].
  now rewrite field_matcher_go_total.
Qed.

Definition caring (dyn : dyset) (m : meta) : list ddir := filter (fun d => cares_d d m) (ds_dirs dyn).
Definition cm_of (d : ddir) : cs_match := mk_cs_match (constraints d) (d_level d).

Lemma matcher_go_spec m : forall ds base acc,
  matcher_go ds m base acc = (base, rev acc ++ map cm_of (filter (fun d => cares_d d m) ds)).
Proof.
  induction ds as [|d ds IH]; simpl; intros base acc.
  - now rewrite app_nil_r.
  - destruct (cares_d d m) eqn:C.
    + rewrite (field_matcher_cares _ _ C), IH. simpl. now rewrite <- app_assoc.
    + apply IH.
Qed.
Lemma matcher_spec dyn m :
  matcher dyn m = match caring dyn m with [] => None | l => Some (mk_cs_matcher (map cm_of l) None) end.
Proof.
  unfold matcher, caring. rewrite matcher_go_spec. simpl.
  destruct (filter (fun d => cares_d d m) (ds_dirs dyn)); reflexivity.
Qed.

(** * sticky flags: a constraint is satisfied once some recorded value matched it *)
Definition hit (k : bytes) (v : vmatch) (vals : list (bytes * rval)) : bool :=
  existsb (fun nv => list_eqb k (fst nv) && vm_matches v (snd nv)) vals.

Lemma record_vals_fields vals : forall sm,
  record_vals vals sm =
  mk_sp_match (map (fun e => (fst e, (fst (snd e), snd (snd e) || hit (fst e) (fst (snd e)) vals))) (sm_fields sm)) (sm_level sm).
Proof.
  unfold record_vals. induction vals as [|nv vals IH]; intros [fs lvl]; simpl.
  - f_equal. rewrite <- (map_id fs) at 1. apply map_ext. intros [k [v fl]]. simpl. now rewrite orb_false_r.
  - rewrite IH. simpl. f_equal. rewrite map_map. apply map_ext. intros [k [v fl]]. simpl.
    now rewrite orb_assoc.
Qed.

Lemma record_vals_app v1 v2 sm : record_vals (v1 ++ v2) sm = record_vals v2 (record_vals v1 sm).
Proof. unfold record_vals. apply fold_left_app. Qed.

Definition satisfied (d : ddir) (vals : list (bytes * rval)) : bool :=
  forallb (fun kv => hit (fst kv) (snd kv) vals) (constraints d).

Definition sm_of (vals : list (bytes * rval)) (c : cs_match) : sp_match :=
  record_vals vals (mk_sp_match (map (fun kv => (fst kv, (snd kv, false))) (cm_fields c)) (cm_level c)).

Lemma sm_of_matched vals d : sm_matched (sm_of vals (cm_of d)) = satisfied d vals.
Proof.
  unfold sm_of, sm_matched, satisfied. rewrite record_vals_fields. simpl. rewrite map_map. simpl.
  induction (constraints d) as [|[k v] l IH]; simpl; auto. now rewrite IH.
Qed.
Lemma sm_of_level vals d : sm_level (sm_of vals (cm_of d)) = d_level d.
Proof. unfold sm_of. now rewrite record_vals_fields. Qed.

Lemma to_span_match_is cm vals : to_span_match cm vals = mk_sp_matcher (map (sm_of vals) (csm_matches cm)) (csm_base cm).
Proof. reflexivity. Qed.
Lemma sm_of_app v1 v2 c : sm_of (v1 ++ v2) c = record_vals v2 (sm_of v1 c).
Proof. unfold sm_of. apply record_vals_app. Qed.

(** the level a span carries: the largest level among the caring directives whose value constraints are satisfied *)
Definition span_level (dyn : dyset) (m : meta) (vals : list (bytes * rval)) : option lv :=
  match filter (fun d => satisfied d vals) (caring dyn m) with
  | [] => None
  | d :: r => fold_left lf_max (map d_level r) (d_level d)
  end.

Lemma filter_map_comm {A B} (f : A -> B) (p : B -> bool) l : filter p (map f l) = map f (filter (fun x => p (f x)) l).
Proof. induction l as [|x l IH]; simpl; auto. destruct (p (f x)); simpl; now rewrite IH. Qed.

Lemma spm_level_spec dyn m vals l :
  caring dyn m = l -> spm_level (mk_sp_matcher (map (sm_of vals) (map cm_of l)) None) = span_level dyn m vals.
Proof.
  intros E. unfold spm_level, span_level. simpl. rewrite E, map_map, filter_map_comm.
  rewrite (filter_ext (fun x => sm_matched (sm_of vals (cm_of x))) (fun d => satisfied d vals)) by (intros; apply sm_of_matched).
  destruct (filter (fun d => satisfied d vals) l) as [|d r]; simpl; auto.
  rewrite sm_of_level, map_map. f_equal. apply map_ext. intros; apply sm_of_level.
Qed.

(** readable form: the level admits [lv] iff some caring, satisfied directive does *)
Lemma allows_fold l : forall a x, allows (fold_left lf_max l a) x = allows a x || existsb (fun f => allows f x) l.
Proof.
  induction l as [|y l IH]; simpl; intros a x.
  - now rewrite orb_false_r.
  - rewrite IH. rewrite orb_assoc. f_equal. unfold allows. rewrite lf_rank_max.
    apply Bool.eq_iff_eq_true. rewrite orb_true_iff, !N.leb_le. apply N.max_le_iff.
Qed.
Lemma allows_off x : allows None x = false.
Proof. destruct x; reflexivity. Qed.
Lemma span_level_allows dyn m vals x :
  allows (span_level dyn m vals) x =
  existsb (fun d => cares_d d m && satisfied d vals && allows (d_level d) x) (ds_dirs dyn).
Proof.
  unfold span_level, caring. induction (ds_dirs dyn) as [|d l IH]; simpl.
  - apply allows_off.
  - destruct (cares_d d m); simpl; auto. destruct (satisfied d vals); simpl; auto.
    rewrite allows_fold. f_equal. clear IH. induction l as [|e l IH]; simpl; auto.
    destruct (cares_d e m); simpl; auto. destruct (satisfied e vals); simpl; auto. now rewrite IH.
Qed.

(** * filter-level histories *)
Inductive fev :=
| FRegister (cs : N) (m : meta)
| FNewSpan (cs id : N) (vals : list (bytes * rval))
| FRecord (id : N) (vals : list (bytes * rval))
| FEnter (tid id : N)
| FExit (tid id : N)
| FClose (id : N).

Definition fstep (e : envf) (st : est) (ev : fev) : est :=
  match ev with
  | FRegister cs m => fst (register_callsite e st cs m)
  | FNewSpan cs id vals => on_new_span st cs id vals
  | FRecord id vals => on_record st id vals
  | FEnter tid id => on_enter st tid id
  | FExit tid id => on_exit st tid id
  | FClose id => on_close st id
  end.
Definition frun (e : envf) (evs : list fev) : est := fold_left (fstep e) evs est0.

(** the abstract reading of a history: which spans exist (with everything recorded on them so far) and, per thread,
    which of them are entered and not yet exited, each with the level it had when it was entered.  An exit removes the
    most recent entry of that span, wherever it is. *)
Record aspan := mk_aspan { a_meta : meta; a_vals : list (bytes * rval) }.
Record ast := mk_ast { a_cs : list (N * meta); a_spans : list (N * aspan); a_stacks : list (N * list (N * option lv)) }.
Definition ast0 : ast := mk_ast [] [] [].
Definition astack (a : ast) (tid : N) : list (N * option lv) := match assoc_n tid (a_stacks a) with Some l => l | None => [] end.
Fixpoint remove_first (id : N) (l : list (N * option lv)) : list (N * option lv) :=
  match l with [] => [] | (i, x) :: r => if i =? id then r else (i, x) :: remove_first id r end.
(** a span callsite is tracked iff some dynamic directive cares about its metadata *)
Definition tracks (e : envf) (m : meta) : bool := e_has_dyn e && is_span m && negb (is_nil (caring (e_dynamics e) m)).

Definition astep (e : envf) (a : ast) (ev : fev) : ast :=
  match ev with
  | FRegister cs m => if tracks e m then mk_ast (put_n cs m (a_cs a)) (a_spans a) (a_stacks a) else a
  | FNewSpan cs id vals =>
      match assoc_n cs (a_cs a) with
      | Some m => mk_ast (a_cs a) (put_n id (mk_aspan m vals) (a_spans a)) (a_stacks a)
      | None => a
      end
  | FRecord id vals =>
      match assoc_n id (a_spans a) with
      | Some sp => mk_ast (a_cs a) (put_n id (mk_aspan (a_meta sp) (a_vals sp ++ vals)) (a_spans a)) (a_stacks a)
      | None => a
      end
  | FEnter tid id =>
      match assoc_n id (a_spans a) with
      | Some sp => mk_ast (a_cs a) (a_spans a)
                          (put_n tid ((id, span_level (e_dynamics e) (a_meta sp) (a_vals sp)) :: astack a tid) (a_stacks a))
      | None => a
      end
  | FExit tid id => mk_ast (a_cs a) (a_spans a) (put_n tid (remove_first id (astack a tid)) (a_stacks a))
  | FClose id => mk_ast (a_cs a) (del_n id (a_spans a)) (a_stacks a)
  end.
Definition arun (e : envf) (evs : list fev) : ast := fold_left (astep e) evs ast0.

(** well-nested: an exit closes the innermost entered span of its thread (or a span the filter does not track); a span
    is closed only when it is entered nowhere; span ids are not reused while the span is live *)
Definition ok_ev (a : ast) (ev : fev) : Prop :=
  match ev with
  | FExit tid id =>
      match assoc_n id (a_spans a) with
      | Some _ => exists x r, astack a tid = (id, x) :: r
      | None => True
      end
  | FClose id => forall tid, ~ In id (map fst (astack a tid))
  | FNewSpan cs id vals => assoc_n id (a_spans a) = None
  | _ => True
  end.
Fixpoint well_nested_from (e : envf) (a : ast) (evs : list fev) : Prop :=
  match evs with
  | [] => True
  | ev :: r => ok_ev a ev /\ well_nested_from e (astep e a ev) r
  end.
Definition well_nested (e : envf) (evs : list fev) : Prop := well_nested_from e ast0 evs.

(** * the refinement invariant *)
Definition matcher_of (e : envf) (m : meta) : cs_matcher := mk_cs_matcher (map cm_of (caring (e_dynamics e) m)) None.
Record inv (e : envf) (st : est) (a : ast) : Prop := {
  i_cs : forall cs, assoc_n cs (by_cs st) = option_map (matcher_of e) (assoc_n cs (a_cs a));
  i_id : forall id, assoc_n id (by_id st) =
                    option_map (fun sp => to_span_match (matcher_of e (a_meta sp)) (a_vals sp)) (assoc_n id (a_spans a));
  i_scope : forall tid, scope_of st tid = map snd (astack a tid);
  i_live : forall tid id, In id (map fst (astack a tid)) -> assoc_n id (a_spans a) <> None }.

Lemma scope_of_put st tid l t : scope_of (mk_est (by_cs st) (by_id st) (put_n tid l (scope st))) t = if t =? tid then l else scope_of st t.
Proof. unfold scope_of. simpl. rewrite assoc_put. destruct (t =? tid); reflexivity. Qed.
Lemma astack_put a tid l t cs sp : astack (mk_ast cs sp (put_n tid l (a_stacks a))) t = if t =? tid then l else astack a t.
Proof. unfold astack. simpl. rewrite assoc_put. destruct (t =? tid); reflexivity. Qed.

Lemma register_tracks e st cs m :
  fst (register_callsite e st cs m) =
  if tracks e m then mk_est (put_n cs (matcher_of e m) (by_cs st)) (by_id st) (scope st) else st.
Proof.
  unfold register_callsite, tracks, matcher_of. destruct (e_has_dyn e && is_span m); simpl; auto.
  rewrite matcher_spec. destruct (caring (e_dynamics e) m); reflexivity.
Qed.

Lemma remove_first_in id l x : In x (map fst (remove_first id l)) -> In x (map fst l).
Proof.
  induction l as [|[i y] l IH]; simpl; auto. destruct (i =? id); simpl; auto. intros [H|H]; auto.
Qed.

Lemma inv_step e st a ev : inv e st a -> ok_ev a ev -> inv e (fstep e st ev) (astep e a ev).
Proof.
  intros [Ics Iid Isc Ilv] OK. destruct ev as [cs m|cs id vals|id vals|tid id|tid id|id]; simpl in *.
  - (* register *)
    rewrite register_tracks. destruct (tracks e m); [|split; auto].
    split; simpl; auto. intros c. rewrite !assoc_put. destruct (c =? cs); auto.
  - (* new span *)
    unfold on_new_span. rewrite Ics. destruct (assoc_n cs (a_cs a)) as [m|]; simpl; [|split; auto].
    split; simpl; auto.
    + intros i. rewrite !assoc_put. destruct (i =? id); auto.
    + intros t i H. rewrite assoc_put. destruct (i =? id); [congruence | eauto].
  - (* record *)
    unfold on_record. rewrite Iid. destruct (assoc_n id (a_spans a)) as [sp|]; simpl; [|split; auto].
    split; simpl; auto.
    + intros i. rewrite !assoc_put. destruct (i =? id); auto. simpl. f_equal.
      rewrite !to_span_match_is. simpl. f_equal. rewrite !map_map. apply map_ext. intros c. now rewrite sm_of_app.
    + intros t i H. rewrite assoc_put. destruct (i =? id); [congruence | eauto].
  - (* enter *)
    unfold on_enter. rewrite Iid. destruct (assoc_n id (a_spans a)) as [sp|] eqn:E; simpl; [|split; auto].
    split; simpl; auto.
    + intros t. rewrite scope_of_put, astack_put. destruct (t =? tid) eqn:T; auto. simpl.
      apply N.eqb_eq in T. subst t. rewrite Isc. f_equal.
      unfold matcher_of. rewrite to_span_match_is. simpl. now apply spm_level_spec.
    + intros t i. rewrite astack_put. destruct (t =? tid) eqn:T; eauto. simpl. intros [<-|H]; [congruence|].
      apply N.eqb_eq in T. subst t. eauto.
  - (* exit *)
    unfold on_exit. rewrite Iid. destruct (assoc_n id (a_spans a)) as [sp|] eqn:E; simpl.
    + destruct OK as (x & r & S). split; simpl; auto.
      * intros t. rewrite scope_of_put, astack_put. destruct (t =? tid) eqn:T; auto.
        apply N.eqb_eq in T. subst t. rewrite Isc, S. simpl. now rewrite N.eqb_refl.
      * intros t i. rewrite astack_put. destruct (t =? tid) eqn:T; eauto.
        apply N.eqb_eq in T. subst t. intros H. apply remove_first_in in H. eauto.
    + (* a span the filter does not track is not on the stack: removing it changes nothing *)
      assert (R : remove_first id (astack a tid) = astack a tid).
      { assert (N : ~ In id (map fst (astack a tid))) by (intros H; exact (Ilv _ _ H E)).
        induction (astack a tid) as [|[i y] l IH]; simpl in *; auto.
        destruct (i =? id) eqn:Q; [apply N.eqb_eq in Q; subst; exfalso; auto|]. f_equal. auto. }
      rewrite R. split; simpl; auto.
      * intros t. rewrite astack_put. destruct (t =? tid) eqn:T; auto. apply N.eqb_eq in T. now subst.
      * intros t i. rewrite astack_put. destruct (t =? tid) eqn:T; [apply N.eqb_eq in T; subst t; eauto | eauto].
  - (* close *)
    unfold on_close. split; simpl; auto.
    + intros i. rewrite !assoc_del, Iid. destruct (i =? id); auto.
    + intros t i H. rewrite assoc_del. destruct (i =? id) eqn:Q; eauto.
      apply N.eqb_eq in Q. subst. exfalso. exact (OK t H).
Qed.

Lemma inv_run e : forall evs st a, inv e st a -> well_nested_from e a evs ->
  inv e (fold_left (fstep e) evs st) (fold_left (astep e) evs a).
Proof.
  induction evs as [|ev evs IH]; simpl; intros st a I W; auto.
  destruct W as [OK W]. apply IH; auto. now apply inv_step.
Qed.

Lemma inv0 e : inv e est0 ast0.
Proof. split; simpl; auto; try (intros tid id []). Qed.

Lemma scope_refines e evs : well_nested e evs ->
  inv e (frun e evs) (arun e evs).
Proof. intros W. apply inv_run; auto. apply inv0. Qed.

Lemma existsb_map {A B} (f : A -> B) (p : B -> bool) l : existsb p (map f l) = existsb (fun x => p (f x)) l.
Proof. induction l as [|x l IH]; simpl; auto. now rewrite IH. Qed.

(** * The theorem: what `enabled` answers for an event after a well-nested history *)
Definition entered_allows (e : envf) (a : ast) (tid : N) (x : lv) : bool :=
  existsb (fun en => allows (snd en) x) (astack a tid).

Lemma scope_enabled_event e evs tid cs m :
  well_nested e evs -> is_span m = false ->
  (exists l, e_dynamics e = ds_build cmp_d d_level l) ->
  env_enabled e (frun e evs) tid cs m =
  (e_has_dyn e && entered_allows e (arun e evs) tid (m_level m)) ||
  (allows (ds_max (e_statics e)) (m_level m) && enabled_s (e_statics e) m).
Proof.
  intros W NS (l & EL). destruct (scope_refines e evs W) as [_ _ Isc Ilv].
  unfold env_enabled. rewrite NS. simpl. rewrite Isc. unfold entered_allows.
  rewrite existsb_map.
  destruct (e_has_dyn e); simpl.
  2:{ destruct (allows (ds_max (e_statics e)) (m_level m)); reflexivity. }
  destruct (existsb (fun en => allows (snd en) (m_level m)) (astack (arun e evs) tid)) eqn:X.
  - (* some entered span admits the level; then so does the maximum over the dynamic directives *)
    assert (G : allows (ds_max (e_dynamics e)) (m_level m) = true); [|now rewrite G].
    apply existsb_exists in X. destruct X as ([id lvl] & Hin & A). simpl in A.
    (* every stack entry was computed by span_level, which is bounded by the maximum *)
    clear - A Hin EL W. revert Hin. unfold arun.
    assert (Q : forall evs a, (forall t i x, In (i, x) (astack a t) -> allows x (m_level m) = true -> allows (ds_max (e_dynamics e)) (m_level m) = true) ->
                forall t i x, In (i, x) (astack (fold_left (astep e) evs a) t) -> allows x (m_level m) = true -> allows (ds_max (e_dynamics e)) (m_level m) = true).
    { clear - EL. induction evs as [|ev evs IH]; simpl; auto. intros a H. apply IH. clear IH.
      destruct ev as [cs' m'|cs' id' vals|id' vals|tid' id'|tid' id'|id']; simpl.
      - destruct (tracks e m'); auto.
      - destruct (assoc_n cs' (a_cs a)); auto.
      - destruct (assoc_n id' (a_spans a)); auto.
      - destruct (assoc_n id' (a_spans a)) as [sp|]; auto. intros t i x. rewrite astack_put.
        destruct (t =? tid'); eauto. intros [E|Hin] Ax; eauto. inversion E; subst. clear E.
        rewrite span_level_allows in Ax. apply existsb_exists in Ax. destruct Ax as (d & Hd & Cd).
        apply andb_true_iff in Cd. destruct Cd as [_ Ad]. rewrite EL in *.
        pose proof (ds_max_ge cmp_d d_level l d Hd) as B. unfold allows in *. apply N.leb_le. apply N.leb_le in Ad. lia.
      - intros t i x. rewrite astack_put. destruct (t =? tid'); eauto. intros Hin. apply H with (t := tid') (i := i).
        clear - Hin. induction (astack a tid') as [|[j y] r IHr]; simpl in *; auto.
        destruct (j =? id'); simpl in *; auto. destruct Hin; auto.
      - auto. }
    intros Hin. eapply (Q evs ast0); eauto.
  - rewrite andb_false_r. simpl. destruct (allows (ds_max (e_statics e)) (m_level m)); reflexivity.
Qed.
