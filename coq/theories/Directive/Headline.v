(** C11 — corollaries used by Properties/C11.v: insertion-order independence, the empty case, the EnvFilter static
    table, F21's witness, and non-vacuity examples. *)
From TV Require Import Levels.Model Levels.Proofs Directive.Model Directive.Order Directive.Static Directive.Text Directive.Dyn Directive.Agree Directive.EnvText.
From Coq Require Import Lia Sorted.
Local Open Scope N_scope.
Local Opaque gen_add_recomputes_max gen_debug_match_exact gen_valuematch_eq_debug.

(** * two strictly sorted lists with the same members are the same list *)
Lemma sorted_unique : forall l1 l2, s_sorted l1 -> s_sorted l2 -> (forall x, In x l1 <-> In x l2) -> l1 = l2.
Proof.
  assert (IRR : forall a, cmp_s a a <> Lt).
  { intros a H. assert (E : cmp_s a a = Eq) by (rewrite cmp_s_spec; replace (spec_cmp a a) with Eq; [reflexivity | symmetry; apply spec_cmp_eq; reflexivity]).
    congruence. }
  assert (ASYM : forall a b, cmp_s a b = Lt -> cmp_s b a = Lt -> False).
  { intros a b H1 H2. rewrite cmp_s_spec in *. rewrite (spec_cmp_sym a b) in H2.
    destruct (spec_cmp a b); simpl in *; congruence. }
  induction l1 as [|a l1 IH]; intros l2 S1 S2 M.
  - destruct l2 as [|b l2]; auto. exfalso. apply (M b). simpl; auto.
  - destruct l2 as [|b l2]; [exfalso; apply (M a); simpl; auto|].
    inversion S1 as [|? ? S1' F1]; subst. inversion S2 as [|? ? S2' F2]; subst.
    rewrite Forall_forall in F1, F2.
    assert (a = b).
    { destruct (proj1 (M a) (or_introl eq_refl)) as [E|Ha]; auto.
      destruct (proj2 (M b) (or_introl eq_refl)) as [E|Hb]; auto.
      exfalso. exact (ASYM a b (F1 b Hb) (F2 a Ha)). }
    subst b. f_equal. apply IH; auto. intros x. split; intros Hx.
    + destruct (proj1 (M x) (or_intror Hx)) as [E|H]; auto. subst x. exfalso. exact (IRR a (F1 a Hx)).
    + destruct (proj2 (M x) (or_intror Hx)) as [E|H]; auto. subst x. exfalso. exact (IRR a (F2 a Hx)).
Qed.

(** the directive list of a set depends only on which entry is last for every key, not on the insertion order *)
Lemma dirs_order_independent l1 l2 :
  (forall x, last_entry l1 x <-> last_entry l2 x) -> ds_dirs (s_build l1) = ds_dirs (s_build l2).
Proof.
  intros H. apply sorted_unique; try apply sorted_build. intros x. now rewrite !replace_build.
Qed.
Lemma order_independent : forall l1 l2 m,
  (forall x, last_entry l1 x <-> last_entry l2 x) -> enabled_s (s_build l1) m = enabled_s (s_build l2) m.
Proof. intros l1 l2 m H. unfold enabled_s. now rewrite (dirs_order_independent l1 l2 H). Qed.

Lemma no_match_disabled : forall inputs m, (forall d, In d inputs -> cares_s d m = false) -> enabled_s (s_build inputs) m = false.
Proof.
  intros inputs m H. rewrite most_specific. pose proof (best_spec (survivors inputs) m) as B.
  destruct (best (survivors inputs) m) as [b|]; auto. destruct B as (Ib & Cb & _).
  apply survivors_mem in Ib. destruct Ib as (l1 & l2 & -> & _).
  rewrite H in Cb; [discriminate | apply in_or_app; right; simpl; auto].
Qed.

(** * the EnvFilter static table is such a set *)
Lemma env_statics : forall dirs, e_statics (env_build None dirs) = s_build (env_static_inputs dirs).
Proof. intros dirs. unfold env_build. match goal with |- context [if ?c then _ else _] => destruct c end; reflexivity. Qed.
Lemma env_dynamics : forall dirs, e_dynamics (env_build None dirs) = d_build (filter is_dynamic dirs).
Proof. intros dirs. unfold env_build. match goal with |- context [if ?c then _ else _] => destruct c end; reflexivity. Qed.

(** * the hint is never below a directive's level *)
Lemma max_level_sound : forall inputs d, In d (ds_dirs (s_build inputs)) -> lf_rank (s_level d) <= lf_rank (ds_max (s_build inputs)).
Proof. intros inputs d. apply (ds_max_ge cmp_s s_level inputs d). Qed.

Lemma would_enable_inputs : forall (inputs : list sdir) (m : meta),
  no_fields inputs ->
  would_enable (s_build inputs) (m_target m) (m_level m) = targets_enabled (s_build inputs) m.
Proof. intros inputs m H. exact (would_enable_agrees (s_build inputs) m (no_fields_build inputs H)). Qed.

(** * F21 *)
Definition f21_string : bytes := [97; 61; 116; 114; 97; 99; 101; 44; 97; 61; 101; 114; 114; 111; 114].   (* "a=trace,a=error" *)
Lemma F21_refuted : gen_add_recomputes_max = false ->
  exists s t, parse_targets s = Some t /\ parse_targets (display_targets t) <> Some t.
Proof.
  intros G. exists f21_string.
  set (a := [97] : bytes).
  assert (P : parsed_entries f21_string = Some [mk_sdir (Some a) [] (Some Trace); mk_sdir (Some a) [] (Some Error)]) by (vm_compute; reflexivity).
  exists (s_build [mk_sdir (Some a) [] (Some Trace); mk_sdir (Some a) [] (Some Error)]). split.
  - rewrite parse_targets_entries, P. reflexivity.
  - assert (D : ds_dirs (s_build [mk_sdir (Some a) [] (Some Trace); mk_sdir (Some a) [] (Some Error)]) = [mk_sdir (Some a) [] (Some Error)]).
    { vm_compute. reflexivity. }
    assert (M : ds_max (s_build [mk_sdir (Some a) [] (Some Trace); mk_sdir (Some a) [] (Some Error)]) = Some Trace).
    { rewrite ds_max_stale by exact G. vm_compute. reflexivity. }
    unfold display_targets. rewrite D.
    assert (P2 : parsed_entries (join [cCOMMA] (map display_sdir [mk_sdir (Some a) [] (Some Error)])) = Some [mk_sdir (Some a) [] (Some Error)]) by (vm_compute; reflexivity).
    rewrite parse_targets_entries, P2. unfold option_map. intros E.
    assert (M2 : ds_max (s_build [mk_sdir (Some a) [] (Some Error)]) = Some Error).
    { rewrite ds_max_stale by exact G. vm_compute. reflexivity. }
    assert (E2 : ds_max (s_build [mk_sdir (Some a) [] (Some Error)]) =
                 ds_max (s_build [mk_sdir (Some a) [] (Some Trace); mk_sdir (Some a) [] (Some Error)])) by congruence.
    rewrite M, M2 in E2. discriminate E2.
Qed.

(** with the repaired `add` the same string round-trips *)
Lemma F21_fixed_example : gen_add_recomputes_max = true ->
  exists t, parse_targets f21_string = Some t /\ parse_targets (display_targets t) = Some t.
Proof.
  intros G.
  set (a := [97] : bytes).
  assert (P : parsed_entries f21_string = Some [mk_sdir (Some a) [] (Some Trace); mk_sdir (Some a) [] (Some Error)]) by (vm_compute; reflexivity).
  exists (s_build [mk_sdir (Some a) [] (Some Trace); mk_sdir (Some a) [] (Some Error)]). split.
  - rewrite parse_targets_entries, P. reflexivity.
  - apply (roundtrip_static f21_string); auto.
Qed.

(** * Examples (non-vacuity) *)
Definition ex_app : bytes := [97; 112; 112].
Definition ex_application : bytes := [97; 112; 112; 108; 105; 99; 97; 116; 105; 111; 110].
Definition ex_app_db : bytes := [97; 112; 112; 58; 58; 100; 98].
Definition ex_inputs : list sdir :=
  [mk_sdir (Some ex_app) [] (Some Info); mk_sdir (Some ex_app_db) [] None; mk_sdir None [] (Some Error);
   mk_sdir (Some ex_app) [] (Some Debug)].
Definition ex_meta (t : bytes) (l : lv) : meta := mk_meta t l KEvent [101] [].

(** `app` matches `application` (prefix semantics); the later `app=debug` replaced `app=info`; `app::db=off` wins over
    `app` for app::db; the bare level catches the rest *)
Example most_specific_example :
  enabled_s (s_build ex_inputs) (ex_meta ex_application Debug) = true /\
  enabled_s (s_build ex_inputs) (ex_meta ex_application Trace) = false /\
  enabled_s (s_build ex_inputs) (ex_meta ex_app_db Error) = false /\
  enabled_s (s_build ex_inputs) (ex_meta [111] Error) = true /\
  enabled_s (s_build ex_inputs) (ex_meta [111] Warn) = false /\
  best (survivors ex_inputs) (ex_meta ex_app_db Error) = Some (mk_sdir (Some ex_app_db) [] None) /\
  enabled_s (s_build (rev ex_inputs)) (ex_meta ex_application Debug) = false.
Proof. repeat split; vm_compute; reflexivity. Qed.

Example order_independent_example :
  (forall x, last_entry ex_inputs x <-> last_entry (mk_sdir None [] (Some Error) :: removelast ex_inputs ++ [mk_sdir (Some ex_app) [] (Some Debug)]) x).
Proof.
  intros x. rewrite <- !replace_build. vm_compute. tauto.
Qed.

Example no_match_example : forall l, enabled_s (s_build [mk_sdir (Some ex_app_db) [] (Some Trace)]) (ex_meta ex_app l) = false.
Proof. intros l. apply no_match_disabled. intros d [<-|[]]. reflexivity. Qed.

Example would_enable_example :
  no_fields ex_inputs /\ would_enable (s_build ex_inputs) ex_application Debug = true.
Proof. split; [intros d H; simpl in H; repeat (destruct H as [<-|H]; [reflexivity|]); destruct H | vm_compute; reflexivity]. Qed.

(** `Targets` parsed from `foo[{bar}]=trace` (outside its documented grammar): would_enable and filtering part ways *)
Example would_enable_needs_no_fields :
  exists t m, parse_targets [102; 111; 111; 91; 123; 98; 97; 114; 125; 93; 61; 116; 114; 97; 99; 101] = Some t /\
              targets_enabled t m = true /\ would_enable t (m_target m) (m_level m) = false.
Proof. eexists _, (mk_meta [102; 111; 111] Info KSpan [115] []). repeat split; vm_compute; reflexivity. Qed.

Definition ex_common_s : bytes :=       (* "app=info,application=off,DEBUG" *)
  [97;112;112;61;105;110;102;111;44;97;112;112;108;105;99;97;116;105;111;110;61;111;102;102;44;68;69;66;85;71].
Example roundtrip_example :
  exists inputs, parsed_entries ex_common_s = Some inputs /\
                 forallb clean_target (ds_dirs (s_build inputs)) = true /\ stale_max_b inputs = false.
Proof. eexists. repeat split; vm_compute; reflexivity. Qed.
