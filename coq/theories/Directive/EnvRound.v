(** C11 — Display then parse is the identity on EnvFilters built from directives of the modelled grammar: the static
    table, the dynamic table (field-name-only directives live in both), `has_dynamics` and the two cached `max_level`s.
    The F21 hypothesis (no overwritten duplicate above every survivor, in either table) is needed only for the unrepaired
    shape of `DirectiveSet::add`. *)
From TV Require Import Levels.Model Levels.Proofs Directive.Model Directive.Order Directive.Static Directive.Text Directive.Dyn
  Directive.Agree Directive.EnvText.
From Coq Require Import Lia Sorted Permutation.
Local Open Scope N_scope.
Local Opaque gen_add_recomputes_max gen_debug_match_exact gen_valuematch_eq_debug.

(** * keyed sets: the directive list is determined by its member set *)
Section KeyedMore.
  Context {T K : Type} (key : T -> K) (ck : K -> K -> comparison) (LK : lawful ck).
  Variable lvl : T -> option lv.
  Let cmp (a b : T) : comparison := CompOpp (ck (key a) (key b)).

  Lemma sorted_unique_g : forall l1 l2, sorted key ck l1 -> sorted key ck l2 -> (forall x, In x l1 <-> In x l2) -> l1 = l2.
  Proof.
    assert (IRR : forall a, cmp a a <> Lt).
    { intros a H. unfold cmp in H. rewrite (lawful_refl ck LK) in H. discriminate. }
    assert (ASYM : forall a b, cmp a b = Lt -> cmp b a = Lt -> False).
    { intros a b H1 H2. unfold cmp in *. rewrite (l_sym ck LK (key a) (key b)) in H2.
      destruct (ck (key a) (key b)); simpl in *; discriminate. }
    unfold sorted. fold cmp.
    induction l1 as [|a l1 IH]; intros l2 S1 S2 M.
    - destruct l2 as [|b l2]; auto. exfalso. apply (M b). simpl; auto.
    - destruct l2 as [|b l2]; [exfalso; apply (M a); simpl; auto|].
      inversion S1 as [|? ? S1' F1]; subst. inversion S2 as [|? ? S2' F2]; subst.
      rewrite Forall_forall in F1, F2.
      assert (a = b).
      { destruct (proj1 (M a) (or_introl eq_refl)) as [E|Ha]; auto.
        destruct (proj2 (M b) (or_introl eq_refl)) as [E|Hb]; auto.
        exfalso. exact (ASYM a b (F1 b Hb) (F2 a Ha)). }
      subst b. f_equal. apply IH; auto. intros x. split; intros Hx.
      + destruct (proj1 (M x) (or_intror Hx)) as [E|H]; auto. subst x. exfalso. exact (IRR a (F1 a Hx)).
      + destruct (proj2 (M x) (or_intror Hx)) as [E|H]; auto. subst x. exfalso. exact (IRR a (F2 a Hx)).
  Qed.

  Lemma last_with_key (k : K) : forall l, (exists x, In x l /\ key x = k) ->
    exists y l1 l2, l = l1 ++ y :: l2 /\ key y = k /\ forall z, In z l2 -> key z <> k.
  Proof.
    induction l as [|a l IH]; intros (x & Hx & Kx); [destruct Hx|].
    destruct (existsb (fun z => is_eq (ck (key z) k)) l) eqn:E.
    - apply existsb_exists in E. destruct E as (z & Hz & Kz).
      assert (key z = k) by (apply (l_eq ck LK); destruct (ck (key z) k); simpl in Kz; congruence).
      destruct IH as (y & l1 & l2 & -> & Ky & N); [eauto|]. exists y, (a :: l1), l2. auto.
    - assert (N : forall z, In z l -> key z <> k).
      { intros z Hz Kz. assert (existsb (fun z => is_eq (ck (key z) k)) l = true); [|congruence].
        apply existsb_exists. exists z. split; auto. rewrite Kz. now rewrite (lawful_refl ck LK). }
      destruct Hx as [<-|Hx]; [|exfalso; exact (N x Hx Kx)].
      exists a, [], l. auto.
  Qed.

  Lemma build_dirs_same_set l S : sorted key ck S ->
    (forall x, In x l -> In x S) -> (forall x, In x S -> In x l) -> ds_dirs (build key ck lvl l) = S.
  Proof.
    intros SS H1 H2. apply sorted_unique_g; auto; [apply build_sorted; auto|].
    intros x. rewrite (build_mem key ck LK lvl). split.
    - intros (l1 & l2 & -> & _). apply H1. apply in_or_app; right; simpl; auto.
    - intros Hx. destruct (last_with_key (key x) l) as (y & l1 & l2 & E & Ky & N); [eauto|].
      assert (y = x).
      { apply (sorted_key_inj key ck LK lvl S SS); auto. apply H1. rewrite E. apply in_or_app; right; simpl; auto. }
      subst y. exists l1, l2. auto.
  Qed.
End KeyedMore.

(** * the cached maximum, generically *)
Section MaxG.
  Context {T : Type} (cmp : T -> T -> comparison) (lvl : T -> option lv).
  Definition gmax (l : list T) : option lv := fold_left lf_max (map lvl l) None.

  Lemma gmax_eq l1 l2 :
    (forall x, In x l1 -> exists y, In y l2 /\ lf_rank (lvl x) <= lf_rank (lvl y)) ->
    (forall x, In x l2 -> exists y, In y l1 /\ lf_rank (lvl x) <= lf_rank (lvl y)) ->
    gmax l1 = gmax l2.
  Proof.
    intros D1 D2. apply lf_rank_inj. unfold gmax. rewrite !rank_fold.
    assert (forall l l', (forall x, In x l -> exists y, In y l' /\ lf_rank (lvl x) <= lf_rank (lvl y)) ->
            fold_left N.max (map lf_rank (map lvl l)) (lf_rank None) <= fold_left N.max (map lf_rank (map lvl l')) (lf_rank None)) as Q.
    { intros l l' D. destruct (fold_max_attained (map lf_rank (map lvl l)) (lf_rank None)) as [E|E].
      - rewrite E. apply fold_max_ge. auto.
      - apply in_map_iff in E. destruct E as (lx & Ex & Hlx). apply in_map_iff in Hlx. destruct Hlx as (x & Elx & Hx).
        subst lx. rewrite <- Ex.
        destruct (D x Hx) as (y & Hy & L). etransitivity; [exact L|]. apply fold_max_ge. right.
        apply in_map. now apply in_map. }
    apply N.le_antisymm; apply Q; auto.
  Qed.
  Lemma gmax_same_set l1 l2 : (forall x, In x l1 -> In x l2) -> (forall x, In x l2 -> In x l1) -> gmax l1 = gmax l2.
  Proof. intros H1 H2. apply gmax_eq; intros x Hx; exists x; split; auto; lia. Qed.
  Lemma gmax_cons d l : gmax (d :: l) = lf_max (gmax l) (lvl d).
  Proof.
    apply lf_rank_inj. rewrite lf_rank_max. unfold gmax. rewrite !rank_fold. simpl.
    try rewrite lf_rank_max. apply fold_max_comm.
  Qed.
  Lemma gmax_snoc l d : gmax (l ++ [d]) = lf_max (gmax l) (lvl d).
  Proof. unfold gmax. now rewrite map_app, fold_left_app. Qed.

  Lemma gbuild_snoc l d : ds_build cmp lvl (l ++ [d]) = ds_add cmp lvl (ds_build cmp lvl l) d.
  Proof. unfold ds_build. now rewrite fold_left_app. Qed.

  Lemma insert_in_g d : forall l x, In x (insert cmp d l) -> x = d \/ In x l.
  Proof.
    induction l as [|y r IH]; simpl; intros x.
    - intros [<-|[]]; auto.
    - destruct (cmp y d); simpl.
      + intros [<-|H]; auto.
      + intros [<-|H]; auto. destruct (IH _ H); auto.
      + intros [<-|[<-|H]]; auto.
  Qed.
  Lemma build_in_g : forall l x, In x (ds_dirs (ds_build cmp lvl l)) -> In x l.
  Proof.
    induction l as [|d l IH] using rev_ind; intros x; [simpl; tauto|].
    rewrite gbuild_snoc. simpl. intros H. apply insert_in_g in H. apply in_or_app. destruct H as [->|H]; [right; simpl; auto | left; auto].
  Qed.

  Lemma ds_max_stale_g l : gen_add_recomputes_max = false -> ds_max (ds_build cmp lvl l) = gmax l.
  Proof.
    intros G. induction l as [|d l IH] using rev_ind; auto.
    rewrite gbuild_snoc, gmax_snoc, <- IH. unfold ds_add. simpl. now rewrite G.
  Qed.
  Lemma ds_max_recomputed_g l : gen_add_recomputes_max = true ->
    ds_max (ds_build cmp lvl l) = gmax (ds_dirs (ds_build cmp lvl l)).
  Proof.
    intros G. induction l as [|d l IH] using rev_ind; auto.
    rewrite gbuild_snoc. unfold ds_add at 1 2. simpl ds_max. simpl ds_dirs. rewrite G. simpl andb.
    destruct (existsb (fun x => is_eq (cmp x d)) (ds_dirs (ds_build cmp lvl l))) eqn:E; auto.
    rewrite IH. unfold gmax at 2. fold (gmax (insert cmp d (ds_dirs (ds_build cmp lvl l)))).
    rewrite (gmax_same_set (insert cmp d (ds_dirs (ds_build cmp lvl l))) (d :: ds_dirs (ds_build cmp lvl l))).
    - now rewrite gmax_cons.
    - intros x Hx. eapply Permutation_in; [apply insert_perm; exact E | exact Hx].
    - intros x Hx. eapply Permutation_in; [apply Permutation_sym, insert_perm; exact E | exact Hx].
  Qed.

  (** F21's shape: an entry whose level is above every surviving directive's *)
  Definition stale_g (l : list T) : bool :=
    existsb (fun x => forallb (fun y => lf_rank (lvl y) <? lf_rank (lvl x)) (ds_dirs (ds_build cmp lvl l))) l.
  Lemma fresh_g l : stale_g l = false -> gmax l = gmax (ds_dirs (ds_build cmp lvl l)).
  Proof.
    intros H. apply gmax_eq.
    - intros x Hx. unfold stale_g in H.
      assert (forallb (fun y => lf_rank (lvl y) <? lf_rank (lvl x)) (ds_dirs (ds_build cmp lvl l)) = false) as F.
      { destruct (forallb _ (ds_dirs (ds_build cmp lvl l))) eqn:E; auto.
        assert (existsb (fun x => forallb (fun y => lf_rank (lvl y) <? lf_rank (lvl x)) (ds_dirs (ds_build cmp lvl l))) l = true); [|congruence].
        apply existsb_exists. eauto. }
      apply forallb_false in F. destruct F as (y & Hy & L). apply N.ltb_ge in L. eauto.
    - intros x Hx. exists x. split; [now apply build_in_g | lia].
  Qed.

  (** two input lists with the same surviving directive list cache the same maximum (stale shape: when neither is stale) *)
  Lemma ds_max_same l l' :
    ds_dirs (ds_build cmp lvl l') = ds_dirs (ds_build cmp lvl l) ->
    (gen_add_recomputes_max = true \/ (stale_g l = false /\ stale_g l' = false)) ->
    ds_max (ds_build cmp lvl l') = ds_max (ds_build cmp lvl l).
  Proof.
    intros D K. destruct gen_add_recomputes_max eqn:G.
    - rewrite !ds_max_recomputed_g by auto. now rewrite D.
    - destruct K as [K|[K1 K2]]; [discriminate|].
      rewrite !ds_max_stale_g by auto. rewrite (fresh_g l K1), (fresh_g l' K2). now rewrite D.
  Qed.
End MaxG.

(** * a static directive seen as an EnvFilter directive (field names become value-less field matchers) *)
Definition lift' (s : sdir) : ddir :=
  mk_ddir (s_target s) None (map (fun n => mk_fmatch n None) (s_fields s)) (s_level s).

Lemma lift'_nofields s : s_fields s = [] -> lift' s = lift s.
Proof. destruct s as [t fs l]. simpl. intros ->. reflexivity. Qed.

Lemma to_static_lift' d s : to_static d = Some s -> lift' s = d.
Proof.
  unfold to_static, is_static. destruct (negb (is_some (d_span d)) && negb (existsb has_value (d_fields d))) eqn:E; [|discriminate].
  intros H. inversion H; subst s. clear H. apply andb_true_iff in E. destruct E as [E1 E2].
  destruct d as [t sp fs l]. unfold lift'. simpl in *. destruct sp; [discriminate|]. f_equal.
  apply negb_true_iff in E2. clear E1. induction fs as [|f fs IH]; simpl in *; auto.
  apply orb_false_iff in E2. destruct E2 as [E2 E3]. rewrite IH by auto. f_equal.
  destruct f as [n v]. unfold has_value in E2. simpl in *. destruct v; [discriminate | reflexivity].
Qed.
Lemma to_static_of_lift' s : to_static (lift' s) = Some s.
Proof.
  destruct s as [t fs l]. unfold to_static, is_static, lift'. simpl.
  assert (E : existsb has_value (map (fun n => mk_fmatch n None) fs) = false) by (induction fs; simpl; auto).
  rewrite E. simpl. rewrite map_map. simpl. now rewrite map_id.
Qed.
Lemma is_dynamic_lift' s : is_dynamic (lift' s) = negb (is_nil (s_fields s)).
Proof. destruct s as [t [|f fs] l]; reflexivity. Qed.

Lemma display_sdir_lift' s : (match s_fields s with [] => True | [_] => True | _ => False end) -> display_sdir s = display_ddir (lift' s).
Proof.
  destruct s as [[t|] [|f [|g fs]] l]; intros H; try (simpl in H; destruct H); unfold display_sdir, display_ddir, lift', display_fields, display_fmatch;
    cbn [s_target s_fields s_level d_target d_span d_fields d_level map is_some is_nil negb orb join f_name f_value app];
    repeat (progress (rewrite <- ?app_assoc, ?app_nil_r; cbn [app])); reflexivity.
Qed.

(** key correspondence between the two tables for static-dynamic directives *)
Lemma key_lift' s1 s2 : key_s s1 = key_s s2 <-> key_d (lift' s1) = key_d (lift' s2).
Proof.
  destruct s1 as [t1 f1 l1], s2 as [t2 f2 l2]. unfold key_s, key_d, lift'. simpl. split.
  - intros E. inversion E; subst. reflexivity.
  - intros E. inversion E as [[E1 E2]]. f_equal.
    clear - E2. revert f2 E2. induction f1 as [|a f1 IH]; destruct f2 as [|b f2]; simpl; intros; try discriminate; auto.
    inversion E2; subst. f_equal. auto.
Qed.

Lemma filter_map_app {A B} (f : A -> option B) l r : filter_map f (l ++ r) = filter_map f l ++ filter_map f r.
Proof. induction l as [|x l IH]; simpl; auto. destruct (f x); simpl; now rewrite IH. Qed.

(** splitting the image of [filter_map] at an element splits the source *)
Lemma filter_map_split {A B} (f : A -> option B) : forall l b1 y b2, filter_map f l = b1 ++ y :: b2 ->
  exists l1 x l2, l = l1 ++ x :: l2 /\ f x = Some y /\ filter_map f l1 = b1 /\ filter_map f l2 = b2.
Proof.
  induction l as [|a l IH]; intros b1 y b2 H; simpl in H.
  - destruct b1; discriminate.
  - destruct (f a) as [z|] eqn:Fa.
    + destruct b1 as [|c b1]; simpl in H; inversion H; subst.
      * exists [], a, l. simpl. auto.
      * destruct (IH _ _ _ H2) as (l1 & x & l2 & -> & Fx & E1 & E2). exists (a :: l1), x, l2. simpl. rewrite Fa, E1. auto.
    + destruct (IH _ _ _ H) as (l1 & x & l2 & -> & Fx & E1 & E2). exists (a :: l1), x, l2. simpl. rewrite Fa. auto.
Qed.

(** * the two tables of a built filter know of each other *)
Section Tables.
  Variable ds : list ddir.
  Let stats := filter (fun d => negb (is_dynamic d)) ds.
  Let dyns := filter is_dynamic ds.
  Let A := filter_map to_static stats.
  Let B := filter_map to_static dyns.
  Let S := ds_dirs (s_build (A ++ B)).
  Let D := ds_dirs (d_build dyns).

  Lemma stats_nofields s : In s A -> s_fields s = [].
  Proof.
    unfold A, stats. intros H. apply in_filter_map in H. destruct H as (d & Hd & T). apply filter_In in Hd. destruct Hd as [_ ND].
    apply negb_true_iff in ND. unfold is_dynamic in ND. apply orb_false_iff in ND. destruct ND as [_ NF]. apply negb_false_iff in NF.
    unfold to_static in T. destruct (is_static d); [|discriminate]. inversion T. simpl. destruct (d_fields d); [reflexivity | discriminate].
  Qed.

  (** (I1) the static image of a surviving dynamic directive survives in the static table *)
  Lemma dyn_static_survives d s : In d D -> to_static d = Some s -> In s S.
  Proof.
    unfold D, S. intros Hd T. apply replace_build_d in Hd. destruct Hd as (l1 & l2 & E & N).
    apply replace_build. unfold B. rewrite E, filter_map_app. simpl. rewrite T.
    exists (A ++ filter_map to_static l1), (filter_map to_static l2). split; [now rewrite <- app_assoc|].
    intros y Hy K. apply in_filter_map in Hy. destruct Hy as (d2 & Hd2 & T2).
    apply (N d2 Hd2). rewrite <- (to_static_lift' _ _ T), <- (to_static_lift' _ _ T2). now apply key_lift'.
  Qed.

  (** (I2) a static directive with field names is the image of a surviving dynamic directive *)
  Lemma static_fields_from_dyn s : In s S -> s_fields s <> [] -> In (lift' s) D.
  Proof.
    unfold S, D. intros Hs NF. apply replace_build in Hs. destruct Hs as (l1 & l2 & E & N).
    (* s is not in A, so the split point lies in B *)
    assert (X : exists b1, B = b1 ++ s :: l2 /\ l1 = A ++ b1).
    { clear N. revert l1 E. generalize A (stats_nofields). intros A0 HA. induction A0 as [|a A0 IH]; intros l1 E; simpl in E.
      - exists l1. auto.
      - destruct l1 as [|c l1]; simpl in E; inversion E; subst.
        + exfalso. apply NF. apply HA. simpl; auto.
        + destruct (IH (fun x Hx => HA x (or_intror Hx)) l1 H1) as (b1 & E1 & E2). exists b1. split; auto. now rewrite E2. }
    destruct X as (b1 & EB & _). unfold B in EB. apply filter_map_split in EB.
    destruct EB as (d1 & d & d2 & Ed & T & _ & E2). rewrite (to_static_lift' _ _ T).
    apply replace_build_d. exists d1, d2. split; auto.
    intros y Hy K.
    (* y has d's key, so it is static-dynamic too, and its image would follow s with s's key *)
    assert (TY : exists sy, to_static y = Some sy).
    { unfold to_static, is_static in *. unfold key_d in K. inversion K as [[K1 K2 K3]].
      destruct (negb (is_some (d_span d)) && negb (existsb has_value (d_fields d))) eqn:Q; [|discriminate].
      rewrite K2, K3, Q. eauto. }
    destruct TY as (sy & TY). apply (N sy).
    - rewrite <- E2. apply in_filter_map. eauto.
    - apply key_lift'. rewrite (to_static_lift' _ _ TY), (to_static_lift' _ _ T). exact K.
  Qed.
End Tables.

(** * the theorem *)
Definition nofields_b (s : sdir) : bool := is_nil (s_fields s).

Theorem roundtrip_env : forall regex (ds : list ddir),
  (forall d, In d ds -> wf_d regex d = true) ->
  (gen_add_recomputes_max = true \/
   (stale_g cmp_s s_level (env_static_inputs ds) = false /\ stale_g cmp_d d_level (filter is_dynamic ds) = false)) ->
  parse_env regex false None (display_env (env_build None ds)) = POk (env_build None ds).
Proof.
  intros regex ds WF K. set (e := env_build None ds).
  assert (ES : e_statics e = s_build (env_static_inputs ds))
    by (unfold e, env_build; match goal with |- context [if ?c then _ else _] => destruct c end; reflexivity).
  assert (ED : e_dynamics e = d_build (filter is_dynamic ds))
    by (unfold e, env_build; match goal with |- context [if ?c then _ else _] => destruct c end; reflexivity).
  assert (EH : e_has_dyn e = negb (is_nil (ds_dirs (e_dynamics e))))
    by (unfold e, env_build; match goal with |- context [if ?c then _ else _] => destruct c end; reflexivity).
  set (S := ds_dirs (e_statics e)). set (D := ds_dirs (e_dynamics e)).
  assert (SS : s_sorted S) by (unfold S; rewrite ES; apply sorted_build).
  assert (SD : d_sorted D) by (unfold D; rewrite ED; apply sorted_build_d).
  (* members of the tables are images of input directives *)
  assert (HS : forall s, In s S -> exists d, In d ds /\ to_static d = Some s).
  { intros s Hs. unfold S in Hs. rewrite ES in Hs. apply (build_in_g cmp_s s_level) in Hs.
    unfold env_static_inputs in Hs. apply in_app_or in Hs.
    destruct Hs as [I|I]; apply in_filter_map in I; destruct I as (d & Hd & T); apply filter_In in Hd; exists d; tauto. }
  assert (HD : forall d, In d D -> In d ds /\ is_dynamic d = true).
  { intros d Hd. unfold D in Hd. rewrite ED in Hd. apply (build_in_g cmp_d d_level) in Hd. now apply filter_In in Hd. }
  assert (WS : forall s, In s S -> wf_d regex (lift' s) = true /\ (match s_fields s with [] => True | [_] => True | _ => False end)).
  { intros s Hs. destruct (HS s Hs) as (d & Hd & T). rewrite (to_static_lift' _ _ T). split; [now apply WF|].
    specialize (WF d Hd). unfold wf_d in WF. apply andb_true_iff in WF. destruct WF as [_ WFf].
    unfold to_static in T. destruct (is_static d); [|discriminate]. inversion T. simpl.
    destruct (d_fields d) as [|f [|g r]]; simpl; auto. discriminate. }
  set (L := map lift' S ++ D).
  assert (WL : forall d, In d L -> wf_d regex d = true).
  { intros d Hd. apply in_app_or in Hd. destruct Hd as [Hd|Hd].
    - apply in_map_iff in Hd. destruct Hd as (s & <- & Hs). now apply WS.
    - apply WF. now apply HD. }
  assert (DISP : display_env e = join [cCOMMA] (map display_ddir L)).
  { unfold display_env. fold S D. unfold L. rewrite map_app, map_map. f_equal. f_equal.
    apply map_ext_in. intros s Hs. apply display_sdir_lift'. now apply WS. }
  (* the tables rebuilt from L *)
  set (Sn := filter nofields_b S). set (Sf := filter (fun s => negb (nofields_b s)) S).
  assert (FD : filter is_dynamic L = map lift' Sf ++ D).
  { unfold L. rewrite filter_app. f_equal.
    - unfold Sf. clear. induction S as [|s S0 IH]; simpl; auto. rewrite is_dynamic_lift'. unfold nofields_b.
      destruct (is_nil (s_fields s)); simpl; now rewrite IH.
    - clear - HD. induction D as [|d D0 IH]; simpl; auto. destruct (HD d (or_introl eq_refl)) as [_ DY]. rewrite DY.
      f_equal. apply IH. intros; apply HD; simpl; auto. }
  assert (FS : filter (fun d => negb (is_dynamic d)) L = map lift' Sn).
  { unfold L. rewrite filter_app.
    replace (filter (fun d => negb (is_dynamic d)) D) with (@nil ddir).
    - rewrite app_nil_r. unfold Sn. clear. induction S as [|s S0 IH]; simpl; auto. rewrite is_dynamic_lift'. unfold nofields_b.
      destruct (is_nil (s_fields s)); simpl; now rewrite IH.
    - clear - HD. induction D as [|d D0 IH]; simpl; auto. destruct (HD d (or_introl eq_refl)) as [_ DY]. rewrite DY. simpl.
      apply IH. intros; apply HD; simpl; auto. }
  assert (TL : forall l, filter_map to_static (map lift' l) = l).
  { induction l as [|s l IH]; simpl; auto. rewrite to_static_of_lift'. now rewrite IH. }
  set (inS := Sn ++ (Sf ++ filter_map to_static D)).
  set (inD := map lift' Sf ++ D).
  assert (EB : env_build None L = mk_envf (s_build inS) (d_build inD) (negb (is_nil (ds_dirs (d_build inD))))).
  { unfold env_build. rewrite FD, FS. rewrite filter_map_app, !TL.
    match goal with |- context [if ?c then _ else _] => destruct c end; reflexivity. }
  (* members *)
  assert (SnS : forall x, In x Sn -> In x S) by (intros x H; unfold Sn in H; apply filter_In in H; tauto).
  assert (SfS : forall x, In x Sf -> In x S) by (intros x H; unfold Sf in H; apply filter_In in H; tauto).
  assert (I1 : forall s, In s (filter_map to_static D) -> In s S).
  { intros s Hs. apply in_filter_map in Hs. destruct Hs as (d & Hd & T).
    unfold S. rewrite ES. unfold env_static_inputs. apply (dyn_static_survives ds d s); auto. unfold D in Hd. now rewrite ED in Hd. }
  assert (I2 : forall s, In s Sf -> In (lift' s) D).
  { intros s Hs. unfold Sf in Hs. apply filter_In in Hs. destruct Hs as [Hs NF]. unfold D. rewrite ED.
    apply (static_fields_from_dyn ds).
    - unfold S in Hs. rewrite ES in Hs. exact Hs.
    - unfold nofields_b in NF. destruct (s_fields s); [discriminate NF | discriminate]. }
  assert (DS : ds_dirs (s_build inS) = S).
  { rewrite s_build_is. apply (build_dirs_same_set key_s spec_cmp_k lawful_spec_k s_level); auto.
    - intros x Hx. unfold inS in Hx. apply in_app_or in Hx. destruct Hx as [Hx|Hx]; auto.
      apply in_app_or in Hx. destruct Hx as [Hx|Hx]; auto.
    - intros x Hx. unfold inS. rewrite app_assoc. apply in_or_app. left. unfold Sn, Sf.
      destruct (nofields_b x) eqn:Q; apply in_or_app; [left | right]; apply filter_In; split; auto. now rewrite Q. }
  assert (DDd : ds_dirs (d_build inD) = D).
  { rewrite d_build_is. apply (build_dirs_same_set key_d spec_cmp_dk lawful_spec_dk d_level); auto.
    - intros x Hx. unfold inD in Hx. apply in_app_or in Hx. destruct Hx as [Hx|Hx]; auto.
      apply in_map_iff in Hx. destruct Hx as (s & <- & Hs). auto.
    - intros x Hx. unfold inD. apply in_or_app. auto. }
  (* the cached maxima *)
  assert (MS : ds_max (s_build inS) = ds_max (e_statics e)).
  { rewrite ES. apply (ds_max_same cmp_s s_level).
    - fold (s_build inS). fold (s_build (env_static_inputs ds)). rewrite DS. unfold S. now rewrite ES.
    - destruct K as [K|[K1 K2]]; [left; auto | right; split; auto].
      (* the re-parsed inputs are exactly the survivors: nothing is overwritten above them *)
      unfold stale_g. fold (s_build inS). rewrite DS.
      destruct (existsb _ inS) eqn:X; auto. exfalso. apply existsb_exists in X. destruct X as (x & Hx & Fx).
      assert (Ix : In x S).
      { unfold inS in Hx. apply in_app_or in Hx. destruct Hx as [Hx|Hx]; auto. apply in_app_or in Hx. destruct Hx as [Hx|Hx]; auto. }
      rewrite forallb_forall in Fx. specialize (Fx x Ix). apply N.ltb_lt in Fx. lia. }
  assert (MD : ds_max (d_build inD) = ds_max (e_dynamics e)).
  { rewrite ED. apply (ds_max_same cmp_d d_level).
    - fold (d_build inD). fold (d_build (filter is_dynamic ds)). rewrite DDd. unfold D. now rewrite ED.
    - destruct K as [K|[K1 K2]]; [left; auto | right; split; auto].
      unfold stale_g. fold (d_build inD). rewrite DDd.
      destruct (existsb _ inD) eqn:X; auto. exfalso. apply existsb_exists in X. destruct X as (x & Hx & Fx).
      assert (Ix : In x D).
      { unfold inD in Hx. apply in_app_or in Hx. destruct Hx as [Hx|Hx]; auto. apply in_map_iff in Hx. destruct Hx as (s & <- & Hs). auto. }
      rewrite forallb_forall in Fx. specialize (Fx x Ix). apply N.ltb_lt in Fx. lia. }
  assert (EQ : env_build None L = e).
  { rewrite EB. destruct e as [es ed eh]. simpl in *. f_equal.
    - destruct (s_build inS) as [a b], es as [c d]. simpl in *. unfold S in DS. simpl in DS. congruence.
    - destruct (d_build inD) as [a b], ed as [c d]. simpl in *. unfold D in DDd. simpl in DDd. congruence.
    - rewrite DDd, EH. reflexivity. }
  destruct L as [|d0 L0] eqn:EL.
  - (* nothing to print: both tables are empty, and so is every list they were built from *)
    assert (S0 : S = [] /\ D = []).
    { unfold L in EL. apply app_eq_nil in EL. destruct EL as [E1 E2]. apply map_eq_nil in E1. auto. }
    destruct S0 as [S0 D0]. rewrite DISP. simpl join.
    change (parse_env regex false None []) with (POk (env_build None [])). f_equal. rewrite <- EQ. reflexivity.
  - unfold parse_env. rewrite DISP, parse_dirs_display; auto; [|discriminate]. now rewrite EQ.
Qed.

(** non-vacuity: a list with a field-name-only directive (in both tables), duplicates included *)
Definition ex_round : list ddir :=
  ex_dirs ++ [mk_ddir (Some [97; 112; 112]) None [mk_fmatch [120] None] (Some Info);
              mk_ddir (Some [97; 112; 112]) None [] (Some Warn);
              mk_ddir (Some [97; 112; 112]) None [mk_fmatch [120] None] (Some Debug)].
Example roundtrip_env_example :
  (forall d, In d ex_round -> wf_d true d = true) /\
  stale_g cmp_s s_level (env_static_inputs ex_round) = false /\ stale_g cmp_d d_level (filter is_dynamic ex_round) = false /\
  List.length (ds_dirs (e_statics (env_build None ex_round))) = 3%nat /\
  List.length (ds_dirs (e_dynamics (env_build None ex_round))) = 5%nat.
Proof.
  split; [|repeat split; vm_compute; reflexivity].
  intros d H. unfold ex_round, ex_dirs in H. simpl in H.
  repeat (destruct H as [<-|H]; [vm_compute; reflexivity|]). destruct H.
Qed.
