(** C11 — Targets and EnvFilter agree on every directive string of their common grammar: comma lists of
    `target=level`, bare level, bare target, where a target is a non-empty string over [\w:-] that does not spell a
    LevelFilter (finding F23) and a level is a name in any case or one digit 0-5. *)
From TV Require Import Levels.Model Levels.Proofs Directive.Model Directive.Order Directive.Static Directive.Text Directive.Dyn.
From Coq Require Import Lia.
Local Open Scope N_scope.
Local Opaque gen_add_recomputes_max gen_debug_match_exact gen_valuematch_eq_debug.

(** * The common grammar *)
Definition target_text (t : bytes) : bool := negb (is_nil t) && forallb is_target_char t.
Definition levelish (t : bytes) : bool := is_some (parse_filter t).
Definition common_piece (p : bytes) : bool :=
  is_level_tok p ||
  (target_text p && negb (levelish p)) ||
  match split_on cEQ p with
  | [t; l] => target_text t && negb (levelish t) && is_level_tok l
  | _ => false
  end.
Definition in_common_grammar (s : bytes) : bool := forallb common_piece (split_on cCOMMA s).

(** * Level tokens *)
Lemma lower_ge x : x <= lower x.
Proof. unfold lower. destruct ((65 <=? x) && (x <=? 90)); lia. Qed.
Lemma lower_letter_word x : 97 <= lower x <= 122 -> is_word x = true.
Proof.
  unfold lower, is_word, in_range. intros H. rewrite !orb_true_iff.
  destruct ((65 <=? x) && (x <=? 90)) eqn:E.
  - auto.
  - assert (L : (97 <=? x) && (x <=? 122) = true) by (apply andb_true_iff; split; apply N.leb_le; lia).
    auto.
Qed.

Definition letters (s : bytes) : Prop := forall c, In c s -> 97 <= c <= 122.
Lemma names_letters : forall n, In n level_tok_names -> letters n /\ map lower n = n /\ n <> [].
Proof.
  intros n H. simpl in H.
  repeat (destruct H as [<-|H]; [split; [intros c Hc; simpl in Hc; repeat (destruct Hc as [<-|Hc]; [lia|]); tauto | split; [reflexivity | discriminate]]|]).
  destruct H.
Qed.

(** a level token is a name (case-insensitively) or one digit 0-5 *)
Lemma is_level_tok_cases s : is_level_tok s = true ->
  (exists n, In n level_tok_names /\ map lower s = n) \/ (exists d, s = [d] /\ 48 <= d <= 53).
Proof.
  unfold is_level_tok. intros H. apply orb_true_iff in H. destruct H as [H|H].
  - left. apply existsb_exists in H. destruct H as (n & Hn & E). exists n. split; auto.
    destruct (names_letters n Hn) as (_ & L & _). now apply (eq_ic_lower_lit s n L).
  - right. destruct s as [|d [|? ?]]; try discriminate. exists d. split; auto.
    unfold in_range in H. apply andb_true_iff in H. destruct H as [H1 H2]. apply N.leb_le in H1, H2. lia.
Qed.

Lemma level_tok_word s : is_level_tok s = true -> s <> [] /\ forall c, In c s -> is_word c = true.
Proof.
  intros H. destruct (is_level_tok_cases s H) as [(n & Hn & E)|(d & -> & Hd)].
  - destruct (names_letters n Hn) as (L & _ & NE). split.
    + intros ->. simpl in E. congruence.
    + intros c Hc. apply lower_letter_word. apply L. rewrite <- E. now apply in_map.
  - split; [discriminate|]. intros c [<-|[]]. unfold is_word, in_range.
    assert (Q : (48 <=? d) && (d <=? 57) = true) by (apply andb_true_iff; split; apply N.leb_le; lia). rewrite Q. reflexivity.
Qed.

Lemma level_tok_parses s : is_level_tok s = true -> exists f, parse_filter s = Some f.
Proof.
  intros H. destruct (is_level_tok_cases s H) as [(n & Hn & E)|(d & -> & Hd)].
  - assert (NE : s <> []) by (apply level_tok_word; auto).
    assert (X : exists f, fname f = n).
    { simpl in Hn. repeat (destruct Hn as [<-|Hn]; [first [now exists (Some Trace) | now exists (Some Debug) | now exists (Some Info)
                                                        | now exists (Some Warn) | now exists (Some Error) | now exists None]|]). destruct Hn. }
    destruct X as (f & Hf). exists f. apply parse_language_filter; auto. left. congruence.
  - assert (D : d = 48 \/ d = 49 \/ d = 50 \/ d = 51 \/ d = 52 \/ d = 53) by lia.
    destruct D as [->|[->|[->|[->|[->| ->]]]]]; vm_compute; eauto.
Qed.

Lemma word_not_eq c : is_word c = true -> c <> cEQ /\ c <> cCOMMA /\ c <> cLB /\ c < 128.
Proof.
  unfold is_word, in_range, cEQ, cCOMMA, cLB. intros H.
  repeat (apply orb_true_iff in H; destruct H as [H|H]);
    try (apply andb_true_iff in H; destruct H as [H1 H2]; apply N.leb_le in H1, H2; repeat split; lia).
  apply N.eqb_eq in H. repeat split; lia.
Qed.
Lemma target_char_facts c : is_target_char c = true -> c <> cEQ /\ c <> cCOMMA /\ c <> cLB /\ c < 128.
Proof.
  unfold is_target_char. intros H. apply orb_true_iff in H. destruct H as [H|H]; [apply orb_true_iff in H; destruct H as [H|H]|].
  - now apply word_not_eq.
  - apply N.eqb_eq in H. subst. unfold cEQ, cCOMMA, cLB. repeat split; lia.
  - apply N.eqb_eq in H. subst. unfold cEQ, cCOMMA, cLB. repeat split; lia.
Qed.

(** * Scanning *)
Lemma span_while_all p s : forallb p s = true -> span_while p s = (s, []).
Proof.
  induction s as [|x s IH]; simpl; auto. intros H. apply andb_true_iff in H. destruct H as [H1 H2].
  rewrite H1, (IH H2). reflexivity.
Qed.
Lemma span_while_stop p s c r : forallb p s = true -> p c = false -> span_while p (s ++ c :: r) = (s, c :: r).
Proof.
  induction s as [|x s IH]; simpl; intros H Hc.
  - now rewrite Hc.
  - apply andb_true_iff in H. destruct H as [H1 H2]. rewrite H1, (IH H2 Hc). reflexivity.
Qed.

Lemma is_ascii_spec s : is_ascii s = true <-> forall c, In c s -> c < 128.
Proof.
  unfold is_ascii. rewrite forallb_forall. split; intros H c Hc.
  - apply N.ltb_lt. auto.
  - apply N.ltb_lt. auto.
Qed.

Lemma target_text_facts t : target_text t = true ->
  t <> [] /\ forallb is_target_char t = true /\ ~ In cEQ t /\ ~ In cLB t /\ is_ascii t = true.
Proof.
  unfold target_text. intros H. apply andb_true_iff in H. destruct H as [H1 H2].
  split; [destruct t; [discriminate | congruence]|]. split; auto.
  rewrite forallb_forall in H2. repeat split.
  - intros I. apply H2, target_char_facts in I. tauto.
  - intros I. apply H2, target_char_facts in I. tauto.
  - apply is_ascii_spec. intros c I. apply H2, target_char_facts in I. tauto.
Qed.

Lemma no_lb_find2 t : ~ In cLB t -> find2 cLB cLC t = None.
Proof.
  induction t as [|x t IH]; auto. intros H. destruct t as [|y t]; auto.
  rewrite find2_cons2. destruct (x =? cLB) eqn:E.
  - apply N.eqb_eq in E. subst. exfalso. apply H. simpl; auto.
  - cbn [andb]. rewrite IH; auto. intros I. apply H. simpl; auto.
Qed.

(** * One piece *)
Definition lift (d : sdir) : ddir := mk_ddir (s_target d) None [] (s_level d).

Lemma not_levelish_not_tok t : levelish t = false -> is_level_tok t = false.
Proof.
  unfold levelish. intros H. destruct (is_level_tok t) eqn:E; auto.
  destruct (level_tok_parses t E) as (f & Hf). rewrite Hf in H. discriminate.
Qed.

Lemma take_part_target t r : target_text t = true -> (match r with [] => True | c :: _ => is_target_char c = false end) ->
  take_part (t ++ r) = Some (PT t, r).
Proof.
  intros T R. destruct (target_text_facts t T) as (NE & A & _).
  destruct t as [|x t]; [congruence|]. pose proof A as A'. simpl in A. apply andb_true_iff in A. destruct A as [A1 A2].
  change ((x :: t) ++ r) with (x :: (t ++ r)). unfold take_part. rewrite A1.
  destruct r as [|c r].
  - rewrite app_nil_r. rewrite (span_while_all is_target_char (x :: t) A'). reflexivity.
  - change (x :: t ++ c :: r) with ((x :: t) ++ c :: r). rewrite (span_while_stop is_target_char (x :: t) c r A' R). reflexivity.
Qed.

Lemma piece_level l regex : is_level_tok l = true ->
  exists f, parse_sdir l = Some (mk_sdir None [] f) /\ parse_ddir regex l = POk (mk_ddir None None [] f).
Proof.
  intros H. destruct (level_tok_parses l H) as (f & Hf). destruct (level_tok_word l H) as (NE & W).
  exists f. split.
  - unfold parse_sdir. rewrite split_on_nosep.
    + now rewrite Hf.
    + intros I. apply W, word_not_eq in I. tauto.
  - unfold parse_ddir. assert (A : is_ascii l = true) by (apply is_ascii_spec; intros c I; apply W, word_not_eq in I; tauto).
    rewrite A, H, Hf. reflexivity.
Qed.

Lemma piece_target t regex : target_text t = true -> levelish t = false ->
  parse_sdir t = Some (mk_sdir (Some t) [] (Some Trace)) /\ parse_ddir regex t = POk (mk_ddir (Some t) None [] (Some Trace)).
Proof.
  intros T L. destruct (target_text_facts t T) as (NE & A & NEQ & NLB & ASC).
  assert (PF : parse_filter t = None) by (unfold levelish in L; destruct (parse_filter t); [discriminate | reflexivity]).
  split.
  - unfold parse_sdir. rewrite split_on_nosep by auto. now rewrite PF.
  - unfold parse_ddir. rewrite ASC, (not_levelish_not_tok t L). simpl.
    pose proof (take_part_target t [] T I) as TP. rewrite app_nil_r in TP. rewrite TP. simpl.
    unfold last_target, last_span. simpl. now rewrite PF.
Qed.

Lemma piece_pair t l regex : target_text t = true -> levelish t = false -> is_level_tok l = true ->
  exists f, parse_sdir (t ++ cEQ :: l) = Some (mk_sdir (Some t) [] f) /\
            parse_ddir regex (t ++ cEQ :: l) = POk (mk_ddir (Some t) None [] f).
Proof.
  intros T L K. destruct (target_text_facts t T) as (NE & A & NEQ & NLB & ASC).
  destruct (level_tok_parses l K) as (f & Hf). destruct (level_tok_word l K) as (LNE & W).
  assert (PF : parse_filter t = None) by (unfold levelish in L; destruct (parse_filter t); [discriminate | reflexivity]).
  assert (LEQ : ~ In cEQ l) by (intros I; apply W, word_not_eq in I; tauto).
  exists f. split.
  - unfold parse_sdir. rewrite split_on_app by auto. rewrite split_on_nosep by auto.
    rewrite (no_lb_find2 t NLB), Hf. reflexivity.
  - unfold parse_ddir.
    assert (ASC' : is_ascii (t ++ cEQ :: l) = true).
    { apply is_ascii_spec. intros c I. apply in_app_or in I. destruct I as [I|[<-|I]].
      - rewrite is_ascii_spec in ASC. auto.
      - unfold cEQ. lia.
      - apply W, word_not_eq in I. tauto. }
    assert (NT : is_level_tok (t ++ cEQ :: l) = false).
    { destruct (is_level_tok (t ++ cEQ :: l)) eqn:E; auto. exfalso.
      destruct (level_tok_word _ E) as (_ & W'). assert (I : In cEQ (t ++ cEQ :: l)) by (apply in_or_app; right; simpl; auto).
      apply W', word_not_eq in I. tauto. }
    rewrite ASC', NT. simpl.
    rewrite (take_part_target t (cEQ :: l) T) by reflexivity.
    change (take_part (cEQ :: l)) with (@None (part * bytes)). cbv iota beta.
    unfold parse_suffix. change (cEQ =? cEQ) with true. cbv iota.
    destruct l as [|c l']; [congruence|]. change (is_nil (c :: l')) with false. cbv iota. rewrite K.
    unfold last_target, last_span. simpl. now rewrite PF, Hf.
Qed.

Lemma common_piece_parses p regex : common_piece p = true ->
  p <> [] /\ exists d, s_fields d = [] /\ parse_sdir p = Some d /\ parse_ddir regex p = POk (lift d).
Proof.
  unfold common_piece. intros H. apply orb_true_iff in H. destruct H as [H|H]; [apply orb_true_iff in H; destruct H as [H|H]|].
  - split; [apply level_tok_word; auto|]. destruct (piece_level p regex H) as (f & P1 & P2).
    exists (mk_sdir None [] f). auto.
  - apply andb_true_iff in H. destruct H as [T L]. apply negb_true_iff in L.
    split; [apply target_text_facts; auto|]. destruct (piece_target p regex T L) as (P1 & P2).
    exists (mk_sdir (Some p) [] (Some Trace)). auto.
  - destruct (split_on cEQ p) as [|t [|l [|? ?]]] eqn:S; try discriminate.
    apply split_on_two in S. destruct S as (-> & _ & _).
    apply andb_true_iff in H. destruct H as [H K]. apply andb_true_iff in H. destruct H as [T L]. apply negb_true_iff in L.
    split; [destruct t; discriminate|]. destruct (piece_pair t l regex T L K) as (f & P1 & P2).
    exists (mk_sdir (Some t) [] f). auto.
Qed.

(** * Lists of pieces *)
Lemma pieces_parse regex lossy : forall ps, forallb common_piece ps = true ->
  exists ds, (forall d, In d ds -> s_fields d = []) /\
             sequence (map parse_sdir ps) = Some ds /\
             collect_parse lossy (map (parse_ddir regex) (filter (fun p => negb (is_nil p)) ps)) = POk (map lift ds).
Proof.
  induction ps as [|p ps IH]; simpl; intros H.
  - exists []. simpl. repeat split; auto. intros d [].
  - apply andb_true_iff in H. destruct H as [H1 H2]. destruct (IH H2) as (ds & NF & S & C).
    destruct (common_piece_parses p regex H1) as (NE & d & F & P1 & P2).
    exists (d :: ds). split; [|split].
    + intros x [<-|Hx]; auto.
    + now rewrite P1, S.
    + destruct p; [congruence|]. simpl. rewrite P2, C. reflexivity.
Qed.

Lemma to_static_lift d : s_fields d = [] -> to_static (lift d) = Some d.
Proof. destruct d as [t fs l]. simpl. intros ->. reflexivity. Qed.

Lemma filter_map_lift ds : (forall d, In d ds -> s_fields d = []) -> filter_map to_static (map lift ds) = ds.
Proof.
  induction ds as [|d ds IH]; [reflexivity|]. intros H. cbn [map filter_map]. rewrite to_static_lift by (apply H; simpl; auto).
  f_equal. apply IH. intros x Hx. apply H; simpl; auto.
Qed.
Lemma no_dynamic_lift ds : filter is_dynamic (map lift ds) = [] /\
                           filter (fun d => negb (is_dynamic d)) (map lift ds) = map lift ds.
Proof. induction ds as [|d ds [IH1 IH2]]; simpl; auto. split; auto. now rewrite IH2. Qed.

Lemma env_build_static ds : (forall d, In d ds -> s_fields d = []) ->
  env_build None (map lift ds) = mk_envf (s_build ds) ds_empty false.
Proof.
  intros NF. unfold env_build. destruct (no_dynamic_lift ds) as [E1 E2]. rewrite E1, E2. simpl.
  rewrite app_nil_r, (filter_map_lift ds NF). destruct (is_nil (ds_dirs (s_build ds))); reflexivity.
Qed.

Theorem targets_env_agree : forall regex lossy s, in_common_grammar s = true ->
  exists t e, parse_targets s = Some t /\ parse_env regex lossy None s = POk e /\
              e_has_dyn e = false /\
              forall st tid cs m, env_enabled e st tid cs m = targets_enabled t m.
Proof.
  intros regex lossy s H. unfold in_common_grammar in H.
  destruct (pieces_parse regex lossy _ H) as (ds & NF & S & C).
  exists (s_build ds), (mk_envf (s_build ds) ds_empty false). split; [|split; [|split]].
  - unfold parse_targets. now rewrite S.
  - unfold parse_env, parse_dirs. rewrite C. now rewrite env_build_static.
  - reflexivity.
  - intros st tid cs m. unfold env_enabled, targets_enabled. simpl.
    pose proof (guard_transparent ds m) as G.
    destruct (allows (ds_max (s_build ds)) (m_level m)); simpl in G; auto.
Qed.

(** non-vacuity, and the documented prefix semantics on both sides *)
Definition ex_common : bytes := (* "app=info,application=off,warn" is not common; "app=info,application=off,DEBUG" is *)
  [97;112;112;61;105;110;102;111;44;97;112;112;108;105;99;97;116;105;111;110;61;111;102;102;44;68;69;66;85;71].
Example common_grammar_inhabited : in_common_grammar ex_common = true.
Proof. vm_compute. reflexivity. Qed.

(** F23: a target that spells a level filter is dropped by EnvFilter but kept by Targets *)
Definition f23_string : bytes := [119;97;114;110;61;100;101;98;117;103].      (* "warn=debug" *)
Definition f23_meta : meta := mk_meta [111;116;104;101;114] Debug KEvent [101] [].   (* target "other", DEBUG event *)
Lemma F23_refuted :
  in_common_grammar f23_string = false /\
  exists t e, parse_targets f23_string = Some t /\ parse_env true false None f23_string = POk e /\
              targets_enabled t f23_meta = false /\ env_enabled e est0 0 0 f23_meta = true.
Proof. split; [vm_compute; reflexivity|]. eexists _, _. repeat split; vm_compute; reflexivity. Qed.
