(** C11 — FromStr / Display of static directives and Targets: splitting lemmas and the round trip. *)
From TV Require Import Levels.Model Levels.Proofs Directive.Model Directive.Order Directive.Static.
From Coq Require Import Lia Sorted Permutation.
Local Open Scope N_scope.
(* the two booleans read from the source stay abstract in proofs: every lemma must hold for both shapes *)
Local Opaque gen_add_recomputes_max gen_debug_match_exact.

(** * membership tests *)
Definition nomem (c : N) (s : bytes) : bool := negb (existsb (N.eqb c) s).
Lemma nomem_spec c s : nomem c s = true <-> ~ In c s.
Proof.
  unfold nomem. rewrite negb_true_iff. split.
  - intros E H. assert (existsb (N.eqb c) s = true); [|congruence].
    apply existsb_exists. exists c. split; auto. apply N.eqb_refl.
  - intros H. destruct (existsb (N.eqb c) s) eqn:E; auto. exfalso. apply H.
    apply existsb_exists in E. destruct E as (x & Hx & E). apply N.eqb_eq in E. now subst.
Qed.

(** * split on a byte *)
Lemma split1_split_on c s : split1 c s = (hd [] (split_on c s), tl (split_on c s)).
Proof. unfold split_on. destruct (split1 c s); reflexivity. Qed.

Lemma split_on_nosep c s : ~ In c s -> split_on c s = [s].
Proof.
  unfold split_on. induction s as [|x s IH]; simpl; auto. intros H.
  destruct (split1 c s) as [p ps]. destruct (x =? c) eqn:E.
  - apply N.eqb_eq in E. subst. exfalso; apply H; auto.
  - assert (IH' : p :: ps = [s]) by (apply IH; intros H'; apply H; auto). inversion IH'; subst. reflexivity.
Qed.

Lemma split_on_app c a b : ~ In c a -> split_on c (a ++ c :: b) = a :: split_on c b.
Proof.
  unfold split_on. induction a as [|x a IH]; simpl; intros H.
  - destruct (split1 c b). now rewrite N.eqb_refl.
  - assert (IH' := IH (fun H' => H (or_intror H'))).
    destruct (split1 c (a ++ c :: b)) as [p ps]. destruct (split1 c b) as [q qs].
    inversion IH'; subst. destruct (x =? c) eqn:E; auto.
    apply N.eqb_eq in E. subst. exfalso; apply H; auto.
Qed.

Lemma split_on_join c l : l <> [] -> (forall p, In p l -> ~ In c p) -> split_on c (join [c] l) = l.
Proof.
  induction l as [|x l IH]; [congruence|]. intros _ H. destruct l as [|y l].
  - simpl. apply split_on_nosep. apply H; simpl; auto.
  - change (join [c] (x :: y :: l)) with (x ++ [c] ++ join [c] (y :: l)). simpl app.
    rewrite split_on_app by (apply H; simpl; auto). f_equal. apply IH; [congruence|].
    intros p Hp. apply H. simpl; auto.
Qed.

Lemma join_cons (sep : bytes) x y l : join sep (x :: y :: l) = x ++ sep ++ join sep (y :: l).
Proof. reflexivity. Qed.

Lemma split1_spec c : forall s p ps, split1 c s = (p, ps) ->
  join [c] (p :: ps) = s /\ forall q, In q (p :: ps) -> ~ In c q.
Proof.
  induction s as [|x s IH]; intros p ps H; simpl in H.
  - inversion H; subst. split; auto. intros q [<-|[]]; auto.
  - destruct (split1 c s) as [p' ps'] eqn:E. destruct (IH _ _ eq_refl) as [J P].
    destruct (x =? c) eqn:T; inversion H as [[Hp Hps]]; subst p ps; clear H.
    + apply N.eqb_eq in T; subst x. split.
      * rewrite join_cons. cbn [app]. now rewrite J.
      * intros q [<-|Hq]; auto.
    + apply N.eqb_neq in T. split.
      * destruct ps' as [|p'' ps''].
        -- cbn [join] in *. now rewrite J.
        -- rewrite join_cons in *. rewrite <- J. reflexivity.
      * intros q [<-|Hq].
        -- intros [H|H]; [congruence|]. apply (P p'); simpl; auto.
        -- apply P; simpl; auto.
Qed.

Lemma split_on_pieces c s : join [c] (split_on c s) = s /\ forall p, In p (split_on c s) -> ~ In c p.
Proof. unfold split_on. destruct (split1 c s) as [p ps] eqn:E. now apply split1_spec. Qed.

Lemma split_on_one c s p : split_on c s = [p] -> p = s /\ ~ In c s.
Proof.
  intros E. destruct (split_on_pieces c s) as [J P]. rewrite E in *. simpl in J. subst. split; auto. apply P; simpl; auto.
Qed.
Lemma split_on_two c s p q : split_on c s = [p; q] -> s = p ++ c :: q /\ ~ In c p /\ ~ In c q.
Proof.
  intros E. destruct (split_on_pieces c s) as [J P]. rewrite E in *. simpl in J. subst. repeat split; auto; apply P; simpl; auto.
Qed.
Lemma split_on_nonempty c s : split_on c s <> [].
Proof. unfold split_on. destruct (split1 c s). congruence. Qed.

(** * first occurrence of a two-byte pattern *)
Lemma find2_cons2 a b x y r :
  find2 a b (x :: y :: r) =
  if (x =? a) && (y =? b) then Some ([], r)
  else match find2 a b (y :: r) with Some (p, q) => Some (x :: p, q) | None => None end.
Proof. reflexivity. Qed.
Lemma find2_one a b x : find2 a b [x] = None.
Proof. reflexivity. Qed.

Lemma find2_tail_none a b x t : find2 a b (x :: t) = None -> find2 a b t = None.
Proof.
  destruct t as [|y t]; auto. rewrite find2_cons2. destruct ((x =? a) && (y =? b)); [discriminate|].
  destruct (find2 a b (y :: t)) as [[? ?]|]; [discriminate | reflexivity].
Qed.

Lemma find2_some a b : forall s p q, find2 a b s = Some (p, q) -> s = p ++ a :: b :: q /\ find2 a b p = None.
Proof.
  induction s as [|x s IH]; [discriminate|]. intros p q. destruct s as [|y s]; [discriminate|].
  rewrite find2_cons2. destruct ((x =? a) && (y =? b)) eqn:E.
  - intros H; inversion H; subst. apply andb_true_iff in E. destruct E as [E1 E2].
    apply N.eqb_eq in E1, E2. subst. auto.
  - destruct (find2 a b (y :: s)) as [[p' q']|] eqn:F; [|discriminate].
    intros H; inversion H; subst. destruct (IH _ _ eq_refl) as [E1 E2]. split.
    + now rewrite E1.
    + destruct p' as [|y' p']; [reflexivity|]. simpl in E1. inversion E1; subst y'.
      rewrite find2_cons2, E, E2. reflexivity.
Qed.

Lemma find2_first a b : a <> b -> forall t r, find2 a b t = None -> find2 a b (t ++ a :: b :: r) = Some (t, r).
Proof.
  intros AB. induction t as [|x t IH]; intros r H.
  - simpl. now rewrite !N.eqb_refl.
  - pose proof (IH r (find2_tail_none _ _ _ _ H)) as IH'.
    destruct t as [|y t].
    + simpl app. rewrite find2_cons2. destruct ((x =? a) && (a =? b)) eqn:E.
      * apply andb_true_iff in E. destruct E as [_ E]. apply N.eqb_eq in E. congruence.
      * simpl app in IH'. now rewrite IH'.
    + rewrite find2_cons2 in H. simpl app. simpl app in IH'. rewrite find2_cons2.
      destruct ((x =? a) && (y =? b)); [discriminate|]. now rewrite IH'.
Qed.

Lemma strip_suffix2_app a b f : strip_suffix2 a b (f ++ [a; b]) = Some f.
Proof. unfold strip_suffix2. rewrite rev_app_distr. simpl. now rewrite !N.eqb_refl, rev_involutive. Qed.
Lemma strip_suffix2_some a b s f : strip_suffix2 a b s = Some f -> s = f ++ [a; b].
Proof.
  unfold strip_suffix2. destruct (rev s) as [|y [|x r]] eqn:E; try discriminate.
  destruct ((x =? a) && (y =? b)) eqn:T; [|discriminate]. intros H; inversion H; subst.
  apply andb_true_iff in T. destruct T as [T1 T2]. apply N.eqb_eq in T1, T2. subst.
  rewrite <- (rev_involutive s), E. simpl. now rewrite <- app_assoc.
Qed.

(** * level text *)
Lemma disp_level_facts : forall l,
  parse_filter (disp_level l) = Some l /\ nomem cEQ (disp_level l) = true /\ nomem cCOMMA (disp_level l) = true /\
  nomem cLB (disp_level l) = true.
Proof. intros [[]|]; vm_compute; auto. Qed.

(** * well-formed directives: what parsing a comma-free piece guarantees *)
Definition clean_target (d : sdir) : bool :=
  match s_target d with Some t => negb (is_some (find2 cLB cLC t)) | None => true end.
Definition wf_field (f : bytes) : Prop :=
  f <> [] /\ ~ In cEQ f /\ ~ In cCOMMA f /\ find2 cLB cLC (f ++ [cRC; cRB]) = None.
Definition wf_s (d : sdir) : Prop :=
  match s_target d with
  | None => s_fields d = []
  | Some t => ~ In cEQ t /\ ~ In cCOMMA t /\
              (s_fields d = [] \/ (exists f, s_fields d = [f] /\ wf_field f /\ find2 cLB cLC t = None))
  end.

Lemma not_in_app {A} (x : A) l r : ~ In x (l ++ r) <-> ~ In x l /\ ~ In x r.
Proof. rewrite in_app_iff. tauto. Qed.

Lemma parse_sdir_wf s d : ~ In cCOMMA s -> parse_sdir s = Some d -> wf_s d.
Proof.
  unfold parse_sdir. intros NC.
  destruct (split_on cEQ s) as [|p0 [|p1 [|? ?]]] eqn:E; try discriminate.
  - apply split_on_one in E. destruct E as [-> NE].
    destruct (parse_filter s); intros H; inversion H; subst; unfold wf_s; simpl; auto.
  - apply split_on_two in E. destruct E as (-> & N0 & N1).
    apply not_in_app in NC. destruct NC as [NC0 NC1].
    destruct (find2 cLB cLC p0) as [[t mf]|] eqn:F.
    + destruct (find2 cLB cLC mf) eqn:F2; [discriminate|].
      destruct (strip_suffix2 cRC cRB mf) as [fs|] eqn:S; [|discriminate].
      destruct (parse_filter p1); [|discriminate]. simpl. intros H; inversion H; subst; clear H.
      apply find2_some in F. destruct F as [-> Ft]. apply strip_suffix2_some in S. subst mf.
      apply not_in_app in N0, NC0. destruct N0 as [N0 N0'], NC0 as [NC0 NC0'].
      unfold wf_s; simpl. split; auto. split; auto.
      assert (Nfs : ~ In cCOMMA fs).
      { intros H. apply NC0'. right. right. apply in_or_app. auto. }
      assert (Efs : ~ In cEQ fs).
      { intros H. apply N0'. right. right. apply in_or_app. auto. }
      rewrite (split_on_nosep _ _ Nfs). simpl. destruct fs as [|c fs]; simpl; auto.
      right. exists (c :: fs). split; auto. split; auto. repeat split; auto; congruence.
    + destruct (parse_filter p1); [|discriminate]. simpl. intros H; inversion H; subst. unfold wf_s; simpl. auto.
Qed.

Lemma parse_display_sdir d : wf_s d -> clean_target d = true -> parse_sdir (display_sdir d) = Some d.
Proof.
  destruct d as [tg fs lv]. unfold wf_s, clean_target, display_sdir; simpl.
  destruct (disp_level_facts lv) as (PL & LE & LC & _). apply nomem_spec in LE, LC.
  destruct tg as [t|].
  - intros (NE & NC & F) CL. apply negb_true_iff in CL.
    assert (Ft : find2 cLB cLC t = None) by (destruct (find2 cLB cLC t); [discriminate | auto]).
    destruct F as [->|(f & -> & (Fne & FE & FC & F2) & _)].
    + simpl. unfold parse_sdir. rewrite split_on_app by auto. rewrite split_on_nosep by auto.
      rewrite Ft, PL. reflexivity.
    + unfold display_fields. simpl join.
      replace (t ++ ([cLB; cLC] ++ f ++ [cRC; cRB]) ++ [cEQ] ++ disp_level lv)
        with ((t ++ cLB :: cLC :: f ++ [cRC; cRB]) ++ cEQ :: disp_level lv) by (rewrite <- app_assoc; reflexivity).
      unfold parse_sdir. rewrite split_on_app.
      2:{ rewrite in_app_iff. simpl. rewrite in_app_iff. simpl. unfold cEQ, cLB, cLC, cRC, cRB in *.
          intuition discriminate. }
      rewrite split_on_nosep by auto.
      rewrite (find2_first cLB cLC) by (auto; unfold cLB, cLC; congruence).
      rewrite F2, strip_suffix2_app, PL. rewrite split_on_nosep by auto. simpl.
      destruct f; [congruence | reflexivity].
  - intros -> _. simpl. unfold parse_sdir. rewrite split_on_nosep by auto. now rewrite PL.
Qed.

Lemma display_sdir_nocomma d : wf_s d -> ~ In cCOMMA (display_sdir d).
Proof.
  destruct d as [tg fs lv]. unfold wf_s, display_sdir; simpl.
  destruct (disp_level_facts lv) as (_ & _ & LC & _). apply nomem_spec in LC.
  destruct tg as [t|].
  - intros (NE & NC & F). destruct F as [->|(f & -> & (Fne & FE & FC & F2) & _)]; simpl.
    + rewrite in_app_iff. simpl. unfold cCOMMA, cEQ in *. intuition discriminate.
    + rewrite !in_app_iff. simpl. rewrite !in_app_iff. simpl. unfold cCOMMA, cEQ, cLB, cLC, cRC, cRB in *.
      intuition discriminate.
  - intros ->. simpl. auto.
Qed.

(** * sequences *)
Lemma sequence_some {A} (l : list (option A)) r : sequence l = Some r <-> l = map Some r.
Proof.
  revert r. induction l as [|[x|] l IH]; intros r; simpl.
  - split; [intros H; inversion H; auto | destruct r; [auto | discriminate]].
  - destruct (sequence l) as [xs|].
    + split.
      * intros H; inversion H; subst. simpl. f_equal. now apply IH.
      * destruct r as [|y r]; [discriminate|]. simpl. intros H; inversion H; subst. f_equal. f_equal.
        assert (Some xs = Some r) by (apply IH; auto). congruence.
    + split; [discriminate|]. destruct r as [|y r]; [discriminate|]. simpl. intros H; inversion H; subst.
      assert (None = Some r) by (apply IH; auto). discriminate.
  - split; [discriminate|]. destruct r; discriminate.
Qed.

Definition parsed_entries (s : bytes) : option (list sdir) := sequence (map parse_sdir (split_on cCOMMA s)).
Lemma parse_targets_entries s : parse_targets s = option_map s_build (parsed_entries s).
Proof. reflexivity. Qed.

Lemma parsed_entries_wf s l : parsed_entries s = Some l -> l <> [] /\ forall d, In d l -> wf_s d.
Proof.
  unfold parsed_entries. intros H. apply sequence_some in H.
  destruct (split_on_pieces cCOMMA s) as [_ P]. pose proof (split_on_nonempty cCOMMA s) as NE.
  split.
  - intros ->. simpl in H. destruct (split_on cCOMMA s); [congruence | discriminate].
  - intros d Hd. assert (In (Some d) (map parse_sdir (split_on cCOMMA s))) as I by (rewrite H; now apply in_map).
    apply in_map_iff in I. destruct I as (p & Ep & Hp). eapply parse_sdir_wf; eauto.
Qed.

(** * the level maximum *)
Definition max_all (l : list sdir) : option lv := fold_left lf_max (map s_level l) None.

Lemma lf_rank_inj a b : lf_rank a = lf_rank b -> a = b.
Proof. unfold lf_rank. intros H. assert (VF a = VF b) by (apply rank_inj_same_kind; auto). congruence. Qed.
Lemma lf_rank_max a b : lf_rank (lf_max a b) = N.max (lf_rank a) (lf_rank b).
Proof. unfold lf_max. destruct (lf_rank a <? lf_rank b) eqn:E; [apply N.ltb_lt in E | apply N.ltb_ge in E]; lia. Qed.
Lemma rank_fold l : forall a, lf_rank (fold_left lf_max l a) = fold_left N.max (map lf_rank l) (lf_rank a).
Proof. induction l as [|x l IH]; intros a; simpl; auto. now rewrite IH, lf_rank_max. Qed.
Lemma fold_max_ge l : forall a x, (x = a \/ In x l) -> x <= fold_left N.max l a.
Proof.
  induction l as [|y l IH]; simpl; intros a x [->|H]; try lia; try tauto.
  - etransitivity; [|apply IH; left; reflexivity]. lia.
  - destruct H as [->|H]; [|apply IH; auto]. etransitivity; [|apply IH; left; reflexivity]. lia.
Qed.
Lemma fold_max_attained l : forall a, fold_left N.max l a = a \/ In (fold_left N.max l a) l.
Proof.
  induction l as [|y l IH]; simpl; intros a; auto.
  destruct (IH (N.max a y)) as [E|E]; auto. rewrite E. destruct (N.max_spec a y) as [[_ ->]|[_ ->]]; auto.
Qed.
(** two lists that dominate each other have the same maximum *)
Lemma max_all_eq l1 l2 :
  (forall x, In x l1 -> exists y, In y l2 /\ lf_rank (s_level x) <= lf_rank (s_level y)) ->
  (forall x, In x l2 -> exists y, In y l1 /\ lf_rank (s_level x) <= lf_rank (s_level y)) ->
  max_all l1 = max_all l2.
Proof.
  intros D1 D2. apply lf_rank_inj. unfold max_all. rewrite !rank_fold.
  assert (forall l l', (forall x, In x l -> exists y, In y l' /\ lf_rank (s_level x) <= lf_rank (s_level y)) ->
          fold_left N.max (map lf_rank (map s_level l)) (lf_rank None) <= fold_left N.max (map lf_rank (map s_level l')) (lf_rank None)) as Q.
  { intros l l' D. destruct (fold_max_attained (map lf_rank (map s_level l)) (lf_rank None)) as [E|E].
    - rewrite E. apply fold_max_ge. auto.
    - apply in_map_iff in E. destruct E as (lx & Ex & Hlx). apply in_map_iff in Hlx. destruct Hlx as (x & Elx & Hx).
      subst lx. rewrite <- Ex.
      destruct (D x Hx) as (y & Hy & L). etransitivity; [exact L|]. apply fold_max_ge. right.
      apply in_map. now apply in_map. }
  apply N.le_antisymm; apply Q; auto.
Qed.

Lemma insert_perm {T} (cmp : T -> T -> comparison) d l :
  existsb (fun x => is_eq (cmp x d)) l = false -> Permutation (insert cmp d l) (d :: l).
Proof.
  induction l as [|x l IH]; simpl; auto. destruct (cmp x d) eqn:E; simpl; try discriminate; intros H.
  - rewrite IH by auto. apply perm_swap.
  - reflexivity.
Qed.
Lemma max_all_perm l l' : Permutation l l' -> max_all l = max_all l'.
Proof.
  intros P. apply max_all_eq; intros x Hx; exists x; split; try lia.
  - eapply Permutation_in; eauto.
  - eapply Permutation_in; [apply Permutation_sym|]; eauto.
Qed.
Lemma fold_max_comm L : forall z k, fold_left N.max L (N.max z k) = N.max (fold_left N.max L z) k.
Proof. induction L as [|y L IH]; simpl; intros; auto. rewrite <- IH. f_equal. lia. Qed.
Lemma max_all_cons d l : max_all (d :: l) = lf_max (max_all l) (s_level d).
Proof.
  apply lf_rank_inj. rewrite lf_rank_max. unfold max_all. rewrite !rank_fold. simpl.
  try rewrite lf_rank_max. apply fold_max_comm.
Qed.

(** the stored maximum, for the two shapes of `add` *)
Lemma s_build_snoc l d : s_build (l ++ [d]) = s_add (s_build l) d.
Proof. unfold s_build, ds_build. now rewrite fold_left_app. Qed.
Lemma s_add_dirs ds d : ds_dirs (s_add ds d) = insert cmp_s d (ds_dirs ds).
Proof. reflexivity. Qed.
Lemma s_add_max_stale ds d : gen_add_recomputes_max = false -> ds_max (s_add ds d) = lf_max (ds_max ds) (s_level d).
Proof. intros G. unfold s_add, ds_add. simpl. now rewrite G. Qed.
Lemma s_add_max_rec ds d : gen_add_recomputes_max = true ->
  ds_max (s_add ds d) = if existsb (fun x => is_eq (cmp_s x d)) (ds_dirs ds)
                        then max_all (insert cmp_s d (ds_dirs ds)) else lf_max (ds_max ds) (s_level d).
Proof. intros G. unfold s_add, ds_add. simpl. now rewrite G. Qed.

Lemma ds_max_stale inputs : gen_add_recomputes_max = false -> ds_max (s_build inputs) = max_all inputs.
Proof.
  intros G. induction inputs as [|d l IH] using rev_ind; auto.
  rewrite s_build_snoc, s_add_max_stale, IH by auto. unfold max_all. now rewrite map_app, fold_left_app.
Qed.
Lemma ds_max_recomputed inputs : gen_add_recomputes_max = true -> ds_max (s_build inputs) = max_all (ds_dirs (s_build inputs)).
Proof.
  intros G. induction inputs as [|d l IH] using rev_ind; auto.
  rewrite s_build_snoc, s_add_max_rec, s_add_dirs by auto.
  destruct (existsb (fun x => is_eq (cmp_s x d)) (ds_dirs (s_build l))) eqn:E; auto.
  rewrite IH. rewrite (max_all_perm _ _ (insert_perm cmp_s d _ E)). now rewrite max_all_cons.
Qed.

(** F21's shape: an overwritten entry whose level is above every survivor's *)
Definition stale_max_b (inputs : list sdir) : bool :=
  existsb (fun x => forallb (fun y => lf_rank (s_level y) <? lf_rank (s_level x)) (survivors inputs)) inputs.

Lemma forallb_false {A} (f : A -> bool) l : forallb f l = false -> exists x, In x l /\ f x = false.
Proof.
  induction l as [|x l IH]; simpl; [discriminate|]. destruct (f x) eqn:E; simpl.
  - intros H. destruct (IH H) as (y & Hy & Fy). eauto.
  - eauto.
Qed.

Lemma fresh_max_all inputs : stale_max_b inputs = false -> max_all inputs = max_all (ds_dirs (s_build inputs)).
Proof.
  intros H. apply max_all_eq.
  - intros x Hx. unfold stale_max_b in H.
    assert (forallb (fun y => lf_rank (s_level y) <? lf_rank (s_level x)) (survivors inputs) = false) as F.
    { destruct (forallb _ (survivors inputs)) eqn:E; auto.
      assert (existsb (fun x => forallb (fun y => lf_rank (s_level y) <? lf_rank (s_level x)) (survivors inputs)) inputs = true); [|congruence].
      apply existsb_exists. eauto. }
    apply forallb_false in F. destruct F as (y & Hy & L). apply N.ltb_ge in L.
    exists y. split; auto. now apply survivors_build.
  - intros x Hx. exists x. split; try lia. apply replace_build in Hx. destruct Hx as (l1 & l2 & -> & _).
    apply in_or_app; right; simpl; auto.
Qed.

(** * The round trip *)
Lemma build_nonempty inputs : inputs <> [] -> ds_dirs (s_build inputs) <> [].
Proof.
  destruct inputs as [|d l] using rev_ind; [congruence|]. intros _.
  unfold s_build, ds_build. rewrite fold_left_app. simpl.
  generalize (ds_dirs (fold_left (ds_add cmp_s s_level) l ds_empty)) as L.
  destruct L as [|x L]; simpl; [congruence|]. destruct (cmp_s x d); congruence.
Qed.

Lemma display_targets_parses inputs :
  inputs <> [] -> (forall d, In d inputs -> wf_s d) ->
  forallb clean_target (ds_dirs (s_build inputs)) = true ->
  parsed_entries (display_targets (s_build inputs)) = Some (ds_dirs (s_build inputs)).
Proof.
  intros NE WF CL. set (T := s_build inputs) in *.
  assert (WT : forall d, In d (ds_dirs T) -> wf_s d).
  { intros d Hd. apply replace_build in Hd. destruct Hd as (l1 & l2 & -> & _). apply WF. apply in_or_app; right; simpl; auto. }
  unfold parsed_entries, display_targets. rewrite split_on_join.
  - apply sequence_some. rewrite map_map. apply map_ext_in. intros d Hd.
    apply parse_display_sdir; auto. rewrite forallb_forall in CL. auto.
  - intros E. apply map_eq_nil in E. revert E. now apply build_nonempty.
  - intros p Hp. apply in_map_iff in Hp. destruct Hp as (d & <- & Hd). apply display_sdir_nocomma; auto.
Qed.

Lemma roundtrip_directives : forall s inputs,
  parsed_entries s = Some inputs ->
  forallb clean_target (ds_dirs (s_build inputs)) = true ->
  exists T', parse_targets (display_targets (s_build inputs)) = Some T' /\ ds_dirs T' = ds_dirs (s_build inputs).
Proof.
  intros s inputs P CL. destruct (parsed_entries_wf _ _ P) as [NE WF].
  rewrite parse_targets_entries, display_targets_parses by auto. simpl. eexists; split; eauto.
  rewrite s_build_is. apply build_dirs_sorted_id. apply sorted_build.
Qed.

Lemma roundtrip_static : forall s inputs,
  parsed_entries s = Some inputs ->
  forallb clean_target (ds_dirs (s_build inputs)) = true ->
  (gen_add_recomputes_max = true \/ stale_max_b inputs = false) ->
  parse_targets (display_targets (s_build inputs)) = Some (s_build inputs).
Proof.
  intros s inputs P CL K. destruct (parsed_entries_wf _ _ P) as [NE WF].
  rewrite parse_targets_entries, display_targets_parses by auto. simpl. f_equal.
  assert (D : ds_dirs (s_build (ds_dirs (s_build inputs))) = ds_dirs (s_build inputs)).
  { rewrite (s_build_is (ds_dirs (s_build inputs))). apply build_dirs_sorted_id, sorted_build. }
  assert (M : ds_max (s_build (ds_dirs (s_build inputs))) = ds_max (s_build inputs)).
  { destruct gen_add_recomputes_max eqn:G.
    - rewrite (ds_max_recomputed (ds_dirs (s_build inputs))), (ds_max_recomputed inputs) by auto. now rewrite D.
    - destruct K as [K|K]; [discriminate|].
      rewrite (ds_max_stale (ds_dirs (s_build inputs))), (ds_max_stale inputs) by auto. symmetry. now apply fresh_max_all. }
  destruct (s_build (ds_dirs (s_build inputs))) as [a b], (s_build inputs) as [c d]. simpl in *. congruence.
Qed.
