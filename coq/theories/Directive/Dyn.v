(** C11 — the order on EnvFilter directives (`impl Ord for Directive`, `field::Match`, `ValueMatch`) is a strict total
    order on directive keys (target, span name, field matchers); the dynamic set is sorted and a later duplicate wins;
    `Ord` and `PartialEq` agree on keys exactly when `ValueMatch::eq` has an arm for Debug literals (finding F22). *)
From TV Require Import Levels.Model Levels.Proofs Directive.Model Directive.Order Directive.Static.
From Coq Require Import Lia Sorted.
Local Open Scope N_scope.
Local Opaque gen_add_recomputes_max gen_debug_match_exact gen_valuematch_eq_debug.

(** * ValueMatch, field::Match *)
Lemma lawful_vm : lawful vm_cmp.
Proof.
  split.
  - intros [x|x|x|x] [y|y|y|y]; simpl; try (split; [intros H; try discriminate H | intros H; discriminate H]).
    + rewrite (l_eq _ lawful_bool). split; congruence.
    + rewrite N.compare_eq_iff. split; congruence.
    + rewrite Z.compare_eq_iff. split; congruence.
    + rewrite (l_eq _ lawful_bytes). split; congruence.
  - intros [x|x|x|x] [y|y|y|y]; simpl; try reflexivity.
    + apply (l_sym _ lawful_bool).
    + apply N.compare_antisym.
    + apply Z.compare_antisym.
    + apply (l_sym _ lawful_bytes).
  - intros [x|x|x|x] [y|y|y|y] [z|z|z|z]; simpl; try congruence; try (vm_compute; congruence).
    + apply (l_trans _ lawful_bool).
    + apply (l_trans _ lawful_N).
    + apply (l_trans _ lawful_Z).
    + apply (l_trans _ lawful_bytes).
Qed.

Lemma lawful_pair {P Q} (cp : P -> P -> comparison) (cq : Q -> Q -> comparison) :
  lawful cp -> lawful cq -> lawful (fun a b : P * Q => then_with (cp (fst a) (fst b)) (cq (snd a) (snd b))).
Proof.
  intros CP CQ. apply (lawful_lex (@fst P Q) (@snd P Q)); auto.
  intros [a1 a2] [b1 b2]; simpl; congruence.
Qed.

Definition fm_key (f : fmatch) : bytes * option vmatch := (f_name f, f_value f).
Lemma fm_cmp_is a b :
  fm_cmp a b = then_with (bool_cmp (is_some (f_value a)) (is_some (f_value b)))
                 (then_with (bytes_cmp (fst (fm_key a)) (fst (fm_key b))) (opt_cmp vm_cmp (snd (fm_key a)) (snd (fm_key b)))).
Proof. unfold fm_cmp, fm_key. simpl. destruct (f_value a), (f_value b); reflexivity. Qed.

Lemma lawful_ext {A} (c c' : A -> A -> comparison) : (forall a b, c a b = c' a b) -> lawful c' -> lawful c.
Proof.
  intros E [L1 L2 L3]. split; intros.
  - rewrite E. apply L1.
  - rewrite !E. apply L2.
  - rewrite E in *. eapply L3; eauto.
Qed.

Lemma lawful_fm : lawful fm_cmp.
Proof.
  apply (lawful_ext _ _ fm_cmp_is).
  apply (lawful_refine (fun f => is_some (f_value f)) bool_cmp
           (fun a b => then_with (bytes_cmp (fst (fm_key a)) (fst (fm_key b))) (opt_cmp vm_cmp (snd (fm_key a)) (snd (fm_key b))))).
  - apply lawful_bool.
  - apply (lawful_lex (fun f => fst (fm_key f)) (fun f => snd (fm_key f))).
    + intros [n1 v1] [n2 v2]; simpl; congruence.
    + apply lawful_bytes.
    + apply lawful_opt, lawful_vm.
Qed.

(** * The dynamic key order *)
Definition dkey : Type := option bytes * (option bytes * list fmatch).
Definition key_d (d : ddir) : dkey := (d_target d, (d_span d, d_fields d)).
(** the documented specificity order, most specific = greatest: target length, presence of a span name, number of field
    matchers, then the lexicographic fallback *)
Definition spec_cmp_dk (a b : dkey) : comparison :=
  then_with (opt_cmp Nat.compare (option_map (@List.length N) (fst a)) (option_map (@List.length N) (fst b)))
  (then_with (bool_cmp (is_some (fst (snd a))) (is_some (fst (snd b))))
  (then_with (Nat.compare (List.length (snd (snd a))) (List.length (snd (snd b))))
  (then_with (opt_cmp bytes_cmp (fst a) (fst b))
  (then_with (opt_cmp bytes_cmp (fst (snd a)) (fst (snd b))) (list_cmp fm_cmp (snd (snd a)) (snd (snd b))))))).
Definition spec_cmp_d (a b : ddir) : comparison := spec_cmp_dk (key_d a) (key_d b).

Lemma cmp_d_spec a b : cmp_d a b = CompOpp (spec_cmp_d a b).
Proof. reflexivity. Qed.

Lemma lawful_spec_dk : lawful spec_cmp_dk.
Proof.
  unfold spec_cmp_dk.
  apply (lawful_refine (fun k : dkey => option_map (@List.length N) (fst k)) (opt_cmp Nat.compare)).
  { apply lawful_opt, lawful_nat. }
  apply (lawful_refine (fun k : dkey => is_some (fst (snd k))) bool_cmp).
  { apply lawful_bool. }
  apply (lawful_refine (fun k : dkey => List.length (snd (snd k))) Nat.compare).
  { apply lawful_nat. }
  apply (lawful_pair (opt_cmp bytes_cmp)
           (fun a b : option bytes * list fmatch => then_with (opt_cmp bytes_cmp (fst a) (fst b)) (list_cmp fm_cmp (snd a) (snd b)))).
  - apply lawful_opt, lawful_bytes.
  - apply lawful_pair; [apply lawful_opt, lawful_bytes | apply lawful_list, lawful_fm].
Qed.

Definition d_build : list ddir -> dyset := ds_build cmp_d d_level.
Definition d_sorted (l : list ddir) : Prop := StronglySorted (fun a b => cmp_d a b = Lt) l.
Definition last_entry_d (l : list ddir) (x : ddir) : Prop :=
  exists l1 l2, l = l1 ++ x :: l2 /\ forall y, In y l2 -> key_d y <> key_d x.

Lemma d_build_is l : d_build l = build key_d spec_cmp_dk d_level l.
Proof. reflexivity. Qed.
Lemma sorted_build_d : forall l, d_sorted (ds_dirs (d_build l)).
Proof. intros l. apply (build_sorted key_d spec_cmp_dk lawful_spec_dk d_level l). Qed.
Lemma replace_build_d : forall l x, In x (ds_dirs (d_build l)) <-> last_entry_d l x.
Proof. intros l x. apply (build_mem key_d spec_cmp_dk lawful_spec_dk d_level l x). Qed.
Lemma cmp_d_eq_key a b : cmp_d a b = Eq <-> key_d a = key_d b.
Proof. apply (cmp_eq_key key_d spec_cmp_dk lawful_spec_dk). Qed.

(** * Ord vs PartialEq (the debug assertion inside `Directive::cmp`) *)
Lemma fm_peq_refl_iff f : fm_peq f f = true <->
  (match f_value f with Some (VDebugLit _) => gen_valuematch_eq_debug = true | _ => True end).
Proof.
  unfold fm_peq. assert (R : list_eqb (f_name f) (f_name f) = true) by (apply list_eqb_eq; reflexivity). rewrite R. simpl.
  destruct (f_value f) as [[b|n|z|p]|]; simpl.
  - destruct b; simpl; tauto.
  - rewrite N.eqb_refl. tauto.
  - rewrite Z.eqb_refl. tauto.
  - assert (Rp : list_eqb p p = true) by (apply list_eqb_eq; reflexivity). rewrite Rp, andb_true_r. tauto.
  - tauto.
Qed.

Lemma fields_peq_refl l : fields_peq l l = true <-> forall f, In f l -> fm_peq f f = true.
Proof.
  induction l as [|f l IH]; simpl.
  - split; auto; intros _ g [].
  - rewrite andb_true_iff, IH. split.
    + intros [H1 H2] g [<-|Hg]; auto.
    + intros H. split; auto.
Qed.

Definition has_debug_lit (d : ddir) : bool :=
  existsb (fun f => match f_value f with Some (VDebugLit _) => true | _ => false end) (d_fields d).

(** with the Debug arm in `ValueMatch::eq` the assertion can never fire ... *)
Lemma ord_eq_consistent : gen_valuematch_eq_debug = true -> forall a b, ord_assert_fails a b = false.
Proof.
  intros G a b. apply seal in G. unfold ord_assert_fails. destruct (is_eq (cmp_d a b)) eqn:E; auto. simpl. apply negb_false_iff.
  assert (K : key_d a = key_d b) by (apply cmp_d_eq_key; destruct (cmp_d a b); simpl in E; congruence).
  unfold key_d in K. inversion K as [[K1 K2 K3]]. rewrite K1, K2, K3.
  assert (R1 : obytes_eqb (d_target b) (d_target b) = true) by (apply obytes_eqb_eq; reflexivity).
  assert (R2 : obytes_eqb (d_span b) (d_span b) = true) by (apply obytes_eqb_eq; reflexivity).
  rewrite R1, R2. simpl. apply fields_peq_refl. intros f _. apply fm_peq_refl_iff.
  destruct (f_value f) as [[| | |]|]; try exact I; exact (unseal _ G).
Qed.

(** ... and without it, it fires exactly on a duplicate key that carries a Debug literal *)
Lemma ord_assert_fails_iff : gen_valuematch_eq_debug = false -> forall a b,
  ord_assert_fails a b = true <-> (key_d a = key_d b /\ has_debug_lit b = true).
Proof.
  intros G a b. apply seal in G. unfold ord_assert_fails. rewrite andb_true_iff, negb_true_iff. split.
  - intros [E F]. assert (K : key_d a = key_d b) by (apply cmp_d_eq_key; destruct (cmp_d a b); simpl in E; congruence).
    split; auto. unfold key_d in K. inversion K as [[K1 K2 K3]]. rewrite K1, K2, K3 in F.
    assert (R1 : obytes_eqb (d_target b) (d_target b) = true) by (apply obytes_eqb_eq; reflexivity).
    assert (R2 : obytes_eqb (d_span b) (d_span b) = true) by (apply obytes_eqb_eq; reflexivity).
    rewrite R1, R2 in F. simpl in F. unfold has_debug_lit.
    destruct (existsb _ (d_fields b)) eqn:X; auto. exfalso.
    assert (fields_peq (d_fields b) (d_fields b) = true); [|congruence].
    apply fields_peq_refl. intros f Hf. apply fm_peq_refl_iff.
    destruct (f_value f) as [[| | |p]|] eqn:V; try exact I. exfalso.
    assert (existsb (fun f => match f_value f with Some (VDebugLit _) => true | _ => false end) (d_fields b) = true); [|congruence].
    apply existsb_exists. exists f. split; auto. now rewrite V.
  - intros [K D]. split.
    + apply cmp_d_eq_key in K. now rewrite K.
    + unfold key_d in K. inversion K as [[K1 K2 K3]]. rewrite K1, K2, K3.
      assert (fields_peq (d_fields b) (d_fields b) = false); [|rewrite H; now rewrite andb_false_r].
      destruct (fields_peq (d_fields b) (d_fields b)) eqn:X; auto. exfalso.
      unfold has_debug_lit in D. apply existsb_exists in D. destruct D as (f & Hf & V).
      pose proof (proj1 (fields_peq_refl _) X f Hf) as P. apply fm_peq_refl_iff in P.
      destruct (f_value f) as [[| | |p]|]; try discriminate V. apply unseal in G. congruence.
Qed.

(** * the level maximum bounds every directive's level (both shapes of `add`) *)
Lemma ds_max_ge {T} (cmp : T -> T -> comparison) (lvl : T -> option lv) (l : list T) :
  forall d, In d (ds_dirs (ds_build cmp lvl l)) -> lf_rank (lvl d) <= lf_rank (ds_max (ds_build cmp lvl l)).
Proof.
  induction l as [|x l IH] using rev_ind; simpl; [tauto|].
  unfold ds_build in *. rewrite fold_left_app. simpl. set (ds := fold_left (ds_add cmp lvl) l ds_empty) in *.
  intros d Hd. unfold ds_add in *. simpl in *.
  assert (Hin : forall d, In d (insert cmp x (ds_dirs ds)) -> d = x \/ In d (ds_dirs ds)).
  { clear. induction (ds_dirs ds) as [|y r IHr]; simpl; intros d.
    - intros [<-|[]]; auto.
    - destruct (cmp y x); simpl.
      + intros [<-|H]; auto.
      + intros [<-|H]; auto. destruct (IHr _ H); auto.
      + intros [<-|[<-|H]]; auto. }
  destruct (gen_add_recomputes_max && existsb (fun y => is_eq (cmp y x)) (ds_dirs ds)).
  - (* recomputed from the directives themselves *)
    assert (Q : forall (L : list T) a, In d L -> lf_rank (lvl d) <= lf_rank (fold_left lf_max (map lvl L) a)).
    { clear. induction L as [|y L IHL]; simpl; intros a; [tauto|]. intros [->|H].
      - clear IHL. generalize (lf_max a (lvl d)) (lf_max_ge_r a (lvl d)). intros b Hb.
        revert b Hb. induction (map lvl L) as [|z M IHM]; simpl; intros b Hb; auto.
        apply IHM. etransitivity; [exact Hb | apply lf_max_ge_l].
      - apply IHL; auto. }
    apply Q; auto.
  - destruct (Hin d Hd) as [->|H].
    + apply lf_max_ge_r.
    + etransitivity; [apply IH; auto | apply lf_max_ge_l].
Qed.

Lemma allows_mono a b x : lf_rank a <= lf_rank b -> allows a x = true -> allows b x = true.
Proof. unfold allows. rewrite !N.leb_le. lia. Qed.

(** the `max_level >= level` guard in front of `statics.enabled` never changes the answer *)
Lemma guard_transparent inputs m :
  (allows (ds_max (s_build inputs)) (m_level m) && enabled_s (s_build inputs) m) = enabled_s (s_build inputs) m.
Proof.
  destruct (enabled_s (s_build inputs) m) eqn:E; [|apply andb_false_r]. rewrite andb_true_r.
  unfold enabled_s in E. destruct (find (fun d => cares_s d m) (ds_dirs (s_build inputs))) as [d|] eqn:F; [|discriminate].
  apply find_some in F. destruct F as [Hd _].
  eapply allows_mono; [|exact E]. apply (ds_max_ge cmp_s s_level inputs d Hd).
Qed.
