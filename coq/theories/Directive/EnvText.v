(** C11 — Display / parse of EnvFilter directives on the modelled grammar
        target? [ span-name? { name (= value)? }? ] (= level)?
    (one field per directive: a comma inside a field list is outside the model).  [wf_d] describes the directives of
    that grammar; every one of them is printed to a string that parses back to itself. *)
From TV Require Import Levels.Model Levels.Proofs Directive.Model Directive.Order Directive.Static Directive.Text Directive.Dyn
  Directive.Agree.
From Coq Require Import Lia.
Local Open Scope N_scope.
Local Opaque gen_add_recomputes_max gen_debug_match_exact gen_valuematch_eq_debug.

(** * The grammar *)
Definition span_char (c : N) : bool :=
  negb (c =? cLB) && negb (c =? cRB) && negb (c =? cLC) && negb (c =? cCOMMA) && (c <? 128).
Definition span_text (n : bytes) : bool := negb (is_nil n) && forallb span_char n.
Definition name_char (c : N) : bool := is_word c || (c =? cDOT).
Definition name_text (n : bytes) : bool :=
  match n with [] => false | c :: r => is_word c && forallb name_char r end.
Definition value_char (c : N) : bool :=
  negb (c =? cCOMMA) && negb (c =? cRC) && negb (c =? cRB) && negb (c =? cEQ) && (c <? 128).
Definition vm_eqb (a b : vmatch) : bool := is_eq (vm_cmp a b).
(** the value's text is non-empty, stays inside `{..}` and parses back to the value *)
Definition value_ok (regex : bool) (v : vmatch) : bool :=
  let t := display_vmatch v in
  negb (is_nil t) && forallb value_char t &&
  match parse_value regex t with POk v' => vm_eqb v v' | _ => false end.
Definition field_ok_d (regex : bool) (f : fmatch) : bool :=
  name_text (f_name f) && match f_value f with Some v => value_ok regex v | None => true end.
Definition wf_d (regex : bool) (d : ddir) : bool :=
  match d_target d with Some t => target_text t && negb (levelish t) | None => true end &&
  match d_span d with Some n => span_text n | None => true end &&
  match d_fields d with [] => true | [f] => field_ok_d regex f | _ => false end.

(** * Small facts *)
Lemma vm_eqb_eq a b : vm_eqb a b = true <-> a = b.
Proof.
  unfold vm_eqb. rewrite <- (l_eq _ lawful_vm). destruct (vm_cmp a b); simpl; split; congruence.
Qed.

Lemma disp_level_tok : forall l, is_level_tok (disp_level l) = true /\ parse_filter (disp_level l) = Some l.
Proof. intros [[]|]; vm_compute; auto. Qed.

Lemma forallb_app' {A} (p : A -> bool) l r : forallb p (l ++ r) = forallb p l && forallb p r.
Proof. induction l as [|x l IH]; simpl; auto. now rewrite IH, andb_assoc. Qed.

Lemma drop_while_head p c s : p c = false -> drop_while p (c :: s) = c :: s.
Proof. intros H. simpl. now rewrite H. Qed.

Lemma trim_id s : (match s with [] => True | c :: _ => is_bracket c = false end) ->
                  (match rev s with [] => True | c :: _ => is_bracket c = false end) ->
                  trim_brackets s = s.
Proof.
  intros H1 H2. unfold trim_brackets.
  assert (E1 : drop_while is_bracket s = s) by (destruct s; [reflexivity | now apply drop_while_head]).
  rewrite E1.
  assert (E2 : drop_while is_bracket (rev s) = rev s) by (destruct (rev s); [reflexivity | now apply drop_while_head]).
  rewrite E2. apply rev_involutive.
Qed.

Lemma span_char_facts c : span_char c = true ->
  c <> cLB /\ c <> cRB /\ c <> cLC /\ c <> cCOMMA /\ c < 128.
Proof.
  unfold span_char. rewrite !andb_true_iff, !negb_true_iff, !N.eqb_neq, N.ltb_lt. tauto.
Qed.
Lemma value_char_facts c : value_char c = true ->
  c <> cCOMMA /\ c <> cRC /\ c <> cRB /\ c <> cEQ /\ c < 128.
Proof.
  unfold value_char. rewrite !andb_true_iff, !negb_true_iff, !N.eqb_neq, N.ltb_lt. tauto.
Qed.
Lemma name_char_facts c : name_char c = true ->
  c <> cCOMMA /\ c <> cRC /\ c <> cRB /\ c <> cEQ /\ c <> cLB /\ c <> cLC /\ c < 128.
Proof.
  unfold name_char. intros H. apply orb_true_iff in H. destruct H as [H|H].
  - unfold is_word, in_range in H. unfold cCOMMA, cRC, cRB, cEQ, cLB, cLC.
    repeat (apply orb_true_iff in H; destruct H as [H|H]);
      try (apply andb_true_iff in H; destruct H as [H1 H2]; apply N.leb_le in H1, H2; repeat split; lia).
    apply N.eqb_eq in H. repeat split; lia.
  - apply N.eqb_eq in H. subst. unfold cDOT, cCOMMA, cRC, cRB, cEQ, cLB, cLC. repeat split; lia.
Qed.

Lemma forallb_In {A} (p : A -> bool) l x : forallb p l = true -> In x l -> p x = true.
Proof. intros H. rewrite forallb_forall in H. auto. Qed.

(** * One field *)
Definition field_text (f : fmatch) : bytes := display_fmatch f.

Lemma name_text_facts n : name_text n = true ->
  exists c r, n = c :: r /\ is_word c = true /\ forallb name_char n = true.
Proof.
  destruct n as [|c r]; [discriminate|]. simpl. intros H. apply andb_true_iff in H. destruct H as [H1 H2].
  exists c, r. split; auto. split; auto. unfold name_char at 1. now rewrite H1, H2.
Qed.

Lemma eq_not_name_char : name_char cEQ = false.
Proof. reflexivity. Qed.

Lemma parse_field regex f : field_ok_d regex f = true ->
  parse_fields regex (field_text f) = POk [f] /\
  field_text f <> [] /\ forallb (fun c => negb (c =? cRC) && negb (c =? cRB) && negb (c =? cCOMMA) && (c <? 128)) (field_text f) = true.
Proof.
  destruct f as [name value]. unfold field_ok_d, field_text, display_fmatch. simpl.
  intros H. apply andb_true_iff in H. destruct H as [HN HV].
  destruct (name_text_facts name HN) as (c & r & -> & W & NC).
  assert (NCf : forall x, In x (c :: r) -> name_char x = true) by (intros x; apply forallb_In; auto).
  destruct value as [v|].
  - unfold value_ok in HV. apply andb_true_iff in HV. destruct HV as [HV PV]. apply andb_true_iff in HV. destruct HV as [NE VC].
    set (t := display_vmatch v) in *.
    assert (VCf : forall x, In x t -> value_char x = true) by (intros x; apply forallb_In; auto).
    destruct (parse_value regex t) as [| |v'] eqn:PVe; try discriminate. apply vm_eqb_eq in PV. subst v'.
    assert (NEQ : ~ In cEQ (c :: r)) by (intros I; apply NCf, name_char_facts in I; tauto).
    assert (VEQ : ~ In cEQ t) by (intros I; apply VCf, value_char_facts in I; tauto).
    split; [|split].
    + unfold parse_fields.
      assert (NOC : existsb (fun b => b =? cCOMMA) ((c :: r) ++ cEQ :: t) = false).
      { destruct (existsb _ _) eqn:X; auto. apply existsb_exists in X. destruct X as (x & Hx & E). apply N.eqb_eq in E. subst x.
        apply in_app_or in Hx. destruct Hx as [Hx|[Hx|Hx]].
        - apply NCf, name_char_facts in Hx. tauto.
        - discriminate Hx.
        - apply VCf, value_char_facts in Hx. tauto. }
      rewrite NOC.
      assert (FF : find_field ((c :: r) ++ cEQ :: t) = Some ((c :: r) ++ cEQ :: t)).
      { change ((c :: r) ++ cEQ :: t) with (c :: (r ++ cEQ :: t)). unfold find_field. rewrite W.
        change (c :: r ++ cEQ :: t) with ((c :: r) ++ cEQ :: t). unfold field_ok.
        change (fun b : N => is_word b || (b =? cDOT)) with name_char.
        rewrite (span_while_stop name_char (c :: r) cEQ t NC eq_not_name_char).
        rewrite N.eqb_refl. destruct t; [discriminate | reflexivity]. }
      rewrite FF. unfold parse_fmatch. rewrite split_on_app by exact NEQ. rewrite split_on_nosep by exact VEQ.
      now rewrite PVe.
    + discriminate.
    + rewrite forallb_forall. intros x Hx. apply in_app_or in Hx. destruct Hx as [Hx|[<-|Hx]].
      * apply NCf, name_char_facts in Hx. rewrite !andb_true_iff, !negb_true_iff, !N.eqb_neq, N.ltb_lt. tauto.
      * reflexivity.
      * apply VCf, value_char_facts in Hx. rewrite !andb_true_iff, !negb_true_iff, !N.eqb_neq, N.ltb_lt. tauto.
  - rewrite app_nil_r. split; [|split].
    + unfold parse_fields.
      assert (NOC : existsb (fun b => b =? cCOMMA) (c :: r) = false).
      { destruct (existsb _ _) eqn:X; auto. apply existsb_exists in X. destruct X as (x & Hx & E). apply N.eqb_eq in E. subst x.
        apply NCf, name_char_facts in Hx. tauto. }
      rewrite NOC.
      assert (FF : find_field (c :: r) = Some (c :: r)).
      { unfold find_field. rewrite W. unfold field_ok. change (fun b : N => is_word b || (b =? cDOT)) with name_char.
        now rewrite (span_while_all name_char (c :: r) NC). }
      rewrite FF. unfold parse_fmatch. rewrite split_on_nosep; [reflexivity|].
      intros I. apply NCf, name_char_facts in I. tauto.
    + discriminate.
    + rewrite forallb_forall. intros x Hx.
      apply NCf, name_char_facts in Hx. rewrite !andb_true_iff, !negb_true_iff, !N.eqb_neq, N.ltb_lt. tauto.
Qed.

(** * The bracket part *)
Lemma last_rev_app {A} (l : list A) x : rev (l ++ [x]) = x :: rev l.
Proof. now rewrite rev_app_distr. Qed.

Definition field_part (fs : list fmatch) : bytes :=
  match fs with [] => [] | _ => [cLC] ++ join [cCOMMA] (map display_fmatch fs) ++ [cRC] end.

Definition inner_text (d : ddir) : bytes :=
  (match d_span d with Some n => n | None => [] end) ++ field_part (d_fields d).

Lemma parse_inner_gen regex n fs :
  forallb span_char n = true ->
  (match fs with [] => true | [f] => field_ok_d regex f | _ => false end) = true ->
  (negb (is_nil n) || negb (is_nil fs)) = true ->
  parse_span_part regex (n ++ field_part fs) = POk ((if is_nil n then None else Some n), fs) /\
  ~ In cRB (n ++ field_part fs) /\ is_ascii (n ++ field_part fs) = true.
Proof.
  intros SC WF B.
  assert (SCf : forall x, In x n -> span_char x = true) by (intros x; apply forallb_In; auto).
  set (stop := fun b : N => negb ((b =? cRB) || (b =? cLC))).
  assert (STOPn : forallb stop n = true).
  { rewrite forallb_forall. intros x Hx. apply SCf, span_char_facts in Hx. unfold stop.
    apply negb_true_iff, orb_false_iff. rewrite !N.eqb_neq. tauto. }
  assert (HEAD : match n with [] => True | c :: _ => is_bracket c = false end).
  { destruct n as [|c r]; auto. assert (I : In c (c :: r)) by (simpl; auto). apply SCf, span_char_facts in I.
    unfold is_bracket. apply orb_false_iff. rewrite !N.eqb_neq. tauto. }
  destruct fs as [|f [|? ?]]; try discriminate.
  - (* a span name only *)
    unfold field_part. rewrite app_nil_r. simpl in B. rewrite orb_false_r in B.
    split; [|split].
    + unfold parse_span_part. rewrite trim_id.
      * fold stop. rewrite (span_while_all stop n STOPn). destruct n; [discriminate B | reflexivity].
      * exact HEAD.
      * destruct (rev n) as [|z zs] eqn:R; auto. assert (I : In z n) by (apply in_rev; rewrite R; simpl; auto).
        apply SCf, span_char_facts in I. unfold is_bracket. apply orb_false_iff. rewrite !N.eqb_neq. tauto.
    + intros I. apply SCf, span_char_facts in I. tauto.
    + apply is_ascii_spec. intros x I. apply SCf, span_char_facts in I. tauto.
  - (* one field *)
    destruct (parse_field regex f WF) as (PF & FNE & FC). unfold field_text in *. unfold field_part. simpl join.
    set (ft := display_fmatch f) in *.
    assert (FCf : forall x, In x ft -> x <> cRC /\ x <> cRB /\ x <> cCOMMA /\ x < 128).
    { intros x Hx. pose proof (forallb_In _ _ _ FC Hx) as Q. simpl in Q.
      rewrite !andb_true_iff, !negb_true_iff, !N.eqb_neq, N.ltb_lt in Q. tauto. }
    split; [|split].
    + unfold parse_span_part. rewrite trim_id.
      * fold stop. change (n ++ [cLC] ++ ft ++ [cRC]) with (n ++ cLC :: (ft ++ [cRC])).
        rewrite (span_while_stop stop n cLC (ft ++ [cRC]) STOPn eq_refl).
        rewrite N.eqb_refl.
        assert (SW : span_while (fun b => negb (b =? cRC)) (ft ++ [cRC]) = (ft, [cRC])).
        { apply span_while_stop; [|reflexivity]. rewrite forallb_forall. intros x Hx. apply negb_true_iff, N.eqb_neq.
          apply FCf in Hx. tauto. }
        rewrite SW, PF. reflexivity.
      * destruct n as [|c r]; [reflexivity | exact HEAD].
      * change (n ++ [cLC] ++ ft ++ [cRC]) with (n ++ (cLC :: ft) ++ [cRC]). rewrite app_assoc, last_rev_app. reflexivity.
    + intros I. apply in_app_or in I. destruct I as [I|I].
      * apply SCf, span_char_facts in I. tauto.
      * simpl in I. destruct I as [I|I]; [discriminate I|]. apply in_app_or in I. destruct I as [I|[I|[]]].
        -- apply FCf in I. tauto.
        -- discriminate I.
    + apply is_ascii_spec. intros x I. apply in_app_or in I. destruct I as [I|I].
      * apply SCf, span_char_facts in I. tauto.
      * simpl in I. destruct I as [<-|I]; [unfold cLC; lia|]. apply in_app_or in I. destruct I as [I|[<-|[]]].
        -- apply FCf in I. tauto.
        -- unfold cRC; lia.
Qed.

Lemma parse_inner regex d : wf_d regex d = true -> (is_some (d_span d) || negb (is_nil (d_fields d))) = true ->
  parse_span_part regex (inner_text d) = POk (d_span d, d_fields d) /\
  ~ In cRB (inner_text d) /\ is_ascii (inner_text d) = true.
Proof.
  destruct d as [tg sp fs lv]. unfold wf_d, inner_text. simpl. intros W B.
  apply andb_true_iff in W. destruct W as [W WF]. apply andb_true_iff in W. destruct W as [_ WS].
  destruct sp as [m|].
  - unfold span_text in WS. apply andb_true_iff in WS. destruct WS as [NE SC].
    destruct (parse_inner_gen regex m fs SC WF) as (P & Q & R).
    + now rewrite NE.
    + rewrite P. destruct m; [discriminate NE|]. auto.
  - simpl in B. destruct (parse_inner_gen regex [] fs eq_refl WF B) as (P & Q & R). auto.
Qed.

(** * One directive *)
Lemma display_ddir_is d :
  display_ddir d =
  (match d_target d with Some t => t | None => [] end) ++
  (if is_some (d_span d) || negb (is_nil (d_fields d)) then [cLB] ++ inner_text d ++ [cRB] else []) ++
  (if is_some (d_target d) || (is_some (d_span d) || negb (is_nil (d_fields d))) then [cEQ] else []) ++ disp_level (d_level d).
Proof.
  unfold display_ddir, inner_text, field_part. destruct d as [tg sp fs lv]. cbn [d_target d_span d_fields d_level].
  destruct tg, sp, fs as [|f fs]; cbn [is_some is_nil negb orb app]; repeat (progress (rewrite <- ?app_assoc; cbn [app])); reflexivity.
Qed.

Lemma take_part_bracket inner rest : ~ In cRB inner -> take_part (cLB :: inner ++ cRB :: rest) = Some (PB inner, rest).
Proof.
  intros H. unfold take_part. change (is_target_char cLB) with false. cbv iota. rewrite N.eqb_refl.
  rewrite (span_while_stop (fun b => negb (b =? cRB)) inner cRB rest).
  - reflexivity.
  - rewrite forallb_forall. intros x Hx. apply negb_true_iff, N.eqb_neq. intros ->. auto.
  - now rewrite N.eqb_refl.
Qed.

Lemma suffix_level l : parse_suffix (cEQ :: disp_level l) = Some (Some (disp_level l)).
Proof.
  unfold parse_suffix. rewrite N.eqb_refl. destruct (disp_level_tok l) as [T _]. rewrite T.
  destruct (disp_level l) eqn:E; [discriminate T | reflexivity].
Qed.

Theorem roundtrip_ddir : forall regex d, wf_d regex d = true -> parse_ddir regex (display_ddir d) = POk d.
Proof.
  intros regex d W. destruct (is_some (d_span d) || negb (is_nil (d_fields d))) eqn:B.
  2:{ (* no bracket part: a piece of the common grammar *)
    apply orb_false_iff in B. destruct B as [B1 B2]. apply negb_false_iff in B2.
    destruct d as [tg sp fs lv]. simpl in *. destruct sp; [discriminate|]. destruct fs; [|discriminate].
    unfold display_ddir. simpl. destruct (disp_level_tok lv) as [T PFl].
    destruct tg as [t|]; simpl.
    - unfold wf_d in W. simpl in W. rewrite !andb_true_r in W. apply andb_true_iff in W. destruct W as [TT NL].
      apply negb_true_iff in NL.
      destruct (piece_pair t (disp_level lv) regex TT NL T) as (f & S & P).
      assert (f = lv).
      { destruct (target_text_facts t TT) as (_ & _ & NEQ & NLB & _). destruct (level_tok_word _ T) as (_ & Wd).
        unfold parse_sdir in S. rewrite split_on_app in S by auto.
        rewrite split_on_nosep in S by (intros I; apply Wd, word_not_eq in I; tauto).
        rewrite (no_lb_find2 t NLB), PFl in S. now inversion S. }
      subst f. exact P.
    - destruct (piece_level (disp_level lv) regex T) as (f & S & P).
      assert (f = lv).
      { destruct (level_tok_word _ T) as (_ & Wd). unfold parse_sdir in S.
        rewrite split_on_nosep in S by (intros I; apply Wd, word_not_eq in I; tauto). rewrite PFl in S. now inversion S. }
      subst f. exact P. }
  destruct (parse_inner regex d W B) as (PI & NRB & ASC).
  rewrite display_ddir_is, B. rewrite orb_true_r.
  set (inner := inner_text d) in *. destruct (disp_level_tok (d_level d)) as [T PFl].
  destruct (level_tok_word _ T) as (LNE & Wd).
  assert (LASC : forall x, In x (disp_level (d_level d)) -> x < 128) by (intros x I; apply Wd, word_not_eq in I; tauto).
  assert (WT : match d_target d with Some t => target_text t = true /\ levelish t = false | None => True end).
  { unfold wf_d in W. apply andb_true_iff in W. destruct W as [W _]. apply andb_true_iff in W. destruct W as [W _].
    destruct (d_target d); auto. apply andb_true_iff in W. destruct W as [W1 W2]. apply negb_true_iff in W2. auto. }
  set (tail := [cLB] ++ inner ++ [cRB] ++ [cEQ] ++ disp_level (d_level d)).
  assert (TAIL : ([cLB] ++ inner ++ [cRB]) ++ [cEQ] ++ disp_level (d_level d) = cLB :: inner ++ cRB :: (cEQ :: disp_level (d_level d))).
  { simpl. now rewrite <- app_assoc. }
  rewrite TAIL.
  assert (TASC : forall x, In x (cLB :: inner ++ cRB :: cEQ :: disp_level (d_level d)) -> x < 128).
  { intros x [<-|I]; [unfold cLB; lia|]. apply in_app_or in I. destruct I as [I|[<-|[<-|I]]].
    - rewrite is_ascii_spec in ASC. auto.
    - unfold cRB; lia.
    - unfold cEQ; lia.
    - auto. }
  assert (NOTOK : forall pre, is_level_tok (pre ++ cLB :: inner ++ cRB :: cEQ :: disp_level (d_level d)) = false).
  { intros pre. destruct (is_level_tok (pre ++ cLB :: inner ++ cRB :: cEQ :: disp_level (d_level d))) eqn:E; auto. exfalso.
    destruct (level_tok_word (pre ++ cLB :: inner ++ cRB :: cEQ :: disp_level (d_level d)) E) as (_ & W').
    assert (I : In cLB (pre ++ cLB :: inner ++ cRB :: cEQ :: disp_level (d_level d))) by (apply in_or_app; right; simpl; auto).
    apply W', word_not_eq in I. tauto. }
  unfold parse_ddir.
  destruct (d_target d) as [t|] eqn:ET.
  - destruct WT as [TT NL]. destruct (target_text_facts t TT) as (_ & _ & _ & _ & TA).
    assert (A : is_ascii (t ++ cLB :: inner ++ cRB :: cEQ :: disp_level (d_level d)) = true).
    { apply is_ascii_spec. intros x I. apply in_app_or in I. destruct I as [I|I]; [rewrite is_ascii_spec in TA; auto | auto]. }
    rewrite A, NOTOK. simpl negb. cbv iota.
    rewrite (take_part_target t (cLB :: inner ++ cRB :: cEQ :: disp_level (d_level d)) TT) by reflexivity.
    rewrite (take_part_bracket inner (cEQ :: disp_level (d_level d)) NRB).
    rewrite suffix_level. unfold last_target, last_span. simpl fold_left.
    assert (PFt : parse_filter t = None) by (unfold levelish in NL; destruct (parse_filter t); [discriminate | reflexivity]).
    rewrite PFl, PI. destruct d; simpl in *. rewrite PFt. simpl. now subst.
  - assert (A : is_ascii (cLB :: inner ++ cRB :: cEQ :: disp_level (d_level d)) = true) by (apply is_ascii_spec; auto).
    pose proof (NOTOK []) as NT0. simpl app in NT0. simpl app. rewrite A, NT0. simpl negb. cbv iota.
    rewrite (take_part_bracket inner (cEQ :: disp_level (d_level d)) NRB).
    change (take_part (cEQ :: disp_level (d_level d))) with (@None (part * bytes)). cbv iota.
    rewrite suffix_level. unfold last_target, last_span. simpl fold_left.
    rewrite PFl, PI. destruct d; simpl in *. now subst.
Qed.

Definition env_static_inputs (dirs : list ddir) : list sdir :=
  filter_map to_static (filter (fun d => negb (is_dynamic d)) dirs) ++ filter_map to_static (filter is_dynamic dirs).

(** * Filters: Display then parse gives back the same two directive tables.
    Class covered: every directive is of the modelled grammar and is either plain (`target=level`, bare level, bare
    target) or properly dynamic (a span name or a value matcher); a field-name-only directive such as `[{x}]=info` sits
    in both tables and is not covered here.  The two cached `max_level`s are F21's subject (C11_roundtrip_static). *)
Definition plain (d : ddir) : bool := negb (is_some (d_span d)) && is_nil (d_fields d).
Definition proper_dyn (d : ddir) : bool := is_dynamic d && negb (is_static d).
Definition in_class (regex : bool) (d : ddir) : bool := wf_d regex d && (plain d || proper_dyn d).

Lemma display_sdir_lift s : s_fields s = [] -> display_sdir s = display_ddir (lift s).
Proof. destruct s as [[t|] fs l]; simpl; intros ->; reflexivity. Qed.

Lemma level_nocomma l : ~ In cCOMMA (disp_level l) /\ disp_level l <> [].
Proof. destruct (disp_level_facts l) as (_ & _ & C & _). apply nomem_spec in C. split; auto. destruct l as [[]|]; discriminate. Qed.

Lemma display_ddir_nocomma regex d : wf_d regex d = true -> ~ In cCOMMA (display_ddir d) /\ display_ddir d <> [].
Proof.
  intros W. rewrite display_ddir_is. destruct (level_nocomma (d_level d)) as [LC LNE]. split.
  2:{ intros E. apply app_eq_nil in E. destruct E as [_ E]. apply app_eq_nil in E. destruct E as [_ E].
      apply app_eq_nil in E. destruct E as [_ E]. auto. }
  assert (TC : ~ In cCOMMA (match d_target d with Some t => t | None => [] end)).
  { unfold wf_d in W. apply andb_true_iff in W. destruct W as [W _]. apply andb_true_iff in W. destruct W as [W _].
    destruct (d_target d) as [t|]; [|tauto]. apply andb_true_iff in W. destruct W as [TT _].
    destruct (target_text_facts t TT) as (_ & A & _). intros I. apply (forallb_In _ _ _ A), target_char_facts in I. tauto. }
  assert (IC : (is_some (d_span d) || negb (is_nil (d_fields d))) = true -> ~ In cCOMMA (inner_text d)).
  { intros B. destruct d as [tg sp fs lv]. unfold wf_d in W. simpl in *.
    apply andb_true_iff in W. destruct W as [W WF]. apply andb_true_iff in W. destruct W as [_ WS].
    unfold inner_text. simpl. intros I. apply in_app_or in I. destruct I as [I|I].
    - destruct sp as [n|]; [|destruct I]. unfold span_text in WS. apply andb_true_iff in WS. destruct WS as [_ SC].
      apply (forallb_In _ _ _ SC), span_char_facts in I. tauto.
    - destruct fs as [|f [|? ?]]; try discriminate; [destruct I|].
      destruct (parse_field regex f WF) as (_ & _ & FC). unfold field_part in I. simpl in I.
      destruct I as [I|I]; [discriminate I|]. apply in_app_or in I. destruct I as [I|[I|[]]]; [|discriminate I].
      pose proof (forallb_In _ _ _ FC I) as Q. vm_compute in Q. discriminate Q. }
  intros I. apply in_app_or in I. destruct I as [I|I]; [tauto|].
  apply in_app_or in I. destruct I as [I|I].
  - destruct (is_some (d_span d) || negb (is_nil (d_fields d))) eqn:B; [|destruct I].
    simpl in I. destruct I as [I|I]; [discriminate I|]. apply in_app_or in I. destruct I as [I|[I|[]]]; [|discriminate I].
    apply IC; auto.
  - apply in_app_or in I. destruct I as [I|I]; [|tauto].
    destruct (is_some (d_target d) || _); [|destruct I]. destruct I as [I|[]]. discriminate I.
Qed.

Lemma collect_all_ok {A} (l : list A) : collect_parse false (map (@POk A) l) = POk l.
Proof. induction l as [|x l IH]; simpl; auto. now rewrite IH. Qed.

(** the text part: a list of such directives, printed with commas, parses back to the same list *)
Lemma parse_dirs_display regex (L : list ddir) : L <> [] -> (forall d, In d L -> wf_d regex d = true) ->
  parse_dirs regex false (join [cCOMMA] (map display_ddir L)) = POk L.
Proof.
  intros NE W. unfold parse_dirs. rewrite split_on_join.
  - assert (F : filter (fun p => negb (is_nil p)) (map display_ddir L) = map display_ddir L).
    { clear NE. induction L as [|d L IH]; simpl; auto.
      destruct (display_ddir_nocomma regex d (W d (or_introl eq_refl))) as [_ N].
      destruct (display_ddir d); [congruence|]. simpl. f_equal. apply IH. intros; apply W; simpl; auto. }
    rewrite F, map_map.
    rewrite (map_ext_in _ (fun d => POk d)) by (intros d Hd; apply roundtrip_ddir; auto).
    apply collect_all_ok.
  - intros E. apply map_eq_nil in E. auto.
  - intros p Hp. apply in_map_iff in Hp. destruct Hp as (d & <- & Hd). apply (display_ddir_nocomma regex d); auto.
Qed.

Lemma display_env_is e : (forall s, In s (ds_dirs (e_statics e)) -> s_fields s = []) ->
  display_env e = join [cCOMMA] (map display_ddir (map lift (ds_dirs (e_statics e)) ++ ds_dirs (e_dynamics e))).
Proof.
  intros NF. unfold display_env. rewrite map_app, map_map. f_equal. f_equal.
  apply map_ext_in. intros s Hs. apply display_sdir_lift; auto.
Qed.

Lemma wf_lift regex s : s_fields s = [] ->
  (match s_target s with Some t => target_text t && negb (levelish t) | None => true end) = true -> wf_d regex (lift s) = true.
Proof. intros F T. unfold wf_d, lift. simpl. now rewrite T. Qed.

Lemma in_filter_map {A B} (f : A -> option B) l y : In y (filter_map f l) <-> exists x, In x l /\ f x = Some y.
Proof.
  induction l as [|x l IH]; simpl.
  - split; [tauto | intros (x & [] & _)].
  - destruct (f x) as [z|] eqn:E; simpl; rewrite IH; split.
    + intros [<-|(x' & H1 & H2)]; eauto.
    + intros (x' & [<-|H1] & H2); [left; congruence | eauto].
    + intros (x' & H1 & H2); eauto.
    + intros (x' & [<-|H1] & H2); [congruence | eauto].
Qed.

Theorem roundtrip_env_tables : forall regex (ds : list ddir),
  (forall d, In d ds -> in_class regex d = true) ->
  let e := env_build None ds in
  exists e', parse_env regex false None (display_env e) = POk e' /\
             ds_dirs (e_statics e') = ds_dirs (e_statics e) /\
             ds_dirs (e_dynamics e') = ds_dirs (e_dynamics e) /\
             e_has_dyn e' = e_has_dyn e.
Proof.
  intros regex ds CL e.
  assert (ES : e_statics e = s_build (env_static_inputs ds)) by (unfold e, env_build; match goal with |- context [if ?c then _ else _] => destruct c end; reflexivity).
  assert (ED : e_dynamics e = d_build (filter is_dynamic ds)) by (unfold e, env_build; match goal with |- context [if ?c then _ else _] => destruct c end; reflexivity).
  assert (EH : e_has_dyn e = negb (is_nil (ds_dirs (e_dynamics e)))).
  { unfold e, env_build. match goal with |- context [if ?c then _ else _] => destruct c end; reflexivity. }
  set (S := ds_dirs (e_statics e)) in *. set (D := ds_dirs (e_dynamics e)) in *.
  (* what the tables hold *)
  assert (HS : forall s, In s S -> s_fields s = [] /\ wf_d regex (lift s) = true).
  { intros s Hs. unfold S in Hs. rewrite ES in Hs. apply replace_build in Hs. destruct Hs as (l1 & l2 & E & _).
    assert (I : In s (env_static_inputs ds)) by (rewrite E; apply in_or_app; right; simpl; auto).
    unfold env_static_inputs in I. apply in_app_or in I.
    assert (Q : exists d, In d ds /\ to_static d = Some s).
    { destruct I as [I|I]; apply in_filter_map in I; destruct I as (d & Hd & T); apply filter_In in Hd; exists d; tauto. }
    destruct Q as (d & Hd & T). specialize (CL d Hd). unfold in_class in CL. apply andb_true_iff in CL. destruct CL as [W C].
    unfold to_static in T. destruct (is_static d) eqn:IS; [|discriminate]. inversion T; subst s. clear T. simpl.
    assert (P : plain d = true).
    { apply orb_true_iff in C. destruct C as [C|C]; auto. unfold proper_dyn in C. rewrite IS in C. now rewrite andb_false_r in C. }
    unfold plain in P. apply andb_true_iff in P. destruct P as [P1 P2]. destruct (d_fields d); [|discriminate]. simpl.
    split; auto. unfold wf_d in *. simpl. apply andb_true_iff in W. destruct W as [W _]. apply andb_true_iff in W. destruct W as [W _].
    now rewrite W. }
  assert (HD : forall d, In d D -> wf_d regex d = true /\ is_dynamic d = true /\ to_static d = None).
  { intros d Hd. unfold D in Hd. rewrite ED in Hd. apply replace_build_d in Hd. destruct Hd as (l1 & l2 & E & _).
    assert (I : In d (filter is_dynamic ds)) by (rewrite E; apply in_or_app; right; simpl; auto).
    apply filter_In in I. destruct I as [I DY]. specialize (CL d I). unfold in_class in CL. apply andb_true_iff in CL.
    destruct CL as [W C]. split; auto. split; auto.
    apply orb_true_iff in C. destruct C as [C|C].
    - exfalso. unfold plain in C. unfold is_dynamic in DY. apply andb_true_iff in C. destruct C as [C1 C2].
      apply negb_true_iff in C1. rewrite C1, C2 in DY. discriminate.
    - unfold proper_dyn in C. apply andb_true_iff in C. destruct C as [_ C]. apply negb_true_iff in C.
      unfold to_static. now rewrite C. }
  set (L := map lift S ++ D).
  assert (WL : forall d, In d L -> wf_d regex d = true).
  { intros d Hd. apply in_app_or in Hd. destruct Hd as [Hd|Hd].
    - apply in_map_iff in Hd. destruct Hd as (s & <- & Hs). apply HS; auto.
    - apply HD; auto. }
  assert (DISP : display_env e = join [cCOMMA] (map display_ddir L)).
  { apply display_env_is. intros s Hs. apply HS; auto. }
  (* the tables rebuilt from L *)
  assert (FD : filter is_dynamic L = D).
  { unfold L. rewrite filter_app. replace (filter is_dynamic (map lift S)) with (@nil ddir) by (symmetry; apply no_dynamic_lift).
    simpl. clear - HD. induction D as [|d D IH]; simpl; auto. destruct (HD d (or_introl eq_refl)) as (_ & DY & _). rewrite DY.
    f_equal. apply IH. intros; apply HD; simpl; auto. }
  assert (FS : filter (fun d => negb (is_dynamic d)) L = map lift S).
  { unfold L. rewrite filter_app. replace (filter (fun d => negb (is_dynamic d)) (map lift S)) with (map lift S) by (symmetry; apply no_dynamic_lift).
    replace (filter (fun d => negb (is_dynamic d)) D) with (@nil ddir); [apply app_nil_r|].
    clear - HD. induction D as [|d D IH]; simpl; auto. destruct (HD d (or_introl eq_refl)) as (_ & DY & _). rewrite DY. simpl.
    apply IH. intros; apply HD; simpl; auto. }
  assert (TD : filter_map to_static D = []).
  { clear - HD. induction D as [|d D IH]; simpl; auto. destruct (HD d (or_introl eq_refl)) as (_ & _ & T). rewrite T.
    apply IH. intros; apply HD; simpl; auto. }
  assert (EB : env_build None L = mk_envf (s_build S) (d_build D) (negb (is_nil (ds_dirs (d_build D))))).
  { unfold env_build. rewrite FD, FS, TD, app_nil_r.
    rewrite (filter_map_lift S) by (intros s Hs; apply HS; auto).
    match goal with |- context [if ?c then _ else _] => destruct c end; reflexivity. }
  assert (SS : ds_dirs (s_build S) = S).
  { unfold S. rewrite ES. rewrite (s_build_is (ds_dirs _)). apply build_dirs_sorted_id, sorted_build. }
  assert (DD : ds_dirs (d_build D) = D).
  { unfold D. rewrite ED. rewrite (d_build_is (ds_dirs _)).
    apply (build_dirs_sorted_id key_d spec_cmp_dk d_level). apply sorted_build_d. }
  destruct L as [|d0 L0] eqn:EL.
  - (* nothing to print *)
    assert (S = [] /\ D = []) as [S0 D0].
    { unfold L in EL. apply app_eq_nil in EL. destruct EL as [E1 E2]. apply map_eq_nil in E1. auto. }
    exists (env_build None []). split; [|split; [|split]].
    + rewrite DISP. reflexivity.
    + fold S. rewrite S0. reflexivity.
    + fold D. rewrite D0. reflexivity.
    + rewrite EH. fold D. rewrite D0. reflexivity.
  - exists (env_build None (d0 :: L0)). split; [|split; [|split]].
    + unfold parse_env. rewrite DISP, parse_dirs_display; auto. discriminate.
    + rewrite EB. simpl. exact SS.
    + rewrite EB. simpl. exact DD.
    + rewrite EB, EH. simpl. fold D. now rewrite DD.
Qed.

(** * Members of the grammar (non-vacuity; integers, booleans, Debug literals, both modes) *)
Definition ex_dirs : list ddir :=
  [mk_ddir (Some [97; 112; 112]) (Some [115; 112]) [mk_fmatch [120] (Some (VU64 42))] (Some Debug);
   mk_ddir None (Some [109; 121; 32; 115; 112; 97; 110]) [] (Some Trace);
   mk_ddir None None [mk_fmatch [114; 101; 113; 46; 105; 100] (Some (VI64 (-7)))] (Some Info);
   mk_ddir (Some [97; 58; 58; 98]) None [mk_fmatch [121] (Some (VBool false))] None;
   mk_ddir (Some [97; 112; 112]) None [] (Some Warn);
   mk_ddir None None [] (Some Error)].
Example grammar_members : forallb (in_class true) ex_dirs = true /\
  in_class false (mk_ddir None (Some [115; 112]) [mk_fmatch [120] (Some (VDebugLit [49; 97]))] (Some Debug)) = true /\
  in_class false (mk_ddir None None [mk_fmatch [120] None] (Some Info)) = false.
Proof. repeat split; vm_compute; reflexivity. Qed.

Example grammar_members_wf : forallb (wf_d true) ex_dirs = true /\
  wf_d false (mk_ddir None (Some [115; 112]) [mk_fmatch [120] (Some (VDebugLit [49; 97]))] (Some Debug)) = true /\
  wf_d true (mk_ddir None (Some [115; 112]) [mk_fmatch [120] (Some (VDebugLit [49; 97]))] (Some Debug)) = false.
Proof. repeat split; vm_compute; reflexivity. Qed.

(** an integer written `-0` is read as I64(0) and printed as `0`, which is read as U64(0): outside [value_ok] *)
Example noncanonical_integer :
  value_ok true (VI64 0) = false /\
  exists d d', parse_ddir true [91; 115; 112; 123; 120; 61; 45; 48; 125; 93] = POk d /\    (* "[sp{x=-0}]" *)
               parse_ddir true (display_ddir d) = POk d' /\ d <> d'.
Proof. split; [vm_compute; reflexivity|]. eexists _, _. repeat split; try (vm_compute; reflexivity). discriminate. Qed.
