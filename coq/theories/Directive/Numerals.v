(** C11 — integer value matchers: `Display` of a u64 / negative i64 is read back as the same matcher by
    `ValueMatch::parse_*` (bool, then u64, then i64, ...), so every such value is inside [value_ok]. *)
From TV Require Import Levels.Model Levels.Proofs Directive.Model Directive.Order Directive.Static Directive.Text Directive.Dyn
  Directive.Agree Directive.EnvText.
From Coq Require Import Lia.
Local Open Scope N_scope.
Local Opaque gen_add_recomputes_max gen_debug_match_exact gen_valuematch_eq_debug.
Local Arguments N.add : simpl never.
Local Arguments N.mul : simpl never.
Local Arguments N.sub : simpl never.
Local Arguments N.div : simpl never.
Local Arguments N.modulo : simpl never.
Local Arguments N.pow : simpl never.
Local Arguments N.leb : simpl never.
Local Arguments N.eqb : simpl never.

(** the value of a digit string read after an accumulator *)
Definition dval (a : N) (ds : bytes) : N := fold_left (fun acc d => acc * 10 + (d - 48)) ds a.

Lemma dval_app a l r : dval a (l ++ r) = dval (dval a l) r.
Proof. unfold dval. apply fold_left_app. Qed.
Lemma dval_ge ds : forall a, a <= dval a ds.
Proof.
  induction ds as [|d ds IH]; intros a; simpl; [lia|]. etransitivity; [|apply IH]. lia.
Qed.

Lemma size_nat_bound n : n < 2 ^ N.of_nat (N.size_nat n).
Proof.
  destruct n as [|p]; [reflexivity|]. simpl N.size_nat.
  induction p as [p IH|p IH|]; simpl Pos.size_nat; rewrite ?Nat2N.inj_succ, ?N.pow_succ_r'; try lia; try reflexivity.
Qed.

Lemma dec_digits_spec : forall fuel n acc, n < 2 ^ N.of_nat (S fuel) ->
  exists ds, dec_digits (S fuel) n acc = ds ++ acc /\ ds <> [] /\ forallb is_digit ds = true /\
             forall a, dval a ds = a * 10 ^ N.of_nat (List.length ds) + n.
Proof.
  induction fuel as [|f IH]; intros n acc H.
  - assert (L : n < 2) by (simpl in H; lia).
    assert (D : n / 10 = 0) by (apply N.div_small; lia).
    assert (M : n mod 10 = n) by (apply N.mod_small; lia).
    exists [48 + n]. simpl. rewrite D, M. change (0 =? 0) with true. cbv iota.
    split; [reflexivity|]. split; [discriminate|]. split.
    + unfold is_digit. assert (Q : (48 <=? 48 + n) && (48 + n <=? 57) = true) by (apply andb_true_iff; split; apply N.leb_le; lia).
      now rewrite Q.
    + intros a. change (10 ^ N.of_nat 1) with 10. lia.
  - change (dec_digits (S (S f)) n acc) with
      (let acc' := (48 + n mod 10) :: acc in if n / 10 =? 0 then acc' else dec_digits (S f) (n / 10) acc').
    cbv zeta. destruct (N.eqb_spec (n / 10) 0) as [D|D].
    + assert (L : n < 10) by (apply N.div_small_iff in D; lia).
      assert (M : n mod 10 = n) by (apply N.mod_small; lia). rewrite M.
      exists [48 + n]. split; [reflexivity|]. split; [discriminate|]. split.
      * simpl. unfold is_digit. assert (Q : (48 <=? 48 + n) && (48 + n <=? 57) = true) by (apply andb_true_iff; split; apply N.leb_le; lia).
        now rewrite Q.
      * intros a. simpl. change (10 ^ N.of_nat 1) with 10. lia.
    + assert (B : n / 10 < 2 ^ N.of_nat (S f)).
      { rewrite Nat2N.inj_succ in H. rewrite N.pow_succ_r' in H.
        apply N.div_lt_upper_bound; [lia|]. lia. }
      destruct (IH (n / 10) ((48 + n mod 10) :: acc) B) as (ds & E & NE & DG & V).
      exists (ds ++ [48 + n mod 10]). split; [|split; [|split]].
      * rewrite E. now rewrite <- app_assoc.
      * destruct ds; discriminate.
      * rewrite forallb_app'. rewrite DG. simpl. unfold is_digit.
        assert (R : n mod 10 < 10) by (apply N.mod_lt; lia).
        assert (Q : forall r, r < 10 -> (48 <=? 48 + r) && (48 + r <=? 57) = true)
          by (intros r0 Hr; apply andb_true_iff; split; apply N.leb_le; lia).
        now rewrite (Q _ R).
      * intros a. rewrite dval_app, V. simpl. rewrite app_length. simpl List.length.
        rewrite Nat.add_1_r, Nat2N.inj_succ, N.pow_succ_r'.
        pose proof (N.div_mod n 10 ltac:(lia)) as DM.
        remember (n mod 10) as r0 eqn:Er. remember (n / 10) as q0 eqn:Eq. remember (10 ^ N.of_nat (List.length ds)) as P0 eqn:EP.
        clear H B D IH E V Er Eq EP DG NE. nia.
Qed.

Lemma N_to_dec_spec n : exists ds, N_to_dec n = ds /\ ds <> [] /\ forallb is_digit ds = true /\ dval 0 ds = n.
Proof.
  unfold N_to_dec. destruct (dec_digits_spec (N.size_nat n) n []) as (ds & E & NE & DG & V).
  - eapply N.lt_le_trans; [apply size_nat_bound|]. apply N.pow_le_mono_r; lia.
  - exists ds. rewrite app_nil_r in E. split; auto. split; auto. split; auto. rewrite V. lia.
Qed.

Lemma parse_digits_dval : forall ds a, forallb is_digit ds = true -> dval a ds <= USIZE_MAX ->
  parse_digits a ds = Some (dval a ds).
Proof.
  induction ds as [|d ds IH]; intros a DG B; simpl; auto.
  simpl in DG. apply andb_true_iff in DG. destruct DG as [D1 D2]. rewrite D1.
  assert (L : a * 10 + (d - 48) <= USIZE_MAX) by (etransitivity; [apply dval_ge | exact B]).
  apply N.leb_le in L. rewrite L. apply IH; auto.
Qed.
Lemma digits_to_N_dval : forall ds a, forallb is_digit ds = true -> digits_to_N a ds = Some (dval a ds).
Proof.
  induction ds as [|d ds IH]; intros a DG; simpl; auto.
  simpl in DG. apply andb_true_iff in DG. destruct DG as [D1 D2]. rewrite D1. apply IH; auto.
Qed.

Lemma digit_range d : is_digit d = true -> 48 <= d <= 57.
Proof. apply is_digit_spec. Qed.

Lemma parse_usize_digits ds : ds <> [] -> forallb is_digit ds = true -> dval 0 ds <= USIZE_MAX ->
  parse_usize ds = Some (dval 0 ds).
Proof.
  intros NE DG B. destruct ds as [|c [|c2 r]]; [congruence| |].
  - simpl in DG. rewrite andb_true_r in DG. unfold parse_usize. rewrite DG. simpl. f_equal; lia.
  - unfold parse_usize. assert (C : (c =? 43) = false).
    { apply N.eqb_neq. simpl in DG. apply andb_true_iff in DG. destruct DG as [D _]. apply digit_range in D. lia. }
    rewrite C. apply parse_digits_dval; auto.
Qed.

Lemma digit_value_char d : is_digit d = true -> value_char d = true.
Proof.
  intros H. apply digit_range in H. unfold value_char, cCOMMA, cRC, cRB, cEQ.
  rewrite !andb_true_iff, !negb_true_iff, !N.eqb_neq, N.ltb_lt. lia.
Qed.

Lemma not_keyword c r w : c <> hd 0 w -> w <> [] -> list_eqb (c :: r) w = false.
Proof.
  destruct w as [|x w]; [congruence|]. simpl. intros H _. apply N.eqb_neq in H. unfold N.eqb in *. now rewrite H.
Qed.

Theorem u64_value_ok : forall regex n, n <= USIZE_MAX -> value_ok regex (VU64 n) = true.
Proof.
  intros regex n B. unfold value_ok. simpl display_vmatch.
  destruct (N_to_dec_spec n) as (ds & -> & NE & DG & V).
  assert (NN : is_nil ds = false) by (destruct ds; [congruence | reflexivity]). rewrite NN. simpl negb.
  assert (VC : forallb value_char ds = true).
  { rewrite forallb_forall. intros x Hx. apply digit_value_char. now apply (forallb_In _ _ _ DG). }
  rewrite VC. simpl andb.
  unfold parse_value.
  destruct ds as [|c r]; [congruence|].
  assert (C : 48 <= c <= 57) by (simpl in DG; apply andb_true_iff in DG; destruct DG as [D _]; now apply digit_range).
  rewrite (not_keyword c r b_true) by (simpl; try lia; discriminate).
  rewrite (not_keyword c r b_false) by (simpl; try lia; discriminate).
  rewrite parse_usize_digits; auto; [|rewrite V; exact B]. rewrite V.
  unfold vm_eqb. simpl. now rewrite N.compare_refl.
Qed.

Theorem i64_value_ok : forall regex z, (- 9223372036854775808 <= z < 0)%Z -> value_ok regex (VI64 z) = true.
Proof.
  intros regex z B. unfold value_ok. simpl display_vmatch.
  assert (ZN : (z <? 0)%Z = true) by (apply Z.ltb_lt; lia). rewrite ZN.
  set (m := Z.to_N (- z)).
  destruct (N_to_dec_spec m) as (ds & -> & NE & DG & V).
  simpl is_nil. simpl negb.
  assert (VC : forallb value_char (45 :: ds) = true).
  { simpl. rewrite forallb_forall. intros x Hx. apply digit_value_char. now apply (forallb_In _ _ _ DG). }
  rewrite VC. simpl andb. unfold parse_value.
  rewrite (not_keyword 45 ds b_true) by (simpl; try lia; discriminate).
  rewrite (not_keyword 45 ds b_false) by (simpl; try lia; discriminate).
  destruct ds as [|c r]; [congruence|].
  assert (PU : parse_usize (45 :: c :: r) = None).
  { unfold parse_usize. change (45 =? 43) with false. cbv iota. reflexivity. }
  rewrite PU.
  assert (PI : parse_i64 (45 :: c :: r) = Some z).
  { unfold parse_i64. change (45 =? 45) with true. cbv iota. rewrite digits_to_N_dval by exact DG. rewrite V.
    assert (L : m <=? I64_MAX + 1 = true) by (apply N.leb_le; unfold m, I64_MAX; lia). rewrite L. f_equal. unfold m. lia. }
  rewrite PI. unfold vm_eqb. simpl. now rewrite Z.compare_refl.
Qed.

Lemma bool_value_ok : forall regex b, value_ok regex (VBool b) = true.
Proof. intros regex [|]; vm_compute; reflexivity. Qed.

Lemma literal_values_ok :
  (forall regex n, n <= USIZE_MAX -> value_ok regex (VU64 n) = true) /\
  (forall regex z, (- 9223372036854775808 <= z < 0)%Z -> value_ok regex (VI64 z) = true) /\
  (forall regex b, value_ok regex (VBool b) = true).
Proof. exact (conj u64_value_ok (conj i64_value_ok bool_value_ok)). Qed.
