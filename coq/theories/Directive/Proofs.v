(** C11 — proofs over Directive/Model.v.  This file gathers the proof files:
      Order.v     lawful comparisons, keyed sorted insertion with replace-on-equal
      Static.v    static sets: sorted, last duplicate wins, most specific match, prefix semantics, would_enable
      Text.v      FromStr / Display of StaticDirective and Targets: splitting lemmas, the round trip, the level maximum
      Dyn.v       the order on EnvFilter directives; Ord vs PartialEq (F22); the maximum bounds every level
      Agree.v     Targets = EnvFilter on the common grammar (F23)
      Scope.v     the per-thread scope stack refines "entered, not yet exited"
      ScopeSpec.v the span-scoped clause against the property text (F24, F12), Debug literals (F25)
      EnvText.v   Display / parse of one EnvFilter directive of the modelled grammar
      EnvRound.v  Display / parse of whole EnvFilters (both tables, has_dynamics, the cached maxima)
      Numerals.v  integers and booleans print to a text that reads back as the same value matcher
      Headline.v  corollaries and examples *)
From TV Require Export Levels.Model Levels.Proofs Directive.Model Directive.Order Directive.Static Directive.Text
  Directive.Dyn Directive.Agree Directive.EnvText Directive.EnvRound Directive.Numerals Directive.Scope Directive.ScopeSpec Directive.Headline.
From Coq Require Import Lia Permutation Sorted.
Local Open Scope N_scope.

Lemma regex_pinned :
  gen_directive_unrecognised = [] /\ gen_directive_re = pinned_directive_re /\
  gen_span_part_re = pinned_span_part_re /\ gen_field_filter_re = pinned_field_filter_re.
Proof. repeat split; reflexivity. Qed.
