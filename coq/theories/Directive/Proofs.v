(** C11 — proofs over Directive/Model.v *)
From TV Require Import Levels.Model Levels.Proofs Directive.Model.
From Coq Require Import Lia Permutation Sorted.
Local Open Scope N_scope.

Lemma regex_pinned :
  gen_directive_unrecognised = [] /\ gen_directive_re = pinned_directive_re /\
  gen_span_part_re = pinned_span_part_re /\ gen_field_filter_re = pinned_field_filter_re.
Proof. repeat split; reflexivity. Qed.
