(** C11 — static directive sets: sorted, last duplicate wins, the most specific match decides, prefix semantics,
    would_enable. *)
From TV Require Import Levels.Model Levels.Proofs Directive.Model Directive.Order.
From Coq Require Import Lia Sorted Permutation.
Local Open Scope N_scope.

(** * Instantiating the keyed set for static directives *)
Definition s_sorted (l : list sdir) : Prop := StronglySorted (fun a b => cmp_s a b = Lt) l.

Lemma s_sorted_is l : s_sorted l <-> sorted key_s spec_cmp_k l.
Proof. reflexivity. Qed.

Lemma s_build_is l : s_build l = build key_s spec_cmp_k s_level l.
Proof. reflexivity. Qed.

Lemma sorted_build : forall l, s_sorted (ds_dirs (s_build l)).
Proof. intros l. apply (build_sorted key_s spec_cmp_k lawful_spec_k s_level l). Qed.

Definition last_entry (l : list sdir) (x : sdir) : Prop :=
  exists l1 l2, l = l1 ++ x :: l2 /\ forall y, In y l2 -> key_s y <> key_s x.

Lemma replace_build : forall l x, In x (ds_dirs (s_build l)) <-> last_entry l x.
Proof. intros l x. apply (build_mem key_s spec_cmp_k lawful_spec_k s_level l x). Qed.

(** * Equality tests *)
Lemma obytes_eqb_eq a b : obytes_eqb a b = true <-> a = b.
Proof.
  destruct a, b; simpl; try (split; congruence).
  rewrite list_eqb_eq. split; congruence.
Qed.
Lemma lbytes_eqb_eq a : forall b, lbytes_eqb a b = true <-> a = b.
Proof.
  induction a as [|x a IH]; destruct b as [|y b]; simpl; try (split; congruence).
  rewrite andb_true_iff, list_eqb_eq, IH. split; [intros [-> ->]; auto | intros E; inversion E; auto].
Qed.
Definition same_key (a b : sdir) : bool :=
  obytes_eqb (s_target a) (s_target b) && lbytes_eqb (s_fields a) (s_fields b).
Lemma same_key_eq a b : same_key a b = true <-> key_s a = key_s b.
Proof.
  unfold same_key, key_s. rewrite andb_true_iff, obytes_eqb_eq, lbytes_eqb_eq.
  split; [intros [-> ->]; auto | intros E; inversion E; auto].
Qed.

(** * Survivors: the input list with every entry that a later entry overrides removed (input order kept) *)
Fixpoint survivors (l : list sdir) : list sdir :=
  match l with
  | [] => []
  | d :: r => if existsb (fun y => same_key y d) r then survivors r else d :: survivors r
  end.

Lemma last_entry_cons d r x :
  last_entry (d :: r) x <-> (x = d /\ forall y, In y r -> key_s y <> key_s x) \/ last_entry r x.
Proof.
  split.
  - intros (l1 & l2 & E & N). destruct l1 as [|z l1]; simpl in E; inversion E; subst.
    + left; auto.
    + right. exists l1, l2; auto.
  - intros [[-> N] | (l1 & l2 & -> & N)].
    + exists [], r; auto.
    + exists (d :: l1), l2; auto.
Qed.

Lemma survivors_mem : forall l x, In x (survivors l) <-> last_entry l x.
Proof.
  induction l as [|d r IH]; intros x; simpl.
  - split; [tauto|]. intros (l1 & l2 & E & _). destruct l1; discriminate.
  - rewrite last_entry_cons. destruct (existsb (fun y => same_key y d) r) eqn:E.
    + rewrite IH. split; auto. intros [[-> N]|H]; auto. exfalso.
      apply existsb_exists in E. destruct E as (y & Hy & K). apply same_key_eq in K. exact (N y Hy K).
    + simpl. rewrite IH. split.
      * intros [<-|H]; auto. left. split; auto. intros y Hy K.
        assert (existsb (fun y => same_key y d) r = true); [|congruence].
        apply existsb_exists. exists y. split; auto. now apply same_key_eq.
      * intros [[-> _]|H]; auto.
Qed.

Lemma survivors_build l x : In x (survivors l) <-> In x (ds_dirs (s_build l)).
Proof. now rewrite survivors_mem, replace_build. Qed.

(** * The most specific caring directive, by a plain scan that assumes no order *)
Definition more_specific (a b : sdir) : bool := match spec_cmp a b with Gt => true | _ => false end.
Fixpoint best_of (m : meta) (l : list sdir) (acc : option sdir) : option sdir :=
  match l with
  | [] => acc
  | d :: r =>
      if cares_s d m then
        match acc with
        | None => best_of m r (Some d)
        | Some b => if more_specific d b then best_of m r (Some d) else best_of m r acc
        end
      else best_of m r acc
  end.
Definition best (l : list sdir) (m : meta) : option sdir := best_of m l None.

Definition sle (a b : sdir) : Prop := spec_cmp a b <> Gt.

Lemma spec_cmp_sym a b : spec_cmp b a = CompOpp (spec_cmp a b).
Proof. apply (l_sym _ lawful_spec_k). Qed.
Lemma spec_cmp_lt_trans a b c : spec_cmp a b = Lt -> spec_cmp b c = Lt -> spec_cmp a c = Lt.
Proof. apply (l_trans _ lawful_spec_k). Qed.
Lemma spec_cmp_eq a b : spec_cmp a b = Eq <-> key_s a = key_s b.
Proof. apply (l_eq _ lawful_spec_k). Qed.
Lemma spec_cmp_gt a b : spec_cmp a b = Gt <-> spec_cmp b a = Lt.
Proof. apply (lawful_gt_lt _ lawful_spec_k). Qed.

Lemma sle_trans a b c : sle a b -> sle b c -> sle a c.
Proof.
  unfold sle. intros H1 H2 G.
  destruct (spec_cmp a b) eqn:E1; try congruence; destruct (spec_cmp b c) eqn:E2; try congruence.
  - apply spec_cmp_eq in E1. apply spec_cmp_eq in E2. assert (spec_cmp a c = Eq) by (apply spec_cmp_eq; congruence). congruence.
  - apply spec_cmp_eq in E1. unfold spec_cmp in *. rewrite E1 in G. congruence.
  - apply spec_cmp_eq in E2. unfold spec_cmp in *. rewrite <- E2 in G. congruence.
  - assert (spec_cmp a c = Lt) by (eapply spec_cmp_lt_trans; eauto). congruence.
Qed.
Lemma sle_refl a : sle a a.
Proof. unfold sle. assert (spec_cmp a a = Eq) by (apply spec_cmp_eq; auto). congruence. Qed.
Lemma not_gt_sle a b : more_specific a b = false -> sle a b.
Proof. unfold more_specific, sle. destruct (spec_cmp a b); congruence. Qed.
Lemma gt_sle a b : more_specific a b = true -> sle b a.
Proof.
  unfold more_specific, sle. destruct (spec_cmp a b) eqn:E; try congruence. intros _.
  rewrite spec_cmp_sym, E. simpl. congruence.
Qed.

Lemma best_of_some m : forall l acc b, best_of m l acc = Some b ->
  (acc = Some b \/ (In b l /\ cares_s b m = true)) /\
  (forall a, acc = Some a -> sle a b) /\
  (forall d, In d l -> cares_s d m = true -> sle d b).
Proof.
  induction l as [|d r IH]; simpl; intros acc b H.
  - subst. split; auto. split; [intros a E; inversion E; apply sle_refl | tauto].
  - destruct (cares_s d m) eqn:C.
    + destruct acc as [a|].
      * destruct (more_specific d a) eqn:M.
        -- destruct (IH _ _ H) as (I & A & R). split; [|split].
           ++ destruct I as [I|[I ?]]; [inversion I; subst; auto | auto].
           ++ intros a' E; inversion E; subst. eapply sle_trans; [apply gt_sle; eauto | apply A; auto].
           ++ intros d' [<-|Hd] Cd; auto.
        -- destruct (IH _ _ H) as (I & A & R). split; [|split].
           ++ destruct I as [I|[I ?]]; auto.
           ++ auto.
           ++ intros d' [<-|Hd] Cd; auto. eapply sle_trans; [apply not_gt_sle; eauto | apply A; auto].
      * destruct (IH _ _ H) as (I & A & R). split; [|split].
        -- destruct I as [I|[I ?]]; [inversion I; subst; auto | auto].
        -- intros a E; discriminate.
        -- intros d' [<-|Hd] Cd; auto.
    + destruct (IH _ _ H) as (I & A & R). split; [|split]; auto.
      * destruct I as [I|[I ?]]; auto.
      * intros d' [<-|Hd] Cd; auto. congruence.
Qed.

Lemma best_of_none m : forall l acc, best_of m l acc = None -> acc = None /\ forall d, In d l -> cares_s d m = false.
Proof.
  induction l as [|d r IH]; simpl; intros acc H.
  - split; auto. tauto.
  - destruct (cares_s d m) eqn:C.
    + destruct acc as [a|]; [destruct (more_specific d a)|]; apply IH in H; destruct H; discriminate.
    + apply IH in H. destruct H as [-> H]. split; auto. intros d' [<-|Hd]; auto.
Qed.

(** [best] returns a maximal element of { d in l | cares d m } under the documented order, whatever the order of [l] *)
Lemma best_spec l m :
  match best l m with
  | Some b => In b l /\ cares_s b m = true /\ forall d, In d l -> cares_s d m = true -> sle d b
  | None => forall d, In d l -> cares_s d m = false
  end.
Proof.
  unfold best. destruct (best_of m l None) as [b|] eqn:E.
  - destruct (best_of_some _ _ _ _ E) as (I & _ & R). destruct I as [I|[I C]]; [discriminate|]. auto.
  - apply best_of_none in E. tauto.
Qed.

(** * The headline: the first caring directive of the sorted set is the most specific survivor *)
Lemma find_is_best l m : find (fun d => cares_s d m) (ds_dirs (s_build l)) = best (survivors l) m.
Proof.
  pose proof (find_least key_s spec_cmp_k s_level (fun d => cares_s d m) _ (sorted_build l)) as F.
  pose proof (best_spec (survivors l) m) as B.
  destruct (find (fun d => cares_s d m) (ds_dirs (s_build l))) as [d|] eqn:Ef;
    destruct (best (survivors l) m) as [b|] eqn:Eb; auto.
  - destruct F as (Id & Cd & Md). destruct B as (Ib & Cb & Mb). f_equal.
    apply survivors_build in Ib. destruct (Md b Ib Cb) as [->|L]; auto. exfalso.
    (* cmp_s d b = Lt, i.e. d is strictly more specific than b, but b is maximal *)
    apply survivors_build in Id. specialize (Mb d Id Cd). unfold sle in Mb.
    change (CompOpp (spec_cmp d b) = Lt) in L. destruct (spec_cmp d b); simpl in L; congruence.
  - destruct F as (Id & Cd & _). apply survivors_build in Id. rewrite (B d Id) in Cd. discriminate.
  - destruct B as (Ib & Cb & _). apply survivors_build in Ib. rewrite (F b Ib) in Cb. discriminate.
Qed.

Definition decision (o : option sdir) (m : meta) : bool :=
  match o with Some d => allows (s_level d) (m_level m) | None => false end.

Lemma most_specific : forall (inputs : list sdir) (m : meta),
  enabled_s (s_build inputs) m = decision (best (survivors inputs) m) m.
Proof. intros. unfold enabled_s. now rewrite find_is_best. Qed.

(** what "most specific" means, spelled out: nobody caring has a longer target, or as long a target and more fields *)
Definition tlen (d : sdir) : option nat := option_map (@List.length N) (s_target d).
Definition primary_le (a b : sdir) : Prop :=
  opt_cmp Nat.compare (tlen a) (tlen b) = Lt \/
  (tlen a = tlen b /\ (List.length (s_fields a) <= List.length (s_fields b))%nat).

Lemma sle_primary a b : sle a b -> primary_le a b.
Proof.
  unfold sle, spec_cmp, spec_cmp_k, primary_le, tlen, key_s; simpl.
  destruct (opt_cmp Nat.compare (option_map (@List.length N) (s_target a)) (option_map (@List.length N) (s_target b))) eqn:E1; simpl.
  - apply (l_eq _ (lawful_opt _ lawful_nat)) in E1.
    destruct (Nat.compare (List.length (s_fields a)) (List.length (s_fields b))) eqn:E2; simpl; intros H.
    + apply Nat.compare_eq_iff in E2. right. split; auto. lia.
    + apply Nat.compare_lt_iff in E2. right. split; auto. lia.
    + congruence.
  - auto.
  - congruence.
Qed.

Lemma survivors_cover : forall l d, In d l -> exists x, In x (survivors l) /\ key_s x = key_s d.
Proof.
  induction l as [|y r IH]; simpl; intros d Hd; [tauto|].
  destruct (existsb (fun z => same_key z y) r) eqn:E.
  - destruct Hd as [<-|Hd]; auto.
    apply existsb_exists in E. destruct E as (z & Hz & K). apply same_key_eq in K.
    destruct (IH _ Hz) as (x & Hx & Kx). exists x. split; auto. congruence.
  - destruct Hd as [<-|Hd]; [exists y; simpl; auto|]. destruct (IH _ Hd) as (x & Hx & Kx). exists x; simpl; auto.
Qed.

Lemma best_characterised : forall inputs m,
  match best (survivors inputs) m with
  | Some b => last_entry inputs b /\ cares_s b m = true /\
              forall d, last_entry inputs d -> cares_s d m = true -> d = b \/ (primary_le d b /\ spec_cmp d b = Lt)
  | None => forall d, In d inputs -> cares_s d m = false
  end.
Proof.
  intros inputs m. pose proof (best_spec (survivors inputs) m) as B.
  destruct (best (survivors inputs) m) as [b|].
  - destruct B as (Ib & Cb & Mb). split; [now apply survivors_mem|]. split; auto.
    intros d Hd Cd. apply survivors_mem in Hd. pose proof (Mb d Hd Cd) as S.
    destruct (spec_cmp d b) eqn:E.
    + left. apply spec_cmp_eq in E.
      apply (sorted_key_inj key_s spec_cmp_k lawful_spec_k s_level _ (sorted_build inputs)); auto; now apply survivors_build.
    + right. split; auto. now apply sle_primary.
    + exfalso. apply S. exact E.
  - (* nothing cares: not even the overridden entries, because caring depends on the key only *)
    intros d Hd. destruct (cares_s d m) eqn:C; auto. exfalso.
    destruct (survivors_cover _ _ Hd) as (x & Hx & K).
    assert (cares_s x m = cares_s d m) as Q; [|rewrite (B x Hx) in Q; congruence].
    unfold cares_s. unfold key_s in K. inversion K as [[K1 K2]]. now rewrite K1, K2.
Qed.

(** ties on (target length, #fields) among caring directives can only differ in their field names *)
Lemma is_prefix_app p : forall s, is_prefix p s = true <-> exists r, s = p ++ r.
Proof.
  induction p as [|x p IH]; intros s; simpl.
  - split; eauto.
  - destruct s as [|y s].
    + split; [discriminate | intros (r & E); discriminate].
    + rewrite andb_true_iff, N.eqb_eq, IH. split.
      * intros [-> (r & ->)]. eauto.
      * intros (r & E). inversion E; subst. eauto.
Qed.

Lemma tie_same_target a b m :
  cares_s a m = true -> cares_s b m = true -> tlen a = tlen b -> s_target a = s_target b.
Proof.
  unfold cares_s, tlen. intros Ca Cb E. apply andb_true_iff in Ca, Cb. destruct Ca as [Ca _], Cb as [Cb _].
  destruct (s_target a) as [ta|], (s_target b) as [tb|]; simpl in *; try discriminate; auto.
  apply is_prefix_app in Ca, Cb. destruct Ca as (ra & Ea), Cb as (rb & Eb). inversion E as [L].
  f_equal. rewrite Ea in Eb. clear - Eb L. revert tb L Eb.
  induction ta as [|x ta IH]; destruct tb as [|y tb]; simpl; intros; try discriminate; auto.
  inversion Eb; subst. f_equal. apply IH; auto.
Qed.

(** * Prefix semantics *)
Lemma cares_prefix d m : cares_s d m = true ->
  match s_target d with Some t => exists rest, m_target m = t ++ rest | None => True end.
Proof.
  unfold cares_s. intros C. apply andb_true_iff in C. destruct C as [C _].
  destruct (s_target d); simpl in *; auto. now apply is_prefix_app.
Qed.

(** * would_enable agrees with filtering when no directive carries field names *)
Lemma find_ext {A} (f g : A -> bool) l : (forall x, In x l -> f x = g x) -> find f l = find g l.
Proof.
  induction l as [|x l IH]; simpl; auto. intros H. rewrite (H x) by auto.
  destruct (g x); auto.
Qed.

Definition no_fields (l : list sdir) : Prop := forall d, In d l -> s_fields d = [].

Lemma would_enable_agrees t m :
  no_fields (ds_dirs t) -> would_enable t (m_target m) (m_level m) = targets_enabled t m.
Proof.
  intros NF. unfold would_enable, target_enabled, targets_enabled, enabled_s.
  rewrite (find_ext (fun d => cares_target d (m_target m)) (fun d => cares_s d m)); auto.
  intros d Hd. unfold cares_target, cares_s. rewrite (NF d Hd). simpl.
  now rewrite andb_false_r.
Qed.

(** ... and, whatever the directives carry, on what would_enable can ask about at all: an EVENT's metadata without fields
    (a directive with field names never cares about such metadata; for span metadata the code skips the field-name test,
    so nothing is claimed there). *)
Lemma would_enable_agrees_fieldless_event t m :
  is_event m = true -> m_fields m = [] -> would_enable t (m_target m) (m_level m) = targets_enabled t m.
Proof.
  intros Ev Nf. unfold would_enable, target_enabled, targets_enabled, enabled_s.
  rewrite (find_ext (fun d => cares_target d (m_target m)) (fun d => cares_s d m)); auto.
  intros d _. unfold cares_target, cares_s. rewrite Ev, Nf.
  destruct (s_fields d) as [|x r]; simpl; [reflexivity|].
  now rewrite !andb_false_r.
Qed.

Lemma no_fields_build l : no_fields l -> no_fields (ds_dirs (s_build l)).
Proof.
  intros NF d Hd. apply replace_build in Hd. destruct Hd as (l1 & l2 & -> & _).
  apply NF. apply in_or_app; right; simpl; auto.
Qed.

(** the level maximum bounds every directive's level, so the `max_level >= level` guard never changes the answer *)
Lemma lf_max_ge_l a b : lf_rank a <= lf_rank (lf_max a b).
Proof. unfold lf_max. destruct (lf_rank a <? lf_rank b) eqn:E; [apply N.ltb_lt in E|]; lia. Qed.
Lemma lf_max_ge_r a b : lf_rank b <= lf_rank (lf_max a b).
Proof. unfold lf_max. destruct (lf_rank a <? lf_rank b) eqn:E; [|apply N.ltb_ge in E]; lia. Qed.
