(** C14 — 128-bit integer fields (u128 / i128).  Neither visitor overrides `Visit::record_u128` / `record_i128` (read off the
    source: TVGen.Gen_json.gen_serdemap_methods / gen_jsonvisitor_methods), so the value takes the documented default
    (record_debug) and appears as a JSON STRING whose content is exactly its decimal numeral — in event fields and in span
    fields alike; reading the numeral back gives the value exactly, for every N / Z (in particular every u128 / i128).
    A bare JSON number of that size would not survive a binary64 reader ([b64_of_N]; seeded change C14-I). *)
From Coq Require Import String Ascii NArith ZArith Bool List Lia.
From TV Require Import Fmt.JsonModel Fmt.JsonProofsRender Fmt.JsonProofsParse.
From TVGen Require Import Gen_json.
Import ListNotations.
Local Open Scope N_scope.

(** the reader's side: the integer a string of decimal digits (with an optional leading '-') denotes *)
Definition numeral_Z (s : bytes) : Z :=
  match s with
  | 45 :: r => Z.opp (Z.of_N (digits_val 0 r))
  | _ => Z.of_N (digits_val 0 s)
  end.

Lemma numeral_dec_N n : numeral_Z (dec_N n) = Z.of_N n.
Proof.
  destruct (dec_N_head n) as (d & r & E & Hd). unfold numeral_Z. rewrite <- (dec_N_val n) at 2. rewrite E.
  destruct (N.eq_dec d 45) as [->|Hne]; [exfalso; revert Hd; unfold isdig; vm_compute; intuition discriminate|].
  destruct d as [|p]; [reflexivity|].
  repeat (destruct p as [p|p|]; try reflexivity); exfalso; apply Hne; reflexivity.
Qed.

Lemma numeral_dec_Z z : numeral_Z (dec_Z z) = z.
Proof.
  destruct z as [|p|p].
  - reflexivity.
  - change (dec_Z (Zpos p)) with (dec_N (Npos p)). apply numeral_dec_N.
  - change (dec_Z (Zneg p)) with (45 :: dec_N (Npos p)). unfold numeral_Z. rewrite dec_N_val. reflexivity.
Qed.

(** the switches read off the source say: no native 128-bit override in tracing-serde's map visitor *)
Lemma serde_wide_not_native : serde_u128_native = false /\ serde_i128_native = false.
Proof. split; vm_compute; reflexivity. Qed.

Lemma wide_event_value :
  (forall n, event_value (VU128 n) = JStr (dec_N n)) /\ (forall z, event_value (VI128 z) = JStr (dec_Z z)).
Proof. destruct serde_wide_not_native as [Hu Hi]. split; intro; simpl; rewrite ?Hu, ?Hi; reflexivity. Qed.

Lemma wide_span_value :
  (forall n, span_value (VU128 n) = JStr (dec_N n)) /\ (forall z, span_value (VI128 z) = JStr (dec_Z z)).
Proof. split; reflexivity. Qed.

(** headline: a 128-bit field, event or span, is written as a string token; the strict parser reads that token back as the
    string of the decimal numeral, and the numeral denotes exactly the recorded value.  For all N / Z, hence for every
    u128 (n < 2^128) and i128 (-2^127 <= z < 2^127). *)
Lemma wide_unsigned_faithful : forall n rest, n < 2 ^ 128 ->
  event_value (VU128 n) = span_value (VU128 n) /\
  exists s, parse_value 1 (render (event_value (VU128 n)) ++ rest) = Some (JStr s, rest) /\ numeral_Z s = Z.of_N n.
Proof.
  intros n rest _. destruct wide_event_value as [Hu _]. rewrite Hu. split; [reflexivity|].
  exists (dec_N n). split; [apply parse_string_render | apply numeral_dec_N].
Qed.

Lemma wide_signed_faithful : forall z rest, (- 2 ^ 127 <= z < 2 ^ 127)%Z ->
  event_value (VI128 z) = span_value (VI128 z) /\
  exists s, parse_value 1 (render (event_value (VI128 z)) ++ rest) = Some (JStr s, rest) /\ numeral_Z s = z.
Proof.
  intros z rest _. destruct wide_event_value as [_ Hi]. rewrite Hi. split; [reflexivity|].
  exists (dec_Z z). split; [apply parse_string_render | apply numeral_dec_Z].
Qed.

(** * What a bare number of that size would mean for a consumer: the binary64 value nearest to an integer
      (round to nearest, ties to even; integers below 2^53 are exact) *)
Definition b64_of_N (n : N) : N :=
  let sz := N.size n in
  if sz <=? 53 then n else
    let e := sz - 53 in
    let q := n / 2 ^ e in
    let r := n mod 2 ^ e in
    let half := 2 ^ (e - 1) in
    (if (half <? r) || ((half =? r) && N.odd q) then q + 1 else q) * 2 ^ e.

(** 2^127 + 1 (a u128, 39 digits): the compact writer would print all 39 digits, the strict parser (exact integers) reads them
    back, a binary64 reader holds 2^127 — not the recorded value.  The string form is immune: [numeral_dec_N]. *)
Lemma bare_wide_number_lossy :
  let n := 2 ^ 127 + 1 in
  n < 2 ^ 128 /\ render (JInt (Z.of_N n)) = dec_N n /\ length (dec_N n) = 39%nat /\
  b64_of_N n = 2 ^ 127 /\ b64_of_N n <> n /\ numeral_Z (dec_N n) = Z.of_N n /\
  b64_of_N (2 ^ 53) = 2 ^ 53 /\ b64_of_N (2 ^ 53 + 1) = 2 ^ 53.
Proof. vm_compute. repeat split; try reflexivity; discriminate. Qed.
