(** C13 (b) — proofs about the writer algebra: the code's routing is the documented denotation. *)
From Coq Require Import Lia.
From TV Require Import Fmt.WriterModel.
Local Open Scope N_scope.
Local Arguments N.leb : simpl never.
Local Arguments N.eqb : simpl never.

Definition is_RB (x : wr) : bool := match x with RB _ => true | _ => false end.

(** The value returned by the factory is the [B] variant exactly when the expression "declines". *)
Lemma make_for_declines : forall w m, is_RB (fst (make_for w m)) = declines w m.
Proof.
  induction w; intros m; simpl; try reflexivity.
  - destruct (make_for w m); reflexivity.
  - destruct (m_level m <=? l); simpl; [destruct (make_for w m); reflexivity | reflexivity].
  - destruct (l <=? m_level m); simpl; [destruct (make_for w m); reflexivity | reflexivity].
  - destruct (eval_pred p m); simpl; [destruct (make_for w m); reflexivity | reflexivity].
  - destruct (make_for w1 m), (make_for w2 m); reflexivity.
  - specialize (IHw1 m). destruct (make_for w1 m) as [x c]. simpl in IHw1.
    destruct x; simpl in *; try (rewrite <- IHw1; reflexivity).
    destruct (make_for w2 m); simpl. assumption.
Qed.

Lemma make0_declines : forall w, is_RB (fst (make0 w)) = declines0 w.
Proof.
  induction w; simpl; try reflexivity.
  - destruct (make0 w); reflexivity.
  - destruct (make0 w); reflexivity.
  - destruct (make0 w1), (make0 w2); reflexivity.
  - destruct (make0 w1) as [x c]. simpl in IHw1.
    destruct x; simpl in *; try (rewrite <- IHw1; reflexivity).
    destruct (make0 w2); simpl. assumption.
Qed.

(** ** Headline of part (b): for every expression (any depth) and every metadata, the sinks the code
    writes to are the sinks the documentation denotes — same order, same multiplicity. *)
Theorem routing : forall w m, route w m = denote w m.
Proof.
  unfold route. induction w; intros m; simpl; try reflexivity.
  - specialize (IHw m). destruct (make_for w m); assumption.
  - destruct (m_level m <=? l); [|reflexivity]. specialize (IHw m). destruct (make_for w m); assumption.
  - destruct (l <=? m_level m); [|reflexivity]. specialize (IHw m). destruct (make_for w m); assumption.
  - destruct (eval_pred p m); [|reflexivity]. specialize (IHw m). destruct (make_for w m); assumption.
  - specialize (IHw1 m). specialize (IHw2 m). destruct (make_for w1 m), (make_for w2 m). simpl in *. congruence.
  - specialize (IHw1 m). specialize (IHw2 m). pose proof (make_for_declines w1 m) as D.
    destruct (make_for w1 m) as [x c]. simpl in *. rewrite <- D.
    destruct x; simpl in *; try assumption.
    destruct (make_for w2 m); simpl in *. assumption.
Qed.

Theorem routing0 : forall w, route0 w = denote0 w.
Proof.
  unfold route0. induction w; simpl; try reflexivity.
  - destruct (make0 w); assumption.
  - destruct (make0 w); assumption.
  - destruct (make0 w1), (make0 w2). simpl in *. congruence.
  - pose proof (make0_declines w1) as D.
    destruct (make0 w1) as [x c]. simpl in *. rewrite <- D.
    destruct x; simpl in *; try assumption.
    destruct (make0 w2); simpl in *. assumption.
Qed.

(** A gate that declines yields exactly [OptionalWriter::none()] and asks no sink. *)
Lemma gate_declined : forall a m x c, is_gate a = true -> make_for a m = (RB x, c) -> x = RIoSink /\ c = [].
Proof.
  intros a m x c G H. destruct a; try discriminate G; simpl in H.
  - destruct (m_level m <=? l); [destruct (make_for a m); discriminate | inversion H; auto].
  - destruct (l <=? m_level m); [destruct (make_for a m); discriminate | inversion H; auto].
  - destruct (eval_pred p m); [destruct (make_for a m); discriminate | inversion H; auto].
Qed.

Lemma gate_declined0 : forall a x c, is_gate a = true -> make0 a = (RB x, c) -> x = RIoSink /\ c = [].
Proof.
  intros a x c G H. destruct a; try discriminate G; simpl in H.
  - inversion H; auto.
  - inversion H; auto.
  - destruct (make0 a); discriminate.
Qed.

(** For every expression Rust accepts: the factory of a recording sink is asked exactly when (and as
    often as) that sink is then written to. *)
Theorem asked_is_route : forall w m, well_typed w = true -> asked w m = route w m.
Proof.
  unfold asked, route. induction w; intros m WT; simpl in *; try reflexivity.
  - specialize (IHw m WT). destruct (make_for w m); assumption.
  - destruct (m_level m <=? l); [|reflexivity]. specialize (IHw m WT). destruct (make_for w m); assumption.
  - destruct (l <=? m_level m); [|reflexivity]. specialize (IHw m WT). destruct (make_for w m); assumption.
  - destruct (eval_pred p m); [|reflexivity]. specialize (IHw m WT). destruct (make_for w m); assumption.
  - apply andb_prop in WT as [W1 W2]. specialize (IHw1 m W1). specialize (IHw2 m W2).
    destruct (make_for w1 m), (make_for w2 m). simpl in *. congruence.
  - apply andb_prop in WT as [WT W2]. apply andb_prop in WT as [G W1].
    specialize (IHw1 m W1). specialize (IHw2 m W2).
    destruct (make_for w1 m) as [x c] eqn:E. simpl in *.
    destruct x; simpl in *; try assumption.
    destruct (gate_declined _ _ _ _ G E) as [-> ->].
    destruct (make_for w2 m); simpl in *. assumption.
Qed.

Theorem asked0_is_route0 : forall w, well_typed w = true -> asked0 w = route0 w.
Proof.
  unfold asked0, route0. induction w; intros WT; simpl in *; try reflexivity.
  - specialize (IHw WT). destruct (make0 w); assumption.
  - specialize (IHw WT). destruct (make0 w); assumption.
  - apply andb_prop in WT as [W1 W2]. specialize (IHw1 W1). specialize (IHw2 W2).
    destruct (make0 w1), (make0 w2). simpl in *. congruence.
  - apply andb_prop in WT as [WT W2]. apply andb_prop in WT as [G W1].
    specialize (IHw1 W1). specialize (IHw2 W2).
    destruct (make0 w1) as [x c] eqn:E. simpl in *.
    destruct x; simpl in *; try assumption.
    destruct (gate_declined0 _ _ _ G E) as [-> ->].
    destruct (make0 w2); simpl in *. assumption.
Qed.

(** ** The documented reading of each combinator, as corollaries on sets of levels *)

Lemma max_level_set : forall l i m, In i (route (WMax l (WSink i)) m) <-> m_level m <= l.
Proof.
  intros. rewrite routing. simpl. destruct (m_level m <=? l) eqn:E.
  - apply N.leb_le in E. simpl. tauto.
  - apply N.leb_gt in E. simpl. split; [tauto | lia].
Qed.

Lemma min_level_set : forall l i m, In i (route (WMin l (WSink i)) m) <-> l <= m_level m.
Proof.
  intros. rewrite routing. simpl. destruct (l <=? m_level m) eqn:E.
  - apply N.leb_le in E. simpl. tauto.
  - apply N.leb_gt in E. simpl. split; [tauto | lia].
Qed.

Lemma tee_is_union_with_multiplicity : forall a b m i,
  count_occ N.eq_dec (route (WTee a b) m) i = (count_occ N.eq_dec (route a m) i + count_occ N.eq_dec (route b m) i)%nat.
Proof. intros. rewrite !routing. simpl. apply count_occ_app. Qed.

Lemma ungated_selects : forall w m, ungated w = true -> denote w m <> [].
Proof.
  induction w; intros m U; simpl in *; try discriminate.
  - auto.
  - apply Bool.orb_true_iff in U as [U|U].
    + specialize (IHw1 m U). destruct (denote w1 m); [congruence | discriminate].
    + specialize (IHw2 m U). destruct (denote w1 m); [assumption | discriminate].
Qed.

(** With one gate directly over an always-selecting writer on the left, [or_else] is "the left side
    if it selects anything, otherwise the fallback". *)
Theorem orelse_selects_anything : forall a b m, gate_exact a = true ->
  route (WOrElse a b) m = match route a m with [] => route b m | l => l end.
Proof.
  intros a b m G. rewrite !routing. simpl.
  destruct a; try discriminate G; simpl in *.
  - destruct (m_level m <=? l); simpl; [|reflexivity].
    pose proof (ungated_selects _ m G). destruct (denote a m); congruence.
  - destruct (l <=? m_level m); simpl; [|reflexivity].
    pose proof (ungated_selects _ m G). destruct (denote a m); congruence.
  - destruct (eval_pred p m); simpl; [|reflexivity].
    pose proof (ungated_selects _ m G). destruct (denote a m); congruence.
Qed.

(** ... and that reading is *not* what stacked bounds on the left do: the fallback is consulted only
    when the OUTERMOST gate rejects ("returns OptionalWriter::none").  Here the outer bound
    [<= DEBUG] admits a WARN record, the inner one [>= INFO] drops it, and the fallback is not used. *)
Example orelse_stacked_bounds_no_fallback :
  let m := Meta 2 [] [] false in
  let w := WOrElse (WMax 4 (WMin 3 (WSink 0))) (WSink 1) in
  route w m = [] /\ route (WMax 4 (WMin 3 (WSink 0))) m = [] /\ route (WSink 1) m = [1].
Proof. vm_compute. auto. Qed.

(** Non-vacuity: a depth-4 expression with a tee, a fallback and a predicate, at three levels. *)
Example routing_example :
  let w := WTee (WSink 0) (WOrElse (WMax 2 (WSink 1)) (WFilter PIsSpan (WBox (WSink 2)))) in
  route w (Meta 1 [] [] false) = [0; 1] /\ route w (Meta 3 [] [] true) = [0; 2] /\ route w (Meta 3 [] [] false) = [0]
  /\ route0 w = [0; 2].
Proof. vm_compute. auto. Qed.

(** ** Sink faults: the sinks that are ATTEMPTED do not depend on which attempts fail *)
From Coq Require Import PeanoNat.
Local Arguments blen : simpl never.
Local Arguments skipn : simpl never.
Local Arguments firstn : simpl never.

Lemma spec_calls_app : forall leaf plan a b k,
  spec_calls leaf plan k (a ++ b) =
  spec_calls leaf plan k a ++
  match spec_res leaf plan k a with WUnwind => [] | _ => spec_calls leaf plan (k + length a) b end.
Proof.
  intros leaf plan a. induction a as [|i a IH]; intros b k; simpl.
  - rewrite Nat.add_0_r. reflexivity.
  - replace (k + S (length a))%nat with (S k + length a)%nat by lia.
    destruct (snd (leaf (plan k))); simpl; try reflexivity.
    + rewrite IH. reflexivity.
    + rewrite IH. destruct (spec_res leaf plan (S k) a); reflexivity.
Qed.

Lemma spec_res_app : forall leaf plan a b k,
  spec_res leaf plan k (a ++ b) =
  match spec_res leaf plan k a with
  | WUnwind => WUnwind
  | WErr => match spec_res leaf plan (k + length a) b with WUnwind => WUnwind | _ => WErr end
  | WOk => spec_res leaf plan (k + length a) b
  end.
Proof.
  intros leaf plan a. induction a as [|i a IH]; intros b k; simpl.
  - rewrite Nat.add_0_r. reflexivity.
  - replace (k + S (length a))%nat with (S k + length a)%nat by lia.
    destruct (snd (leaf (plan k))); simpl; try reflexivity.
    + apply IH.
    + rewrite IH. destruct (spec_res leaf plan (S k) a); try reflexivity;
        destruct (spec_res leaf plan _ b); reflexivity.
Qed.

(** The code's forwarding ([Tee] runs both sides) is the per-sink specification: every recording writer
    of [targets x], in order, is given the method with ITS OWN script and nothing else; what it sees does
    not depend on the other sinks' scripts (only a panic stops the walk). *)
Theorem tee_apply_spec : forall leaf x plan k,
  fst (fst (tee_apply true leaf x plan k)) = spec_calls leaf plan k (targets x)
  /\ snd (fst (tee_apply true leaf x plan k)) = spec_res leaf plan k (targets x)
  /\ (snd (fst (tee_apply true leaf x plan k)) <> WUnwind ->
      snd (tee_apply true leaf x plan k) = (k + length (targets x))%nat).
Proof.
  intros leaf x. induction x; intros plan k; simpl.
  - destruct (leaf (plan k)) as [c r]. simpl. repeat split; try (destruct r; reflexivity). intros _. lia.
  - repeat split. intros _. lia.
  - apply IHx.
  - apply IHx.
  - destruct (IHx1 plan k) as [C1 [R1 K1]].
    destruct (tee_apply true leaf x1 plan k) as [[ca ra] k1]. simpl in C1, R1, K1.
    rewrite spec_calls_app, spec_res_app, app_length. rewrite <- C1, <- R1.
    destruct ra.
    + specialize (K1 ltac:(discriminate)). subst k1.
      destruct (IHx2 plan (k + length (targets x1))%nat) as [C2 [R2 K2]].
      destruct (tee_apply true leaf x2 plan (k + length (targets x1))%nat) as [[cb rb] k2]. simpl in *.
      repeat split; try congruence. intros H. rewrite (K2 H). lia.
    + specialize (K1 ltac:(discriminate)). subst k1.
      destruct (IHx2 plan (k + length (targets x1))%nat) as [C2 [R2 K2]].
      destruct (tee_apply true leaf x2 plan (k + length (targets x1))%nat) as [[cb rb] k2]. simpl in *.
      rewrite <- R2. repeat split; try congruence.
      intros H. rewrite K2; [lia|]. intros E. rewrite E in H. apply H. reflexivity.
    + simpl. rewrite app_nil_r. repeat split. intros H. contradiction.
  - apply IHx.
Qed.

Lemma spec_no_unwind : forall leaf plan ts k,
  spec_res leaf plan k ts <> WUnwind -> map fst (spec_calls leaf plan k ts) = ts.
Proof.
  intros leaf plan ts. induction ts as [|i r IH]; intros k H; simpl in *; [reflexivity|].
  destruct (snd (leaf (plan k))); simpl.
  - rewrite IH; [reflexivity | assumption].
  - rewrite IH; [reflexivity|]. intros E. rewrite E in H. apply H. reflexivity.
  - contradiction.
Qed.

Lemma spec_prefix : forall leaf plan ts k, exists rest, ts = map fst (spec_calls leaf plan k ts) ++ rest.
Proof.
  intros leaf plan ts. induction ts as [|i r IH]; intros k; simpl; [exists []; reflexivity|].
  destruct (snd (leaf (plan k))); simpl.
  - destruct (IH (S k)) as [rest E]. exists rest. congruence.
  - destruct (IH (S k)) as [rest E]. exists rest. congruence.
  - exists r. reflexivity.
Qed.

(** Headline of the fault extension.  For every writer expression, metadata, [io::Write] method and fault
    plan: the recording sinks whose writer is called are exactly the sinks the documentation denotes, in
    order — whichever of those calls fail — and each sees exactly what its own script makes of the
    method.  (A panicking sink unwinds: then the sinks called are a prefix of the denotation.) *)
Theorem routing_with_faults : forall w m leaf plan,
  let run := tee_apply true leaf (fst (make_for w m)) plan 0%nat in
  fst (fst run) = spec_calls leaf plan 0%nat (denote w m)
  /\ snd (fst run) = spec_res leaf plan 0%nat (denote w m)
  /\ (snd (fst run) <> WUnwind -> map fst (fst (fst run)) = denote w m)
  /\ exists rest, denote w m = map fst (fst (fst run)) ++ rest.
Proof.
  intros w m leaf plan run. subst run.
  destruct (tee_apply_spec leaf (fst (make_for w m)) plan 0%nat) as [C [R _]].
  fold (route w m) in C, R. rewrite routing in C, R.
  rewrite C, R. repeat split.
  - apply spec_no_unwind.
  - apply spec_prefix.
Qed.

Theorem routing0_with_faults : forall w leaf plan,
  let run := tee_apply true leaf (fst (make0 w)) plan 0%nat in
  fst (fst run) = spec_calls leaf plan 0%nat (denote0 w)
  /\ snd (fst run) = spec_res leaf plan 0%nat (denote0 w)
  /\ (snd (fst run) <> WUnwind -> map fst (fst (fst run)) = denote0 w).
Proof.
  intros w leaf plan run. subst run.
  destruct (tee_apply_spec leaf (fst (make0 w)) plan 0%nat) as [C [R _]].
  fold (route0 w) in C, R. rewrite routing0 in C, R.
  rewrite C, R. repeat split. apply spec_no_unwind.
Qed.

(** The j-th denoted sink, when no sink before it panics, sees what ITS script does — in particular a
    healthy sink (empty script) next to failing ones receives the whole record in one [write]. *)
Lemma spec_calls_nth : forall leaf plan ts k j i,
  nth_error ts j = Some i ->
  (forall j', (j' < j)%nat -> snd (leaf (plan (k + j')%nat)) <> WUnwind) ->
  nth_error (spec_calls leaf plan k ts) j = Some (i, fst (leaf (plan (k + j)%nat))).
Proof.
  intros leaf plan ts. induction ts as [|i0 r IH]; intros k j i H NU; [destruct j; discriminate|].
  destruct j as [|j]; simpl in *.
  - inversion H; subst. rewrite Nat.add_0_r. reflexivity.
  - pose proof (NU 0%nat ltac:(lia)) as N0. rewrite Nat.add_0_r in N0.
    replace (k + S j)%nat with (S k + j)%nat by lia.
    destruct (snd (leaf (plan k))); try contradiction;
      (apply IH; [assumption|]; intros j' L; replace (S k + j')%nat with (k + S j')%nat by lia; apply NU; lia).
Qed.

Lemma no_panic_no_unwind_all : forall s buf, ~ In RsPanic s -> snd (sink_write_all s buf) <> WUnwind.
Proof.
  induction s as [|r s IH]; intros buf H; simpl.
  - destruct buf; discriminate.
  - destruct buf as [|b0 buf]; [discriminate|].
    destruct r.
    + destruct (n =? 0); [discriminate|]. destruct (blen (b0 :: buf) <=? n); [discriminate|].
      specialize (IH (skipn (N.to_nat n) (b0 :: buf)) ltac:(intros X; apply H; right; exact X)).
      destruct (sink_write_all s (skipn (N.to_nat n) (b0 :: buf))). exact IH.
    + specialize (IH (b0 :: buf) ltac:(intros X; apply H; right; exact X)).
      destruct (sink_write_all s (b0 :: buf)). exact IH.
    + discriminate.
    + exfalso. apply H. left. reflexivity.
Qed.

Theorem healthy_sink_gets_the_whole_record : forall w m buf plan j i,
  buf <> [] ->
  nth_error (denote w m) j = Some i ->
  plan j = [] ->
  (forall j', ~ In RsPanic (plan j')) ->
  nth_error (fst (fst (tee_apply true (leaf_of MWriteAll buf) (fst (make_for w m)) plan 0%nat))) j
  = Some (i, [CWrite buf (RsAccept (blen buf))]).
Proof.
  intros w m buf plan j i NE H P NP.
  destruct (routing_with_faults w m (leaf_of MWriteAll buf) plan) as [C _]. rewrite C.
  rewrite (spec_calls_nth _ _ _ 0%nat j i H).
  - simpl. rewrite P. destruct buf; [contradiction | reflexivity].
  - intros j' _. simpl. apply no_panic_no_unwind_all, NP.
Qed.

(** ** What one [write_all] looks like from the sink (std's loop), partial writes included *)

(** Every [write] of it is offered a suffix of the record, the first one the whole record ... *)
Lemma sink_write_all_offers : forall s buf,
  Forall (fun c => exists pre, buf = pre ++ offered_of c) (fst (sink_write_all s buf))
  /\ (buf <> [] -> exists r rest, fst (sink_write_all s buf) = CWrite buf r :: rest).
Proof.
  induction s as [|r s IH]; intros buf; (destruct buf as [|b0 buf]; [split; [constructor | intros H; exfalso; apply H; reflexivity]|]).
  - simpl. split; [constructor; [exists []; reflexivity | constructor] | intros _; eauto].
  - assert (W : exists pre, b0 :: buf = pre ++ b0 :: buf) by (exists []; reflexivity).
    simpl. destruct r.
    + destruct (n =? 0); [simpl; split; [constructor; [exact W | constructor] | intros _; eauto]|].
      destruct (blen (b0 :: buf) <=? n); [simpl; split; [constructor; [exact W | constructor] | intros _; eauto]|].
      destruct (IH (skipn (N.to_nat n) (b0 :: buf))) as [F _].
      destruct (sink_write_all s (skipn (N.to_nat n) (b0 :: buf))) as [c res]. simpl in *.
      split; [|intros _; eauto]. constructor; [exact W|].
      eapply Forall_impl; [|exact F]. intros a [pre E].
      exists (firstn (N.to_nat n) (b0 :: buf) ++ pre). rewrite <- app_assoc, <- E. symmetry. apply firstn_skipn.
    + destruct (IH (b0 :: buf)) as [F _].
      destruct (sink_write_all s (b0 :: buf)) as [c res]. simpl in *.
      split; [|intros _; eauto]. constructor; [exact W | exact F].
    + simpl; split; [constructor; [exact W | constructor] | intros _; eauto].
    + simpl; split; [constructor; [exact W | constructor] | intros _; eauto].
Qed.

(** ... and when it returns [Ok] the bytes the sink accepted, call after call, are the record. *)
Lemma blen_firstn_all : forall (buf : bytes) n, blen buf <= n -> firstn (N.to_nat n) buf = buf.
Proof. intros buf n H. apply firstn_all2. unfold blen in H. lia. Qed.

Lemma sink_write_all_delivers : forall s buf,
  snd (sink_write_all s buf) = WOk -> concat (map accepted (fst (sink_write_all s buf))) = buf.
Proof.
  induction s as [|r s IH]; intros buf; (destruct buf as [|b0 buf]; [reflexivity|]).
  - intros _. change (firstn (N.to_nat (blen (b0 :: buf))) (b0 :: buf) ++ [] = b0 :: buf).
    rewrite app_nil_r. apply blen_firstn_all. lia.
  - simpl. destruct r.
    + destruct (n =? 0) eqn:Z; [discriminate|].
      destruct (blen (b0 :: buf) <=? n) eqn:L.
      * intros _. simpl. rewrite app_nil_r. apply (blen_firstn_all (b0 :: buf)). apply N.leb_le. exact L.
      * specialize (IH (skipn (N.to_nat n) (b0 :: buf))).
        destruct (sink_write_all s (skipn (N.to_nat n) (b0 :: buf))) as [c res]. simpl in *.
        intros H. rewrite (IH H). apply (firstn_skipn (N.to_nat n) (b0 :: buf)).
    + specialize (IH (b0 :: buf)). destruct (sink_write_all s (b0 :: buf)) as [c res]. simpl in *. exact IH.
    + discriminate.
    + discriminate.
Qed.

(** ** The tempting one-liner [(a.f(..)?, b.f(..)?)] is a different writer: a failing LEFT sink makes the
    record disappear from the healthy RIGHT one.  [Tee (Sink 0) (Sink 1)], sink 0's write fails. *)
Example tee_short_circuit_loses_the_record :
  let x := fst (make_for (WTee (WSink 0) (WSink 1)) (Meta 3 [] [] false)) in
  let plan := planf [[RsFail]] in
  fst (fst (tee_apply true (leaf_of MWriteAll [65; 10]) x plan 0%nat))
    = [(0, [CWrite [65; 10] RsFail]); (1, [CWrite [65; 10] (RsAccept 2)])]
  /\ fst (fst (tee_apply false (leaf_of MWriteAll [65; 10]) x plan 0%nat))
    = [(0, [CWrite [65; 10] RsFail])]
  /\ snd (fst (tee_apply true (leaf_of MWriteAll [65; 10]) x plan 0%nat)) = WErr.
Proof. vm_compute. auto. Qed.

(** Non-vacuity of [routing_with_faults]: a depth-3 expression, three denoted sinks, the first
    accepts 1 byte at a time, the second fails after an interrupted call, the third is healthy. *)
Example routing_with_faults_example :
  let w := WTee (WBox (WSink 2)) (WOrElse (WMax 2 (WSink 9)) (WTee (WSink 0) (WSink 1))) in
  let m := Meta 3 [] [] false in
  let plan := planf [[RsAccept 1; RsAccept 1]; [RsInterrupted; RsFail]] in
  denote w m = [2; 0; 1]
  /\ fst (fst (tee_apply true (leaf_of MWriteAll [65; 66; 10]) (fst (make_for w m)) plan 0%nat))
     = [(2, [CWrite [65; 66; 10] (RsAccept 1); CWrite [66; 10] (RsAccept 1); CWrite [10] (RsAccept 1)]);
        (0, [CWrite [65; 66; 10] RsInterrupted; CWrite [65; 66; 10] RsFail]);
        (1, [CWrite [65; 66; 10] (RsAccept 3)])].
Proof. vm_compute. auto. Qed.
