(** C13 (b) — proofs about the writer algebra: the code's routing is the documented denotation. *)
From Coq Require Import Lia.
From TV Require Import Fmt.WriterModel.
Local Open Scope N_scope.
Local Arguments N.leb : simpl never.
Local Arguments N.eqb : simpl never.

Definition is_RB (x : wr) : bool := match x with RB _ => true | _ => false end.

(** The value returned by the factory is the [B] variant exactly when the expression "declines". *)
Lemma make_for_declines : forall w m, is_RB (fst (make_for w m)) = declines w m.
Proof.
  induction w; intros m; simpl; try reflexivity.
  - destruct (make_for w m); reflexivity.
  - destruct (m_level m <=? l); simpl; [destruct (make_for w m); reflexivity | reflexivity].
  - destruct (l <=? m_level m); simpl; [destruct (make_for w m); reflexivity | reflexivity].
  - destruct (eval_pred p m); simpl; [destruct (make_for w m); reflexivity | reflexivity].
  - destruct (make_for w1 m), (make_for w2 m); reflexivity.
  - specialize (IHw1 m). destruct (make_for w1 m) as [x c]. simpl in IHw1.
    destruct x; simpl in *; try (rewrite <- IHw1; reflexivity).
    destruct (make_for w2 m); simpl. assumption.
Qed.

Lemma make0_declines : forall w, is_RB (fst (make0 w)) = declines0 w.
Proof.
  induction w; simpl; try reflexivity.
  - destruct (make0 w); reflexivity.
  - destruct (make0 w); reflexivity.
  - destruct (make0 w1), (make0 w2); reflexivity.
  - destruct (make0 w1) as [x c]. simpl in IHw1.
    destruct x; simpl in *; try (rewrite <- IHw1; reflexivity).
    destruct (make0 w2); simpl. assumption.
Qed.

(** ** Headline of part (b): for every expression (any depth) and every metadata, the sinks the code
    writes to are the sinks the documentation denotes — same order, same multiplicity. *)
Theorem routing : forall w m, route w m = denote w m.
Proof.
  unfold route. induction w; intros m; simpl; try reflexivity.
  - specialize (IHw m). destruct (make_for w m); assumption.
  - destruct (m_level m <=? l); [|reflexivity]. specialize (IHw m). destruct (make_for w m); assumption.
  - destruct (l <=? m_level m); [|reflexivity]. specialize (IHw m). destruct (make_for w m); assumption.
  - destruct (eval_pred p m); [|reflexivity]. specialize (IHw m). destruct (make_for w m); assumption.
  - specialize (IHw1 m). specialize (IHw2 m). destruct (make_for w1 m), (make_for w2 m). simpl in *. congruence.
  - specialize (IHw1 m). specialize (IHw2 m). pose proof (make_for_declines w1 m) as D.
    destruct (make_for w1 m) as [x c]. simpl in *. rewrite <- D.
    destruct x; simpl in *; try assumption.
    destruct (make_for w2 m); simpl in *. assumption.
Qed.

Theorem routing0 : forall w, route0 w = denote0 w.
Proof.
  unfold route0. induction w; simpl; try reflexivity.
  - destruct (make0 w); assumption.
  - destruct (make0 w); assumption.
  - destruct (make0 w1), (make0 w2). simpl in *. congruence.
  - pose proof (make0_declines w1) as D.
    destruct (make0 w1) as [x c]. simpl in *. rewrite <- D.
    destruct x; simpl in *; try assumption.
    destruct (make0 w2); simpl in *. assumption.
Qed.

(** A gate that declines yields exactly [OptionalWriter::none()] and asks no sink. *)
Lemma gate_declined : forall a m x c, is_gate a = true -> make_for a m = (RB x, c) -> x = RIoSink /\ c = [].
Proof.
  intros a m x c G H. destruct a; try discriminate G; simpl in H.
  - destruct (m_level m <=? l); [destruct (make_for a m); discriminate | inversion H; auto].
  - destruct (l <=? m_level m); [destruct (make_for a m); discriminate | inversion H; auto].
  - destruct (eval_pred p m); [destruct (make_for a m); discriminate | inversion H; auto].
Qed.

Lemma gate_declined0 : forall a x c, is_gate a = true -> make0 a = (RB x, c) -> x = RIoSink /\ c = [].
Proof.
  intros a x c G H. destruct a; try discriminate G; simpl in H.
  - inversion H; auto.
  - inversion H; auto.
  - destruct (make0 a); discriminate.
Qed.

(** For every expression Rust accepts: the factory of a recording sink is asked exactly when (and as
    often as) that sink is then written to. *)
Theorem asked_is_route : forall w m, well_typed w = true -> asked w m = route w m.
Proof.
  unfold asked, route. induction w; intros m WT; simpl in *; try reflexivity.
  - specialize (IHw m WT). destruct (make_for w m); assumption.
  - destruct (m_level m <=? l); [|reflexivity]. specialize (IHw m WT). destruct (make_for w m); assumption.
  - destruct (l <=? m_level m); [|reflexivity]. specialize (IHw m WT). destruct (make_for w m); assumption.
  - destruct (eval_pred p m); [|reflexivity]. specialize (IHw m WT). destruct (make_for w m); assumption.
  - apply andb_prop in WT as [W1 W2]. specialize (IHw1 m W1). specialize (IHw2 m W2).
    destruct (make_for w1 m), (make_for w2 m). simpl in *. congruence.
  - apply andb_prop in WT as [WT W2]. apply andb_prop in WT as [G W1].
    specialize (IHw1 m W1). specialize (IHw2 m W2).
    destruct (make_for w1 m) as [x c] eqn:E. simpl in *.
    destruct x; simpl in *; try assumption.
    destruct (gate_declined _ _ _ _ G E) as [-> ->].
    destruct (make_for w2 m); simpl in *. assumption.
Qed.

Theorem asked0_is_route0 : forall w, well_typed w = true -> asked0 w = route0 w.
Proof.
  unfold asked0, route0. induction w; intros WT; simpl in *; try reflexivity.
  - specialize (IHw WT). destruct (make0 w); assumption.
  - specialize (IHw WT). destruct (make0 w); assumption.
  - apply andb_prop in WT as [W1 W2]. specialize (IHw1 W1). specialize (IHw2 W2).
    destruct (make0 w1), (make0 w2). simpl in *. congruence.
  - apply andb_prop in WT as [WT W2]. apply andb_prop in WT as [G W1].
    specialize (IHw1 W1). specialize (IHw2 W2).
    destruct (make0 w1) as [x c] eqn:E. simpl in *.
    destruct x; simpl in *; try assumption.
    destruct (gate_declined0 _ _ _ G E) as [-> ->].
    destruct (make0 w2); simpl in *. assumption.
Qed.

(** ** The documented reading of each combinator, as corollaries on sets of levels *)

Lemma max_level_set : forall l i m, In i (route (WMax l (WSink i)) m) <-> m_level m <= l.
Proof.
  intros. rewrite routing. simpl. destruct (m_level m <=? l) eqn:E.
  - apply N.leb_le in E. simpl. tauto.
  - apply N.leb_gt in E. simpl. split; [tauto | lia].
Qed.

Lemma min_level_set : forall l i m, In i (route (WMin l (WSink i)) m) <-> l <= m_level m.
Proof.
  intros. rewrite routing. simpl. destruct (l <=? m_level m) eqn:E.
  - apply N.leb_le in E. simpl. tauto.
  - apply N.leb_gt in E. simpl. split; [tauto | lia].
Qed.

Lemma tee_is_union_with_multiplicity : forall a b m i,
  count_occ N.eq_dec (route (WTee a b) m) i = (count_occ N.eq_dec (route a m) i + count_occ N.eq_dec (route b m) i)%nat.
Proof. intros. rewrite !routing. simpl. apply count_occ_app. Qed.

Lemma ungated_selects : forall w m, ungated w = true -> denote w m <> [].
Proof.
  induction w; intros m U; simpl in *; try discriminate.
  - auto.
  - apply Bool.orb_true_iff in U as [U|U].
    + specialize (IHw1 m U). destruct (denote w1 m); [congruence | discriminate].
    + specialize (IHw2 m U). destruct (denote w1 m); [assumption | discriminate].
Qed.

(** With one gate directly over an always-selecting writer on the left, [or_else] is "the left side
    if it selects anything, otherwise the fallback". *)
Theorem orelse_selects_anything : forall a b m, gate_exact a = true ->
  route (WOrElse a b) m = match route a m with [] => route b m | l => l end.
Proof.
  intros a b m G. rewrite !routing. simpl.
  destruct a; try discriminate G; simpl in *.
  - destruct (m_level m <=? l); simpl; [|reflexivity].
    pose proof (ungated_selects _ m G). destruct (denote a m); congruence.
  - destruct (l <=? m_level m); simpl; [|reflexivity].
    pose proof (ungated_selects _ m G). destruct (denote a m); congruence.
  - destruct (eval_pred p m); simpl; [|reflexivity].
    pose proof (ungated_selects _ m G). destruct (denote a m); congruence.
Qed.

(** ... and that reading is *not* what stacked bounds on the left do: the fallback is consulted only
    when the OUTERMOST gate rejects ("returns OptionalWriter::none").  Here the outer bound
    [<= DEBUG] admits a WARN record, the inner one [>= INFO] drops it, and the fallback is not used. *)
Example orelse_stacked_bounds_no_fallback :
  let m := Meta 2 [] [] false in
  let w := WOrElse (WMax 4 (WMin 3 (WSink 0))) (WSink 1) in
  route w m = [] /\ route (WMax 4 (WMin 3 (WSink 0))) m = [] /\ route (WSink 1) m = [1].
Proof. vm_compute. auto. Qed.

(** Non-vacuity: a depth-4 expression with a tee, a fallback and a predicate, at three levels. *)
Example routing_example :
  let w := WTee (WSink 0) (WOrElse (WMax 2 (WSink 1)) (WFilter PIsSpan (WBox (WSink 2)))) in
  route w (Meta 1 [] [] false) = [0; 1] /\ route w (Meta 3 [] [] true) = [0; 2] /\ route w (Meta 3 [] [] false) = [0]
  /\ route0 w = [0; 2].
Proof. vm_compute. auto. Qed.
