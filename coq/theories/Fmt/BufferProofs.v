(** C13 (a) — proofs about the buffer / write protocol: one factory call and one whole-record write
    per event for every history (under the stated condition on aborted formats while the code has
    [ClearAfterOnly]), the F9 refutation, and non-interleaving under every schedule. *)
From Coq Require Import Lia PeanoNat Arith.
From TV Require Import Fmt.BufferModel.

(** ** Induction principle for the nested [event] type *)
Section EventInd.
  Variables (A M : Type) (P : event A M -> Prop).
  Hypothesis step : forall m nested out, Forall P nested -> P (Ev m nested out).
  Fixpoint event_ind' (e : event A M) : P e :=
    match e with
    | Ev m nested out =>
        step m nested out
          ((fix go (l : list (event A M)) : Forall P l :=
              match l with
              | [] => Forall_nil P
              | x :: t => Forall_cons x (event_ind' x) (go t)
              end) nested)
    end.
End EventInd.

Section Proofs.
Variables A M : Type.
(** Which writes unwind (a panicking sink) is arbitrary throughout: every statement below holds for every
    behaviour of the sinks.  What a write RETURNS is not even an input (the code ignores it). *)
Variable unw : M -> list A -> bool.
Implicit Types (e : event A M) (es : list (event A M)) (c : cfg) (buf : list A).

Lemma spec_actions_app : forall (r1 r2 : list (M * list A)),
  spec_actions (r1 ++ r2) = spec_actions r1 ++ spec_actions r2.
Proof. intros. unfold spec_actions. apply flat_map_app. Qed.

(** ** The fresh-String path never touches, and never depends on, the thread-local buffer *)
Lemma finish_fresh : forall c buf (m : M) (out : outcome A),
  finish unw c true buf m out = (buf, spec_actions (match out with
                                                 | OOk r => [(m, r)]
                                                 | OErr _ line => if lie c then [(m, line)] else []
                                                 | OPanic _ => []
                                                 end)).
Proof.
  intros c buf m out. unfold finish. destruct out; simpl.
  - destruct (pol c); reflexivity.
  - destruct (lie c); reflexivity.
  - reflexivity.
Qed.

Lemma fresh_ok : forall c e buf, on_event unw c true buf e = (buf, spec_actions (records (lie c) e)).
Proof.
  intros c e. induction e as [m nested out IH] using event_ind'. intros buf.
  simpl. rewrite finish_fresh. f_equal. rewrite spec_actions_app. f_equal.
  induction IH as [|n t Hn _ IHt]; simpl; [reflexivity|].
  rewrite spec_actions_app, Hn. simpl. f_equal. exact IHt.
Qed.

Lemma inner_ok : forall c (nested : list (event A M)),
  flat_map (fun n => snd (on_event unw c true [] n)) nested = spec_actions (flat_map (records (lie c)) nested).
Proof.
  intros c nested. induction nested as [|n t IH]; simpl; [reflexivity|].
  rewrite spec_actions_app, fresh_ok. simpl. f_equal. exact IH.
Qed.

(** ** One event on the thread-local path *)

(** The buffer is "clean" when its content cannot reach the next record. *)
Definition clean c buf : Prop := pol c = ClearBefore \/ buf = [].

Lemma on_event_ok : forall c buf e,
  clean c buf -> (pol c = ClearAfterOnly -> aborted unw (lie c) e = false) ->
  clean c (fst (on_event unw c false buf e)) /\ snd (on_event unw c false buf e) = spec_actions (records (lie c) e).
Proof.
  intros c buf [m nested out] Hc Hp. simpl.
  destruct (finish unw c false buf m out) as [b a] eqn:F. simpl.
  rewrite inner_ok, spec_actions_app.
  unfold finish, left_behind in F. destruct out as [r|p line|p]; simpl in *.
  - assert (E : (match pol c with ClearBefore => [] | _ => buf end) ++ r = r).
    { destruct Hc as [Hc| ->]; [rewrite Hc; reflexivity|]. destruct (pol c); reflexivity. }
    rewrite E in F. inversion F; subst. split; [|reflexivity].
    destruct (unw m r) eqn:U; [|right; reflexivity].
    destruct (pol c) eqn:P; [specialize (Hp eq_refl); discriminate | left; exact P | right; reflexivity].
  - destruct (lie c) eqn:L.
    + inversion F; subst. split; [|reflexivity].
      destruct (unw m line) eqn:U; [|right; reflexivity].
      destruct (pol c) eqn:P; [specialize (Hp eq_refl); discriminate | left; exact P | right; reflexivity].
    + inversion F; subst. split; [right; reflexivity | reflexivity].
  - inversion F; subst. split; [|reflexivity].
    destruct (pol c) eqn:P; [specialize (Hp eq_refl); discriminate | left; exact P | right; reflexivity].
Qed.

(** ** Headline of part (a): for every history, the calls reaching the configured writer are, per
    event (nested ones first), one [make_writer_for] with that event's metadata and one [write_all]
    carrying exactly that event's record. *)
Theorem one_factory_one_write_gen : forall c es buf,
  clean c buf -> (pol c = ClearAfterOnly -> NoAbortedFormat unw (lie c) es) ->
  snd (run_thread unw c buf es) = spec_actions (flat_map (records (lie c)) es).
Proof.
  intros c es. induction es as [|e t IH]; intros buf Hc Hp; simpl; [reflexivity|].
  assert (He : pol c = ClearAfterOnly -> aborted unw (lie c) e = false).
  { intros P. specialize (Hp P). inversion Hp; assumption. }
  assert (Ht : pol c = ClearAfterOnly -> NoAbortedFormat unw (lie c) t).
  { intros P. specialize (Hp P). inversion Hp; assumption. }
  destruct (on_event_ok c buf e Hc He) as [Hc' Ha].
  destruct (on_event unw c false buf e) as [b a]. simpl in *.
  specialize (IH b Hc' Ht). destruct (run_thread unw c b t) as [b' a']. simpl in *.
  rewrite spec_actions_app. congruence.
Qed.

Theorem one_factory_one_write : forall c es,
  (pol c = ClearAfterOnly -> NoAbortedFormat unw (lie c) es) ->
  snd (run_thread unw c [] es) = spec_actions (flat_map (records (lie c)) es).
Proof. intros. apply one_factory_one_write_gen; [right; reflexivity | assumption]. Qed.

(** After either repair the hypothesis is gone: a caught panic during formatting affects no later record. *)
Corollary panic_safe_when_repaired : forall c es,
  pol c <> ClearAfterOnly ->
  snd (run_thread unw c [] es) = spec_actions (flat_map (records (lie c)) es).
Proof. intros c es H. apply one_factory_one_write. intros P. contradiction. Qed.

(** History independence (repaired code): whatever came before on the thread — aborted formats, writes
    that failed, sinks that panicked — the calls made for the later events are those of a fresh thread.
    In particular the record after a failed write is whole and unprefixed. *)
Corollary history_independent : forall c es1 es2,
  pol c <> ClearAfterOnly ->
  snd (run_thread unw c [] (es1 ++ es2)) = snd (run_thread unw c [] es1) ++ snd (run_thread unw c [] es2).
Proof.
  intros c es1 es2 H. rewrite !panic_safe_when_repaired by assumption.
  rewrite flat_map_app. apply spec_actions_app.
Qed.

Lemma no_aborted_format_spec : forall l es, no_aborted_format unw l es = true <-> NoAbortedFormat unw l es.
Proof.
  intros l es. unfold no_aborted_format, NoAbortedFormat. rewrite forallb_forall, Forall_forall.
  split; intros H e He; specialize (H e He); destruct (aborted unw l e); simpl in *; congruence.
Qed.

(** ** The micro-step machine runs the same protocol *)

Lemma trace_items_app : forall c (l1 l2 : list (item A M)) buf,
  trace_items unw c buf (l1 ++ l2) =
  (fst (trace_items unw c (fst (trace_items unw c buf l1)) l2),
   snd (trace_items unw c buf l1) ++ snd (trace_items unw c (fst (trace_items unw c buf l1)) l2)).
Proof.
  intros c l1. induction l1 as [|[fresh m out] t IH]; intros l2 buf; simpl.
  - destruct (trace_items unw c buf l2); reflexivity.
  - destruct (finish unw c fresh buf m out) as [b a]. rewrite IH.
    destruct (trace_items unw c b t) as [b' a']. simpl.
    destruct (trace_items unw c b' l2) as [b'' a'']. simpl. rewrite app_assoc. reflexivity.
Qed.

Lemma flatten_ok : forall c e fresh buf, trace_items unw c buf (flatten fresh e) = on_event unw c fresh buf e.
Proof.
  intros c e. induction e as [m nested out IH] using event_ind'. intros fresh buf. simpl.
  rewrite trace_items_app.
  assert (N : trace_items unw c buf (flat_map (flatten true) nested)
              = (buf, flat_map (fun n => snd (on_event unw c true [] n)) nested)).
  { clear fresh. revert buf. induction IH as [|n t Hn _ IHt]; intros buf; simpl; [reflexivity|].
    rewrite trace_items_app, Hn, !fresh_ok. simpl. rewrite IHt. reflexivity. }
  rewrite N. simpl. destruct (finish unw c fresh buf m out) as [b a]. simpl. rewrite app_nil_r. reflexivity.
Qed.

Lemma run_thread_flat : forall c es buf,
  run_thread unw c buf es = trace_items unw c buf (flat_map (flatten false) es).
Proof.
  intros c es. induction es as [|e t IH]; intros buf; simpl; [reflexivity|].
  rewrite trace_items_app, flatten_ok. destruct (on_event unw c false buf e) as [b a]. simpl.
  rewrite IH. destruct (trace_items unw c b (flat_map (flatten false) t)); reflexivity.
Qed.

Definition olist (oa : option (action A M)) : list (action A M) := match oa with Some a => [a] | None => [] end.

Lemma step_remaining : forall c (s s' : tstate A M) oa,
  tstep unw c s = Some (s', oa) -> remaining unw c s = olist oa ++ remaining unw c s'.
Proof.
  intros c [buf ph todo] s' oa H. unfold tstep in H. simpl in H.
  destruct ph as [|fresh m w|fresh m w].
  - destruct todo as [|[fresh m out] rest]; [discriminate|].
    unfold remaining at 1. simpl. unfold finish.
    destruct out as [r|p line|p].
    + inversion H; subst; clear H. unfold remaining. simpl.
      destruct fresh; simpl; destruct (trace_items unw c _ rest); reflexivity.
    + destruct (lie c).
      * inversion H; subst; clear H. unfold remaining. simpl.
        destruct fresh; simpl; destruct (trace_items unw c _ rest); reflexivity.
      * inversion H; subst; clear H. unfold remaining. simpl.
        destruct (trace_items unw c _ rest); reflexivity.
    + inversion H; subst; clear H. unfold remaining. simpl.
      destruct (trace_items unw c _ rest); reflexivity.
  - inversion H; subst; clear H. reflexivity.
  - inversion H; subst; clear H. reflexivity.
Qed.

Lemma step_none_remaining : forall c (s : tstate A M), tstep unw c s = None -> remaining unw c s = [] /\ finished s = true.
Proof.
  intros c [buf ph todo] H. unfold tstep in H. simpl in H.
  destruct ph; [|discriminate|discriminate].
  destruct todo as [|[fresh m out] rest]; [split; reflexivity|].
  destruct out; [discriminate| destruct (lie c); discriminate | discriminate].
Qed.

Lemma finished_remaining : forall c (s : tstate A M), finished s = true -> remaining unw c s = [].
Proof.
  intros c [buf ph todo] H. unfold finished in H. simpl in H.
  destruct ph; try discriminate. destruct todo; [reflexivity | discriminate].
Qed.

(** ** Schedules *)

Lemma nth_error_upd_same : forall X (l : list X) n x y, nth_error l n = Some y -> nth_error (upd n x l) n = Some x.
Proof. induction l; intros [|n] x y H; simpl in *; try discriminate; eauto. Qed.

Lemma nth_error_upd_other : forall X (l : list X) n k x, n <> k -> nth_error (upd n x l) k = nth_error l k.
Proof.
  induction l; intros [|n] [|k] x H; simpl in *; try reflexivity; try congruence.
  apply IHl. congruence.
Qed.

Lemma proj_app : forall t (l1 l2 : list (nat * action A M)), proj t (l1 ++ l2) = proj t l1 ++ proj t l2.
Proof. intros. unfold proj. rewrite filter_app, map_app. reflexivity. Qed.

(** Invariant: what thread [t] has put into the global log so far, followed by what it would still
    emit running alone, is its sequential trace. *)
Definition inv c (progs : list (list (event A M))) (g : gstate A M) : Prop :=
  forall t es, nth_error progs t = Some es ->
    exists s, nth_error (fst g) t = Some s /\ proj t (snd g) ++ remaining unw c s = snd (run_thread unw c [] es).

Lemma inv_init : forall c progs, inv c progs (init progs).
Proof.
  intros c progs t es H. unfold init. simpl.
  exists (TS [] PIdle (flat_map (flatten false) es)). split.
  - rewrite nth_error_map, H. reflexivity.
  - unfold remaining. simpl. rewrite run_thread_flat. reflexivity.
Qed.

Lemma inv_step : forall c progs g t0, inv c progs g -> inv c progs (gstep unw c g t0).
Proof.
  intros c progs [ts log] t0 I. unfold gstep. simpl.
  destruct (nth_error ts t0) as [s0|] eqn:E0; [|exact I].
  destruct (tstep unw c s0) as [[s' oa]|] eqn:St; [|exact I].
  intros t es H. destruct (I t es H) as [s [Es Hs]]. simpl in *.
  destruct (Nat.eq_dec t0 t) as [->|Ne].
  - exists s'. split; [eapply nth_error_upd_same; eassumption|].
    rewrite Es in E0. inversion E0; subst s0.
    rewrite proj_app, <- app_assoc.
    rewrite (step_remaining _ _ _ _ St) in Hs. rewrite <- Hs. f_equal. f_equal.
    destruct oa; simpl; [|reflexivity]. unfold proj. simpl. rewrite Nat.eqb_refl. reflexivity.
  - exists s. split; [rewrite nth_error_upd_other; assumption|].
    rewrite proj_app. replace (proj t (match oa with Some a => [(t0, a)] | None => [] end)) with (@nil (action A M)).
    + rewrite app_nil_r. assumption.
    + destruct oa; [|reflexivity]. unfold proj. simpl.
      destruct (Nat.eqb t0 t) eqn:Q; [apply Nat.eqb_eq in Q; contradiction | reflexivity].
Qed.

Lemma inv_run : forall c progs sched g, inv c progs g -> inv c progs (run_sched unw c sched g).
Proof.
  intros c progs sched. unfold run_sched. induction sched as [|t s IH]; intros g I; simpl; [exact I|].
  apply IH, inv_step, I.
Qed.

(** ** Headline: every schedule.  For every number of threads, every program per thread and every
    interleaving of the micro-steps, each thread's part of the global call log is a prefix of what
    that thread emits when run alone — all of it once the thread has finished.  The global log is
    therefore an interleaving of the per-thread sequences of whole [make]/[write] calls. *)
Theorem no_interleave : forall c (progs : list (list (event A M))) sched t es,
  nth_error progs t = Some es ->
  let g := run_sched unw c sched (init progs) in
  exists s, nth_error (fst g) t = Some s
         /\ proj t (snd g) ++ remaining unw c s = snd (run_thread unw c [] es)
         /\ (finished s = true -> proj t (snd g) = snd (run_thread unw c [] es)).
Proof.
  intros c progs sched t es H g.
  destruct (inv_run c progs sched _ (inv_init c progs) t es H) as [s [E P]].
  exists s. split; [exact E|]. split; [exact P|].
  intros F. rewrite (finished_remaining c s F), app_nil_r in P. exact P.
Qed.

Lemma in_proj : forall t a (log : list (nat * action A M)), In (t, a) log -> In a (proj t log).
Proof.
  intros t a log H. unfold proj. apply in_map_iff. exists (t, a). split; [reflexivity|].
  apply filter_In. split; [assumption|]. simpl. apply Nat.eqb_refl.
Qed.

Lemma in_spec_actions_write : forall (rs : list (M * list A)) m b, In (AWrite m b) (spec_actions rs) -> In (m, b) rs.
Proof.
  intros rs m b H. unfold spec_actions in H. apply in_flat_map in H as [[m' r] [Hr Hi]].
  simpl in Hi. destruct Hi as [Hi|[Hi|[]]]; [discriminate|]. inversion Hi; subst. assumption.
Qed.

(** ... and every single [write] in that log — whichever thread, whatever the schedule — carries
    exactly one whole record of the writing thread's history. *)
Theorem every_write_is_a_whole_record : forall c (progs : list (list (event A M))) sched t es m b,
  nth_error progs t = Some es ->
  (pol c = ClearAfterOnly -> NoAbortedFormat unw (lie c) es) ->
  In (t, AWrite m b) (snd (run_sched unw c sched (init progs))) ->
  In (m, b) (flat_map (records (lie c)) es).
Proof.
  intros c progs sched t es m b H Hp Hin.
  destruct (no_interleave c progs sched t es H) as [s [_ [P _]]].
  apply in_proj in Hin. apply in_spec_actions_write.
  rewrite <- (one_factory_one_write c es Hp), <- P. apply in_or_app. left. exact Hin.
Qed.

End Proofs.

(** ** Known finding F9, on the model of the code as it is ([ClearAfterOnly]) *)

Definition f9_history : list (event N N) :=
  [ Ev 1%N [] (OOk [105; 49; 10]%N);         (* info!(a = 1)                       -> "i1\n" *)
    Ev 2%N [] (OPanic [120; 55; 98; 61]%N);  (* info!(x = 7, b = ?PanickingDebug)  -> "x7b=" then unwinds *)
    Ev 3%N [] (OOk [99; 51; 10]%N) ].        (* info!(c = 3)                       -> "c3\n" *)

Lemma F9_refuted :
  ~ NoAbortedFormat no_unwind true f9_history /\
  snd (run_thread no_unwind (Cfg ClearAfterOnly true) [] f9_history)
    = [AMake 1%N; AWrite 1%N [105; 49; 10]%N; AMake 3%N; AWrite 3%N [120; 55; 98; 61; 99; 51; 10]%N] /\
  snd (run_thread no_unwind (Cfg ClearAfterOnly true) [] f9_history)
    <> spec_actions (flat_map (records true) f9_history).
Proof.
  split; [|split].
  - intros H. apply no_aborted_format_spec in H. vm_compute in H. discriminate.
  - vm_compute. reflexivity.
  - vm_compute. intros H. discriminate.
Qed.

(** The same history under either repair: the third record is its own. *)
Example F9_history_repaired : forall p, p <> ClearAfterOnly ->
  snd (run_thread no_unwind (Cfg p true) [] f9_history)
    = [AMake 1%N; AWrite 1%N [105; 49; 10]%N; AMake 3%N; AWrite 3%N [99; 51; 10]%N].
Proof. intros [] H; [contradiction| |]; vm_compute; reflexivity. Qed.

(** Non-vacuity of [one_factory_one_write]: a history with a nested event, a format error and two
    ordinary events satisfies the hypothesis and produces five calls... *)
Example one_factory_one_write_example :
  let h : list (event N N) :=
    [ Ev 1%N [Ev 9%N [] (OOk [9; 10]%N)] (OOk [1; 10]%N); Ev 2%N [] (OErr [2]%N [69; 10]%N); Ev 3%N [] (OOk [3; 10]%N) ] in
  NoAbortedFormat no_unwind true h /\
  snd (run_thread no_unwind (Cfg ClearAfterOnly true) [] h)
   = [AMake 9%N; AWrite 9%N [9; 10]%N; AMake 1%N; AWrite 1%N [1; 10]%N; AMake 2%N; AWrite 2%N [69; 10]%N; AMake 3%N; AWrite 3%N [3; 10]%N].
Proof. split; [apply no_aborted_format_spec; vm_compute; reflexivity | vm_compute; reflexivity]. Qed.

(** Non-vacuity of [no_interleave]: two threads, a schedule that makes both writers before either
    write happens; the log interleaves the calls but every write is one whole record. *)
Example no_interleave_example :
  let progs : list (list (event N N)) := [ [Ev 1%N [] (OOk [1; 10]%N)]; [Ev 2%N [] (OOk [2; 10]%N)] ] in
  snd (run_sched no_unwind (Cfg ClearAfterOnly true) [0; 1; 0; 1; 1; 0]%nat (init progs))
   = [(0%nat, AMake 1%N); (1%nat, AMake 2%N); (1%nat, AWrite 2%N [2; 10]%N); (0%nat, AWrite 1%N [1; 10]%N)].
Proof. vm_compute. reflexivity. Qed.

(** Why the buffer must be thread-local: the same two micro-step programs over ONE shared buffer (both
    threads format before either writes) would hand a sink the concatenation of both records.  Shown on
    the model by running thread 1's format step against thread 0's buffer content. *)
Example shared_buffer_would_interleave :
  let c := Cfg ClearAfterOnly true in
  let s0 := TS (@nil N) (@PIdle N N) [Item false 1%N (OOk [1; 10]%N)] in
  match tstep no_unwind c s0 with
  | Some (s0', _) =>
      match tstep no_unwind c (TS (t_buf s0') (@PIdle N N) [Item false 2%N (OOk [2; 10]%N)]) with
      | Some (s1', _) => t_phase s1' = PFormatted false 2%N [1; 10; 2; 10]%N
      | None => False
      end
  | None => False
  end.
Proof. vm_compute. reflexivity. Qed.

(** A sink that panics inside [write] is the second way out of the closure: with [ClearAfterOnly] it leaves
    the WHOLE record behind (F9's other face); the code as repaired is unaffected.  Here the write of
    record 2 unwinds. *)
Definition unw2 : N -> list N -> bool := fun m _ => N.eqb m 2.
Definition sink_panic_history : list (event N N) :=
  [ Ev 1%N [] (OOk [1; 10]%N); Ev 2%N [] (OOk [2; 10]%N); Ev 3%N [] (OOk [3; 10]%N) ].

Example sink_panic_leaks_when_unrepaired :
  snd (run_thread unw2 (Cfg ClearAfterOnly true) [] sink_panic_history)
    = [AMake 1%N; AWrite 1%N [1; 10]%N; AMake 2%N; AWrite 2%N [2; 10]%N; AMake 3%N; AWrite 3%N [2; 10; 3; 10]%N]
  /\ ~ NoAbortedFormat unw2 true sink_panic_history.
Proof.
  split; [vm_compute; reflexivity|].
  intros H. apply no_aborted_format_spec in H. vm_compute in H. discriminate.
Qed.

Example sink_panic_harmless_when_repaired : forall p, p <> ClearAfterOnly ->
  snd (run_thread unw2 (Cfg p true) [] sink_panic_history)
    = [AMake 1%N; AWrite 1%N [1; 10]%N; AMake 2%N; AWrite 2%N [2; 10]%N; AMake 3%N; AWrite 3%N [3; 10]%N].
Proof. intros [] H; [contradiction| |]; vm_compute; reflexivity. Qed.
