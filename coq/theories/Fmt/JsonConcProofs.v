(** C14 — proofs about concurrent `record` calls on one span (model: Fmt/JsonConc.v).

    With the extensions write lock held across read - format - store ([atomic = true], the code as it is), EVERY schedule
    of EVERY number of threads leaves exactly what SOME serial order of the calls leaves (the order in which the stores
    happened; it keeps each thread's own order), so no recorded field is lost and every key holds the value of the last
    write in that order.  Without the lock ([atomic = false]) a two-thread schedule loses a field ([lost_update]). *)
From Coq Require Import String NArith ZArith Bool List Lia Arith.
From TV Require Import Common.Sched Fmt.JsonModel Fmt.JsonProofsRender Fmt.JsonProofsParse Fmt.JsonProofsMap Fmt.JsonConc.
From TVGen Require Import Gen_json.
Import ListNotations.
Local Open Scope N_scope.

(** * List update *)
Lemma set_nth_length {A} : forall (l : list A) n x, length (set_nth n x l) = length l.
Proof. induction l as [|y l IH]; intros [|n] x; simpl; auto. Qed.

Lemma nth_set_same {A} : forall (l : list A) n x y, nth_error l n = Some y -> nth_error (set_nth n x l) n = Some x.
Proof. induction l as [|z l IH]; intros [|n] x y H; simpl in *; try discriminate; eauto. Qed.

Lemma nth_set_other {A} : forall (l : list A) n m x, n <> m -> nth_error (set_nth n x l) m = nth_error l m.
Proof.
  induction l as [|z l IH]; intros [|n] [|m] x H; simpl; auto; try congruence; try (apply IH; congruence).
Qed.

(** * Serial executions *)
Lemma serial_snoc c m0 log t vals :
  serial c m0 (log ++ [(t, vals)]) = add_fields c (serial c m0 log) (eff c vals).
Proof. unfold serial. rewrite map_app, fold_left_app. reflexivity. Qed.

Lemma log_of_snoc_same t log vals : log_of t (log ++ [(t, vals)]) = log_of t log ++ [vals].
Proof. unfold log_of. rewrite filter_app, map_app. simpl. rewrite Nat.eqb_refl. reflexivity. Qed.

Lemma log_of_snoc_other t t' log vals : t <> t' -> log_of t' (log ++ [(t, vals)]) = log_of t' log.
Proof.
  intro H. unfold log_of. rewrite filter_app, map_app. simpl.
  replace (Nat.eqb t t') with false by (symmetry; apply Nat.eqb_neq; exact H). simpl. apply app_nil_r.
Qed.

(** * The invariant of the locked machine *)
Section Locked.
Variable c : cfg.
Variable m0 : smap.
Variable progs : list (list fields).

Definition lock_ok (s : cstate) : Prop :=
  forall t th, nth_error (c_threads s) t = Some th -> th_pc th <> PIdle -> c_lock s = Some t.

Definition phases_ok (s : cstate) : Prop :=
  forall t th, nth_error (c_threads s) t = Some th ->
    match th_pc th with
    | PSnap snap => snap = c_stored s
    | PNew new => exists vals rest, th_todo th = vals :: rest /\ new = add_fields c (c_stored s) (eff c vals)
    | _ => True
    end.

Definition stored_ok (s : cstate) : Prop := c_stored s = serial c m0 (c_log s).

Definition progs_ok (s : cstate) : Prop :=
  length (c_threads s) = length progs /\
  (forall t th, nth_error (c_threads s) t = Some th ->
     log_of t (c_log s) = th_done th /\ nth_error progs t = Some (th_done th ++ th_todo th)) /\
  (forall e, In e (c_log s) -> (fst e < length (c_threads s))%nat).

Definition Inv (s : cstate) : Prop := lock_ok s /\ phases_ok s /\ stored_ok s /\ progs_ok s.

Lemma inv_init : Inv (cinit m0 progs).
Proof.
  unfold Inv, lock_ok, phases_ok, stored_ok, progs_ok, cinit. cbn [c_threads c_lock c_stored c_log].
  assert (N : forall t th, nth_error (map (fun p => {| th_todo := p; th_done := []; th_pc := PIdle |}) progs) t = Some th ->
              exists p, nth_error progs t = Some p /\ th = {| th_todo := p; th_done := []; th_pc := PIdle |}).
  { intros t th H. rewrite nth_error_map in H. destruct (nth_error progs t) as [p|]; [|discriminate].
    inversion H. exists p. auto. }
  repeat split.
  - intros t th H Hp. destruct (N t th H) as (p & _ & ->). exfalso. apply Hp. reflexivity.
  - intros t th H. destruct (N t th H) as (p & _ & ->). exact I.
  - apply map_length.
  - destruct (N t th H) as (p & _ & ->). reflexivity.
  - destruct (N t th H) as (p & Hp & ->). exact Hp.
  - intros e [].
Qed.

Lemma inv_step : forall s t s', Inv s -> cstep c true s t = Some s' -> Inv s'.
Proof.
  intros s t s' (L & P & S & (Len & Pr & Tid)) H. unfold cstep in H.
  destruct (nth_error (c_threads s) t) as [th|] eqn:Et; [|discriminate].
  assert (Tlt : (t < length (c_threads s))%nat) by (apply nth_error_Some; congruence).
  (* every other thread is idle whenever [t] is not *)
  assert (Others : th_pc th <> PIdle -> forall t' th', nth_error (c_threads s) t' = Some th' -> t' <> t -> th_pc th' = PIdle).
  { intros Hne t' th' E' Hd. destruct (th_pc th') eqn:Ep; auto;
      assert (A : c_lock s = Some t') by (apply (L t' th' E'); congruence);
      rewrite (L t th Et Hne) in A; congruence. }
  destruct (th_pc th) eqn:Epc.
  - (* acquire *)
    destruct (th_todo th) as [|vals rest] eqn:Etodo; [discriminate|].
    destruct (c_lock s) as [o|] eqn:El; [discriminate|]. inversion H; subst s'; clear H.
    unfold Inv, lock_ok, phases_ok, stored_ok, progs_ok. cbn [c_threads c_lock c_stored c_log].
    repeat split.
    + intros t' th' E' Hp. destruct (Nat.eq_dec t t') as [->|D]; [reflexivity|].
      rewrite nth_set_other in E' by exact D. specialize (L t' th' E' Hp). congruence.
    + intros t' th' E'. destruct (Nat.eq_dec t t') as [<-|D].
      * rewrite (nth_set_same _ _ _ _ Et) in E'. inversion E'; subst th'. exact I.
      * rewrite nth_set_other in E' by exact D. exact (P t' th' E').
    + exact S.
    + rewrite set_nth_length. exact Len.
    + destruct (Nat.eq_dec t t0) as [<-|D].
      * rewrite (nth_set_same _ _ _ _ Et) in H. inversion H; subst th0. cbn [th_done]. apply (Pr t th Et).
      * rewrite nth_set_other in H by exact D. apply (Pr t0 th0 H).
    + destruct (Nat.eq_dec t t0) as [<-|D].
      * rewrite (nth_set_same _ _ _ _ Et) in H. inversion H; subst th0. cbn [th_done th_todo]. rewrite <- Etodo. apply (Pr t th Et).
      * rewrite nth_set_other in H by exact D. apply (Pr t0 th0 H).
    + intros e He. rewrite set_nth_length. apply Tid. exact He.
  - (* read *)
    inversion H; subst s'; clear H.
    assert (Hne : th_pc th <> PIdle) by congruence.
    unfold Inv, lock_ok, phases_ok, stored_ok, progs_ok, with_thread. cbn [c_threads c_lock c_stored c_log].
    repeat split.
    + intros t' th' E' Hp. destruct (Nat.eq_dec t t') as [<-|D]; [apply (L t th Et Hne)|].
      rewrite nth_set_other in E' by exact D. apply (L t' th' E' Hp).
    + intros t' th' E'. destruct (Nat.eq_dec t t') as [<-|D].
      * rewrite (nth_set_same _ _ _ _ Et) in E'. inversion E'; subst th'. reflexivity.
      * rewrite nth_set_other in E' by exact D. exact (P t' th' E').
    + exact S.
    + rewrite set_nth_length. exact Len.
    + destruct (Nat.eq_dec t t0) as [<-|D].
      * rewrite (nth_set_same _ _ _ _ Et) in H. inversion H; subst th0. cbn [th_done]. apply (Pr t th Et).
      * rewrite nth_set_other in H by exact D. apply (Pr t0 th0 H).
    + destruct (Nat.eq_dec t t0) as [<-|D].
      * rewrite (nth_set_same _ _ _ _ Et) in H. inversion H; subst th0. cbn [th_done th_todo]. apply (Pr t th Et).
      * rewrite nth_set_other in H by exact D. apply (Pr t0 th0 H).
    + intros e He. rewrite set_nth_length. apply Tid. exact He.
  - (* format *)
    destruct (th_todo th) as [|vals rest] eqn:Etodo; [discriminate|]. inversion H; subst s'; clear H.
    assert (Hne : th_pc th <> PIdle) by congruence.
    pose proof (P t th Et) as Pt. rewrite Epc in Pt. subst snap.
    unfold Inv, lock_ok, phases_ok, stored_ok, progs_ok, with_thread. cbn [c_threads c_lock c_stored c_log].
    repeat split.
    + intros t' th' E' Hp. destruct (Nat.eq_dec t t') as [<-|D]; [apply (L t th Et Hne)|].
      rewrite nth_set_other in E' by exact D. apply (L t' th' E' Hp).
    + intros t' th' E'. destruct (Nat.eq_dec t t') as [<-|D].
      * rewrite (nth_set_same _ _ _ _ Et) in E'. inversion E'; subst th'. cbn [th_pc th_todo].
        exists vals, rest. split; reflexivity.
      * rewrite nth_set_other in E' by exact D. exact (P t' th' E').
    + exact S.
    + rewrite set_nth_length. exact Len.
    + destruct (Nat.eq_dec t t0) as [<-|D].
      * rewrite (nth_set_same _ _ _ _ Et) in H. inversion H; subst th0. cbn [th_done]. apply (Pr t th Et).
      * rewrite nth_set_other in H by exact D. apply (Pr t0 th0 H).
    + destruct (Nat.eq_dec t t0) as [<-|D].
      * rewrite (nth_set_same _ _ _ _ Et) in H. inversion H; subst th0. cbn [th_done th_todo]. rewrite <- Etodo. apply (Pr t th Et).
      * rewrite nth_set_other in H by exact D. apply (Pr t0 th0 H).
    + intros e He. rewrite set_nth_length. apply Tid. exact He.
  - (* store *)
    destruct (th_todo th) as [|vals rest] eqn:Etodo; [discriminate|]. inversion H; subst s'; clear H.
    assert (Hne : th_pc th <> PIdle) by congruence.
    pose proof (P t th Et) as Pt. rewrite Epc in Pt. destruct Pt as (vals' & rest' & E1 & E2).
    rewrite Etodo in E1. inversion E1; subst vals' rest'. clear E1.
    unfold Inv, lock_ok, phases_ok, stored_ok, progs_ok. cbn [c_threads c_lock c_stored c_log].
    repeat split.
    + intros t' th' E' Hp. destruct (Nat.eq_dec t t') as [<-|D]; [apply (L t th Et Hne)|].
      rewrite nth_set_other in E' by exact D. apply (L t' th' E' Hp).
    + intros t' th' E'. destruct (Nat.eq_dec t t') as [<-|D].
      * rewrite (nth_set_same _ _ _ _ Et) in E'. inversion E'; subst th'. exact I.
      * rewrite nth_set_other in E' by exact D. rewrite (Others ltac:(discriminate) t' th' E') by congruence. exact I.
    + rewrite serial_snoc, <- S. exact E2.
    + rewrite set_nth_length. exact Len.
    + destruct (Nat.eq_dec t t0) as [<-|D].
      * rewrite (nth_set_same _ _ _ _ Et) in H. inversion H; subst th0. cbn [th_done].
        rewrite log_of_snoc_same. destruct (Pr t th Et) as [A _]. rewrite A. reflexivity.
      * rewrite nth_set_other in H by exact D. rewrite log_of_snoc_other by exact D. apply (Pr t0 th0 H).
    + destruct (Nat.eq_dec t t0) as [<-|D].
      * rewrite (nth_set_same _ _ _ _ Et) in H. inversion H; subst th0. cbn [th_done th_todo].
        destruct (Pr t th Et) as [_ B]. rewrite Etodo in B. rewrite <- app_assoc. exact B.
      * rewrite nth_set_other in H by exact D. apply (Pr t0 th0 H).
    + intros e He. rewrite set_nth_length. apply in_app_or in He. destruct He as [He|[<-|[]]]; [apply Tid; exact He | exact Tlt].
  - (* release *)
    inversion H; subst s'; clear H.
    assert (Hne : th_pc th <> PIdle) by congruence.
    unfold Inv, lock_ok, phases_ok, stored_ok, progs_ok. cbn [c_threads c_lock c_stored c_log].
    repeat split.
    + intros t' th' E' Hp. destruct (Nat.eq_dec t t') as [<-|D].
      * rewrite (nth_set_same _ _ _ _ Et) in E'. inversion E'; subst th'. exfalso. apply Hp. reflexivity.
      * rewrite nth_set_other in E' by exact D. exfalso. apply Hp. apply (Others ltac:(discriminate) t' th' E'). congruence.
    + intros t' th' E'. destruct (Nat.eq_dec t t') as [<-|D].
      * rewrite (nth_set_same _ _ _ _ Et) in E'. inversion E'; subst th'. exact I.
      * rewrite nth_set_other in E' by exact D. exact (P t' th' E').
    + exact S.
    + rewrite set_nth_length. exact Len.
    + destruct (Nat.eq_dec t t0) as [<-|D].
      * rewrite (nth_set_same _ _ _ _ Et) in H. inversion H; subst th0. cbn [th_done]. apply (Pr t th Et).
      * rewrite nth_set_other in H by exact D. apply (Pr t0 th0 H).
    + destruct (Nat.eq_dec t t0) as [<-|D].
      * rewrite (nth_set_same _ _ _ _ Et) in H. inversion H; subst th0. cbn [th_done th_todo]. apply (Pr t th Et).
      * rewrite nth_set_other in H by exact D. apply (Pr t0 th0 H).
    + intros e He. rewrite set_nth_length. apply Tid. exact He.
Qed.

Theorem inv_run : forall sched, Inv (crun c true m0 progs sched).
Proof.
  intro sched. unfold crun. apply (Sched.inv_run cstate (cstep c true) Inv).
  - intros s t s' Hi Hs. eapply inv_step; eauto.
  - apply inv_init.
Qed.

(** ** Serializability: for EVERY schedule, what is stored is what the calls leave when they run one after the other in the
    order of their stores — an order that keeps every thread's own order *)
Theorem serializable : forall sched,
  let s := crun c true m0 progs sched in
  c_stored s = serial c m0 (c_log s) /\
  (forall t th, nth_error (c_threads s) t = Some th ->
     log_of t (c_log s) = th_done th /\ nth_error progs t = Some (th_done th ++ th_todo th)).
Proof.
  intros sched s. destruct (inv_run sched) as (_ & _ & S & (_ & Pr & _)). split; [exact S | exact Pr].
Qed.

(** ... and when every thread has finished, that order contains every call of every thread *)
Theorem serializable_finished : forall sched,
  let s := crun c true m0 progs sched in
  finished s ->
  c_stored s = serial c m0 (c_log s) /\ forall t p, nth_error progs t = Some p -> log_of t (c_log s) = p.
Proof.
  intros sched s F. destruct (inv_run sched) as (_ & _ & S & (Len & Pr & _)). split; [exact S|].
  intros t p Hp. fold s in Len, Pr.
  destruct (nth_error (c_threads s) t) as [th|] eqn:E.
  - destruct (Pr t th E) as [A B]. unfold finished in F. rewrite Forall_forall in F.
    destruct (F th (nth_error_In _ _ E)) as [T _]. rewrite T, app_nil_r in B. rewrite Hp in B. inversion B. rewrite A. reflexivity.
  - apply nth_error_None in E. rewrite Len in E. apply nth_error_None in E. congruence.
Qed.
End Locked.

(** * No recorded field is lost: every key written by a stored call is present afterwards, with the value of the last write
    to that key in the serial order *)
Lemma last_write_keeps k : forall ws a, (exists j, a = Some j) -> exists j, last_write k ws a = Some j.
Proof.
  induction ws as [|[n2 v2] ws IH]; intros a Ha; [exact Ha|]. cbn [last_write]. apply IH.
  destruct (beqb k (span_key n2 v2)); [eexists; reflexivity | exact Ha].
Qed.

Lemma last_write_some k : forall ws acc n v, In (n, v) ws -> span_key n v = k -> exists j, last_write k ws acc = Some j.
Proof.
  induction ws as [|[n' v'] ws IH]; intros acc n v Hin Hk; [inversion Hin|].
  destruct Hin as [E|Hin].
  - inversion E; subst n' v'. cbn [last_write]. rewrite Hk, beqb_refl. apply last_write_keeps. eexists; reflexivity.
  - cbn [last_write]. eapply IH; eauto.
Qed.

Lemma serial_visit c m0 log :
  fx141 c = true -> serial c m0 log = visit_span m0 (concat (map (fun e => eff c (snd e)) log)).
Proof. intro H. unfold serial. apply fold_add_fields. left. exact H. Qed.

(** every write of every stored call is visible: its key is present, and holds the value of the last write to that key in
    the serial order (owned keys, fx141: the repaired add_fields) *)
Theorem no_lost_field c m0 progs sched t vals n v :
  fx141 c = true ->
  let s := crun c true m0 progs sched in
  In (t, vals) (c_log s) -> In (n, v) (eff c vals) ->
  lookup (span_key n v) (c_stored s) =
    last_write (span_key n v) (concat (map (fun e => eff c (snd e)) (c_log s))) (lookup (span_key n v) m0) /\
  exists j, lookup (span_key n v) (c_stored s) = Some j.
Proof.
  intros Hf s Hlog Hin. destruct (serializable c m0 progs sched) as [S _]. fold s in S.
  rewrite S, serial_visit by exact Hf. rewrite visit_lookup. split; [reflexivity|].
  eapply last_write_some; [|reflexivity].
  apply in_concat. exists (eff c vals). split; [|exact Hin].
  apply in_map_iff. exists (t, vals). split; [reflexivity | exact Hlog].
Qed.

(** * Two threads: the stored object is one of the (executable) serial outcomes *)
Lemma merges_nil_l {A} (b : list A) : merges [] b = [b].
Proof. destruct b; reflexivity. Qed.
Lemma merges_nil_r {A} (a : list A) : merges a [] = [a].
Proof. destruct a; reflexivity. Qed.
Lemma merges_cons {A} (x : A) a y b :
  merges (x :: a) (y :: b) = map (cons x) (merges a (y :: b)) ++ map (cons y) (merges (x :: a) b).
Proof. reflexivity. Qed.

Lemma merges_left {A} (x : A) a b l : In l (merges a b) -> In (x :: l) (merges (x :: a) b).
Proof.
  intro H. destruct b as [|y b].
  - rewrite merges_nil_r in *. destruct H as [<-|[]]. left. reflexivity.
  - rewrite merges_cons. apply in_or_app. left. apply in_map. exact H.
Qed.
Lemma merges_right {A} (y : A) a b l : In l (merges a b) -> In (y :: l) (merges a (y :: b)).
Proof.
  intro H. destruct a as [|x a].
  - rewrite merges_nil_l in *. destruct H as [<-|[]]. left. reflexivity.
  - rewrite merges_cons. apply in_or_app. right. apply in_map. exact H.
Qed.

Lemma log_in_merges : forall (log : list (tid * fields)) p1 p2,
  (forall e, In e log -> (fst e < 2)%nat) -> log_of 0%nat log = p1 -> log_of 1%nat log = p2 ->
  In (map snd log) (merges p1 p2).
Proof.
  induction log as [|[t v] log IH]; intros p1 p2 Ht H1 H2.
  - cbn in H1, H2. subst. left. reflexivity.
  - assert (Ht' : forall e, In e log -> (fst e < 2)%nat) by (intros e He; apply Ht; right; exact He).
    assert (T : (t < 2)%nat) by (apply (Ht (t, v)); left; reflexivity).
    destruct t as [|[|t]]; [| |lia].
    + unfold log_of in H1, H2. cbn in H1, H2. subst p1 p2. cbn [map snd].
      apply merges_left. apply IH; auto.
    + unfold log_of in H1, H2. cbn in H1, H2. subst p1 p2. cbn [map snd].
      apply merges_right. apply IH; auto.
Qed.

Theorem race_outcome c m0 p1 p2 sched :
  let s := crun c true m0 [p1; p2] sched in
  finished s -> In (c_stored s) (race_outcomes c m0 p1 p2).
Proof.
  intros s F. destruct (serializable_finished c m0 [p1; p2] sched F) as [S Pr]. fold s in S, Pr.
  destruct (inv_run c m0 [p1; p2] sched) as (_ & _ & _ & (Len & _ & Tid)). fold s in Len, Tid.
  unfold race_outcomes. apply in_map_iff. exists (map snd (c_log s)). split.
  - rewrite S. unfold serial. rewrite map_map. reflexivity.
  - apply log_in_merges.
    + intros e He. specialize (Tid e He). rewrite Len in Tid. exact Tid.
    + apply (Pr 0%nat p1). reflexivity.
    + apply (Pr 1%nat p2). reflexivity.
Qed.

(** threads that write disjoint keys: every serial order stores the same — what one visit of thread 1's then thread 2's
    writes stores (this is what the correspondence evaluates for the harness's race operation) *)

(** * Without the lock: a lost update.  Two threads, one call each (a = 1 / b = 2), on an empty span: both read the empty
    object before either stores; the second store overwrites the first *)
Definition lost_update_sched : list tid := [0; 0; 1; 1; 0; 0; 0; 1; 1; 1]%nat.
Theorem lost_update : forall c,
  let p1 := [[([97], VU64 1)]] in
  let p2 := [[([98], VU64 2)]] in
  let s := crun c false [] [p1; p2] lost_update_sched in
  finished s /\ lookup [97] (c_stored s) = None /\ lookup [98] (c_stored s) = Some (JInt 2%Z) /\
  ~ In (c_stored s) (race_outcomes c [] p1 p2).
Proof.
  intros [a b l]. destruct a, b, l; vm_compute; (split; [repeat constructor; auto|]); (split; [reflexivity|]); (split; [reflexivity|]);
    intros [H|[H|[]]]; discriminate H.
Qed.

(** ... while the locked machine, under the very same schedule, keeps both *)
Example same_schedule_locked : forall c,
  let s := crun c true [] [[[([97], VU64 1)]]; [[([98], VU64 2)]]] (lost_update_sched ++ lost_update_sched) in
  finished s /\ lookup [97] (c_stored s) = Some (JInt 1%Z) /\ lookup [98] (c_stored s) = Some (JInt 2%Z).
Proof.
  intros [a b l]. destruct a, b, l; vm_compute; (split; [repeat constructor; auto|]); split; reflexivity.
Qed.
