(** C14 — proofs, part 3: span fields.  The BTreeMap model (sorted, unique keys, last write wins); any number of later
    `record` steps = one visit of the concatenated writes; the stored-string implementation (parse, merge, re-serialise)
    refines the tree-level model for float-free values. *)
From Coq Require Import String Ascii NArith ZArith Bool List Lia Sorted.
From TV Require Import Fmt.JsonModel Fmt.JsonProofsRender Fmt.JsonProofsParse.
Import ListNotations.
Local Open Scope N_scope.

(** * The key order *)
Lemma bcompare_eq : forall a b, bcompare a b = Eq <-> a = b.
Proof.
  induction a as [|x a IH]; destruct b as [|y b]; simpl; split; intro H; try congruence; try discriminate.
  - destruct (x ?= y) eqn:E; try discriminate. apply N.compare_eq in E. subst. f_equal. apply IH; auto.
  - inversion H; subst. rewrite N.compare_refl. apply IH; auto.
Qed.

Lemma bcompare_refl a : bcompare a a = Eq.
Proof. apply bcompare_eq; auto. Qed.

Lemma bcompare_antisym : forall a b, bcompare b a = CompOpp (bcompare a b).
Proof.
  induction a as [|x a IH]; destruct b as [|y b]; simpl; auto.
  rewrite (N.compare_antisym x y). destruct (x ?= y); simpl; auto.
Qed.

Lemma bcompare_lt_trans : forall a b c, bcompare a b = Lt -> bcompare b c = Lt -> bcompare a c = Lt.
Proof.
  induction a as [|x a IH]; destruct b as [|y b]; destruct c as [|z c]; simpl; intros H1 H2; try discriminate; auto.
  destruct (x ?= y) eqn:E1; try discriminate.
  - apply N.compare_eq in E1. subst. destruct (y ?= z) eqn:E2; try discriminate; auto. eapply IH; eauto.
  - destruct (y ?= z) eqn:E2; try discriminate.
    + apply N.compare_eq in E2. subst. rewrite E1. auto.
    + assert (x < z) by (rewrite N.compare_lt_iff in *; lia).
      apply N.compare_lt_iff in H. rewrite H. auto.
Qed.

Lemma beqb_eq a b : beqb a b = true <-> a = b.
Proof.
  unfold beqb. rewrite <- bcompare_eq. destruct (bcompare a b); split; congruence.
Qed.
Lemma beqb_refl a : beqb a a = true.
Proof. apply beqb_eq; auto. Qed.
Lemma beqb_neq a b : beqb a b = false <-> a <> b.
Proof.
  split; intro H.
  - intro E. apply beqb_eq in E. congruence.
  - destruct (beqb a b) eqn:E; auto. apply beqb_eq in E. contradiction.
Qed.

Definition klt (x y : bytes * json) : Prop := bcompare (fst x) (fst y) = Lt.
Definition sorted (m : smap) : Prop := StronglySorted klt m.

(** * bt_insert *)
Lemma bt_insert_in k v m x : In x (bt_insert k v m) -> x = (k, v) \/ In x m.
Proof.
  induction m as [|[k' v'] r IH]; simpl; intro H.
  - destruct H as [<-|[]]; auto.
  - destruct (bcompare k k'); simpl in H.
    + destruct H as [<-|H]; auto.
    + destruct H as [<-|H]; auto.
    + destruct H as [<-|H]; auto. destruct (IH H); auto.
Qed.

Lemma bt_insert_has k v m : In (k, v) (bt_insert k v m).
Proof.
  induction m as [|[k' v'] r IH]; simpl; auto.
  destruct (bcompare k k'); simpl; auto.
Qed.

Lemma bt_insert_keeps k v m x : In x m -> fst x <> k -> In x (bt_insert k v m).
Proof.
  induction m as [|[k' v'] r IH]; simpl; intros H Hk; [contradiction|].
  destruct (bcompare k k') eqn:E; simpl.
  - apply bcompare_eq in E. subst. destruct H as [<-|H]; auto. simpl in Hk. congruence.
  - auto.
  - destruct H as [<-|H]; auto.
Qed.

Lemma bt_insert_sorted k v m : sorted m -> sorted (bt_insert k v m).
Proof.
  unfold sorted. induction 1 as [|[k' v'] r Hs IH Hf]; simpl.
  - repeat constructor.
  - destruct (bcompare k k') eqn:E.
    + apply bcompare_eq in E. subst. constructor; auto.
    + constructor; [constructor; auto|]. constructor; [exact E|].
      eapply Forall_impl; [|exact Hf]. intros y Hy. unfold klt in *. simpl in *. eapply bcompare_lt_trans; eauto.
    + constructor; auto. rewrite Forall_forall. intros y Hy. apply bt_insert_in in Hy. destruct Hy as [->|Hy].
      * unfold klt. simpl. rewrite bcompare_antisym, E. reflexivity.
      * rewrite Forall_forall in Hf. auto.
Qed.

Lemma sorted_nodup m : sorted m -> NoDup (map fst m).
Proof.
  unfold sorted. induction 1 as [|x r Hs IH Hf]; simpl; constructor; auto.
  intro Hin. apply in_map_iff in Hin. destruct Hin as (y & Ey & Hy).
  rewrite Forall_forall in Hf. specialize (Hf y Hy). unfold klt in Hf. rewrite Ey, bcompare_refl in Hf. discriminate.
Qed.

Lemma bt_insert_append k v acc :
  Forall (fun y => klt y (k, v)) acc -> bt_insert k v acc = acc ++ [(k, v)].
Proof.
  induction 1 as [|[k' v'] r Hy Hr IH]; simpl; auto.
  unfold klt in Hy. simpl in Hy. rewrite bcompare_antisym, Hy. simpl. rewrite IH. reflexivity.
Qed.

Lemma sorted_app_left (a : smap) x b : sorted (a ++ x :: b) -> Forall (fun y => klt y x) a.
Proof.
  unfold sorted. induction a as [|y a IH]; simpl; intro H; constructor.
  - inversion H; subst. rewrite Forall_forall in H3. apply H3. apply in_or_app. right. left. reflexivity.
  - apply IH. inversion H; auto.
Qed.

Lemma bt_of_list_sorted_gen : forall m acc, sorted (acc ++ m) ->
  fold_left (fun m kv => bt_insert (fst kv) (snd kv) m) m acc = acc ++ m.
Proof.
  induction m as [|[k v] m IH]; intros acc H; simpl.
  - rewrite app_nil_r. reflexivity.
  - rewrite bt_insert_append by (eapply sorted_app_left; eauto).
    rewrite IH; rewrite <- app_assoc; auto.
Qed.

(** serde_json::Map (a BTreeMap) built from an already sorted object is that object *)
Lemma bt_of_list_sorted m : sorted m -> bt_of_list m = m.
Proof. intro H. unfold bt_of_list. rewrite bt_of_list_sorted_gen; auto. Qed.

(** * lookup *)
Lemma lookup_insert_same k v m : lookup k (bt_insert k v m) = Some v.
Proof.
  induction m as [|[k' v'] r IH]; simpl.
  - rewrite beqb_refl. reflexivity.
  - destruct (bcompare k k') eqn:E; simpl; try (rewrite beqb_refl; reflexivity).
    replace (beqb k k') with false; auto. unfold beqb. rewrite E. reflexivity.
Qed.

Lemma lookup_insert_other k k' v m : k <> k' -> lookup k' (bt_insert k v m) = lookup k' m.
Proof.
  intro Hn. assert (Hb : beqb k' k = false) by (apply beqb_neq; congruence).
  induction m as [|[k2 v2] r IH]; simpl.
  - rewrite Hb. reflexivity.
  - destruct (bcompare k k2) eqn:E; simpl.
    + apply bcompare_eq in E. subst. rewrite Hb. reflexivity.
    + rewrite Hb. reflexivity.
    + rewrite IH. reflexivity.
Qed.

Lemma lookup_insert k k' v m :
  lookup k' (bt_insert k v m) = if beqb k' k then Some v else lookup k' m.
Proof.
  destruct (beqb k' k) eqn:E.
  - apply beqb_eq in E. subst. apply lookup_insert_same.
  - apply beqb_neq in E. apply lookup_insert_other. congruence.
Qed.

Lemma lookup_in_nodup (l : smap) k v : NoDup (map fst l) -> In (k, v) l -> lookup k l = Some v.
Proof.
  induction l as [|[k' v'] r IH]; simpl; intros ND H; [contradiction|].
  inversion ND; subst. destruct H as [H|H].
  - inversion H; subst. rewrite beqb_refl. reflexivity.
  - destruct (beqb k k') eqn:E.
    + apply beqb_eq in E. subst. exfalso. apply H2. apply in_map_iff. exists (k', v). auto.
    + auto.
Qed.

(** * One visit: the map afterwards holds, under every key, the LAST value written to it *)
Theorem visit_lookup : forall ws m k, lookup k (visit_span m ws) = last_write k ws (lookup k m).
Proof.
  induction ws as [|[n v] ws IH]; intros m k; [reflexivity|].
  unfold visit_span in *. cbn [fold_left fst snd last_write]. rewrite IH, lookup_insert. reflexivity.
Qed.

Lemma visit_app m a b : visit_span m (a ++ b) = visit_span (visit_span m a) b.
Proof. unfold visit_span. apply fold_left_app. Qed.

Lemma visit_sorted : forall ws m, sorted m -> sorted (visit_span m ws).
Proof.
  induction ws as [|[n v] ws IH]; intros m H; [exact H|].
  unfold visit_span in *. cbn [fold_left]. apply IH, bt_insert_sorted, H.
Qed.

Lemma visit_in : forall ws m x, In x (visit_span m ws) ->
  In x m \/ exists n v, In (n, v) ws /\ x = (span_key n v, span_value v).
Proof.
  induction ws as [|[n v] ws IH]; intros m x H; [auto|].
  unfold visit_span in *. cbn [fold_left fst snd] in H. apply IH in H. destruct H as [H|(n' & v' & Hin & E)].
  - apply bt_insert_in in H. destruct H as [->|H]; auto. right. exists n, v. split; [left|]; auto.
  - right. exists n', v'. split; [right|]; auto.
Qed.

Lemma sorted_nil : sorted [].
Proof. constructor. Qed.

(** * Any number of later record steps *)
Definition plain_key (kv : bytes * value) : Prop := needs_escape (span_key (fst kv) (snd kv)) = false.

Lemma existsb_false_forall {A} (f : A -> bool) l : existsb f l = false <-> Forall (fun x => f x = false) l.
Proof.
  induction l; simpl; split; intro H; auto.
  - apply orb_false_iff in H. destruct H. constructor; auto. apply IHl; auto.
  - inversion H; subst. apply orb_false_iff. split; auto. apply IHl; auto.
Qed.

Lemma add_fields_visit c m vals :
  fx141 c = true \/ Forall (fun k => needs_escape k = false) (map fst m) ->
  add_fields c m vals = visit_span m vals.
Proof.
  intro H. unfold add_fields. destruct H as [->|H]; [reflexivity|].
  apply existsb_false_forall in H. rewrite H, andb_false_r. reflexivity.
Qed.

Lemma visit_keys_plain m ws :
  Forall (fun k => needs_escape k = false) (map fst m) -> Forall plain_key ws ->
  Forall (fun k => needs_escape k = false) (map fst (visit_span m ws)).
Proof.
  intros Hm Hw. rewrite Forall_forall in *. intros k Hk. apply in_map_iff in Hk. destruct Hk as (x & <- & Hx).
  apply visit_in in Hx. destruct Hx as [Hx|(n & v & Hin & ->)].
  - apply Hm, in_map; auto.
  - exact (Hw (n, v) Hin).
Qed.

Lemma fold_add_fields c : forall recs m,
  fx141 c = true \/ (Forall (fun k => needs_escape k = false) (map fst m) /\ Forall plain_key (concat recs)) ->
  fold_left (add_fields c) recs m = visit_span m (concat recs).
Proof.
  induction recs as [|r recs IH]; intros m H; [reflexivity|].
  cbn [fold_left concat]. rewrite visit_app, add_fields_visit by tauto.
  apply IH. destruct H as [H|[Hm Hw]]; auto. right.
  apply Forall_app in Hw. destruct Hw. split; auto. apply visit_keys_plain; auto.
Qed.

(** fields_after (r1 .. rn) = one visit of init ++ r1 ++ .. ++ rn, for every n — unless (finding F141, fx141 = false)
    some key needs a JSON escape. *)
Theorem fields_after_fold c init recs :
  fx141 c = true \/ Forall plain_key (init ++ concat recs) ->
  fields_after c init recs = visit_span [] (init ++ concat recs).
Proof.
  intro H. unfold fields_after. rewrite visit_app. apply fold_add_fields.
  destruct H as [H|H]; auto. right. apply Forall_app in H. destruct H. split; auto.
  apply visit_keys_plain; auto. constructor.
Qed.

(** ... hence every key holds the image of the last value recorded under it, whatever the number of steps *)
Theorem fields_after_faithful c init recs k :
  fx141 c = true \/ Forall plain_key (init ++ concat recs) ->
  lookup k (fields_after c init recs) = last_write k (init ++ concat recs) None.
Proof. intro H. rewrite fields_after_fold by exact H. apply visit_lookup. Qed.

(** what [last_write] means: the value is the mapped image of the LAST write whose key is [k] *)
Lemma last_write_app k a b acc : last_write k (a ++ b) acc = last_write k b (last_write k a acc).
Proof. revert acc. induction a as [|[n v] a IH]; intro acc; simpl; auto. Qed.

Theorem last_write_spec k n v before later :
  Forall (fun kv => span_key (fst kv) (snd kv) <> k) later ->
  span_key n v = k ->
  last_write k (before ++ (n, v) :: later) None = Some (span_value v).
Proof.
  intros Hl Hk. rewrite last_write_app. cbn [last_write]. rewrite Hk, beqb_refl.
  clear before. induction Hl as [|[n' v'] l Hx Hl IH]; [reflexivity|].
  cbn [last_write]. simpl in Hx. replace (beqb k (span_key n' v')) with false; auto.
  symmetry. apply beqb_neq. congruence.
Qed.

Lemma fields_after_sorted c init recs : sorted (fields_after c init recs).
Proof.
  unfold fields_after. assert (S0 : sorted (visit_span [] init)) by (apply visit_sorted, sorted_nil).
  revert S0. generalize (visit_span [] init). induction recs as [|r recs IH]; intros m Hm; [exact Hm|].
  cbn [fold_left]. apply IH. unfold add_fields. destruct (_ && _); auto. apply visit_sorted; auto.
Qed.

(** * The stored string refines the tree (float-free values) *)
Definition float_free (ws : fields) : Prop := Forall (fun kv => no_float (span_value (snd kv)) = true) ws.
Definition nf_map (m : smap) : Prop := Forall (fun kv => no_float (snd kv) = true) m.

Lemma nf_map_obj m : nf_map m -> no_float (JObj m) = true.
Proof.
  intro H. simpl. apply forallb_forall. intros [k v] Hin. unfold nf_map in H. rewrite Forall_forall in H.
  exact (H (k, v) Hin).
Qed.

Lemma visit_nf m ws : nf_map m -> float_free ws -> nf_map (visit_span m ws).
Proof.
  unfold nf_map, float_free. intros Hm Hw. rewrite Forall_forall in *. intros x Hx.
  apply visit_in in Hx. destruct Hx as [Hx|(n & v & Hin & ->)]; auto. exact (Hw (n, v) Hin).
Qed.

Lemma add_fields_nf c m ws : nf_map m -> float_free ws -> nf_map (add_fields c m ws).
Proof. intros. unfold add_fields. destruct (_ && _); auto. apply visit_nf; auto. Qed.

Lemma add_fields_sorted c m ws : sorted m -> sorted (add_fields c m ws).
Proof. intros. unfold add_fields. destruct (_ && _); auto. apply visit_sorted; auto. Qed.

(** one step: parse the stored text, merge, re-serialise  =  render of the tree-level step *)
Theorem add_fields_bytes_refines c m vals :
  sorted m -> nf_map m ->
  add_fields_bytes c (render (JObj m)) vals = render (JObj (add_fields c m vals)).
Proof.
  intros Hs Hn. unfold add_fields_bytes, add_fields.
  rewrite parse_render by (apply nf_map_obj; exact Hn).
  rewrite bt_of_list_sorted by exact Hs.
  destruct (negb (fx141 c) && existsb needs_escape (map fst m)); reflexivity.
Qed.

(** any number of steps *)
Theorem stored_after_refines c init recs :
  float_free init -> Forall float_free recs ->
  stored_after c init recs = render (JObj (fields_after c init recs)).
Proof.
  intros Hi Hr. unfold stored_after, fields_after, new_span_bytes.
  assert (S0 : sorted (visit_span [] init)) by (apply visit_sorted, sorted_nil).
  assert (N0 : nf_map (visit_span [] init)) by (apply visit_nf; [constructor|exact Hi]).
  revert S0 N0. generalize (visit_span [] init).
  induction Hr as [|r recs Hr Hrs IH]; intros m Hs Hn; [reflexivity|].
  cbn [fold_left]. rewrite add_fields_bytes_refines by assumption.
  apply IH; [apply add_fields_sorted | apply add_fields_nf]; assumption.
Qed.

(** the stored text is always one valid object, so SerializableSpan's debug-only panics / release-only
    `field_error` branches are unreachable *)
Theorem span_obj_bytes_refines c sm parent init recs :
  float_free init -> Forall float_free recs ->
  span_obj_bytes (sm_name sm) (stored_after c init recs) =
  Some (span_obj {| sp_meta := sm; sp_parent := parent; sp_fields := fields_after c init recs |}).
Proof.
  intros Hi Hr. rewrite stored_after_refines by assumption. unfold span_obj_bytes, span_obj, sp_name. cbn [sp_fields sp_meta].
  assert (Hn : nf_map (fields_after c init recs)).
  { unfold fields_after. assert (N0 : nf_map (visit_span [] init)) by (apply visit_nf; [constructor|exact Hi]).
    revert N0. generalize (visit_span [] init). induction Hr as [|r recs' Hr Hrs IH]; intros m Hm; [exact Hm|].
    cbn [fold_left]. apply IH, add_fields_nf; assumption. }
  rewrite parse_render by (apply nf_map_obj; exact Hn).
  rewrite bt_of_list_sorted by apply fields_after_sorted. reflexivity.
Qed.

(** * The build with the `tracing-log` feature: which writes reach the map *)
Lemma eff_in c vals kv : In kv (eff c vals) <-> In kv vals /\ log_skipped c kv = false.
Proof. unfold eff. rewrite filter_In. rewrite negb_true_iff. tauto. Qed.

Lemma eff_nolog c vals : feat_log c = false -> eff c vals = vals.
Proof.
  intro H. unfold eff. induction vals as [|kv r IH]; [reflexivity|]. simpl.
  unfold log_skipped at 1. rewrite H. simpl. rewrite IH. reflexivity.
Qed.

Lemma eff_Forall c (P : bytes * value -> Prop) vals : Forall P vals -> Forall P (eff c vals).
Proof. intro H. rewrite Forall_forall in *. intros kv Hk. apply eff_in in Hk. apply H. tauto. Qed.

(** a value that does not arrive through record_debug, or a name without the `log.` prefix, is never skipped *)
(** per `record_*` method, as read off the source: only record_debug strips `r#` / skips `log.*` (these two do not compile
    on a tree where a typed method does, e.g. after moving the special cases into a shared key() helper) *)
Lemma strips_raw_is_via_debug v : strips_raw v = via_debug v.
Proof. destruct v; reflexivity. Qed.
Lemma skips_log_is_via_debug v : skips_log v = via_debug v.
Proof. destruct v; reflexivity. Qed.

Lemma log_skipped_typed c k v : via_debug v = false -> log_skipped c (k, v) = false.
Proof. intro H. unfold log_skipped. simpl. rewrite skips_log_is_via_debug, H. rewrite andb_false_r. reflexivity. Qed.
Lemma log_skipped_prefix c k v : has_prefix (bs "log.") k = false -> log_skipped c (k, v) = false.
Proof. intro H. unfold log_skipped. simpl. rewrite H. rewrite andb_false_r. reflexivity. Qed.

(** * Finding F141: with borrowed keys a key that needs an escape loses every later record *)
Definition f141_init : fields := [([97; 34; 98], VU64 1)].                (* field name: a, double quote, b *)
Definition f141_recs : list fields := [[([120], VU64 2)]].                (* later: record x = 2 *)

Theorem F141_refuted : forall c, fx141 c = false ->
  last_write [120] (f141_init ++ concat f141_recs) None = Some (JInt 2) /\
  lookup [120] (fields_after c f141_init f141_recs) = None /\
  ~ Forall plain_key (f141_init ++ concat f141_recs).
Proof.
  intros [a b l] H. simpl in H. subst b. split; [reflexivity|]. split; [reflexivity|].
  intro F. inversion F as [|? ? P _]; subst. vm_compute in P. discriminate.
Qed.

(** non-vacuity of the faithful theorem (three steps, an overwrite with another type, a raw identifier) *)
Example fields_after_witness :
  let init := [([97], VU64 1); ([114; 35; 116], VText [100])] in
  let recs := [[([98], VBool true)]; [([97], VStr [122])]; [([98], VBytes [1; 2])]] in
  forall c, Forall plain_key (init ++ concat recs) /\
            fields_after c init recs = [([97], JStr [122]); ([98], JArr [JInt 1; JInt 2]); ([116], JStr [100])].
Proof.
  intros init recs c. split.
  - repeat constructor.
  - unfold fields_after, add_fields. destruct (fx141 c); vm_compute; reflexivity.
Qed.
