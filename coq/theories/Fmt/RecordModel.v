(** C13 (c) — record content of the Full and Compact event formats (format/mod.rs), byte level, ANSI
    off (escape sequences are stripped from the implementation's output before comparison), timer
    off or the harness's fake timer writing "TIME".  Executable, no proofs.

    Inputs the model does NOT compute (explicit parameters, see notes/C13.md):
    - the event's scope (root -> leaf; explicit parent honoured) is given — it is C06's subject;
    - field values arrive already rendered by their [Debug]/[Display] impl ([bytes]);
    - the thread's name (padded by [FmtThreadName] to the longest name seen; the harness uses names of
      one width) and the text of [{:0>2?}] of its [ThreadId].

    Pretty is modelled at byte level too (second half of this file: [format_event_pretty], multi-line by
    design, spans leaf -> root).  JSON is C14's model (Fmt/Json*.v); here the buffer and routing models
    run over opaque chunks for it.

    Options OUTSIDE the byte-level models: [with_ansi(true)] (escape sequences; the driver strips them),
    real timers (any [FormatTime] is one opaque token, the harness's writes "TIME"), [with_source_location]
    (left at its default [true]), the [tracing-log] metadata normalisation (feature off), custom
    [FormatFields] / [FormatEvent] implementations, thread names of different widths (Full/Compact pad to
    the longest name seen by the process). *)
From Coq Require Import String Ascii.
From TV Require Export Fmt.WriterModel Fmt.BufferModel.
Local Open Scope N_scope.

Fixpoint str (s : string) : bytes :=
  match s with EmptyString => [] | String a r => N_of_ascii a :: str r end.

Inductive fmt := Full | Compact.

Record opts := Opts {
  o_timer : bool;   (* with_timer(FakeTime) / without_time() *)
  o_level : bool;   (* with_level *)
  o_tname : bool;   (* with_thread_names *)
  o_tid : bool;     (* with_thread_ids *)
  o_target : bool;  (* with_target *)
  o_file : bool;    (* with_file *)
  o_line : bool     (* with_line_number *)
}.

(** Callsite metadata as the formatters read it. [e_line] is the decimal text of the line number. *)
Record emeta := EMeta {
  e_level : N; e_target : bytes; e_name : bytes; e_file : option bytes; e_line : option bytes; e_span : bool;
  e_time : option bytes
  (* what the configured timer did when THIS emission was formatted: [None] it wrote the timestamp (the harness's: "TIME");
     [Some pre] it wrote [pre] and returned [Err] (a clock that cannot be read) *)
}.
Definition meta_of (m : emeta) : meta := Meta (e_level m) (e_target m) (e_name m) (e_span m).

(** [th_id]: the text the formatter prints for the ThreadId — [{:0>2?}] for Full / Compact (the padding reaches the
    number inside: [ThreadId(02)]), [{:?}] for Pretty; the harness reports both. *)
Record thr := Thr { th_name : bytes; th_id : bytes }.

(** A span in scope: its name and its field groups — the fields given at creation, then one group per
    later [record] call ([on_record] -> [add_fields] appends). *)
Record span := Span {
  s_name : bytes;
  s_groups : list (list (bytes * bytes));
  s_target : bytes;      (* Pretty shows it *)
  s_poisoned : bool      (* a [Span::record] call on it unwound (a recorded value's Debug impl panicked, the caller caught it) *)
}.

(** An event reaching [on_event].  Its fields are visited in order; a field's [Debug] impl may emit
    another event before producing its text ([FNested]), may unwind after writing [pre] ([FPanic]) or
    return [Err] after writing [pre] ([FErr]); nothing after those two is formatted. *)
Inductive emission :=
| Em (m : emeta) (scope : list span) (fields : flds)
with flds :=
| FNil
| FOk (name v : bytes) (rest : flds)
| FNested (name : bytes) (e : emission) (post : bytes) (rest : flds)
| FPanic (name pre : bytes)
| FErr (name pre : bytes).

(** ** DefaultFields / DefaultVisitor *)

Definition is_message (n : bytes) : bool := bytes_eqb n (str "message").
(* name if name.starts_with("r#") => &name[2..] *)
Definition strip_raw (n : bytes) : bytes :=
  match n with a :: b :: r => if (a =? 114) && (b =? 35) then r else n | _ => n end.   (* "r#" *)
(* "message" => "{:?}", name => "{}={:?}" *)
Definition fld_head (n : bytes) : bytes := if is_message n then [] else strip_raw n ++ [61].
(* maybe_pad *)
Definition pad (first : bool) : bytes := if first then [] else [32].

Inductive fstatus := SOk | SPanic | SErr.

Fixpoint render_flds (first : bool) (f : flds) : bytes * fstatus :=
  match f with
  | FNil => ([], SOk)
  | FOk n v rest => let (b, s) := render_flds false rest in (pad first ++ fld_head n ++ v ++ b, s)
  | FNested n _ post rest => let (b, s) := render_flds false rest in (pad first ++ fld_head n ++ post ++ b, s)
  | FPanic n pre => (pad first ++ fld_head n ++ pre, SPanic)
  | FErr n pre => (pad first ++ fld_head n ++ pre, SErr)
  end.

Fixpoint render_group (first : bool) (g : list (bytes * bytes)) : bytes :=
  match g with
  | [] => []
  | (n, v) :: r => pad first ++ fld_head n ++ v ++ render_group false r
  end.

(* add_fields: if !current.fields.is_empty() { current.fields.push(' '); } self.format_fields(current.as_writer(), fields) *)
Definition add_group (cur : bytes) (g : list (bytes * bytes)) : bytes :=
  match cur with [] => render_group true g | _ => cur ++ [32] ++ render_group true g end.

(** [FormattedFields] of a span: [on_new_span] formats the creation fields into an empty [String],
    every [on_record] goes through [add_fields]. *)
Definition span_fields (s : span) : bytes := fold_left add_group (s_groups s) [].

(** ** Format<Full> / Format<Compact> *)

Definition level_str (f : fmt) (l : N) : bytes :=
  match f with
  | Full => if l =? 1 then str "ERROR" else if l =? 2 then str " WARN" else if l =? 3 then str " INFO"
            else if l =? 4 then str "DEBUG" else str "TRACE"
  | Compact => if l =? 1 then str "X" else if l =? 2 then str "!" else if l =? 3 then str "i"
               else if l =? 4 then str ":" else str "."
  end.

(* format_timestamp, format_level, thread name, thread id — common to both formats *)
(* format_timestamp: "If getting the timestamp failed, don't bail --- only bail on formatting errors":
   if self.timer.format_time(writer).is_err() { writer.write_str("<unknown time>")?; }  writer.write_char(' ') *)
Definition time_text (m : emeta) : bytes :=
  match e_time m with None => str "TIME" | Some pre => pre ++ str "<unknown time>" end.

Definition head (f : fmt) (o : opts) (m : emeta) (th : thr) : bytes :=
  (if o_timer o then time_text m ++ [32] else []) ++
  (if o_level o then level_str f (e_level m) ++ [32] else []) ++
  (if o_tname o then th_name th ++ [32] else []) ++
  (if o_tid o then th_id th ++ [32] else []).

(* name, then "{fields}" when non-empty, then ":" *)
Definition span_full (s : span) : bytes :=
  s_name s ++ (match span_fields s with [] => [] | fs => [123] ++ fs ++ [125] end) ++ [58].
Definition scope_full (sc : list span) : bytes :=
  concat (map span_full sc) ++ (match sc with [] => [] | _ => [32] end).

Definition shown_line (o : opts) (m : emeta) : option bytes := if o_line o then e_line m else None.

Definition location_full (o : opts) (m : emeta) : bytes :=
  (if o_target o then e_target m ++ str ": " else []) ++
  (if o_file o then
     match e_file m with
     | Some f => f ++ [58] ++ (match shown_line o m with Some _ => [] | None => [32] end)
     | None => []
     end
   else []) ++
  (match shown_line o m with Some l => l ++ str ": " | None => [] end).

Definition location_compact (o : opts) (m : emeta) : bytes :=
  (if o_target o then e_target m ++ [58] else []) ++
  (if o_file o then match e_file m with Some f => f ++ [58] | None => [] end else []) ++
  (match shown_line o m with Some l => l ++ [58] | None => [] end).

(* Compact: span names are not shown (documented); each span's non-empty fields follow the event's *)
Definition span_compact (s : span) : bytes := match span_fields s with [] => [] | fs => [32] ++ fs end.
Definition scope_compact (sc : list span) : bytes := concat (map span_compact sc).

Definition before_fields (f : fmt) (o : opts) (th : thr) (m : emeta) (sc : list span) : bytes :=
  match f with
  | Full => head f o m th ++ scope_full sc ++ location_full o m
  | Compact => head f o m th ++ location_compact o m
  end.

Definition after_fields (f : fmt) (sc : list span) : bytes :=
  match f with Full => [10] | Compact => scope_compact sc ++ [10] end.

(** "Unable to format the following event. Name: {}; Fields: {:?}\n": the [Debug] text of the field
    iterator contains addresses; the driver masks it to "?" in the implementation's output. *)
Definition errline (m : emeta) : bytes :=
  str "Unable to format the following event. Name: " ++ e_name m ++ str "; Fields: ?" ++ [10].

(** What [format_event] does with the buffer for this emission. *)
Definition format_event (f : fmt) (o : opts) (th : thr) (em : emission) : outcome N :=
  match em with
  | Em m sc fl =>
      let (fb, st) := render_flds true fl in
      let pre := before_fields f o th m sc ++ fb in
      match st with
      | SOk => OOk (pre ++ after_fields f sc)
      | SPanic => OPanic pre
      | SErr => OErr pre (errline m)
      end
  end.

(** The emission as an [event] of the buffer model (nested emissions become nested events). *)
Fixpoint ev_of (f : fmt) (o : opts) (th : thr) (em : emission) : event N emeta :=
  match em with
  | Em m sc fl => Ev m (nested_of f o th fl) (format_event f o th em)
  end
with nested_of (f : fmt) (o : opts) (th : thr) (fl : flds) : list (event N emeta) :=
  match fl with
  | FNil => []
  | FOk _ _ r => nested_of f o th r
  | FNested _ e _ r => ev_of f o th e :: nested_of f o th r
  | FPanic _ _ | FErr _ _ => []
  end.

(** ** Span lifecycle pseudo-events ([with_span_events]): they go through the same [on_event] *)

Inductive lifecycle := LNew | LEnter | LExit | LClose.
Record spancfg := SpanCfg { sc_new : bool; sc_enter : bool; sc_exit : bool; sc_close : bool }.

Definition lifecycle_on (sc : spancfg) (k : lifecycle) : bool :=
  match k with LNew => sc_new sc | LEnter => sc_enter sc | LExit => sc_exit sc | LClose => sc_close sc end.
Definition lifecycle_msg (k : lifecycle) : bytes :=
  match k with LNew => str "new" | LEnter => str "enter" | LExit => str "exit" | LClose => str "close" end.

(** What reaches the layer. [OpSpan k m scope]: lifecycle point [k] of a span with metadata [m];
    [scope] is that span's own scope, itself included as the leaf ([Event::new_child_of(id, ..)]). *)
Inductive op :=
| OpEvent (em : emission)
| OpSpan (k : lifecycle) (m : emeta) (scope : list span).

(** [timing]: the formatter has a timer, so (with CLOSE on) spans carry [Timings] and the close event
    has the two duration fields; the driver masks the durations to "T". *)
Definition expand (sc : spancfg) (timing : bool) (x : op) : list emission :=
  match x with
  | OpEvent em => [em]
  | OpSpan k m scope =>
      if lifecycle_on sc k then
        [Em m scope
            (FOk (str "message") (lifecycle_msg k)
                 (match k with
                  | LClose => if timing then FOk (str "time.busy") (str "T") (FOk (str "time.idle") (str "T") FNil) else FNil
                  | _ => FNil
                  end))]
      else []
  end.

(** ** Whole pipeline for one thread: ops -> emissions -> buffer protocol -> sinks *)

(** Root-level calls fan out to the recording sinks through the writer expression; [pm] reads the
    routing-relevant metadata out of whatever the buffer model carries as [M]. *)
Definition distribute {M} (pm : M -> meta) (w : wexp) (acts : list (action N M)) : list (N * sink_call) :=
  flat_map (fun a => match a with
                     | AMake m => dist_make w (pm m)
                     | AWrite m b => dist_write w (pm m) b
                     end) acts.

Definition thread_events (f : fmt) (o : opts) (sc : spancfg) (th : thr) (ops : list op) : list (event N emeta) :=
  map (ev_of f o th) (flat_map (expand sc (o_timer o)) ops).

Definition thread_sink_log (c : cfg) (f : fmt) (o : opts) (sc : spancfg) (w : wexp) (th : thr) (ops : list op)
  : list (N * sink_call) :=
  distribute meta_of w (snd (run_thread no_unwind c [] (thread_events f o sc th ops))).

(** ** The same pipeline over sinks that may fail (fault scripts)

    Every emission reaching [on_event] is numbered in completion order (a nested one before the event whose
    formatting emitted it); [plans k] is the fault plan of the k-th: one script per recording writer its
    [make_writer_for] creates, in creation order (= write order, WriterProofs.asked_is_route).  The plan
    travels with the metadata through the (metadata-polymorphic) buffer model. *)
Fixpoint label {A M} (plans : nat -> list script) (e : event A M) (k : nat) {struct e} : event A (M * list script) * nat :=
  match e with
  | Ev m nested out =>
      let fix go (l : list (event A M)) (k : nat) : list (event A (M * list script)) * nat :=
        match l with
        | [] => ([], k)
        | x :: t => let (x', k1) := label plans x k in let (t', k2) := go t k1 in (x' :: t', k2)
        end in
      let (ns, k') := go nested k in
      (Ev (m, plans k') ns out, S k')
  end.

Fixpoint label_all {A M} (plans : nat -> list script) (es : list (event A M)) (k : nat) : list (event A (M * list script)) :=
  match es with
  | [] => []
  | e :: t => let (e', k') := label plans e k in e' :: label_all plans t k'
  end.

(** [write_all(&mut writer, b)] on the writer [w.make_writer_for(m)] returned, under the record's plan. *)
Definition fwrite {M} (both : bool) (pm : M -> meta) (w : wexp) (mp : M * list script) (b : bytes)
  : list (N * list scall) * wres * nat :=
  tee_apply both (leaf_of MWriteAll b) (fst (make_for w (pm (fst mp)))) (planf (snd mp)) 0%nat.

(** ... unwinds (a sink panicked): the buffer model's [unw] input, computed from the writer algebra. *)
Definition unw_f {M} (both : bool) (pm : M -> meta) (w : wexp) : M * list script -> bytes -> bool :=
  fun mp b => match snd (fst (fwrite both pm w mp b)) with WUnwind => true | _ => false end.

Definition distribute_f {M} (both : bool) (pm : M -> meta) (w : wexp) (acts : list (action N (M * list script)))
  : list (N * fentry) :=
  flat_map (fun a => match a with
                     | AMake mp => map (fun i => (i, FMake (pm (fst mp)))) (asked w (pm (fst mp)))
                     | AWrite mp b => flat_calls (fst (fst (fwrite both pm w mp b)))
                     end) acts.

Definition sink_log_f {M} (both : bool) (c : cfg) (pm : M -> meta) (w : wexp) (plans : nat -> list script)
  (es : list (event N M)) : list (N * fentry) :=
  distribute_f both pm w (snd (run_thread (unw_f both pm w) c [] (label_all plans es 0%nat))).

(** ** Token view of a record (specification side of C13_content) *)

Inductive tok :=
| TTimer (t : bytes)                    (* the timestamp, or what the failing timer wrote ++ "<unknown time>" *)
| TLevel (l : N)
| TThreadName (b : bytes)
| TThreadId (b : bytes)
| TSpan (name fields : bytes)          (* Full: one span in scope, with its formatted fields *)
| TScopeEnd                            (* Full: the blank after a non-empty scope *)
| TTarget (t : bytes)
| TFile (f : bytes) (line_follows : bool)
| TLine (l : bytes)
| TField (first : bool) (name v : bytes)   (* one event field with its value *)
| TSpanFields (fields : bytes)         (* Compact: the fields of one span in scope (names are not shown) *)
| TNewline.

Definition render_tok (f : fmt) (t : tok) : bytes :=
  match t with
  | TTimer t => t ++ [32]
  | TLevel l => level_str f l ++ [32]
  | TThreadName b => b ++ [32]
  | TThreadId b => b ++ [32]
  | TSpan n fs => n ++ (match fs with [] => [] | _ => [123] ++ fs ++ [125] end) ++ [58]
  | TScopeEnd => [32]
  | TTarget t => t ++ (match f with Full => str ": " | Compact => [58] end)
  | TFile fl lf => fl ++ [58] ++ (match f with Full => if lf then [] else [32] | Compact => [] end)
  | TLine l => l ++ (match f with Full => str ": " | Compact => [58] end)
  | TField first n v => pad first ++ fld_head n ++ v
  | TSpanFields fs => [32] ++ fs
  | TNewline => [10]
  end.

Definition opt_tok (b : bool) (t : tok) : list tok := if b then [t] else [].

Definition head_toks (o : opts) (m : emeta) (th : thr) : list tok :=
  opt_tok (o_timer o) (TTimer (time_text m)) ++ opt_tok (o_level o) (TLevel (e_level m)) ++
  opt_tok (o_tname o) (TThreadName (th_name th)) ++ opt_tok (o_tid o) (TThreadId (th_id th)).

Definition loc_toks (o : opts) (m : emeta) : list tok :=
  opt_tok (o_target o) (TTarget (e_target m)) ++
  (if o_file o then
     match e_file m with
     | Some f => [TFile f (match shown_line o m with Some _ => true | None => false end)]
     | None => []
     end
   else []) ++
  (match shown_line o m with Some l => [TLine l] | None => [] end).

Fixpoint field_toks (first : bool) (fs : list (bytes * bytes)) : list tok :=
  match fs with [] => [] | (n, v) :: r => TField first n v :: field_toks false r end.

(** spans root -> leaf, in the order of the scope *)
Definition span_toks_full (sc : list span) : list tok :=
  map (fun s => TSpan (s_name s) (span_fields s)) sc ++ (match sc with [] => [] | _ => [TScopeEnd] end).
Definition span_toks_compact (sc : list span) : list tok :=
  flat_map (fun s => match span_fields s with [] => [] | fs => [TSpanFields fs] end) sc.

Definition tokens_spec (f : fmt) (o : opts) (th : thr) (m : emeta) (sc : list span) (fs : list (bytes * bytes)) : list tok :=
  match f with
  | Full => head_toks o m th ++ span_toks_full sc ++ loc_toks o m ++ field_toks true fs ++ [TNewline]
  | Compact => head_toks o m th ++ loc_toks o m ++ field_toks true fs ++ span_toks_compact sc ++ [TNewline]
  end.

(** The fields of an emission whose formatting completes, with the text each contributed. *)
Fixpoint ok_fields (f : flds) : option (list (bytes * bytes)) :=
  match f with
  | FNil => Some []
  | FOk n v r => option_map (cons (n, v)) (ok_fields r)
  | FNested n _ post r => option_map (cons (n, post)) (ok_fields r)
  | FPanic _ _ | FErr _ _ => None
  end.

Definition is_span_tok (t : tok) : bool := match t with TSpan _ _ | TSpanFields _ => true | _ => false end.
Definition is_field_tok (t : tok) : bool := match t with TField _ _ _ => true | _ => false end.

(** "no raw newline" in the inputs (the property's exclusion) *)
Definition has10 (b : bytes) : bool := existsb (N.eqb 10) b.
Definition clean_b (b : bytes) : bool := negb (has10 b).
Definition clean_o (b : option bytes) : bool := match b with Some x => clean_b x | None => true end.
Definition clean_fields (fs : list (bytes * bytes)) : bool := forallb (fun p => clean_b (fst p) && clean_b (snd p)) fs.
Definition clean_span (s : span) : bool := clean_b (s_name s) && forallb clean_fields (s_groups s).
Definition inputs_nl_free (th : thr) (m : emeta) (sc : list span) (fs : list (bytes * bytes)) : bool :=
  clean_b (th_name th) && clean_b (th_id th) && clean_b (e_target m) && clean_o (e_file m) && clean_o (e_line m) && clean_o (e_time m)
  && forallb clean_span sc && clean_fields fs.

(** ** Span fields, field by field (specification side)

    [span_fields] is what [on_new_span] + every later [on_record] leave in the span's [FormattedFields]:
    as a token list it names every field of every group — the creation-time fields first, then each
    recorded one, in order (RecordProofs.span_fields_names_every_field). *)
Inductive ftok := FSep | FFld (first : bool) (n v : bytes).
Definition render_ftok (t : ftok) : bytes :=
  match t with FSep => [32] | FFld first n v => pad first ++ fld_head n ++ v end.
Fixpoint group_ftoks (first : bool) (g : list (bytes * bytes)) : list ftok :=
  match g with [] => [] | (n, v) :: r => FFld first n v :: group_ftoks false r end.
Fixpoint groups_ftoks (cur : bytes) (gs : list (list (bytes * bytes))) : list ftok :=
  match gs with
  | [] => []
  | g :: r => (match cur with [] => [] | _ => [FSep] end) ++ group_ftoks true g ++ groups_ftoks (add_group cur g) r
  end.
Definition ftok_fields (ts : list ftok) : list (bytes * bytes) :=
  flat_map (fun t => match t with FFld _ n v => [(n, v)] | FSep => [] end) ts.

(** The fields of a lifecycle record. *)
Definition lifecycle_fields (k : lifecycle) (timing : bool) : list (bytes * bytes) :=
  (str "message", lifecycle_msg k) ::
  match k with LClose => if timing then [(str "time.busy", str "T"); (str "time.idle", str "T")] else [] | _ => [] end.

(** ** Format<Pretty> (format/pretty.rs), ANSI off

    {v
      "  " [TIME " "] [LEVEL " "] [target ":"] [line ":" when the file is not shown] " " fields "\n"
      ["    at " file [":" line] (" " | "\n")]  |  ["    " when only the thread is shown]
      ["on " [name [" "]] [ThreadId(n)] "\n"]
      for every span, LEAF FIRST:  "    in " [target "::"] name [" with " fields] "\n"
      "\n"
    v}
    Fields go through [PrettyVisitor]: ", " between fields, [name: value], the message bare; the span's
    fields were formatted by the same visitor ([fmt_fields = Pretty]); a later [record] is appended with
    ", " when something is there already. *)
Definition p_pad (first : bool) : bytes := if first then [] else str ", ".
Definition p_head (n : bytes) : bytes := if is_message n then [] else strip_raw n ++ str ": ".

Fixpoint p_render_flds (first : bool) (f : flds) : bytes * fstatus :=
  match f with
  | FNil => ([], SOk)
  | FOk n v rest => let (b, s) := p_render_flds false rest in (p_pad first ++ p_head n ++ v ++ b, s)
  | FNested n _ post rest => let (b, s) := p_render_flds false rest in (p_pad first ++ p_head n ++ post ++ b, s)
  | FPanic n pre => (p_pad first ++ p_head n ++ pre, SPanic)
  | FErr n pre => (p_pad first ++ p_head n ++ pre, SErr)
  end.

Fixpoint p_render_group (first : bool) (g : list (bytes * bytes)) : bytes :=
  match g with
  | [] => []
  | (n, v) :: r => p_pad first ++ p_head n ++ v ++ p_render_group false r
  end.

Definition nilb (b : bytes) : bool := match b with [] => true | _ => false end.
(* add_fields: let empty = current.is_empty(); PrettyVisitor::new(writer, empty) *)
Definition p_add_group (cur : bytes) (g : list (bytes * bytes)) : bytes := cur ++ p_render_group (nilb cur) g.
Definition p_span_fields (s : span) : bytes := fold_left p_add_group (s_groups s) [].

Definition p_before (o : opts) (m : emeta) : bytes :=
  str "  " ++
  (if o_timer o then time_text m ++ [32] else []) ++
  (if o_level o then level_str Full (e_level m) ++ [32] else []) ++
  (if o_target o then e_target m ++ [58] else []) ++
  (match shown_line o m with Some l => if o_file o then [] else l ++ [58] | None => [] end) ++ [32].

Definition p_shown_file (o : opts) (m : emeta) : option bytes := if o_file o then e_file m else None.
Definition p_thread (o : opts) : bool := o_tname o || o_tid o.

Definition p_location (o : opts) (m : emeta) (th : thr) : bytes :=
  (match p_shown_file o m with
   | Some f => str "    at " ++ f ++ (match shown_line o m with Some l => [58] ++ l | None => [] end)
               ++ (if p_thread o then [32] else [10])
   | None => if p_thread o then str "    " else []
   end) ++
  (if p_thread o then
     str "on " ++ (if o_tname o then th_name th ++ (if o_tid o then [32] else []) else [])
     ++ (if o_tid o then th_id th else []) ++ [10]
   else []).

Definition p_span (o : opts) (s : span) : bytes :=
  str "    in " ++ (if o_target o then s_target s ++ str "::" else []) ++ s_name s ++
  (match p_span_fields s with [] => [] | fs => str " with " ++ fs end) ++ [10].

Definition format_event_pretty (o : opts) (th : thr) (em : emission) : outcome N :=
  match em with
  | Em m sc fl =>
      let (fb, st) := p_render_flds true fl in
      let pre := p_before o m ++ fb in
      match st with
      | SOk => OOk (pre ++ [10] ++ p_location o m th ++ concat (map (p_span o) (rev sc)) ++ [10])
      | SPanic => OPanic pre
      | SErr => OErr pre (errline m)
      end
  end.

(** Which spans Pretty walks.  Full, Compact (and JSON since 7519e35) ask [ctx.event_scope()] /
    [ctx.parent_span()]: an explicit parent first, NOTHING for an explicit root, else the current span.
    Pretty has its own lookup, [event.parent().and_then(|id| ctx.span(id)).or_else(|| ctx.lookup_current())]:
    [Event::parent] is [None] for an explicit root too, so such an event is printed inside the thread's
    current spans ([fallback = true]); [ctx.parent_span()] is the other form ([fallback = false]).  Which
    one the tree has is read from pretty.rs on every run (TVGen.Gen_fmtbuf.pretty_root_falls_back). *)
Definition pretty_scope (fallback is_root : bool) (event_scope current_scope : list span) : list span :=
  if is_root && fallback then current_scope else event_scope.

(** Emissions as buffer-model events, for any formatter function (Pretty uses this; [ev_of] above is the
    Full / Compact instance, kept as it is). *)
Fixpoint gev_of (fe : emission -> outcome N) (em : emission) : event N emeta :=
  match em with
  | Em m sc fl => Ev m (gnested_of fe fl) (fe em)
  end
with gnested_of (fe : emission -> outcome N) (fl : flds) : list (event N emeta) :=
  match fl with
  | FNil => []
  | FOk _ _ r => gnested_of fe r
  | FNested _ e _ r => gev_of fe e :: gnested_of fe r
  | FPanic _ _ | FErr _ _ => []
  end.

Definition thread_events_pretty (o : opts) (sc : spancfg) (th : thr) (ops : list op) : list (event N emeta) :=
  map (gev_of (format_event_pretty o th)) (flat_map (expand sc (o_timer o)) ops).

(** Token view of a Pretty record. *)
Inductive ptok :=
| PStart | PTimer (t : bytes) | PLevel (l : N) | PTarget (t : bytes) | PLineInline (l : bytes) | PGap
| PField (first : bool) (n v : bytes)
| PEol
| PAt (file : bytes) (line : option bytes) (thread_follows : bool)
| POnIndent
| POn (name : option bytes) (sep : bool) (tid : option bytes)
| PSpan (target : option bytes) (name fields : bytes)
| PEnd.

Definition render_ptok (t : ptok) : bytes :=
  match t with
  | PStart => str "  "
  | PTimer t => t ++ [32]
  | PLevel l => level_str Full l ++ [32]
  | PTarget t => t ++ [58]
  | PLineInline l => l ++ [58]
  | PGap => [32]
  | PField first n v => p_pad first ++ p_head n ++ v
  | PEol => [10]
  | PAt f l tf => str "    at " ++ f ++ (match l with Some l => [58] ++ l | None => [] end) ++ (if tf then [32] else [10])
  | POnIndent => str "    "
  | POn nm sep tid => str "on " ++ (match nm with Some n => n ++ (if sep then [32] else []) | None => [] end)
                      ++ (match tid with Some t => t | None => [] end) ++ [10]
  | PSpan tg n fs => str "    in " ++ (match tg with Some t => t ++ str "::" | None => [] end) ++ n
                     ++ (match fs with [] => [] | _ => str " with " ++ fs end) ++ [10]
  | PEnd => [10]
  end.

Definition popt (b : bool) (t : ptok) : list ptok := if b then [t] else [].

Fixpoint pfield_toks (first : bool) (fs : list (bytes * bytes)) : list ptok :=
  match fs with [] => [] | (n, v) :: r => PField first n v :: pfield_toks false r end.

Definition pspan_tok (o : opts) (s : span) : ptok :=
  PSpan (if o_target o then Some (s_target s) else None) (s_name s) (p_span_fields s).

Definition ptokens_spec (o : opts) (th : thr) (m : emeta) (sc : list span) (fs : list (bytes * bytes)) : list ptok :=
  [PStart] ++ popt (o_timer o) (PTimer (time_text m)) ++ popt (o_level o) (PLevel (e_level m)) ++ popt (o_target o) (PTarget (e_target m)) ++
  (match shown_line o m with Some l => if o_file o then [] else [PLineInline l] | None => [] end) ++ [PGap] ++
  pfield_toks true fs ++ [PEol] ++
  (match p_shown_file o m with
   | Some f => [PAt f (shown_line o m) (p_thread o)]
   | None => popt (p_thread o) POnIndent
   end) ++
  popt (p_thread o) (POn (if o_tname o then Some (th_name th) else None) (o_tid o) (if o_tid o then Some (th_id th) else None)) ++
  map (pspan_tok o) (rev sc) ++ [PEnd].

Definition is_pspan_tok (t : ptok) : bool := match t with PSpan _ _ _ => true | _ => false end.
Definition is_pfield_tok (t : ptok) : bool := match t with PField _ _ _ => true | _ => false end.

(** Pretty's span fields, field by field. *)
Inductive pftok := PFFld (first : bool) (n v : bytes).
Definition render_pftok (t : pftok) : bytes := match t with PFFld first n v => p_pad first ++ p_head n ++ v end.
Fixpoint p_group_ftoks (first : bool) (g : list (bytes * bytes)) : list pftok :=
  match g with [] => [] | (n, v) :: r => PFFld first n v :: p_group_ftoks false r end.
Fixpoint p_groups_ftoks (cur : bytes) (gs : list (list (bytes * bytes))) : list pftok :=
  match gs with
  | [] => []
  | g :: r => p_group_ftoks (nilb cur) g ++ p_groups_ftoks (p_add_group cur g) r
  end.
Definition pftok_fields (ts : list pftok) : list (bytes * bytes) := map (fun t => match t with PFFld _ n v => (n, v) end) ts.

(** ** Concurrent [Span::record] calls on ONE span ([fmt::Subscriber::on_record])

    Thread [t] records the group [gs t], once.  [atomic = true] is the code: the span's extensions WRITE lock
    is taken before the stored [FormattedFields] are read and held until [add_fields] has appended in place —
    one step.  [atomic = false] is the read-copy-replace form (clone the stored text under a read lock, append
    to the private copy with no lock held, take the write lock to replace): two steps, between which other
    threads run.  Which one the tree has is read from the source (TVGen.Gen_fmtbuf.on_record_atomic).
    [add] is the field formatter's [add_fields] ([add_group] for DefaultFields, [p_add_group] for Pretty). *)
Record rstate := RS {
  r_stored : bytes;                  (* the span's FormattedFields *)
  r_done : list nat;                 (* threads whose call has returned, in order *)
  r_copy : list (nat * bytes)        (* not atomic: the private copy a thread took *)
}.

Fixpoint rlookup (t : nat) (l : list (nat * bytes)) : option bytes :=
  match l with [] => None | (k, b) :: r => if Nat.eqb k t then Some b else rlookup t r end.

Definition rec_step (atomic : bool) (add : bytes -> list (bytes * bytes) -> bytes) (gs : nat -> list (bytes * bytes))
  (s : rstate) (t : nat) : rstate :=
  if existsb (Nat.eqb t) (r_done s) then s
  else if atomic then RS (add (r_stored s) (gs t)) (r_done s ++ [t]) (r_copy s)
  else match rlookup t (r_copy s) with
       | None => RS (r_stored s) (r_done s) ((t, r_stored s) :: r_copy s)
       | Some c => RS (add c (gs t)) (r_done s ++ [t]) (r_copy s)
       end.

Definition rec_run (atomic : bool) add gs (init : bytes) (sched : list nat) : rstate :=
  fold_left (rec_step atomic add gs) sched (RS init [] []).

(** ** A span whose [record] call unwound (finding F132)

    [on_record] runs the recorded value's [Debug] impl while it holds the span's extensions WRITE guard
    ([on_record_atomic]); when that impl panics, the unwinding drops the guard and — with the std locks — POISONS the
    lock.  From then on [SpanRef::extensions()] / [extensions_mut()] ([.expect("Mutex poisoned")], registry/sharded.rs)
    panic for that span: every formatter reads the extensions of every span in the event's scope, so [format_event]
    unwinds for every later event (and lifecycle record) that has the span in scope — an innocent event reaches the layer
    and no record is written (the emitting call panics); every later [record] on the span unwinds too.  With the
    [parking_lot] feature the lock does not poison ([poisons = false]). *)
Definition scope_poisoned (sc : list span) : bool := existsb s_poisoned sc.

Definition guarded (poisons : bool) (fe : emission -> outcome N) (em : emission) : outcome N :=
  match em with Em _ sc _ => if poisons && scope_poisoned sc then OPanic [] else fe em end.

Definition thread_events_g (fe : emission -> outcome N) (sc : spancfg) (timing : bool) (ops : list op) : list (event N emeta) :=
  map (gev_of fe) (flat_map (expand sc timing) ops).

(** ** A timer that fails

    [format_timestamp] (Full, Compact, Pretty, hence the lifecycle records too) does not bail when the configured
    [FormatTime] returns [Err]: it prints "<unknown time>" where the timestamp would be and the REST OF THE RECORD IS
    INTACT ([time_text]; [fallback = true]).  [fallback = false] is [self.timer.format_time(writer)?]: [format_event]
    fails as a whole and the event produces no record (with [log_internal_errors] the "Unable to format" line).  Which
    one the tree has is read from format/mod.rs on every run (TVGen.Gen_fmtbuf.timer_fallback). *)
Definition time_guard (fallback timer_on : bool) (fe : emission -> outcome N) (em : emission) : outcome N :=
  match em with
  | Em m _ _ =>
      match e_time m with
      | Some pre => if timer_on && negb fallback then OErr pre (errline m) else fe em
      | None => fe em
      end
  end.

(** ** Span events reconfigured at run time (a fmt subscriber behind [reload::Subscriber])

    [reload::Handle::modify(|s| s.set_span_events(kind))] (or [Handle::reload] with a new fmt subscriber of the same type)
    changes WHICH lifecycle points the layer reports while spans are alive.  Two facts of fmt_subscriber.rs matter:
    - [on_new_span] stores the [Timings] extension on the span only [if fmt_timing && trace_close()] — according to the
      configuration AT SPAN CREATION; nothing stores it later;
    - [on_enter] / [on_exit] / [on_close] consult the configuration current WHEN THE POINT HAPPENS; [on_close] writes
      [if trace_close() { if let Some(timing) = ext.get::<Timings>() { close + time.busy/idle } else { close } }]:
      the record is written whether or not the span carries [Timings]; the extension only decides the two fields.
    [gated = true] is the other shape a tree may have (read from the source by translators/fmtbuf.py on every run):
      [if trace_close() { if fmt_timing { if let Some(timing) = .. { timed record } } else { plain record } }] —
    a span created before CLOSE was switched on has no [Timings] and gets NO close record (seeded C13-J).
    [timing] = the subscriber's [fmt_timing] (a timer is configured; [without_time()] changes the TYPE, so neither
    [modify] nor [reload] can change it). *)
Inductive rop :=
| ROp (x : op)                                       (* an event, or an enter / exit point of a span *)
| RNew (id : N) (m : emeta) (scope : list span)       (* on_new_span of span [id] *)
| RClose (id : N) (m : emeta) (scope : list span)     (* on_close of span [id] *)
| RReconf (sc : spancfg).                            (* modify(set_span_events) / reload *)

Record cfstate := CfSt { r_cfg : spancfg; r_timed : list N }.

Definition has_timings (st : cfstate) (id : N) : bool := existsb (N.eqb id) (r_timed st).

Definition close_flds (timed : bool) : flds :=
  FOk (str "message") (lifecycle_msg LClose)
      (if timed then FOk (str "time.busy") (str "T") (FOk (str "time.idle") (str "T") FNil) else FNil).

Definition close_emissions (gated timing : bool) (sc : spancfg) (timed : bool) (m : emeta) (scope : list span) : list emission :=
  if sc_close sc then
    if gated then (if timing then (if timed then [Em m scope (close_flds true)] else []) else [Em m scope (close_flds false)])
    else [Em m scope (close_flds timed)]
  else [].

Definition rstep (gated timing : bool) (st : cfstate) (x : rop) : list emission * cfstate :=
  match x with
  | ROp x => (expand (r_cfg st) timing x, st)
  | RNew id m scope =>
      (expand (r_cfg st) timing (OpSpan LNew m scope),
       if timing && sc_close (r_cfg st) then CfSt (r_cfg st) (id :: r_timed st) else st)
  | RClose id m scope => (close_emissions gated timing (r_cfg st) (has_timings st id) m scope, st)
  | RReconf sc => ([], CfSt sc (r_timed st))
  end.

(** per op: what it makes reach [on_event] *)
Fixpoint rtrace (gated timing : bool) (st : cfstate) (ops : list rop) : list (list emission) :=
  match ops with
  | [] => []
  | x :: t => let (ems, st') := rstep gated timing st x in ems :: rtrace gated timing st' t
  end.

Definition rexpand (gated timing : bool) (sc0 : spancfg) (ops : list rop) : list emission :=
  concat (rtrace gated timing (CfSt sc0 []) ops).

Definition thread_events_r (fe : emission -> outcome N) (gated : bool) (sc0 : spancfg) (timing : bool) (ops : list rop)
  : list (event N emeta) :=
  map (gev_of fe) (rexpand gated timing sc0 ops).

(** the configuration that is current when each op of a history happens *)
Fixpoint cfgs_at (sc : spancfg) (ops : list rop) : list spancfg :=
  match ops with
  | [] => []
  | x :: t => sc :: cfgs_at (match x with RReconf sc' => sc' | _ => sc end) t
  end.

(** the lifecycle point an op is, if any *)
Definition rop_point (x : rop) : option (lifecycle * emeta * list span) :=
  match x with
  | ROp (OpSpan k m scope) => Some (k, m, scope)
  | RNew _ m scope => Some (LNew, m, scope)
  | RClose _ m scope => Some (LClose, m, scope)
  | _ => None
  end.

(** the property's clause for one op under the configuration current when it happens: a configured lifecycle point is
    exactly one emission with the span's metadata and scope whose first field is the point's name; an unconfigured one
    none; an event exactly itself; a reconfiguration nothing *)
Definition point_spec (sc : spancfg) (x : rop) (ems : list emission) : Prop :=
  match rop_point x with
  | Some (k, m, scope) =>
      if lifecycle_on sc k then exists rest, ems = [Em m scope (FOk (str "message") (lifecycle_msg k) rest)] else ems = []
  | None => match x with ROp (OpEvent em) => ems = [em] | _ => ems = [] end
  end.
