(** C13 — the three parts composed (what every recording sink sees), and the content of Full / Compact
    records at token level. *)
From Coq Require Import Lia String.
From TV Require Import Fmt.RecordModel Fmt.BufferProofs Fmt.WriterProofs.
Local Open Scope N_scope.
Local Arguments N.leb : simpl never.
Local Arguments N.eqb : simpl never.

(** ** What the sinks see *)

(** Per routed record: one [make_writer_for] carrying that event's metadata and one [write] carrying
    the whole record, on exactly the sinks the documentation denotes. *)
Definition sink_spec {M} (pm : M -> meta) (w : wexp) (rs : list (M * bytes)) : list (N * sink_call) :=
  flat_map (fun r => map (fun i => (i, SMake (pm (fst r)))) (denote w (pm (fst r)))
                  ++ map (fun i => (i, SWrite (snd r))) (denote w (pm (fst r)))) rs.

Lemma distribute_spec : forall M (pm : M -> meta) w (rs : list (M * bytes)),
  well_typed w = true -> distribute pm w (spec_actions rs) = sink_spec pm w rs.
Proof.
  intros M pm w rs WT. unfold distribute, sink_spec, spec_actions.
  induction rs as [|[m r] t IH]; simpl; [reflexivity|].
  unfold dist_make, dist_write. rewrite (asked_is_route _ _ WT), routing.
  rewrite <- app_assoc. f_equal. f_equal. exact IH.
Qed.

Theorem sinks_see_one_factory_one_write : forall M (pm : M -> meta) c w (es : list (event N M)),
  well_typed w = true ->
  (pol c = ClearAfterOnly -> NoAbortedFormat es) ->
  distribute pm w (snd (run_thread c [] es)) = sink_spec pm w (flat_map (records (lie c)) es).
Proof.
  intros M pm c w es WT Hp. rewrite (one_factory_one_write N M c es Hp). apply distribute_spec, WT.
Qed.

(** The same for a thread of the full pipeline (span lifecycle pseudo-events included: they are
    emissions like any other). *)
Theorem thread_sinks : forall c f o sc w th ops,
  well_typed w = true ->
  (pol c = ClearAfterOnly -> NoAbortedFormat (thread_events f o sc th ops)) ->
  thread_sink_log c f o sc w th ops
  = sink_spec meta_of w (flat_map (records (lie c)) (thread_events f o sc th ops)).
Proof. intros. unfold thread_sink_log. apply sinks_see_one_factory_one_write; assumption. Qed.

(** Every configured lifecycle point reaches [on_event] exactly once, with the span's own metadata. *)
Lemma lifecycle_reaches_on_event : forall sc timing k m scope,
  lifecycle_on sc k = true ->
  exists fl, expand sc timing (OpSpan k m scope) = [Em m scope fl].
Proof. intros sc timing k m scope H. simpl. rewrite H. eauto. Qed.

Lemma lifecycle_off_is_silent : forall sc timing k m scope,
  lifecycle_on sc k = false -> expand sc timing (OpSpan k m scope) = [].
Proof. intros sc timing k m scope H. simpl. rewrite H. reflexivity. Qed.
