(** C13 — the three parts composed (what every recording sink sees), and the content of Full / Compact
    records at token level. *)
From Coq Require Import Lia String PeanoNat.
From TV Require Import Fmt.RecordModel Fmt.BufferProofs Fmt.WriterProofs.
Local Open Scope N_scope.
Local Arguments N.leb : simpl never.
Local Arguments N.eqb : simpl never.

(** ** What the sinks see *)

(** Per routed record: one [make_writer_for] carrying that event's metadata and one [write] carrying
    the whole record, on exactly the sinks the documentation denotes. *)
Definition sink_spec {M} (pm : M -> meta) (w : wexp) (rs : list (M * bytes)) : list (N * sink_call) :=
  flat_map (fun r => map (fun i => (i, SMake (pm (fst r)))) (denote w (pm (fst r)))
                  ++ map (fun i => (i, SWrite (snd r))) (denote w (pm (fst r)))) rs.

Lemma distribute_spec : forall M (pm : M -> meta) w (rs : list (M * bytes)),
  well_typed w = true -> distribute pm w (spec_actions rs) = sink_spec pm w rs.
Proof.
  intros M pm w rs WT. unfold distribute, sink_spec, spec_actions.
  induction rs as [|[m r] t IH]; simpl; [reflexivity|].
  unfold dist_make, dist_write. rewrite (asked_is_route _ _ WT), routing.
  rewrite <- app_assoc. f_equal. f_equal. exact IH.
Qed.

Theorem sinks_see_one_factory_one_write : forall M (pm : M -> meta) c w (es : list (event N M)),
  well_typed w = true ->
  (pol c = ClearAfterOnly -> NoAbortedFormat no_unwind (lie c) es) ->
  distribute pm w (snd (run_thread no_unwind c [] es)) = sink_spec pm w (flat_map (records (lie c)) es).
Proof.
  intros M pm c w es WT Hp. rewrite (one_factory_one_write N M no_unwind c es Hp). apply distribute_spec, WT.
Qed.

(** ** ... and what they see when sinks fail.

    Per routed record: one [make_writer_for] carrying that event's metadata on every denoted sink, then,
    on every denoted sink in order, the [write] calls std's [write_all] loop makes of THAT sink's script and
    the whole record — whatever the other sinks of the record did, and whatever happened to earlier records
    (a panicking sink stops the walk over the record's sinks; later records are not affected). *)
Definition sink_spec_f {M} (pm : M -> meta) (w : wexp) (rs : list ((M * list script) * bytes)) : list (N * fentry) :=
  flat_map (fun r => let m := pm (fst (fst r)) in
                     map (fun i => (i, FMake m)) (denote w m)
                     ++ flat_calls (spec_calls (leaf_of MWriteAll (snd r)) (planf (snd (fst r))) 0%nat (denote w m))) rs.

Lemma distribute_f_spec : forall M (pm : M -> meta) w (rs : list ((M * list script) * bytes)),
  well_typed w = true -> distribute_f true pm w (spec_actions rs) = sink_spec_f pm w rs.
Proof.
  intros M pm w rs WT. unfold distribute_f, sink_spec_f, spec_actions.
  induction rs as [|[mp r] t IH]; simpl; [reflexivity|].
  rewrite (asked_is_route _ _ WT), routing. unfold fwrite.
  destruct (routing_with_faults w (pm (fst mp)) (leaf_of MWriteAll r) (planf (snd mp))) as [C _].
  cbv zeta in C. simpl in C |- *. rewrite C. rewrite <- app_assoc. f_equal. f_equal. exact IH.
Qed.

Theorem sinks_see_faulty_writes : forall M (pm : M -> meta) c w (es : list (event N (M * list script))),
  well_typed w = true ->
  (pol c = ClearAfterOnly -> NoAbortedFormat (unw_f true pm w) (lie c) es) ->
  distribute_f true pm w (snd (run_thread (unw_f true pm w) c [] es))
  = sink_spec_f pm w (flat_map (records (lie c)) es).
Proof.
  intros M pm c w es WT Hp. rewrite (one_factory_one_write N _ (unw_f true pm w) c es Hp).
  apply distribute_f_spec, WT.
Qed.

(** The same for a thread of the full pipeline (span lifecycle pseudo-events included: they are
    emissions like any other). *)
Theorem thread_sinks : forall c f o sc w th ops,
  well_typed w = true ->
  (pol c = ClearAfterOnly -> NoAbortedFormat no_unwind (lie c) (thread_events f o sc th ops)) ->
  thread_sink_log c f o sc w th ops
  = sink_spec meta_of w (flat_map (records (lie c)) (thread_events f o sc th ops)).
Proof. intros. unfold thread_sink_log. apply sinks_see_one_factory_one_write; assumption. Qed.

(** Every configured lifecycle point reaches [on_event] exactly once, with the span's own metadata. *)
Lemma lifecycle_reaches_on_event : forall sc timing k m scope,
  lifecycle_on sc k = true ->
  exists fl, expand sc timing (OpSpan k m scope) = [Em m scope fl].
Proof. intros sc timing k m scope H. simpl. rewrite H. eauto. Qed.

Lemma lifecycle_off_is_silent : forall sc timing k m scope,
  lifecycle_on sc k = false -> expand sc timing (OpSpan k m scope) = [].
Proof. intros sc timing k m scope H. simpl. rewrite H. reflexivity. Qed.

(** ** Record content (Full / Compact): the bytes are the rendering of the specified token list *)

Lemma concat_map_app : forall (g : tok -> bytes) (a b : list tok),
  concat (map g (a ++ b)) = concat (map g a) ++ concat (map g b).
Proof. intros. rewrite map_app, concat_app. reflexivity. Qed.

Lemma opt_tok_render : forall f b t (x : bytes),
  render_tok f t = x -> concat (map (render_tok f) (opt_tok b t)) = if b then x else [].
Proof. intros f [] t x H; simpl; [rewrite app_nil_r; exact H | reflexivity]. Qed.

Lemma head_is_tokens : forall f o m th, head f o m th = concat (map (render_tok f) (head_toks o m th)).
Proof.
  intros. unfold head, head_toks. rewrite !concat_map_app.
  rewrite (opt_tok_render f (o_timer o) (TTimer (time_text m)) _ eq_refl).
  rewrite (opt_tok_render f (o_level o) (TLevel (e_level m)) _ eq_refl).
  rewrite (opt_tok_render f (o_tname o) (TThreadName (th_name th)) _ eq_refl).
  rewrite (opt_tok_render f (o_tid o) (TThreadId (th_id th)) _ eq_refl).
  reflexivity.
Qed.

Lemma scope_full_is_tokens : forall sc, scope_full sc = concat (map (render_tok Full) (span_toks_full sc)).
Proof.
  intros sc. unfold scope_full, span_toks_full. rewrite concat_map_app, map_map. f_equal.
  - f_equal. apply map_ext. intros s. unfold span_full. simpl. destruct (span_fields s); reflexivity.
  - destruct sc; reflexivity.
Qed.

Lemma scope_compact_is_tokens : forall sc, scope_compact sc = concat (map (render_tok Compact) (span_toks_compact sc)).
Proof.
  intros sc. unfold scope_compact, span_toks_compact. induction sc as [|s t IH]; simpl; [reflexivity|].
  rewrite concat_map_app, <- IH. f_equal. unfold span_compact.
  destruct (span_fields s); simpl; [reflexivity | rewrite app_nil_r; reflexivity].
Qed.

Lemma location_full_is_tokens : forall o m, location_full o m = concat (map (render_tok Full) (loc_toks o m)).
Proof.
  intros. unfold location_full, loc_toks. rewrite !concat_map_app.
  rewrite (opt_tok_render Full (o_target o) (TTarget (e_target m)) _ eq_refl). f_equal. f_equal.
  - destruct (o_file o); [|reflexivity]. destruct (e_file m); [|reflexivity]. simpl. rewrite app_nil_r.
    destruct (shown_line o m); reflexivity.
  - destruct (shown_line o m); simpl; [rewrite app_nil_r|]; reflexivity.
Qed.

Lemma location_compact_is_tokens : forall o m, location_compact o m = concat (map (render_tok Compact) (loc_toks o m)).
Proof.
  intros. unfold location_compact, loc_toks. rewrite !concat_map_app.
  rewrite (opt_tok_render Compact (o_target o) (TTarget (e_target m)) _ eq_refl). f_equal. f_equal.
  - destruct (o_file o); [|reflexivity]. destruct (e_file m); [|reflexivity]. simpl. rewrite !app_nil_r. reflexivity.
  - destruct (shown_line o m); simpl; [rewrite app_nil_r|]; reflexivity.
Qed.

Lemma fields_are_tokens : forall f fl first fs, ok_fields fl = Some fs ->
  render_flds first fl = (concat (map (render_tok f) (field_toks first fs)), SOk).
Proof.
  intros f fl. induction fl as [|n v r IH|n e post r IH|n pre|n pre]; intros first fs H; simpl in *.
  - inversion H. reflexivity.
  - destruct (ok_fields r) as [fs'|]; [|discriminate]. inversion H; subst. simpl.
    rewrite (IH false fs' eq_refl). rewrite <- !app_assoc. reflexivity.
  - destruct (ok_fields r) as [fs'|]; [|discriminate]. inversion H; subst. simpl.
    rewrite (IH false fs' eq_refl). rewrite <- !app_assoc. reflexivity.
  - discriminate.
  - discriminate.
Qed.

(** C13_content, structural part: a completed record IS the concatenation of the renderings of
    level / thread / spans root->leaf with fields / target / location / every event field / newline. *)
Theorem content_tokens : forall f o th m sc fl fs, ok_fields fl = Some fs ->
  format_event f o th (Em m sc fl) = OOk (concat (map (render_tok f) (tokens_spec f o th m sc fs))).
Proof.
  intros f o th m sc fl fs H. unfold format_event. rewrite (fields_are_tokens f fl true fs H).
  f_equal. unfold before_fields, after_fields, tokens_spec. destruct f.
  - rewrite !concat_map_app, <- head_is_tokens, <- scope_full_is_tokens, <- location_full_is_tokens.
    simpl. rewrite <- !app_assoc. reflexivity.
  - rewrite !concat_map_app, <- head_is_tokens, <- scope_compact_is_tokens, <- location_compact_is_tokens.
    simpl. rewrite <- !app_assoc. reflexivity.
Qed.

(** What the token list names — independent of rendering. *)
Lemma filter_app_tok : forall (p : tok -> bool) a b, filter p (a ++ b) = filter p a ++ filter p b.
Proof. intros. apply filter_app. Qed.

Lemma head_no_span_field : forall o m th, filter is_span_tok (head_toks o m th) = [] /\ filter is_field_tok (head_toks o m th) = [].
Proof. intros. unfold head_toks, opt_tok. destruct (o_timer o), (o_level o), (o_tname o), (o_tid o); simpl; auto. Qed.

Lemma loc_no_span_field : forall o m, filter is_span_tok (loc_toks o m) = [] /\ filter is_field_tok (loc_toks o m) = [].
Proof.
  intros. unfold loc_toks, opt_tok.
  destruct (o_target o), (o_file o), (e_file m), (shown_line o m); simpl; auto.
Qed.

Lemma field_toks_filters : forall first fs,
  filter is_span_tok (field_toks first fs) = [] /\ filter is_field_tok (field_toks first fs) = field_toks first fs.
Proof.
  intros first fs. revert first. induction fs as [|[n v] r IH]; intros first; simpl; [auto|].
  destruct (IH false) as [A B]. rewrite A, B. auto.
Qed.

Lemma span_toks_full_filters : forall sc,
  filter is_span_tok (span_toks_full sc) = map (fun s => TSpan (s_name s) (span_fields s)) sc
  /\ filter is_field_tok (span_toks_full sc) = [].
Proof.
  intros sc. unfold span_toks_full. rewrite !filter_app. split.
  - replace (filter is_span_tok match sc with [] => [] | _ :: _ => [TScopeEnd] end) with (@nil tok) by (destruct sc; reflexivity).
    rewrite app_nil_r. induction sc; simpl; [reflexivity | f_equal; assumption].
  - replace (filter is_field_tok match sc with [] => [] | _ :: _ => [TScopeEnd] end) with (@nil tok) by (destruct sc; reflexivity).
    rewrite app_nil_r. induction sc; simpl; [reflexivity | assumption].
Qed.

Lemma span_toks_compact_filters : forall sc,
  filter is_span_tok (span_toks_compact sc) = span_toks_compact sc /\ filter is_field_tok (span_toks_compact sc) = [].
Proof.
  intros sc. unfold span_toks_compact. induction sc as [|s t [A B]]; simpl; [auto|].
  rewrite !filter_app, A, B. destruct (span_fields s); simpl; auto.
Qed.

(** The record names the level (when shown), every span in scope root -> leaf with its fields (Full:
    name and fields; Compact, as documented: the fields of the spans that have any), every event
    field with its value in declaration order, and ends with the newline token. *)
Theorem tokens_name_everything : forall f o th m sc fs,
  let toks := tokens_spec f o th m sc fs in
  (o_level o = true -> In (TLevel (e_level m)) toks)
  /\ filter is_span_tok toks = match f with
                               | Full => map (fun s => TSpan (s_name s) (span_fields s)) sc
                               | Compact => span_toks_compact sc
                               end
  /\ filter is_field_tok toks = field_toks true fs
  /\ exists pre, toks = pre ++ [TNewline] /\ ~ In TNewline pre.
Proof.
  intros f o th m sc fs toks. subst toks.
  destruct (head_no_span_field o m th) as [H1 H2], (loc_no_span_field o m) as [L1 L2],
           (field_toks_filters true fs) as [F1 F2], (span_toks_full_filters sc) as [S1 S2],
           (span_toks_compact_filters sc) as [C1 C2].
  split; [|split; [|split]].
  - intros Hl. unfold tokens_spec, head_toks. rewrite Hl.
    destruct f; apply in_or_app; left; apply in_or_app; right; apply in_or_app; left; simpl; auto.
  - unfold tokens_spec. destruct f; rewrite !filter_app, ?H1, ?L1, ?F1, ?S1, ?C1; simpl; rewrite ?app_nil_r; reflexivity.
  - unfold tokens_spec. destruct f; rewrite !filter_app, ?H2, ?L2, ?F2, ?S2, ?C2; simpl; rewrite ?app_nil_r; reflexivity.
  - assert (NH : ~ In TNewline (head_toks o m th)).
    { unfold head_toks, opt_tok. destruct (o_timer o), (o_level o), (o_tname o), (o_tid o); simpl; intuition discriminate. }
    assert (NL : ~ In TNewline (loc_toks o m)).
    { unfold loc_toks, opt_tok. destruct (o_target o), (o_file o), (e_file m), (shown_line o m); simpl; intuition discriminate. }
    assert (NF : forall first, ~ In TNewline (field_toks first fs)).
    { clear. induction fs as [|[n v] r IH]; intros first; simpl; [tauto|]. intros [H|H]; [discriminate | exact (IH false H)]. }
    assert (NS : ~ In TNewline (span_toks_full sc)).
    { unfold span_toks_full. intros H. apply in_app_or in H as [H|H].
      - apply in_map_iff in H as [s [E _]]. discriminate.
      - destruct sc; simpl in H; [tauto | destruct H as [H|[]]; discriminate]. }
    assert (NC : ~ In TNewline (span_toks_compact sc)).
    { unfold span_toks_compact. intros H. apply in_flat_map in H as [s [_ H]].
      destruct (span_fields s); simpl in H; [tauto | destruct H as [H|[]]; discriminate]. }
    unfold tokens_spec. destruct f.
    + exists (head_toks o m th ++ span_toks_full sc ++ loc_toks o m ++ field_toks true fs).
      split; [rewrite <- !app_assoc; reflexivity|].
      intros H. apply in_app_or in H as [H|H]; [exact (NH H)|].
      apply in_app_or in H as [H|H]; [exact (NS H)|].
      apply in_app_or in H as [H|H]; [exact (NL H)|]. exact (NF true H).
    + exists (head_toks o m th ++ loc_toks o m ++ field_toks true fs ++ span_toks_compact sc).
      split; [rewrite <- !app_assoc; reflexivity|].
      intros H. apply in_app_or in H as [H|H]; [exact (NH H)|].
      apply in_app_or in H as [H|H]; [exact (NL H)|].
      apply in_app_or in H as [H|H]; [exact (NF true H)|]. exact (NC H).
Qed.

(** ** Exactly one line *)

Lemma has10_app : forall a b, has10 (a ++ b) = has10 a || has10 b.
Proof. intros. unfold has10. apply existsb_app. Qed.

Lemma clean_b_false : forall b, clean_b b = true -> has10 b = false.
Proof. intros b H. unfold clean_b in H. destruct (has10 b); [discriminate | reflexivity]. Qed.

Lemma level_str_clean : forall f l, has10 (level_str f l) = false.
Proof.
  intros f l. unfold level_str.
  destruct f; destruct (l =? 1); try reflexivity; destruct (l =? 2); try reflexivity;
    destruct (l =? 3); try reflexivity; destruct (l =? 4); reflexivity.
Qed.

Lemma strip_raw_clean : forall n, has10 n = false -> has10 (strip_raw n) = false.
Proof.
  intros n H. unfold strip_raw.
  destruct n as [|a [|b r]]; try assumption.
  destruct ((a =? 114) && (b =? 35)); [|assumption].
  unfold has10 in *. simpl in H.
  apply Bool.orb_false_elim in H as [_ H]. apply Bool.orb_false_elim in H as [_ H]. exact H.
Qed.

Lemma fld_head_clean : forall n, has10 n = false -> has10 (fld_head n) = false.
Proof.
  intros n H. unfold fld_head. destruct (is_message n); [reflexivity|].
  rewrite has10_app, (strip_raw_clean n H). reflexivity.
Qed.

Lemma pad_clean : forall first, has10 (pad first) = false.
Proof. intros []; reflexivity. Qed.

Lemma render_group_clean : forall g first, clean_fields g = true -> has10 (render_group first g) = false.
Proof.
  induction g as [|[n v] r IH]; intros first H; simpl in *; [reflexivity|].
  apply andb_prop in H as [H Hr]. apply andb_prop in H as [Hn Hv].
  rewrite !has10_app, pad_clean, (fld_head_clean n (clean_b_false _ Hn)), (clean_b_false _ Hv), (IH false Hr). reflexivity.
Qed.

Lemma span_fields_clean : forall s, clean_span s = true -> has10 (span_fields s) = false.
Proof.
  intros [name groups tg ps] H. unfold clean_span in H. simpl in H. apply andb_prop in H as [_ H].
  unfold span_fields. simpl.
  assert (G : forall gs cur, forallb clean_fields gs = true -> has10 cur = false -> has10 (fold_left add_group gs cur) = false).
  { induction gs as [|g t IH]; intros cur Hg Hc; simpl in *; [assumption|].
    apply andb_prop in Hg as [Hg Ht]. apply IH; [assumption|].
    unfold add_group. destruct cur; [apply render_group_clean; assumption|].
    rewrite !has10_app, Hc, (render_group_clean g true Hg). reflexivity. }
  apply G; [assumption | reflexivity].
Qed.

Definition tok_clean (t : tok) : bool :=
  match t with
  | TLevel _ | TScopeEnd => true
  | TTimer b => clean_b b
  | TThreadName b | TThreadId b | TTarget b | TFile b _ | TLine b | TSpanFields b => clean_b b
  | TSpan n fs => clean_b n && clean_b fs
  | TField _ n v => clean_b n && clean_b v
  | TNewline => false
  end.

Lemma render_tok_clean : forall f t, tok_clean t = true -> has10 (render_tok f t) = false.
Proof.
  intros f t H. destruct t; cbn [render_tok tok_clean] in *; try discriminate.
  - rewrite has10_app, (clean_b_false _ H). reflexivity.
  - rewrite has10_app, level_str_clean. reflexivity.
  - rewrite has10_app, (clean_b_false _ H). reflexivity.
  - rewrite has10_app, (clean_b_false _ H). reflexivity.
  - apply andb_prop in H as [Hn Hf]. rewrite !has10_app, (clean_b_false _ Hn).
    destruct fields as [|x y]; [reflexivity|]. rewrite !has10_app, (clean_b_false _ Hf). reflexivity.
  - reflexivity.
  - rewrite has10_app, (clean_b_false _ H). destruct f; reflexivity.
  - rewrite !has10_app, (clean_b_false _ H). destruct f; [destruct line_follows|]; reflexivity.
  - rewrite has10_app, (clean_b_false _ H). destruct f; reflexivity.
  - apply andb_prop in H as [Hn Hv].
    rewrite !has10_app, pad_clean, (fld_head_clean _ (clean_b_false _ Hn)), (clean_b_false _ Hv). reflexivity.
  - rewrite has10_app, (clean_b_false _ H). reflexivity.
Qed.

Lemma toks_clean : forall f toks, forallb tok_clean toks = true -> has10 (concat (map (render_tok f) toks)) = false.
Proof.
  intros f toks. induction toks as [|t r IH]; intros H; simpl in *; [reflexivity|].
  apply andb_prop in H as [Ht Hr]. rewrite has10_app, (render_tok_clean f t Ht), (IH Hr). reflexivity.
Qed.

Lemma forallb_app' : forall (p : tok -> bool) a b, forallb p (a ++ b) = forallb p a && forallb p b.
Proof. intros. apply forallb_app. Qed.

(** C13_content, one-line part: when no input text contains a raw newline (the property's exclusion),
    a completed Full / Compact record is [body ++ "\n"] with no newline in [body]. *)
Theorem single_line : forall f o th m sc fl fs, ok_fields fl = Some fs ->
  inputs_nl_free th m sc fs = true ->
  exists body, format_event f o th (Em m sc fl) = OOk (body ++ [10]) /\ has10 body = false.
Proof.
  intros f o th m sc fl fs H C. rewrite (content_tokens f o th m sc fl fs H).
  unfold inputs_nl_free in C.
  apply andb_prop in C as [C H0]. apply andb_prop in C as [C H1]. apply andb_prop in C as [C Htm].
  apply andb_prop in C as [C Hln]. apply andb_prop in C as [C Hfi]. apply andb_prop in C as [C Htg].
  apply andb_prop in C as [C Hid].
  assert (Htt : clean_b (time_text m) = true).
  { unfold time_text, clean_o in *. destruct (e_time m) as [pre|]; [|reflexivity].
    unfold clean_b in *. rewrite has10_app. destruct (has10 pre); [discriminate | reflexivity]. }
  assert (Hh : forallb tok_clean (head_toks o m th) = true).
  { unfold head_toks, opt_tok. destruct (o_timer o), (o_level o), (o_tname o), (o_tid o); simpl; rewrite ?C, ?Hid, ?Htt; reflexivity. }
  assert (Hl : forallb tok_clean (loc_toks o m) = true).
  { unfold loc_toks, opt_tok, shown_line. unfold clean_o in *.
    destruct (o_target o), (o_file o), (e_file m), (o_line o), (e_line m); simpl; rewrite ?Htg, ?Hfi, ?Hln; reflexivity. }
  assert (Hf : forall first, forallb tok_clean (field_toks first fs) = true).
  { clear - H0. induction fs as [|[n v] r IH]; intros first; simpl in *; [reflexivity|].
    apply andb_prop in H0 as [A B]. rewrite A, (IH B false). reflexivity. }
  assert (Hsf : forallb tok_clean (span_toks_full sc) = true).
  { unfold span_toks_full. rewrite forallb_app'. apply andb_true_intro. split; [|destruct sc; reflexivity].
    clear - H1. induction sc as [|s t IH]; simpl in *; [reflexivity|].
    apply andb_prop in H1 as [A B]. rewrite (IH B), andb_true_r.
    pose proof (span_fields_clean s A) as Q. unfold clean_span in A. apply andb_prop in A as [A _].
    rewrite A. unfold clean_b. rewrite Q. reflexivity. }
  assert (Hsc : forallb tok_clean (span_toks_compact sc) = true).
  { unfold span_toks_compact. clear - H1. induction sc as [|s t IH]; simpl in *; [reflexivity|].
    apply andb_prop in H1 as [A B]. rewrite forallb_app', (IH B), andb_true_r.
    pose proof (span_fields_clean s A) as Q. destruct (span_fields s) eqn:E; [reflexivity|].
    simpl. unfold clean_b. rewrite Q. reflexivity. }
  unfold tokens_spec. destruct f.
  - exists (concat (map (render_tok Full) (head_toks o m th ++ span_toks_full sc ++ loc_toks o m ++ field_toks true fs))).
    split.
    + f_equal. rewrite !concat_map_app. simpl. rewrite <- !app_assoc. reflexivity.
    + apply toks_clean. rewrite !forallb_app', Hh, Hsf, Hl, (Hf true). reflexivity.
  - exists (concat (map (render_tok Compact) (head_toks o m th ++ loc_toks o m ++ field_toks true fs ++ span_toks_compact sc))).
    split.
    + f_equal. rewrite !concat_map_app. simpl. rewrite <- !app_assoc. reflexivity.
    + apply toks_clean. rewrite !forallb_app', Hh, Hsc, Hl, (Hf true). reflexivity.
Qed.

(** Non-vacuity: the F9 replay's first record, and a compact record inside two spans. *)
Example content_example_full :
  let o := Opts false true false false true false false in
  let m := EMeta 3 (str "p") (str "event e1") None None false None in
  let fl := FOk (str "message") (str "first") (FOk (str "a") (str "1") FNil) in
  format_event Full o (Thr [] []) (Em m [] fl) = OOk (str " INFO p: first a=1" ++ [10])
  /\ inputs_nl_free (Thr [] []) m [] [(str "message", str "first"); (str "a", str "1")] = true.
Proof. vm_compute. auto. Qed.

Example content_example_compact :
  let o := Opts false true false false true false false in
  let m := EMeta 2 (str "app") (str "event e") None None false None in
  let sc := [Span (str "outer") [[(str "a", str "1")]; [(str "b", str "2")]] (str "app") false; Span (str "inner") [[]] (str "app") false] in
  format_event Compact o (Thr [] []) (Em m sc (FOk (str "k") (str "7") FNil)) = OOk (str "! app:k=7 a=1 b=2" ++ [10]).
Proof. vm_compute. auto. Qed.

(** Non-vacuity of [sinks_see_faulty_writes]: [a.and(b)], three records; the LEFT sink fails the second
    one and accepts the third a byte at a time.  The healthy right sink gets every record whole, the record
    after the failed write is whole and unprefixed. *)
Example faulty_pipeline_example :
  let m := Meta 3 [] [] false in
  let es : list (event N (meta * list script)) :=
    [ Ev (m, []) [] (OOk [65; 10]); Ev (m, [[RsFail]]) [] (OOk [66; 10]); Ev (m, [[RsAccept 1; RsAccept 1]]) [] (OOk [67; 10]) ] in
  distribute_f true (fun x => x) (WTee (WSink 0) (WSink 1))
    (snd (run_thread (unw_f true (fun x => x) (WTee (WSink 0) (WSink 1))) (Cfg ClearBefore true) [] es))
  = [ (0, FMake m); (1, FMake m); (0, FCall (CWrite [65; 10] (RsAccept 2))); (1, FCall (CWrite [65; 10] (RsAccept 2)));
      (0, FMake m); (1, FMake m); (0, FCall (CWrite [66; 10] RsFail));        (1, FCall (CWrite [66; 10] (RsAccept 2)));
      (0, FMake m); (1, FMake m); (0, FCall (CWrite [67; 10] (RsAccept 1))); (0, FCall (CWrite [10] (RsAccept 1)));
      (1, FCall (CWrite [67; 10] (RsAccept 2))) ].
Proof. vm_compute. reflexivity. Qed.

(** ** Span fields: every field of every group — the creation-time ones, then each later [record] — is in
    the span's formatted fields, in order (DefaultFields: Full / Compact). *)
Lemma render_group_is_ftoks : forall g first, render_group first g = concat (map render_ftok (group_ftoks first g)).
Proof.
  induction g as [|[n v] r IH]; intros first; simpl; [reflexivity|].
  rewrite IH, <- !app_assoc. reflexivity.
Qed.

Lemma group_ftoks_fields : forall g first, ftok_fields (group_ftoks first g) = g.
Proof. induction g as [|[n v] r IH]; intros first; simpl; [reflexivity | f_equal; apply IH]. Qed.

Lemma ftok_fields_app : forall a b, ftok_fields (a ++ b) = ftok_fields a ++ ftok_fields b.
Proof. intros. unfold ftok_fields. apply flat_map_app. Qed.

Lemma fold_add_group_ftoks : forall gs cur,
  fold_left add_group gs cur = cur ++ concat (map render_ftok (groups_ftoks cur gs))
  /\ ftok_fields (groups_ftoks cur gs) = concat gs.
Proof.
  induction gs as [|g r IH]; intros cur; simpl.
  - rewrite app_nil_r. auto.
  - destruct (IH (add_group cur g)) as [E F]. rewrite E. split.
    + remember (concat (map render_ftok (groups_ftoks (add_group cur g) r))) as rest.
      rewrite !map_app, !concat_app, <- render_group_is_ftoks, <- Heqrest.
      unfold add_group. destruct cur; simpl; rewrite <- ?app_assoc; reflexivity.
    + rewrite !ftok_fields_app, group_ftoks_fields, F.
      destruct cur; reflexivity.
Qed.

Theorem span_fields_names_every_field : forall s,
  span_fields s = concat (map render_ftok (groups_ftoks [] (s_groups s)))
  /\ ftok_fields (groups_ftoks [] (s_groups s)) = concat (s_groups s).
Proof. intros s. unfold span_fields. destruct (fold_add_group_ftoks (s_groups s) []) as [E F]. auto. Qed.

(** ** A lifecycle record is the record of an event named after the point ("new" / "enter" / "exit" /
    "close", with the two durations when a timer is configured), in the span's own scope. *)
Lemma lifecycle_ok_fields : forall sc timing k m scope, lifecycle_on sc k = true ->
  exists fl, expand sc timing (OpSpan k m scope) = [Em m scope fl] /\ ok_fields fl = Some (lifecycle_fields k timing).
Proof.
  intros sc timing k m scope H. simpl. rewrite H. eexists. split; [reflexivity|].
  destruct k; try reflexivity. destruct timing; reflexivity.
Qed.

Theorem lifecycle_record_content : forall f o th sc timing k m scope, lifecycle_on sc k = true ->
  exists em, expand sc timing (OpSpan k m scope) = [em]
    /\ format_event f o th em = OOk (concat (map (render_tok f) (tokens_spec f o th m scope (lifecycle_fields k timing)))).
Proof.
  intros f o th sc timing k m scope H.
  destruct (lifecycle_ok_fields sc timing k m scope H) as [fl [E F]].
  exists (Em m scope fl). split; [exact E|]. apply content_tokens, F.
Qed.

(** ** Pretty *)

Lemma p_fields_are_tokens : forall fl first fs, ok_fields fl = Some fs ->
  p_render_flds first fl = (concat (map render_ptok (pfield_toks first fs)), SOk).
Proof.
  induction fl as [|n v r IH|n e post r IH|n pre|n pre]; intros first fs H; simpl in *.
  - inversion H. reflexivity.
  - destruct (ok_fields r) as [fs'|]; [|discriminate]. inversion H; subst. simpl.
    rewrite (IH false fs' eq_refl). rewrite <- !app_assoc. reflexivity.
  - destruct (ok_fields r) as [fs'|]; [|discriminate]. inversion H; subst. simpl.
    rewrite (IH false fs' eq_refl). rewrite <- !app_assoc. reflexivity.
  - discriminate.
  - discriminate.
Qed.

Lemma concat_map_app_p : forall (a b : list ptok),
  concat (map render_ptok (a ++ b)) = concat (map render_ptok a) ++ concat (map render_ptok b).
Proof. intros. rewrite map_app, concat_app. reflexivity. Qed.

Lemma popt_render : forall b t (x : bytes), render_ptok t = x ->
  concat (map render_ptok (popt b t)) = if b then x else [].
Proof. intros [] t x H; simpl; [rewrite app_nil_r; assumption | reflexivity]. Qed.

Lemma p_spans_are_tokens : forall o l, concat (map (p_span o) l) = concat (map render_ptok (map (pspan_tok o) l)).
Proof.
  intros o l. rewrite map_map. f_equal. apply map_ext. intros s. unfold p_span, pspan_tok. simpl.
  destruct (o_target o); destruct (p_span_fields s); reflexivity.
Qed.

(** A completed Pretty record IS the concatenation of the renderings of its tokens. *)
Theorem pretty_content_tokens : forall o th m sc fl fs, ok_fields fl = Some fs ->
  format_event_pretty o th (Em m sc fl) = OOk (concat (map render_ptok (ptokens_spec o th m sc fs))).
Proof.
  intros o th m sc fl fs H. unfold format_event_pretty. rewrite (p_fields_are_tokens fl true fs H).
  f_equal. unfold ptokens_spec, p_before, p_location.
  rewrite !concat_map_app_p.
  rewrite (popt_render (o_timer o) (PTimer (time_text m)) _ eq_refl).
  rewrite (popt_render (o_level o) (PLevel (e_level m)) _ eq_refl).
  rewrite (popt_render (o_target o) (PTarget (e_target m)) _ eq_refl).
  rewrite <- p_spans_are_tokens.
  remember (concat (map render_ptok (pfield_toks true fs))) as FF.
  remember (concat (map (p_span o) (rev sc))) as SS.
  unfold p_thread, p_shown_file, popt.
  destruct (o_timer o), (o_level o), (o_target o), (shown_line o m), (o_file o), (e_file m), (o_tname o), (o_tid o);
    repeat (progress (cbn -[level_str]; rewrite <- ?app_assoc)); reflexivity.
Qed.

Lemma pfield_toks_filters : forall first fs,
  filter is_pspan_tok (pfield_toks first fs) = [] /\ filter is_pfield_tok (pfield_toks first fs) = pfield_toks first fs.
Proof.
  intros first fs. revert first. induction fs as [|[n v] r IH]; intros first; simpl; [auto|].
  destruct (IH false) as [A B]. rewrite A, B. auto.
Qed.

Lemma pspan_toks_filters : forall o l,
  filter is_pspan_tok (map (pspan_tok o) l) = map (pspan_tok o) l /\ filter is_pfield_tok (map (pspan_tok o) l) = [].
Proof. intros o l. induction l as [|s t [A B]]; simpl; [auto|]. rewrite A, B. auto. Qed.

(** What a Pretty record names: the level (when shown), every span of the scope it was given, INNERMOST
    FIRST, each with its formatted fields (and its target when targets are shown), every event field with
    its value in declaration order; it starts with the indent and ends with the blank line. *)
Theorem pretty_names_everything : forall o th m sc fs,
  let toks := ptokens_spec o th m sc fs in
  (o_level o = true -> In (PLevel (e_level m)) toks)
  /\ filter is_pspan_tok toks = map (pspan_tok o) (rev sc)
  /\ filter is_pfield_tok toks = pfield_toks true fs
  /\ exists mid, toks = PStart :: mid ++ [PEnd] /\ ~ In PEnd mid.
Proof.
  intros o th m sc fs toks. subst toks. unfold ptokens_spec.
  destruct (pfield_toks_filters true fs) as [F1 F2], (pspan_toks_filters o (rev sc)) as [S1 S2].
  split; [|split; [|split]].
  - intros Hl. rewrite Hl. simpl. right. apply in_or_app. right. left. reflexivity.
  - rewrite !filter_app, F1, S1. unfold popt.
    destruct (o_timer o), (o_level o), (o_target o), (shown_line o m), (o_file o), (p_shown_file o m), (p_thread o);
      simpl; rewrite ?app_nil_r; reflexivity.
  - rewrite !filter_app, F2, S2. unfold popt.
    destruct (o_timer o), (o_level o), (o_target o), (shown_line o m), (o_file o), (p_shown_file o m), (p_thread o);
      simpl; rewrite ?app_nil_r; reflexivity.
  - exists (popt (o_timer o) (PTimer (time_text m)) ++ popt (o_level o) (PLevel (e_level m)) ++ popt (o_target o) (PTarget (e_target m)) ++
            (match shown_line o m with Some l => if o_file o then [] else [PLineInline l] | None => [] end) ++ [PGap] ++
            pfield_toks true fs ++ [PEol] ++
            (match p_shown_file o m with Some f => [PAt f (shown_line o m) (p_thread o)] | None => popt (p_thread o) POnIndent end) ++
            popt (p_thread o) (POn (if o_tname o then Some (th_name th) else None) (o_tid o) (if o_tid o then Some (th_id th) else None)) ++
            map (pspan_tok o) (rev sc)).
    split; [rewrite <- !app_assoc; reflexivity|].
    assert (NF : forall first, ~ In PEnd (pfield_toks first fs)).
    { clear. induction fs as [|[n v] r IH]; intros first; simpl; [tauto|]. intros [H|H]; [discriminate | exact (IH false H)]. }
    assert (NS : ~ In PEnd (map (pspan_tok o) (rev sc))).
    { intros H. apply in_map_iff in H as [s [E _]]. discriminate. }
    intros H.
    repeat (apply in_app_or in H; destruct H as [H|H]);
      try (exact (NF true H)); try (exact (NS H));
      unfold popt in H;
      repeat match type of H with context [match ?x with _ => _ end] => destruct x end;
      simpl in H; intuition discriminate.
Qed.

Theorem pretty_lifecycle_record_content : forall o th sc timing k m scope, lifecycle_on sc k = true ->
  exists em, expand sc timing (OpSpan k m scope) = [em]
    /\ format_event_pretty o th em = OOk (concat (map render_ptok (ptokens_spec o th m scope (lifecycle_fields k timing)))).
Proof.
  intros o th sc timing k m scope H.
  destruct (lifecycle_ok_fields sc timing k m scope H) as [fl [E F]].
  exists (Em m scope fl). split; [exact E|]. apply pretty_content_tokens, F.
Qed.

(** Pretty's span fields, field by field ([fmt_fields = Pretty]: ", " between fields, also between the
    creation-time fields and a later [record]). *)
Lemma p_render_group_is_ftoks : forall g first, p_render_group first g = concat (map render_pftok (p_group_ftoks first g)).
Proof.
  induction g as [|[n v] r IH]; intros first; simpl; [reflexivity|].
  rewrite IH, <- !app_assoc. reflexivity.
Qed.

Lemma p_group_ftoks_fields : forall g first, pftok_fields (p_group_ftoks first g) = g.
Proof. induction g as [|[n v] r IH]; intros first; simpl; [reflexivity | f_equal; apply IH]. Qed.

Lemma p_fold_add_group_ftoks : forall gs cur,
  fold_left p_add_group gs cur = cur ++ concat (map render_pftok (p_groups_ftoks cur gs))
  /\ pftok_fields (p_groups_ftoks cur gs) = concat gs.
Proof.
  induction gs as [|g r IH]; intros cur; simpl.
  - rewrite app_nil_r. auto.
  - destruct (IH (p_add_group cur g)) as [E F]. rewrite E. split.
    + remember (concat (map render_pftok (p_groups_ftoks (p_add_group cur g) r))) as rest.
      rewrite map_app, concat_app, <- p_render_group_is_ftoks, <- Heqrest.
      unfold p_add_group. rewrite <- app_assoc. reflexivity.
    + unfold pftok_fields in *. rewrite map_app. fold (pftok_fields (p_group_ftoks (nilb cur) g)).
      rewrite p_group_ftoks_fields, F. reflexivity.
Qed.

Theorem pretty_span_fields_names_every_field : forall s,
  p_span_fields s = concat (map render_pftok (p_groups_ftoks [] (s_groups s)))
  /\ pftok_fields (p_groups_ftoks [] (s_groups s)) = concat (s_groups s).
Proof. intros s. unfold p_span_fields. destruct (p_fold_add_group_ftoks (s_groups s) []) as [E F]. auto. Qed.

(** Which spans: the event's own scope, unless the tree has Pretty's own lookup AND the event is an
    explicit root — then the thread's current spans (finding F131). *)
Lemma pretty_scope_is_event_scope : forall fallback is_root ev cur,
  (fallback = true -> is_root = false) -> pretty_scope fallback is_root ev cur = ev.
Proof.
  intros fallback is_root ev cur H. unfold pretty_scope.
  destruct is_root; [|reflexivity]. destruct fallback; [specialize (H eq_refl); discriminate | reflexivity].
Qed.

Lemma pretty_root_fallback_refuted :
  let cur := [Span (str "req") [[(str "id", str "7")]] (str "app") false] in
  pretty_scope true true [] cur = cur
  /\ format_event_pretty (Opts false true false false false false false) (Thr [] [])
       (Em (EMeta 3 (str "app") (str "event e") None None false None) (pretty_scope true true [] cur) (FOk (str "message") (str "root event") FNil))
     = OOk (str "   INFO  root event" ++ [10] ++ str "    in req with id: 7" ++ [10; 10])
  /\ format_event_pretty (Opts false true false false false false false) (Thr [] [])
       (Em (EMeta 3 (str "app") (str "event e") None None false None) (pretty_scope false true [] cur) (FOk (str "message") (str "root event") FNil))
     = OOk (str "   INFO  root event" ++ [10; 10]).
Proof. vm_compute. auto. Qed.

Example content_example_pretty :
  let o := Opts false true true true true true true in
  let m := EMeta 2 (str "app") (str "event e") (Some (str "src/main.rs")) (Some (str "42")) false None in
  let sc := [Span (str "outer") [[(str "a", str "1")]; [(str "b", str "2")]] (str "app::db") false; Span (str "inner") [[]] (str "app") false] in
  format_event_pretty o (Thr (str "wk00") (str "ThreadId(7)")) (Em m sc (FOk (str "message") (str "hello") (FOk (str "k") (str "7") FNil)))
  = OOk (str "   WARN app: hello, k: 7" ++ [10] ++ str "    at src/main.rs:42 on wk00 ThreadId(7)" ++ [10]
         ++ str "    in app::inner" ++ [10] ++ str "    in app::db::outer with a: 1, b: 2" ++ [10; 10]).
Proof. vm_compute. reflexivity. Qed.

Lemma NoDup_snoc : forall (l : list nat) t, NoDup l -> ~ In t l -> NoDup (l ++ [t]).
Proof.
  induction l as [|x r IH]; intros t H N; simpl; [constructor; [tauto | constructor]|].
  inversion H; subst. constructor.
  - intros I. apply in_app_or in I as [I|[I|[]]]; [contradiction | subst; apply N; left; reflexivity].
  - apply IH; [assumption | intros I; apply N; right; exact I].
Qed.

(** ** Concurrent [record] calls on one span: with the write lock held across the call (the code), whatever the
    schedule and the number of threads, the stored fields are the groups of the threads that have returned,
    appended one after the other in the order the calls returned — no recorded field is lost. *)
Theorem record_atomic_keeps_every_group : forall add gs init sched,
  let s := rec_run true add gs init sched in
  r_stored s = fold_left add (map gs (r_done s)) init /\ NoDup (r_done s).
Proof.
  intros add gs init sched. unfold rec_run.
  assert (G : forall s0, (r_stored s0 = fold_left add (map gs (r_done s0)) init /\ NoDup (r_done s0)) ->
              let s := fold_left (rec_step true add gs) sched s0 in
              r_stored s = fold_left add (map gs (r_done s)) init /\ NoDup (r_done s)).
  { induction sched as [|t r IH]; intros s0 H; simpl; [exact H|].
    apply IH. unfold rec_step. destruct (existsb (Nat.eqb t) (r_done s0)) eqn:E; [exact H|].
    destruct H as [H1 H2]. simpl. split.
    - rewrite map_app, fold_left_app, <- H1. reflexivity.
    - apply NoDup_snoc; [exact H2|]. intros I.
      assert (X : existsb (Nat.eqb t) (r_done s0) = true).
      { apply existsb_exists. exists t. split; [exact I | apply Nat.eqb_refl]. }
      congruence. }
  apply G. simpl. split; [reflexivity | constructor].
Qed.

(** ... hence (DefaultFields) the span's formatted fields name every field of every returned call. *)
Corollary record_atomic_names_every_field : forall gs init sched,
  let s := rec_run true add_group gs init sched in
  r_stored s = init ++ concat (map render_ftok (groups_ftoks init (map gs (r_done s))))
  /\ ftok_fields (groups_ftoks init (map gs (r_done s))) = concat (map gs (r_done s)).
Proof.
  intros gs init sched s. destruct (record_atomic_keeps_every_group add_group gs init sched) as [E _].
  fold s in E. rewrite E. apply fold_add_group_ftoks.
Qed.

(** The read-copy-replace form loses an update: both threads copy, both store. *)
Example record_lost_update_without_lock :
  let gs := fun t => match t with O => [(str "a", str "1")] | _ => [(str "b", str "2")] end in
  r_stored (rec_run false add_group gs [] [0; 1; 0; 1]%nat) = str "b=2"
  /\ r_done (rec_run false add_group gs [] [0; 1; 0; 1]%nat) = [0; 1]%nat
  /\ r_stored (rec_run true add_group gs [] [0; 1; 0; 1]%nat) = str "a=1 b=2".
Proof. vm_compute. auto. Qed.

(** ** F132: an event inside a span whose [record] call unwound *)
Lemma guarded_unpoisoned : forall poisons fe m sc fl,
  (poisons = true -> scope_poisoned sc = false) -> guarded poisons fe (Em m sc fl) = fe (Em m sc fl).
Proof.
  intros poisons fe m sc fl H. unfold guarded. destruct poisons; [rewrite (H eq_refl)|]; reflexivity.
Qed.

(** The record of an event IS written, with the specified content — when no [record] call unwound on a span of its
    scope (or the locks do not poison). *)
Theorem event_record_is_written : forall poisons f o th m sc fl fs,
  (poisons = true -> scope_poisoned sc = false) -> ok_fields fl = Some fs ->
  records true (gev_of (guarded poisons (format_event f o th)) (Em m sc fl))
  = flat_map (records true) (gnested_of (guarded poisons (format_event f o th)) fl)
    ++ [(m, concat (map (render_tok f) (tokens_spec f o th m sc fs)))].
Proof.
  intros poisons f o th m sc fl fs H K. cbn [gev_of].
  rewrite (guarded_unpoisoned poisons (format_event f o th) m sc fl H), (content_tokens f o th m sc fl fs K).
  reflexivity.
Qed.

(** ... and is NOT when one did: [span "sp" {a = 1}], [record("b", panicking Debug)] caught by the caller, then an
    ordinary event inside the span: nothing is written for it (std locks); with locks that do not poison it is. *)
Example F132_witness :
  let sp := Span (str "sp") [[(str "a", str "1")]] (str "app") true in
  let m := EMeta 3 (str "app") (str "event e") None None false None in
  let o := Opts false true false false true false false in
  let em := Em m [sp] (FOk (str "message") (str "inside") FNil) in
  ok_fields (FOk (str "message") (str "inside") FNil) = Some [(str "message", str "inside")]
  /\ records true (gev_of (guarded true (format_event Full o (Thr [] [])) ) em) = []
  /\ records true (gev_of (guarded false (format_event Full o (Thr [] []))) em)
     = [(m, str " INFO sp{a=1}: app: inside" ++ [10])].
Proof. vm_compute. auto. Qed.

(** ** A failing timer: the record is there, with "<unknown time>" where the timestamp would be *)
Lemma time_guard_fallback : forall timer_on fe em, time_guard true timer_on fe em = fe em.
Proof. intros timer_on fe [m sc fl]. unfold time_guard. destruct (e_time m); [rewrite andb_false_r|]; reflexivity. Qed.

Lemma timer_token_when_failing : forall f o th m sc fs pre, o_timer o = true -> e_time m = Some pre ->
  exists rest, tokens_spec f o th m sc fs = TTimer (pre ++ str "<unknown time>") :: rest.
Proof.
  intros f o th m sc fs pre T E. unfold tokens_spec, head_toks, time_text. rewrite T, E.
  destruct f; simpl; eauto.
Qed.

Example timer_failure_example :
  let o := Opts true true false false true false false in
  let m := EMeta 3 (str "app") (str "event e") None None false (Some (str "12:")) in
  let em := Em m [] (FOk (str "message") (str "hello") FNil) in
  format_event Full o (Thr [] []) em = OOk (str "12:<unknown time>  INFO app: hello" ++ [10])
  /\ format_event_pretty o (Thr [] []) em = OOk (str "  12:<unknown time>  INFO app: hello" ++ [10; 10])
  /\ time_guard true true (format_event Full o (Thr [] [])) em = format_event Full o (Thr [] []) em
  /\ time_guard false true (format_event Full o (Thr [] [])) em = OErr (str "12:") (errline m)
  /\ records false (gev_of (time_guard false true (format_event Full o (Thr [] []))) em) = [].
Proof. vm_compute. auto 6. Qed.

(** ** Span events reconfigured at run time *)

Lemma rstep_point_spec : forall timing st x, point_spec (r_cfg st) x (fst (rstep false timing st x)).
Proof.
  intros timing st x. unfold point_spec. destruct x as [[em|k m scope]|id m scope|id m scope|sc]; simpl.
  - reflexivity.
  - destruct (lifecycle_on (r_cfg st) k); [eexists; reflexivity | reflexivity].
  - destruct (sc_new (r_cfg st)); [eexists; reflexivity | reflexivity].
  - unfold close_emissions. destruct (sc_close (r_cfg st)); [eexists; reflexivity | reflexivity].
  - reflexivity.
Qed.

Lemma rstep_cfg : forall gated timing st x,
  r_cfg (snd (rstep gated timing st x)) = match x with RReconf sc' => sc' | _ => r_cfg st end.
Proof.
  intros gated timing st x. destruct x; simpl; try reflexivity.
  destruct (timing && sc_close (r_cfg st))%bool; reflexivity.
Qed.

(** every history with reconfigurations, from every state: each op yields what the clause says under the configuration
    current at that moment *)
Theorem reconf_each_point_one_record : forall timing ops st,
  Forall2 (fun scx ems => point_spec (fst scx) (snd scx) ems)
          (combine (cfgs_at (r_cfg st) ops) ops) (rtrace false timing st ops).
Proof.
  intros timing ops. induction ops as [|x t IH]; intros st; simpl; [constructor|].
  pose proof (rstep_point_spec timing st x) as H1. pose proof (rstep_cfg false timing st x) as H2.
  destruct (rstep false timing st x) as [ems st'] eqn:E. simpl in *. constructor; [exact H1|].
  rewrite <- H2. apply IH.
Qed.

(** the close record of a span: exactly one whenever CLOSE is configured when it closes, WHETHER OR NOT the span carries
    [Timings]; the extension decides only the two duration fields *)
Lemma reconf_close_record : forall timing st id m scope, sc_close (r_cfg st) = true ->
  fst (rstep false timing st (RClose id m scope)) = [Em m scope (close_flds (has_timings st id))].
Proof. intros timing st id m scope H. simpl. unfold close_emissions. rewrite H. reflexivity. Qed.

(** [Timings] is decided at creation by the configuration of that moment *)
Lemma reconf_timings_at_creation : forall gated timing st id m scope,
  has_timings (snd (rstep gated timing st (RNew id m scope))) id = (timing && sc_close (r_cfg st) || has_timings st id)%bool.
Proof.
  intros gated timing st id m scope. simpl. destruct (timing && sc_close (r_cfg st))%bool; simpl; [|reflexivity].
  unfold has_timings. simpl. rewrite N.eqb_refl. reflexivity.
Qed.

(** without reconfiguration the history model is the static one *)
Definition static_rop (x : op) : bool := match x with OpSpan LNew _ _ | OpSpan LClose _ _ => false | _ => true end.
Lemma rtrace_static : forall gated timing ops st, forallb static_rop ops = true ->
  concat (rtrace gated timing st (map ROp ops)) = flat_map (expand (r_cfg st) timing) ops.
Proof.
  intros gated timing ops. induction ops as [|x t IH]; intros st H; simpl in *; [reflexivity|].
  apply andb_prop in H. destruct H as [_ H]. rewrite (IH st H). reflexivity.
Qed.

(** the witness for the gated shape (seeded C13-J): span 0 is created with no span events configured, CLOSE is switched on
    through the reload handle, the span closes: the tree's shape writes the plain [close] record, the gated one NOTHING;
    a span created after the switch gets its record (with the timing fields) under both. *)
Definition reconf_history (m : emeta) (s0 s1 : span) : list rop :=
  [RNew 0 m [s0]; RReconf (SpanCfg false false false true); RNew 1 m [s0; s1]; RClose 1 m [s0; s1]; RClose 0 m [s0]].

Lemma reconf_gated_witness : forall m s0 s1,
  rexpand false true (SpanCfg false false false false) (reconf_history m s0 s1)
    = [Em m [s0; s1] (close_flds true); Em m [s0] (close_flds false)]
  /\ rexpand true true (SpanCfg false false false false) (reconf_history m s0 s1)
    = [Em m [s0; s1] (close_flds true)].
Proof. intros. split; reflexivity. Qed.
