(** C13 — glue used by the correspondence driver (driver/props/c13.py): runs the three model parts on
    a generated case with the buffer-clearing policy of the tree under check (TVGen.Gen_fmtbuf,
    regenerated from fmt_subscriber.rs on every run) and prints each sink-level call as a small tuple;
    record bytes are printed as (length, hash) — the driver hashes the implementation's bytes the same
    way and re-evaluates a disagreeing case with [full_thread] to show the bytes.  No proofs. *)
From TV Require Export Fmt.RecordModel.
From TVGen Require Gen_fmtbuf.
Local Open Scope N_scope.

Definition current_policy : policy := Gen_fmtbuf.clear_policy.
Definition current_policy_code : N :=
  match current_policy with ClearAfterOnly => 0 | ClearBefore => 1 | ClearGuard => 2 end.

(* h*33 + x + 1 mod 2^60 *)
Definition hash_step (h x : N) : N := N.land (N.shiftl h 5 + h + x + 1) 1152921504606846975.
Definition hash (b : bytes) : N := fold_left hash_step b 5381.

Definition enc_meta (m : meta) : N := hash (m_target m ++ 0 :: m_name m).

(** (sink, tag, x, y): make_writer() = (i,0,0,0); make_writer_for(m) = (i,1,2*level+span,hash(target,name));
    write(b) = (i,2,|b|,hash b). *)
Definition enc_call (p : N * sink_call) : N * N * N * N :=
  match snd p with
  | SMake0 => (fst p, 0, 0, 0)
  | SMake m => (fst p, 1, 2 * m_level m + (if m_span m then 1 else 0), enc_meta m)
  | SWrite b => (fst p, 2, N.of_nat (length b), hash b)
  end.

(** Does [impl_tee!] in the tree under check run both writers of a [Tee] (writer.rs, read on every run)? *)
Definition current_tee_both : bool := Gen_fmtbuf.tee_runs_both.

(** How a recording writer answered: 0 accepted everything offered, 3 accepted a part, 4 Interrupted,
    5 another error, 6 panicked, 7 Ok(0). *)
Definition rcode (offered : bytes) (r : resp) : N :=
  match r with
  | RsAccept n => if n =? 0 then 7 else if blen offered <=? n then 0 else 3
  | RsInterrupted => 4
  | RsFail => 5
  | RsPanic => 6
  end.

(** fault-aware log entries: make as above; write = (i, 2 + rcode, |offered|, hash offered); flush = (i, 3, rcode, 0) *)
Definition enc_fentry (p : N * fentry) : N * N * N * N :=
  match snd p with
  | FMake0 => (fst p, 0, 0, 0)
  | FMake m => (fst p, 1, 2 * m_level m + (if m_span m then 1 else 0), enc_meta m)
  | FCall (CWrite off r) => (fst p, 2 + rcode off r, N.of_nat (length off), hash off)
  | FCall (CFlush r) => (fst p, 3, match r with RsAccept _ => 0 | _ => rcode [] r end, 0)
  end.

(** do the tree's span-extension locks poison when a [record] call unwinds? (read from the source; [pl = true]: the
    harness build with tracing-subscriber's parking_lot feature, whose locks do not) *)
Definition poisons (pl : bool) : bool := Gen_fmtbuf.record_unwind_poisons && negb pl.

(** does format_timestamp fall back to "<unknown time>" when the timer fails? (format/mod.rs, read on every run) *)
Definition current_timer_fallback : bool := Gen_fmtbuf.timer_fallback.

Definition plans_of (l : list (list script)) : nat -> list script := fun k => nth k l [].

(** Full / Compact: a thread's ops under fault plans (one plan per emission, in completion order). *)
Definition eval_thread_f (lie : bool) (f : fmt) (o : opts) (sc : spancfg) (w : wexp) (th : thr) (ops : list op)
  (plans : list (list script)) :=
  map enc_fentry (sink_log_f current_tee_both (Cfg current_policy lie) meta_of w (plans_of plans)
                    (thread_events_g (time_guard current_timer_fallback (o_timer o) (guarded (poisons false) (format_event f o th))) sc (o_timer o) ops)).

(** the parking_lot build (poison cases only) *)
Definition eval_thread_pl (lie : bool) (f : fmt) (o : opts) (sc : spancfg) (w : wexp) (th : thr) (ops : list op) :=
  map enc_fentry (sink_log_f current_tee_both (Cfg current_policy lie) meta_of w (plans_of [])
                    (thread_events_g (time_guard current_timer_fallback (o_timer o) (guarded (poisons true) (format_event f o th))) sc (o_timer o) ops)).
Definition eval_pretty_pl (lie : bool) (o : opts) (sc : spancfg) (w : wexp) (th : thr) (ops : list op) :=
  map enc_fentry (sink_log_f current_tee_both (Cfg current_policy lie) meta_of w (plans_of [])
                    (thread_events_g (time_guard current_timer_fallback (o_timer o) (guarded (poisons true) (format_event_pretty o th))) sc (o_timer o) ops)).

Definition full_thread_f (lie : bool) (f : fmt) (o : opts) (sc : spancfg) (w : wexp) (th : thr) (ops : list op)
  (plans : list (list script)) :=
  sink_log_f current_tee_both (Cfg current_policy lie) meta_of w (plans_of plans) (thread_events f o sc th ops).

(** Pretty: byte level too; [current_pretty_fallback] says which spans it walks for an explicit root. *)
Definition current_pretty_fallback : bool := Gen_fmtbuf.pretty_root_falls_back.
Definition pscope (is_root : bool) (event_scope current_scope : list span) : list span :=
  pretty_scope current_pretty_fallback is_root event_scope current_scope.

Definition eval_pretty_f (lie : bool) (o : opts) (sc : spancfg) (w : wexp) (th : thr) (ops : list op)
  (plans : list (list script)) :=
  map enc_fentry (sink_log_f current_tee_both (Cfg current_policy lie) meta_of w (plans_of plans)
                    (thread_events_g (time_guard current_timer_fallback (o_timer o) (guarded (poisons false) (format_event_pretty o th))) sc (o_timer o) ops)).

Definition full_pretty_f (lie : bool) (o : opts) (sc : spancfg) (w : wexp) (th : thr) (ops : list op)
  (plans : list (list script)) :=
  sink_log_f current_tee_both (Cfg current_policy lie) meta_of w (plans_of plans) (thread_events_pretty o sc th ops).

Definition eval_opaque_f (lie : bool) (w : wexp) (evs : list (event N meta)) (plans : list (list script)) :=
  map enc_fentry (sink_log_f current_tee_both (Cfg current_policy lie) (fun m => m) w (plans_of plans) evs).

Definition eval_direct_f (w : wexp) (mt : wmethod) (text : bytes) (plan : list script) :=
  map enc_fentry (dist_direct_f current_tee_both w mt text plan).

Definition eval_thread (lie : bool) (f : fmt) (o : opts) (sc : spancfg) (w : wexp) (th : thr) (ops : list op) :=
  map enc_call (thread_sink_log (Cfg current_policy lie) f o sc w th ops).

Definition full_thread (lie : bool) (f : fmt) (o : opts) (sc : spancfg) (w : wexp) (th : thr) (ops : list op) :=
  thread_sink_log (Cfg current_policy lie) f o sc w th ops.

(** Pretty / JSON: the formatter's output is opaque; an event is given directly as a buffer-model
    event over chunk identifiers (2k+1 = "the whole record of event k", 2k = "what event k had written
    when it was aborted"). *)
Definition eval_opaque (lie : bool) (w : wexp) (evs : list (event N meta)) :=
  map enc_call (distribute (fun m => m) w (snd (run_thread no_unwind (Cfg current_policy lie) [] evs))).

Definition eval_direct (w : wexp) (text : bytes) := map enc_call (dist_direct w text).

Definition eval_route (w : wexp) (ms : list meta) := map (fun m => (route w m, denote w m, asked w m)) ms.

(** ---- histories with run-time reconfiguration of the span events (a fmt layer behind reload::Subscriber): the branch
    structure of on_close is read from the source on every run ([close_timing_gated]); the model FOLLOWS it. *)
Definition current_close_gated : bool := Gen_fmtbuf.close_timing_gated.

Definition eval_thread_r (lie : bool) (f : fmt) (o : opts) (sc0 : spancfg) (w : wexp) (th : thr) (ops : list rop) :=
  map enc_fentry (sink_log_f current_tee_both (Cfg current_policy lie) meta_of w (plans_of [])
                    (thread_events_r (time_guard current_timer_fallback (o_timer o) (guarded (poisons false) (format_event f o th)))
                                     current_close_gated sc0 (o_timer o) ops)).
Definition eval_pretty_r (lie : bool) (o : opts) (sc0 : spancfg) (w : wexp) (th : thr) (ops : list rop) :=
  map enc_fentry (sink_log_f current_tee_both (Cfg current_policy lie) meta_of w (plans_of [])
                    (thread_events_r (time_guard current_timer_fallback (o_timer o) (guarded (poisons false) (format_event_pretty o th)))
                                     current_close_gated sc0 (o_timer o) ops)).
