(** C13 (b) — the writer algebra of tracing-subscriber/src/fmt/writer.rs.  Executable, no proofs.

    Two independent descriptions of one combinator expression:

    - the *operational* one mirrors the Rust code: [make_for w m] is [w.make_writer_for(m)], a value
      of the [EitherWriter] / [Tee] / [Box] types together with the recording sinks whose factory was
      asked (in call order); [targets] is [io::Write::write_all] on such a value; [make0] is the
      metadata-less [w.make_writer()];
    - the *denotational* one is what the documentation of [MakeWriterExt] says: level bounds are sets
      of levels, [with_filter] is a predicate on metadata, [and] writes to both, [or_else] uses the
      second factory when the first "returns [OptionalWriter::none]".

    [route w m = denote w m] (any depth) is proved in WriterProofs.v. *)
From Coq Require Export List NArith Bool.
Export ListNotations.
Local Open Scope N_scope.

Definition bytes := list N.

(** Verbosity rank, the specification order of C19: ERROR=1 < WARN=2 < INFO=3 < DEBUG=4 < TRACE=5.
    Rust's [Level: Ord] is this order ([meta.level() <= &self.level] = "at most as verbose as"). *)
Record meta := Meta { m_level : N; m_target : bytes; m_name : bytes; m_span : bool }.

Fixpoint bytes_eqb (a b : bytes) : bool :=
  match a, b with
  | [], [] => true
  | x :: a', y :: b' => (x =? y) && bytes_eqb a' b'
  | _, _ => false
  end.

Fixpoint prefixb (p s : bytes) : bool :=
  match p, s with
  | [], _ => true
  | x :: p', y :: s' => (x =? y) && prefixb p' s'
  | _ :: _, [] => false
  end.

(** The predicates handed to [with_filter] by the harness: closures over the metadata only. *)
Inductive pred :=
| PTrue | PFalse
| PTargetEq (t : bytes) | PTargetPrefix (t : bytes) | PNameEq (t : bytes)
| PLevelIs (l : N) | PIsSpan | PIsEvent
| PNot (p : pred).

Fixpoint eval_pred (p : pred) (m : meta) : bool :=
  match p with
  | PTrue => true
  | PFalse => false
  | PTargetEq t => bytes_eqb (m_target m) t
  | PTargetPrefix t => prefixb t (m_target m)
  | PNameEq t => bytes_eqb (m_name m) t
  | PLevelIs l => m_level m =? l
  | PIsSpan => m_span m
  | PIsEvent => negb (m_span m)
  | PNot q => negb (eval_pred q m)
  end.

(** Writer expressions.  [WSink i] is the i-th recording [MakeWriter]; [WBox] is [BoxMakeWriter]. *)
Inductive wexp :=
| WSink (i : N)
| WBox (w : wexp)
| WMax (l : N) (w : wexp)          (* w.with_max_level(l) *)
| WMin (l : N) (w : wexp)          (* w.with_min_level(l) *)
| WFilter (p : pred) (w : wexp)    (* w.with_filter(p) *)
| WTee (a b : wexp)                (* a.and(b) *)
| WOrElse (a b : wexp).            (* a.or_else(b); Rust demands a : MakeWriter<Writer = OptionalWriter<_>> *)

(** The Rust type discipline: the left operand of [or_else] is one of the three gates. *)
Definition is_gate (w : wexp) : bool :=
  match w with WMax _ _ | WMin _ _ | WFilter _ _ => true | _ => false end.
Fixpoint well_typed (w : wexp) : bool :=
  match w with
  | WSink _ => true
  | WBox w | WMax _ w | WMin _ w | WFilter _ w => well_typed w
  | WTee a b => well_typed a && well_typed b
  | WOrElse a b => is_gate a && well_typed a && well_typed b
  end.

(** ** Operational semantics (the code) *)

(** Runtime writer values. [RA]/[RB] are [EitherWriter::A]/[::B]; [OptionalWriter::some x = RA x],
    [OptionalWriter::none() = RB RIoSink] ([std::io::sink()]). *)
Inductive wr :=
| RSink (i : N)
| RIoSink
| RA (x : wr)
| RB (x : wr)
| RTee (a b : wr)
| RBox (x : wr).

(** [w.make_writer_for(m)]: the writer value, and the recording sinks whose [make_writer_for(m)]
    ran, in call order. *)
Fixpoint make_for (w : wexp) (m : meta) : wr * list N :=
  match w with
  | WSink i => (RSink i, [i])
  | WBox w' => let (x, c) := make_for w' m in (RBox x, c)
  | WMax l w' =>
      (* if meta.level() <= &self.level { return OptionalWriter::some(self.make.make_writer_for(meta)); } OptionalWriter::none() *)
      if m_level m <=? l then let (x, c) := make_for w' m in (RA x, c) else (RB RIoSink, [])
  | WMin l w' =>
      (* if meta.level() >= &self.level { .. some .. } none *)
      if l <=? m_level m then let (x, c) := make_for w' m in (RA x, c) else (RB RIoSink, [])
  | WFilter p w' =>
      if eval_pred p m then let (x, c) := make_for w' m in (RA x, c) else (RB RIoSink, [])
  | WTee a b =>
      (* Tee::new(self.a.make_writer_for(meta), self.b.make_writer_for(meta)) *)
      let (x, c) := make_for a m in let (y, d) := make_for b m in (RTee x y, c ++ d)
  | WOrElse a b =>
      (* match self.inner.make_writer_for(meta) { A(writer) => A(writer), B(_) => B(self.or_else.make_writer_for(meta)) } *)
      let (x, c) := make_for a m in
      match x with
      | RA y => (RA y, c)
      | RB _ => let (z, d) := make_for b m in (RB z, c ++ d)
      | other => (other, c)              (* not typeable in Rust; kept total *)
      end
  end.

(** [w.make_writer()]: no metadata.  "If we don't know the level, assume it's disabled"; [WithFilter]
    does not consult its predicate. *)
Fixpoint make0 (w : wexp) : wr * list N :=
  match w with
  | WSink i => (RSink i, [i])
  | WBox w' => let (x, c) := make0 w' in (RBox x, c)
  | WMax _ _ => (RB RIoSink, [])
  | WMin _ _ => (RB RIoSink, [])
  | WFilter _ w' => let (x, c) := make0 w' in (RA x, c)
  | WTee a b => let (x, c) := make0 a in let (y, d) := make0 b in (RTee x y, c ++ d)
  | WOrElse a b =>
      let (x, c) := make0 a in
      match x with
      | RA y => (RA y, c)
      | RB _ => let (z, d) := make0 b in (RB z, c ++ d)
      | other => (other, c)
      end
  end.

(** [io::Write::write_all(&mut x, buf)]: the recording sinks that receive [buf], in order.
    [EitherWriter] forwards to its variant, [Tee] to [a] then [b], [io::Sink] swallows. *)
Fixpoint targets (x : wr) : list N :=
  match x with
  | RSink i => [i]
  | RIoSink => []
  | RA y | RB y | RBox y => targets y
  | RTee a b => targets a ++ targets b
  end.

Definition route (w : wexp) (m : meta) : list N := targets (fst (make_for w m)).
Definition asked (w : wexp) (m : meta) : list N := snd (make_for w m).
Definition route0 (w : wexp) : list N := targets (fst (make0 w)).
Definition asked0 (w : wexp) : list N := snd (make0 w).

(** ** Denotation (the documentation) *)

(** "returns [OptionalWriter::none]": the outermost gate rejects.  An [or_else] is itself disabled
    only when its left side is (Rust lets it stand on the left of another [or_else] only when its
    fallback's writer type is [io::Sink]). *)
Fixpoint declines (w : wexp) (m : meta) : bool :=
  match w with
  | WMax l _ => negb (m_level m <=? l)      (* "more verbose than the maximum level" *)
  | WMin l _ => negb (l <=? m_level m)      (* "less verbose than the minimum level" *)
  | WFilter p _ => negb (eval_pred p m)
  | WOrElse a _ => declines a m
  | _ => false
  end.

Fixpoint denote (w : wexp) (m : meta) : list N :=
  match w with
  | WSink i => [i]
  | WBox w' => denote w' m
  | WMax l w' => if m_level m <=? l then denote w' m else []
  | WMin l w' => if l <=? m_level m then denote w' m else []
  | WFilter p w' => if eval_pred p m then denote w' m else []
  | WTee a b => denote a m ++ denote b m
  | WOrElse a b => if declines a m then denote b m else denote a m
  end.

(** Without metadata: level bounds select nothing, a predicate has nothing to be applied to. *)
Fixpoint declines0 (w : wexp) : bool :=
  match w with
  | WMax _ _ | WMin _ _ => true
  | WOrElse a _ => declines0 a
  | _ => false
  end.

Fixpoint denote0 (w : wexp) : list N :=
  match w with
  | WSink i => [i]
  | WBox w' => denote0 w'
  | WMax _ _ | WMin _ _ => []
  | WFilter _ w' => denote0 w'
  | WTee a b => denote0 a ++ denote0 b
  | WOrElse a b => if declines0 a then denote0 b else denote0 a
  end.

(** A left operand for which "declines" and "selects no sink" coincide: one gate directly over a
    writer that always selects something.  For these, [or_else] is "left if it selects anything,
    else right" (WriterProofs.orelse_selects_anything). *)
Fixpoint ungated (w : wexp) : bool :=
  match w with
  | WSink _ => true
  | WBox w' => ungated w'
  | WTee a b => ungated a || ungated b
  | WOrElse a b => false
  | _ => false
  end.
Definition gate_exact (w : wexp) : bool :=
  match w with WMax _ w' | WMin _ w' | WFilter _ w' => ungated w' | _ => false end.

(** ** Distribution of root-level calls to the sinks *)

Inductive sink_call :=
| SMake (m : meta)        (* make_writer_for(m) *)
| SMake0                  (* make_writer() *)
| SWrite (b : bytes).     (* one write call carrying b *)

Definition dist_make (w : wexp) (m : meta) : list (N * sink_call) := map (fun i => (i, SMake m)) (asked w m).
Definition dist_write (w : wexp) (m : meta) (b : bytes) : list (N * sink_call) := map (fun i => (i, SWrite b)) (route w m).
Definition dist_direct (w : wexp) (b : bytes) : list (N * sink_call) :=
  map (fun i => (i, SMake0)) (asked0 w) ++ map (fun i => (i, SWrite b)) (route0 w).

(** ** Sink faults: what the writers do when a sink does not simply accept everything

    A recording sink's writer instance (one per [make_writer_for]) answers its successive [write] /
    [flush] calls from a script; an exhausted script means "accepts everything".  The sinks implement
    only [write] and [flush], so [write_all] on them is std's default loop:
    {v
      while !buf.is_empty() {
          match self.write(buf) {
              Ok(0) => return Err(WriteZero),  Ok(n) => buf = &buf[n..],
              Err(ref e) if e.is_interrupted() => {}   Err(e) => return Err(e),
          }
      }
    v}
    so a sink that accepts fewer bytes than offered is re-offered the rest: "the whole record in a
    single write" is ONE [write_all] whose first [write] carries the whole record; every later [write] of
    it carries the suffix not yet accepted ([sink_write_all_offers], [sink_write_all_delivers] in
    WriterProofs.v). *)
Inductive resp :=
| RsAccept (n : N)     (* Ok(min n |buf|); n = 0 is Ok(0) *)
| RsInterrupted        (* Err(ErrorKind::Interrupted) *)
| RsFail               (* Err(any other kind) *)
| RsPanic.             (* does not return: the call unwinds *)
Definition script := list resp.

Inductive wres := WOk | WErr | WUnwind.

(** One call on a recording writer instance, as the sink's log shows it. *)
Inductive scall :=
| CWrite (offered : bytes) (r : resp)
| CFlush (r : resp).

Definition blen (b : bytes) : N := N.of_nat (length b).

Fixpoint sink_write_all (s : script) (buf : bytes) {struct s} : list scall * wres :=
  match buf with
  | [] => ([], WOk)
  | _ :: _ =>
      match s with
      | [] => ([CWrite buf (RsAccept (blen buf))], WOk)
      | RsAccept n :: s' =>
          if n =? 0 then ([CWrite buf (RsAccept 0)], WErr)                 (* WriteZero *)
          else if blen buf <=? n then ([CWrite buf (RsAccept n)], WOk)
          else let (c, r) := sink_write_all s' (skipn (N.to_nat n) buf) in (CWrite buf (RsAccept n) :: c, r)
      | RsInterrupted :: s' => let (c, r) := sink_write_all s' buf in (CWrite buf RsInterrupted :: c, r)
      | RsFail :: _ => ([CWrite buf RsFail], WErr)
      | RsPanic :: _ => ([CWrite buf RsPanic], WUnwind)
      end
  end.

Definition res_of_resp (r : resp) : wres :=
  match r with RsAccept _ => WOk | RsInterrupted | RsFail => WErr | RsPanic => WUnwind end.

(** a single [write] / [flush] (what [Tee::write], [Tee::write_vectored], [Tee::flush] forward) *)
Definition sink_write_once (s : script) (buf : bytes) : list scall * wres :=
  let r := match s with [] => RsAccept (blen buf) | r :: _ => r end in ([CWrite buf r], res_of_resp r).
Definition sink_flush (s : script) : list scall * wres :=
  let r := match s with [] => RsAccept 0 | r :: _ => r end in ([CFlush r], res_of_resp r).

Inductive wmethod := MWriteAll | MWrite | MFlush.
Definition leaf_of (mt : wmethod) (buf : bytes) : script -> list scall * wres :=
  match mt with
  | MWriteAll => fun s => sink_write_all s buf
  | MWrite => fun s => sink_write_once s buf
  | MFlush => sink_flush
  end.

(** One [io::Write] method forwarded through a writer value.  [leaf] is what the method does on a
    recording writer given its script; [plan k] is the script of the k-th recording writer met, left to
    right.  [Box], [EitherWriter] and [MutexGuardWriter] forward to the one writer inside; [io::Sink]
    accepts; and [Tee] (every method goes through [impl_tee!]):
    {v
      let res_a = self.a.f(args);  let res_b = self.b.f(args);  (res_a?, res_b?)
    v}
    runs BOTH sides and only then propagates an error ([both = true]).  [both = false] is the plausible
    "simplification" [(self.a.f(args)?, self.b.f(args)?)], which returns before [b] is called: kept as a
    variant so that which of the two the tree under check has is read from the source
    (TVGen.Gen_fmtbuf.tee_runs_both) and the difference is a theorem (WriterProofs.v).
    A panic in [a] unwinds through both forms: [b] is not reached. *)
Fixpoint tee_apply (both : bool) (leaf : script -> list scall * wres) (x : wr) (plan : nat -> script) (k : nat)
  : list (N * list scall) * wres * nat :=
  match x with
  | RSink i => let (c, r) := leaf (plan k) in ([(i, c)], r, S k)
  | RIoSink => ([], WOk, k)
  | RA y | RB y | RBox y => tee_apply both leaf y plan k
  | RTee a b =>
      let '(ca, ra, k1) := tee_apply both leaf a plan k in
      match ra with
      | WUnwind => (ca, WUnwind, k1)
      | WErr =>
          if both then
            let '(cb, rb, k2) := tee_apply both leaf b plan k1 in
            (ca ++ cb, match rb with WUnwind => WUnwind | _ => WErr end, k2)
          else (ca, WErr, k1)
      | WOk => let '(cb, rb, k2) := tee_apply both leaf b plan k1 in (ca ++ cb, rb, k2)
      end
  end.

(** What the k-th, (k+1)-th, ... recording writers of the target list [ts] see when each is given the
    method with its own script — stopping after one that unwinds — and the combined result. *)
Fixpoint spec_calls (leaf : script -> list scall * wres) (plan : nat -> script) (k : nat) (ts : list N) : list (N * list scall) :=
  match ts with
  | [] => []
  | i :: r => (i, fst (leaf (plan k))) ::
              match snd (leaf (plan k)) with WUnwind => [] | _ => spec_calls leaf plan (S k) r end
  end.

Fixpoint spec_res (leaf : script -> list scall * wres) (plan : nat -> script) (k : nat) (ts : list N) : wres :=
  match ts with
  | [] => WOk
  | _ :: r =>
      match snd (leaf (plan k)) with
      | WUnwind => WUnwind
      | WErr => match spec_res leaf plan (S k) r with WUnwind => WUnwind | _ => WErr end
      | WOk => spec_res leaf plan (S k) r
      end
  end.

Definition planf (l : list script) : nat -> script := fun j => nth j l [].

(** The bytes a sink accepted in one call. *)
Definition accepted (c : scall) : bytes :=
  match c with CWrite off (RsAccept n) => firstn (N.to_nat n) off | _ => [] end.
Definition offered_of (c : scall) : bytes := match c with CWrite off _ => off | CFlush _ => [] end.

(** Sink-level log entries of the fault-aware pipeline. *)
Inductive fentry :=
| FMake (m : meta)
| FMake0
| FCall (c : scall).

Definition flat_calls (cs : list (N * list scall)) : list (N * fentry) :=
  flat_map (fun ic => map (fun c => (fst ic, FCall c)) (snd ic)) cs.

(** [w.make_writer()] followed by one method call on the returned value (the harness's [direct] op). *)
Definition dist_direct_f (both : bool) (w : wexp) (mt : wmethod) (b : bytes) (plan : list script) : list (N * fentry) :=
  map (fun i => (i, FMake0)) (asked0 w)
  ++ flat_calls (fst (fst (tee_apply both (leaf_of mt b) (fst (make0 w)) (planf plan) 0%nat))).
