(** C13 (b) — the writer algebra of tracing-subscriber/src/fmt/writer.rs.  Executable, no proofs.

    Two independent descriptions of one combinator expression:

    - the *operational* one mirrors the Rust code: [make_for w m] is [w.make_writer_for(m)], a value
      of the [EitherWriter] / [Tee] / [Box] types together with the recording sinks whose factory was
      asked (in call order); [targets] is [io::Write::write_all] on such a value; [make0] is the
      metadata-less [w.make_writer()];
    - the *denotational* one is what the documentation of [MakeWriterExt] says: level bounds are sets
      of levels, [with_filter] is a predicate on metadata, [and] writes to both, [or_else] uses the
      second factory when the first "returns [OptionalWriter::none]".

    [route w m = denote w m] (any depth) is proved in WriterProofs.v. *)
From Coq Require Export List NArith Bool.
Export ListNotations.
Local Open Scope N_scope.

Definition bytes := list N.

(** Verbosity rank, the specification order of C19: ERROR=1 < WARN=2 < INFO=3 < DEBUG=4 < TRACE=5.
    Rust's [Level: Ord] is this order ([meta.level() <= &self.level] = "at most as verbose as"). *)
Record meta := Meta { m_level : N; m_target : bytes; m_name : bytes; m_span : bool }.

Fixpoint bytes_eqb (a b : bytes) : bool :=
  match a, b with
  | [], [] => true
  | x :: a', y :: b' => (x =? y) && bytes_eqb a' b'
  | _, _ => false
  end.

Fixpoint prefixb (p s : bytes) : bool :=
  match p, s with
  | [], _ => true
  | x :: p', y :: s' => (x =? y) && prefixb p' s'
  | _ :: _, [] => false
  end.

(** The predicates handed to [with_filter] by the harness: closures over the metadata only. *)
Inductive pred :=
| PTrue | PFalse
| PTargetEq (t : bytes) | PTargetPrefix (t : bytes) | PNameEq (t : bytes)
| PLevelIs (l : N) | PIsSpan | PIsEvent
| PNot (p : pred).

Fixpoint eval_pred (p : pred) (m : meta) : bool :=
  match p with
  | PTrue => true
  | PFalse => false
  | PTargetEq t => bytes_eqb (m_target m) t
  | PTargetPrefix t => prefixb t (m_target m)
  | PNameEq t => bytes_eqb (m_name m) t
  | PLevelIs l => m_level m =? l
  | PIsSpan => m_span m
  | PIsEvent => negb (m_span m)
  | PNot q => negb (eval_pred q m)
  end.

(** Writer expressions.  [WSink i] is the i-th recording [MakeWriter]; [WBox] is [BoxMakeWriter]. *)
Inductive wexp :=
| WSink (i : N)
| WBox (w : wexp)
| WMax (l : N) (w : wexp)          (* w.with_max_level(l) *)
| WMin (l : N) (w : wexp)          (* w.with_min_level(l) *)
| WFilter (p : pred) (w : wexp)    (* w.with_filter(p) *)
| WTee (a b : wexp)                (* a.and(b) *)
| WOrElse (a b : wexp).            (* a.or_else(b); Rust demands a : MakeWriter<Writer = OptionalWriter<_>> *)

(** The Rust type discipline: the left operand of [or_else] is one of the three gates. *)
Definition is_gate (w : wexp) : bool :=
  match w with WMax _ _ | WMin _ _ | WFilter _ _ => true | _ => false end.
Fixpoint well_typed (w : wexp) : bool :=
  match w with
  | WSink _ => true
  | WBox w | WMax _ w | WMin _ w | WFilter _ w => well_typed w
  | WTee a b => well_typed a && well_typed b
  | WOrElse a b => is_gate a && well_typed a && well_typed b
  end.

(** ** Operational semantics (the code) *)

(** Runtime writer values. [RA]/[RB] are [EitherWriter::A]/[::B]; [OptionalWriter::some x = RA x],
    [OptionalWriter::none() = RB RIoSink] ([std::io::sink()]). *)
Inductive wr :=
| RSink (i : N)
| RIoSink
| RA (x : wr)
| RB (x : wr)
| RTee (a b : wr)
| RBox (x : wr).

(** [w.make_writer_for(m)]: the writer value, and the recording sinks whose [make_writer_for(m)]
    ran, in call order. *)
Fixpoint make_for (w : wexp) (m : meta) : wr * list N :=
  match w with
  | WSink i => (RSink i, [i])
  | WBox w' => let (x, c) := make_for w' m in (RBox x, c)
  | WMax l w' =>
      (* if meta.level() <= &self.level { return OptionalWriter::some(self.make.make_writer_for(meta)); } OptionalWriter::none() *)
      if m_level m <=? l then let (x, c) := make_for w' m in (RA x, c) else (RB RIoSink, [])
  | WMin l w' =>
      (* if meta.level() >= &self.level { .. some .. } none *)
      if l <=? m_level m then let (x, c) := make_for w' m in (RA x, c) else (RB RIoSink, [])
  | WFilter p w' =>
      if eval_pred p m then let (x, c) := make_for w' m in (RA x, c) else (RB RIoSink, [])
  | WTee a b =>
      (* Tee::new(self.a.make_writer_for(meta), self.b.make_writer_for(meta)) *)
      let (x, c) := make_for a m in let (y, d) := make_for b m in (RTee x y, c ++ d)
  | WOrElse a b =>
      (* match self.inner.make_writer_for(meta) { A(writer) => A(writer), B(_) => B(self.or_else.make_writer_for(meta)) } *)
      let (x, c) := make_for a m in
      match x with
      | RA y => (RA y, c)
      | RB _ => let (z, d) := make_for b m in (RB z, c ++ d)
      | other => (other, c)              (* not typeable in Rust; kept total *)
      end
  end.

(** [w.make_writer()]: no metadata.  "If we don't know the level, assume it's disabled"; [WithFilter]
    does not consult its predicate. *)
Fixpoint make0 (w : wexp) : wr * list N :=
  match w with
  | WSink i => (RSink i, [i])
  | WBox w' => let (x, c) := make0 w' in (RBox x, c)
  | WMax _ _ => (RB RIoSink, [])
  | WMin _ _ => (RB RIoSink, [])
  | WFilter _ w' => let (x, c) := make0 w' in (RA x, c)
  | WTee a b => let (x, c) := make0 a in let (y, d) := make0 b in (RTee x y, c ++ d)
  | WOrElse a b =>
      let (x, c) := make0 a in
      match x with
      | RA y => (RA y, c)
      | RB _ => let (z, d) := make0 b in (RB z, c ++ d)
      | other => (other, c)
      end
  end.

(** [io::Write::write_all(&mut x, buf)]: the recording sinks that receive [buf], in order.
    [EitherWriter] forwards to its variant, [Tee] to [a] then [b], [io::Sink] swallows. *)
Fixpoint targets (x : wr) : list N :=
  match x with
  | RSink i => [i]
  | RIoSink => []
  | RA y | RB y | RBox y => targets y
  | RTee a b => targets a ++ targets b
  end.

Definition route (w : wexp) (m : meta) : list N := targets (fst (make_for w m)).
Definition asked (w : wexp) (m : meta) : list N := snd (make_for w m).
Definition route0 (w : wexp) : list N := targets (fst (make0 w)).
Definition asked0 (w : wexp) : list N := snd (make0 w).

(** ** Denotation (the documentation) *)

(** "returns [OptionalWriter::none]": the outermost gate rejects.  An [or_else] is itself disabled
    only when its left side is (Rust lets it stand on the left of another [or_else] only when its
    fallback's writer type is [io::Sink]). *)
Fixpoint declines (w : wexp) (m : meta) : bool :=
  match w with
  | WMax l _ => negb (m_level m <=? l)      (* "more verbose than the maximum level" *)
  | WMin l _ => negb (l <=? m_level m)      (* "less verbose than the minimum level" *)
  | WFilter p _ => negb (eval_pred p m)
  | WOrElse a _ => declines a m
  | _ => false
  end.

Fixpoint denote (w : wexp) (m : meta) : list N :=
  match w with
  | WSink i => [i]
  | WBox w' => denote w' m
  | WMax l w' => if m_level m <=? l then denote w' m else []
  | WMin l w' => if l <=? m_level m then denote w' m else []
  | WFilter p w' => if eval_pred p m then denote w' m else []
  | WTee a b => denote a m ++ denote b m
  | WOrElse a b => if declines a m then denote b m else denote a m
  end.

(** Without metadata: level bounds select nothing, a predicate has nothing to be applied to. *)
Fixpoint declines0 (w : wexp) : bool :=
  match w with
  | WMax _ _ | WMin _ _ => true
  | WOrElse a _ => declines0 a
  | _ => false
  end.

Fixpoint denote0 (w : wexp) : list N :=
  match w with
  | WSink i => [i]
  | WBox w' => denote0 w'
  | WMax _ _ | WMin _ _ => []
  | WFilter _ w' => denote0 w'
  | WTee a b => denote0 a ++ denote0 b
  | WOrElse a b => if declines0 a then denote0 b else denote0 a
  end.

(** A left operand for which "declines" and "selects no sink" coincide: one gate directly over a
    writer that always selects something.  For these, [or_else] is "left if it selects anything,
    else right" (WriterProofs.orelse_selects_anything). *)
Fixpoint ungated (w : wexp) : bool :=
  match w with
  | WSink _ => true
  | WBox w' => ungated w'
  | WTee a b => ungated a || ungated b
  | WOrElse a b => false
  | _ => false
  end.
Definition gate_exact (w : wexp) : bool :=
  match w with WMax _ w' | WMin _ w' | WFilter _ w' => ungated w' | _ => false end.

(** ** Distribution of root-level calls to the sinks *)

Inductive sink_call :=
| SMake (m : meta)        (* make_writer_for(m) *)
| SMake0                  (* make_writer() *)
| SWrite (b : bytes).     (* one write call carrying b *)

Definition dist_make (w : wexp) (m : meta) : list (N * sink_call) := map (fun i => (i, SMake m)) (asked w m).
Definition dist_write (w : wexp) (m : meta) (b : bytes) : list (N * sink_call) := map (fun i => (i, SWrite b)) (route w m).
Definition dist_direct (w : wexp) (b : bytes) : list (N * sink_call) :=
  map (fun i => (i, SMake0)) (asked0 w) ++ map (fun i => (i, SWrite b)) (route0 w).
