(** C13 (a) — the buffer / write protocol of [fmt_subscriber.rs::on_event].  Executable, no proofs.

    {v
      BUF.with(|buf| {
          let borrow = buf.try_borrow_mut();
          let mut buf = match borrow { Ok(buf) => &mut *a, _ => { b = String::new(); &mut b } };   (1)
          if self.fmt_event.format_event(&ctx, Writer::new(&mut buf), event).is_ok() {            (2)
              let mut writer = self.make_writer.make_writer_for(event.metadata());                (3)
              let res = io::Write::write_all(&mut writer, buf.as_bytes());                        (4)
          } else if self.log_internal_errors {
              let err_msg = format!("Unable to format the following event. ...\n");
              let mut writer = self.make_writer.make_writer_for(event.metadata());
              let res = io::Write::write_all(&mut writer, err_msg.as_bytes());
          }
          buf.clear();                                                                            (5)
      });
    v}

    (1) the thread-local [String] is used unless it is already borrowed: an event emitted from inside a
        [Debug]/[Display] impl while an outer event is being formatted (possible whenever the dispatcher
        is reached without the scoped-default re-entrancy guard: the global-default fast path, or a
        direct [Dispatch::event]) formats into a fresh [String];
    (2) the formatter APPENDS to the buffer: it may finish ([OOk]), return [Err] after writing a part
        ([OErr]) or unwind after writing a part ([OPanic]: a panicking [Debug] impl);
    (5) is reached on the two non-unwinding paths only.  What an unwinding leaves behind is the
        [policy]:
          [ClearAfterOnly]  the code above (the tree as it is while finding F9 is open),
          [ClearBefore]     repair: [buf.clear()] just before (2),
          [ClearGuard]      repair: (5) moved into a drop guard, so it also runs while unwinding.
        Which one the tree under check has is read from the source on every run
        (translators/fmtbuf.py -> TVGen.Gen_fmtbuf.clear_policy).

    (4) [res] is IGNORED by the code (with [log_internal_errors] it is reported on stderr, never on the
        writer): a sink that returns an [io::Error] changes nothing in what follows.  The only way step (4)
        can influence the buffer is by not returning at all: a sink that PANICS inside [write] unwinds out
        of the closure just as a panicking [Debug] impl does in (2), with the whole record still in the
        buffer.  Whether the write handed to the writer made for [m] unwinds is an input of the protocol:
        [unw m bytes] (computed from the writer algebra and the sinks' fault scripts in RecordModel.v;
        [no_unwind], the constant [false], for sinks that never panic).

    The model is polymorphic in the buffer's element type [A] (bytes for the full/compact formats whose
    text is modelled in RecordModel.v, opaque chunk identifiers for pretty/json) and in the metadata [M]. *)
From Coq Require Export List NArith Bool.
Export ListNotations.

Inductive policy := ClearAfterOnly | ClearBefore | ClearGuard.

Definition policy_eqb (p q : policy) : bool :=
  match p, q with
  | ClearAfterOnly, ClearAfterOnly | ClearBefore, ClearBefore | ClearGuard, ClearGuard => true
  | _, _ => false
  end.

(** What [format_event] did with the buffer it was given. *)
Inductive outcome (A : Type) :=
| OOk (rec : list A)                  (* appended the whole record, returned Ok *)
| OErr (partial errline : list A)     (* appended [partial], returned Err; [errline] is the "Unable to format" line *)
| OPanic (partial : list A).          (* appended [partial], then unwound *)
Arguments OOk {A} _.
Arguments OErr {A} _ _.
Arguments OPanic {A} _.

(** One event reaching [on_event]; [nested] are the events emitted (and completely processed) from
    inside its formatting, in order. *)
Inductive event (A M : Type) :=
| Ev (m : M) (nested : list (event A M)) (out : outcome A).
Arguments Ev {A M} _ _ _.

(** Calls on the configured (root) [MakeWriter] / the writer it returned. *)
Inductive action (A M : Type) :=
| AMake (m : M)                       (* self.make_writer.make_writer_for(m) *)
| AWrite (m : M) (b : list A).        (* write_all(&mut writer, b) on the writer made for m *)
Arguments AMake {A M} _.
Arguments AWrite {A M} _ _.

Record cfg := Cfg { pol : policy; lie : bool (* log_internal_errors *) }.

(** [unw m b]: the [write_all] of [b] on the writer that [make_writer_for(m)] returned does not return (a
    sink panicked).  Everything below that runs the protocol takes it as its first argument. *)
Definition no_unwind {A M : Type} : M -> list A -> bool := fun _ _ => false.

(** What an unwinding leaves in the selected buffer. *)
Definition left_behind {A} (c : cfg) (x : list A) : list A := match pol c with ClearGuard => [] | _ => x end.

(** Steps (2)-(5) on the buffer selected by (1).  [fresh]: the thread-local was already borrowed.
    Returns the thread-local buffer afterwards and the calls made.  The [io::Result] of the write is not
    an input: the code ignores it. *)
Definition finish {A M} (unw : M -> list A -> bool) (c : cfg) (fresh : bool) (buf : list A) (m : M) (out : outcome A)
  : list A * list (action A M) :=
  let b0 := if fresh then [] else buf in
  let b1 := match pol c with ClearBefore => [] | _ => b0 end in
  let keep (x : list A) := if fresh then buf else x in
  match out with
  | OOk r => (keep (if unw m (b1 ++ r) then left_behind c (b1 ++ r) else []), [AMake m; AWrite m (b1 ++ r)])
  | OErr p line =>
      if lie c then (keep (if unw m line then left_behind c (b1 ++ p) else []), [AMake m; AWrite m line])
      else (keep [], [])
  | OPanic p => (keep (left_behind c (b1 ++ p)), [])
  end.

Fixpoint on_event {A M} (unw : M -> list A -> bool) (c : cfg) (fresh : bool) (buf : list A) (e : event A M) {struct e}
  : list A * list (action A M) :=
  match e with
  | Ev m nested out =>
      (* the nested events run while this event holds the borrow: they all take the fresh-String path *)
      let inner := flat_map (fun n => snd (on_event unw c true [] n)) nested in
      let (b, a) := finish unw c fresh buf m out in
      (b, inner ++ a)
  end.

(** A thread's history: events reaching the layer one after the other (not nested in each other). *)
Fixpoint run_thread {A M} (unw : M -> list A -> bool) (c : cfg) (buf : list A) (es : list (event A M))
  : list A * list (action A M) :=
  match es with
  | [] => (buf, [])
  | e :: t => let (b, a) := on_event unw c false buf e in
              let (b', a') := run_thread unw c b t in (b', a ++ a')
  end.

(** ** Specification *)

(** The records a history should produce, in completion order (a nested event completes before the
    event whose formatting emitted it): each is the formatter's own output for that event alone. *)
Fixpoint records {A M} (lie : bool) (e : event A M) : list (M * list A) :=
  match e with
  | Ev m nested out =>
      flat_map (records lie) nested ++
      match out with
      | OOk r => [(m, r)]
      | OErr _ line => if lie then [(m, line)] else []
      | OPanic _ => []
      end
  end.

(** One factory call with the event's metadata, then one write with the whole record. *)
Definition spec_actions {A M} (rs : list (M * list A)) : list (action A M) :=
  flat_map (fun r => [AMake (fst r); AWrite (fst r) (snd r)]) rs.

(** The closure was left by unwinding: a panicking [Debug] impl during (2), or a panicking sink during
    (4) (of the record, or of the "Unable to format" line when [log_internal_errors] is on). *)
Definition aborted {A M} (unw : M -> list A -> bool) (l : bool) (e : event A M) : bool :=
  match e with
  | Ev _ _ (OPanic _) => true
  | Ev m _ (OOk r) => unw m r
  | Ev m _ (OErr _ line) => l && unw m line
  end.

(** No top-level event of the history was aborted by a panic.  (A panic in a *nested* event is harmless
    under every policy: its fresh [String] is dropped by the unwinding.) *)
Definition NoAbortedFormat {A M} (unw : M -> list A -> bool) (l : bool) (es : list (event A M)) : Prop :=
  Forall (fun e => aborted unw l e = false) es.
Definition no_aborted_format {A M} (unw : M -> list A -> bool) (l : bool) (es : list (event A M)) : bool :=
  forallb (fun e => negb (aborted unw l e)) es.

(** ** Micro-step machine, for schedules *)

(** A thread's program with nesting flattened into the order in which the [on_event] bodies complete. *)
Inductive item (A M : Type) := Item (fresh : bool) (m : M) (out : outcome A).
Arguments Item {A M} _ _ _.

Fixpoint flatten {A M} (fresh : bool) (e : event A M) : list (item A M) :=
  match e with Ev m nested out => flat_map (flatten true) nested ++ [Item fresh m out] end.

Fixpoint trace_items {A M} (unw : M -> list A -> bool) (c : cfg) (buf : list A) (items : list (item A M))
  : list A * list (action A M) :=
  match items with
  | [] => (buf, [])
  | Item fresh m out :: rest =>
      let (b, a) := finish unw c fresh buf m out in
      let (b', a') := trace_items unw c b rest in (b', a ++ a')
  end.

(** Where a thread is inside one [on_event]: nothing pending / formatted, writer not yet made /
    writer made, bytes not yet handed over.  [w] is what will be written. *)
Inductive phase (A M : Type) :=
| PIdle
| PFormatted (fresh : bool) (m : M) (w : list A)
| PMade (fresh : bool) (m : M) (w : list A).
Arguments PIdle {A M}.
Arguments PFormatted {A M} _ _ _.
Arguments PMade {A M} _ _ _.

Record tstate (A M : Type) := TS { t_buf : list A; t_phase : phase A M; t_todo : list (item A M) }.
Arguments TS {A M} _ _ _.
Arguments t_buf {A M} _.
Arguments t_phase {A M} _.
Arguments t_todo {A M} _.

(** The thread-local buffer once the write of [w] (on the writer made for [m]) is over: cleared when the
    write returned ([Ok] or [Err]: the result is ignored), left as it is when it unwound. *)
Definition after_write {A M} (unw : M -> list A -> bool) (c : cfg) (s : tstate A M) (fresh : bool) (m : M) (w : list A) : list A :=
  if fresh then t_buf s else if unw m w then left_behind c (t_buf s) else [].

(** One micro-step of one thread; it reads and writes only that thread's own state.  The three
    micro-steps of a record: "format into own buffer" (silent), "make_writer_for", "write" (+ clear). *)
Definition tstep {A M} (unw : M -> list A -> bool) (c : cfg) (s : tstate A M) : option (tstate A M * option (action A M)) :=
  match t_phase s with
  | PIdle =>
      match t_todo s with
      | [] => None
      | Item fresh m out :: rest =>
          let b0 := if fresh then [] else t_buf s in
          let b1 := match pol c with ClearBefore => [] | _ => b0 end in
          let keep (x : list A) := if fresh then t_buf s else x in
          match out with
          | OOk r => Some (TS (keep (b1 ++ r)) (PFormatted fresh m (b1 ++ r)) rest, None)
          | OErr p line =>
              if lie c then Some (TS (keep (b1 ++ p)) (PFormatted fresh m line) rest, None)
              else Some (TS (keep []) PIdle rest, None)
          | OPanic p => Some (TS (keep (left_behind c (b1 ++ p))) PIdle rest, None)
          end
      end
  | PFormatted fresh m w => Some (TS (t_buf s) (PMade fresh m w) (t_todo s), Some (AMake m))
  | PMade fresh m w => Some (TS (after_write unw c s fresh m w) PIdle (t_todo s), Some (AWrite m w))
  end.

(** What a thread still has to emit when run alone from state [s]. *)
Definition remaining {A M} (unw : M -> list A -> bool) (c : cfg) (s : tstate A M) : list (action A M) :=
  match t_phase s with
  | PIdle => snd (trace_items unw c (t_buf s) (t_todo s))
  | PFormatted fresh m w => AMake m :: AWrite m w :: snd (trace_items unw c (after_write unw c s fresh m w) (t_todo s))
  | PMade fresh m w => AWrite m w :: snd (trace_items unw c (after_write unw c s fresh m w) (t_todo s))
  end.

Definition finished {A M} (s : tstate A M) : bool :=
  match t_phase s, t_todo s with PIdle, [] => true | _, _ => false end.

(** The global state: every thread's private state, and the totally ordered log of calls reaching
    the root writer, tagged with the calling thread. *)
Definition gstate (A M : Type) := (list (tstate A M) * list (nat * action A M))%type.

Fixpoint upd {X} (n : nat) (x : X) (l : list X) : list X :=
  match l, n with
  | [], _ => []
  | _ :: t, O => x :: t
  | h :: t, S k => h :: upd k x t
  end.

Definition gstep {A M} (unw : M -> list A -> bool) (c : cfg) (g : gstate A M) (t : nat) : gstate A M :=
  match nth_error (fst g) t with
  | Some s =>
      match tstep unw c s with
      | Some (s', oa) => (upd t s' (fst g), snd g ++ match oa with Some a => [(t, a)] | None => [] end)
      | None => g
      end
  | None => g
  end.

(** A schedule is any list of thread indices (an index out of range or a finished thread stutters). *)
Definition run_sched {A M} (unw : M -> list A -> bool) (c : cfg) (sched : list nat) (g : gstate A M) : gstate A M :=
  fold_left (gstep unw c) sched g.

Definition init {A M} (progs : list (list (event A M))) : gstate A M :=
  (map (fun es => TS [] PIdle (flat_map (flatten false) es)) progs, []).

Definition proj {A M} (t : nat) (log : list (nat * action A M)) : list (action A M) :=
  map snd (filter (fun p => Nat.eqb (fst p) t) log).
