(** C14 — concurrent `record` calls on ONE span (fmt_subscriber.rs on_record), as a micro-step machine over Common/Sched.v.
    No proofs here (Fmt/JsonConcProofs.v).

    The span's fields live in its extensions as a serialised object (tree level: [smap], JsonModel.add_fields).  One `record`
    call by thread [t] with the values [vals] is five micro-steps:

      acquire   `let mut extensions = span.extensions_mut();`          the extensions WRITE lock (blocks while another holds it)
      read      `extensions.get_mut::<FormattedFields<N>>()`            the stored object as the call sees it
      format    `self.fmt_fields.add_fields(fields, values)`            parse - merge - re-serialise; runs the values' Debug / Display
                                                                        impls: arbitrary user code, arbitrarily slow
      store     (add_fields assigns `current.fields = new`)             the merged object becomes the stored one
      release   (the guard is dropped at the end of on_record)

    Any number of threads, each with any list of calls; a schedule is any [list tid] (Sched.run), so every interleaving of the
    micro-steps of all threads is covered.  [atomic] = the lock is held from acquire to release (the code as it is:
    TVGen.Gen_json.gen_on_record_atomic, read off the source by translators/json_fmt.py).  [atomic = false] is the variant in
    which the call works on a private snapshot and takes the lock only to store (read-copy-update without exclusion). *)
From Coq Require Import String NArith Bool List.
From TV Require Import Common.Sched Fmt.JsonModel.
From TVGen Require Import Gen_json.
Import ListNotations.
Local Open Scope N_scope.

Inductive phase :=
| PIdle                       (* between calls *)
| PLocked                     (* acquire done *)
| PSnap (snap : smap)         (* read done: the object this call merges into *)
| PNew (new : smap)           (* format done: the merged object, not yet stored *)
| PStored.                    (* store done, lock not yet released *)

Record thread := {
  th_todo : list fields;      (* calls still to make; the head is the current one until its store *)
  th_done : list fields;      (* ghost: calls whose store has happened, in order *)
  th_pc : phase
}.

Record cstate := {
  c_stored : smap;                     (* the span's stored fields *)
  c_lock : option tid;                 (* owner of the extensions write lock *)
  c_threads : list thread;
  c_log : list (tid * fields)          (* ghost: the stores, in the order they happened *)
}.

Fixpoint set_nth {A} (n : nat) (x : A) (l : list A) : list A :=
  match l, n with
  | [], _ => []
  | _ :: r, O => x :: r
  | y :: r, S n' => y :: set_nth n' x r
  end.

Definition with_thread (s : cstate) (t : tid) (th : thread) : cstate :=
  {| c_stored := c_stored s; c_lock := c_lock s; c_threads := set_nth t th (c_threads s); c_log := c_log s |}.

Definition cstep (c : cfg) (atomic : bool) (s : cstate) (t : tid) : option cstate :=
  match nth_error (c_threads s) t with
  | None => None
  | Some th =>
      match th_pc th with
      | PIdle =>
          match th_todo th with
          | [] => None                                              (* this thread has finished *)
          | _ :: _ =>
              if atomic then
                match c_lock s with
                | Some _ => None                                    (* blocked on the write lock *)
                | None =>
                    Some {| c_stored := c_stored s; c_lock := Some t;
                            c_threads := set_nth t {| th_todo := th_todo th; th_done := th_done th; th_pc := PLocked |} (c_threads s);
                            c_log := c_log s |}
                end
              else Some (with_thread s t {| th_todo := th_todo th; th_done := th_done th; th_pc := PLocked |})
          end
      | PLocked => Some (with_thread s t {| th_todo := th_todo th; th_done := th_done th; th_pc := PSnap (c_stored s) |})
      | PSnap snap =>
          match th_todo th with
          | vals :: _ =>
              Some (with_thread s t {| th_todo := th_todo th; th_done := th_done th; th_pc := PNew (add_fields c snap (eff c vals)) |})
          | [] => None
          end
      | PNew new =>
          match th_todo th with
          | vals :: rest =>
              Some {| c_stored := new; c_lock := c_lock s;
                      c_threads := set_nth t {| th_todo := rest; th_done := th_done th ++ [vals]; th_pc := PStored |} (c_threads s);
                      c_log := c_log s ++ [(t, vals)] |}
          | [] => None
          end
      | PStored =>
          Some {| c_stored := c_stored s; c_lock := if atomic then None else c_lock s;
                  c_threads := set_nth t {| th_todo := th_todo th; th_done := th_done th; th_pc := PIdle |} (c_threads s);
                  c_log := c_log s |}
      end
  end.

(** [progs]: per thread, the record calls it makes, in order; [m0]: what is stored when the threads start *)
Definition cinit (m0 : smap) (progs : list (list fields)) : cstate :=
  {| c_stored := m0; c_lock := None;
     c_threads := map (fun p => {| th_todo := p; th_done := []; th_pc := PIdle |}) progs;
     c_log := [] |}.

Definition crun (c : cfg) (atomic : bool) (m0 : smap) (progs : list (list fields)) (sched : list tid) : cstate :=
  Sched.run (cstep c atomic) (cinit m0 progs) sched.

Definition finished (s : cstate) : Prop :=
  Forall (fun th => th_todo th = [] /\ th_pc th = PIdle) (c_threads s).

(** the stores of thread [t], in order *)
Definition log_of (t : tid) (log : list (tid * fields)) : list fields :=
  map snd (filter (fun e => Nat.eqb (fst e) t) log).

(** what a SERIAL execution of the calls in [log] (one after the other, in that order) stores *)
Definition serial (c : cfg) (m0 : smap) (log : list (tid * fields)) : smap :=
  fold_left (add_fields c) (map (fun e => eff c (snd e)) log) m0.

(** all interleavings of two call lists that keep each list's order (the serial orders of a two-thread race) *)
Fixpoint merges {A} (a : list A) : list A -> list (list A) :=
  fix inner (b : list A) : list (list A) :=
    match a, b with
    | [], _ => [b]
    | _, [] => [a]
    | x :: a', y :: b' => map (cons x) (merges a' b) ++ map (cons y) (inner b')
    end.

(** the objects a two-thread race may leave behind: one per serial order *)
Definition race_outcomes (c : cfg) (m0 : smap) (p1 p2 : list fields) : list smap :=
  map (fun order => fold_left (add_fields c) (map (eff c) order) m0) (merges p1 p2).

Definition repo_atomic : bool := gen_on_record_atomic.
