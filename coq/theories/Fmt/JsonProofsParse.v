(** C14 — proofs, part 2: the independent parser reads back exactly the tree that was rendered
    ([parse (render j) = Some j] for every float-free tree; fuel = input length suffices). *)
From Coq Require Import String Ascii NArith ZArith Bool List Lia.
From TV Require Import Fmt.JsonModel Fmt.JsonProofsRender.
Import ListNotations.
Local Open Scope N_scope.
Local Arguments N.add : simpl never.
Local Arguments N.mul : simpl never.
Local Arguments N.sub : simpl never.
Local Arguments N.div : simpl never.
Local Arguments N.modulo : simpl never.
Local Arguments N.ltb : simpl never.
Local Arguments N.leb : simpl never.
Local Arguments N.pow : simpl never.

(** * Numbers *)
Lemma dec_fuel_S f n acc :
  dec_fuel (S f) n acc =
  if n <? 10 then (48 + n mod 10) :: acc else dec_fuel f (n / 10) ((48 + n mod 10) :: acc).
Proof. reflexivity. Qed.

Lemma digits_val_app : forall l a d, digits_val a (l ++ [d]) = digits_val a l * 10 + (d - 48).
Proof. induction l as [|x l IH]; intros a d; simpl; auto. Qed.

Lemma pow2_S f : 2 ^ N.of_nat (S f) = 2 * 2 ^ N.of_nat f.
Proof. rewrite Nat2N.inj_succ, N.pow_succ_r'. reflexivity. Qed.

Lemma div10_bound n f : n < 2 * 2 ^ N.of_nat f -> n / 10 < 2 ^ N.of_nat f.
Proof.
  intro H. apply N.div_lt_upper_bound; [lia|].
  assert (0 < 2 ^ N.of_nat f) by (apply N.neq_0_lt_0, N.pow_nonzero; lia). lia.
Qed.

Lemma dec_fuel_val : forall f n, n < 2 ^ N.of_nat f -> digits_val 0 (dec_fuel (S f) n []) = n.
Proof.
  induction f as [|f IH]; intros n H.
  - change (2 ^ N.of_nat 0) with 1 in H. assert (n = 0) by lia. subst. reflexivity.
  - rewrite dec_fuel_S. destruct (n <? 10) eqn:E.
    + apply N.ltb_lt in E. cbn [digits_val]. rewrite N.mod_small by lia. lia.
    + rewrite dec_fuel_app, digits_val_app, IH by (apply div10_bound; rewrite <- pow2_S; exact H).
      pose proof (N.div_mod n 10) as D.
      assert (M : n mod 10 < 10) by (apply N.mod_upper_bound; lia).
      revert D M. generalize (n / 10) (n mod 10). intros q r D M. lia.
Qed.

Lemma dec_fuel_lead : forall f n, n < 2 ^ N.of_nat f -> n <> 0 ->
  exists d r, dec_fuel (S f) n [] = d :: r /\ isdig d /\ d <> 48.
Proof.
  induction f as [|f IH]; intros n H Hn.
  - change (2 ^ N.of_nat 0) with 1 in H. lia.
  - rewrite dec_fuel_S. destruct (n <? 10) eqn:E.
    + apply N.ltb_lt in E. exists (48 + n mod 10), []. rewrite N.mod_small by lia.
      repeat split; unfold isdig; lia.
    + apply N.ltb_ge in E. rewrite dec_fuel_app.
      destruct (IH (n / 10)) as (d & r & Hd & Hi & Hz).
      * apply div10_bound. rewrite <- pow2_S. exact H.
      * intro Z. apply N.div_small_iff in Z; lia.
      * rewrite Hd. exists d, (r ++ [48 + n mod 10]). auto.
Qed.

Lemma dec_N_bound n : n < 2 ^ N.of_nat (N.to_nat (N.size n)).
Proof. rewrite N2Nat.id. apply N.size_gt. Qed.

Lemma dec_N_val n : digits_val 0 (dec_N n) = n.
Proof. apply dec_fuel_val, dec_N_bound. Qed.

Lemma dec_N_lead n : n <> 0 -> exists d r, dec_N n = d :: r /\ isdig d /\ d <> 48.
Proof. apply dec_fuel_lead, dec_N_bound. Qed.

Lemma dec_N_head n : exists d r, dec_N n = d :: r /\ isdig d.
Proof.
  destruct (dec_N n) as [|d r] eqn:E; [exfalso; eapply dec_N_nonempty; eauto|].
  exists d, r. split; auto. pose proof (dec_N_digits n) as F. rewrite E in F. inversion F; auto.
Qed.

(** what may follow a value inside (or at the end of) a compact document *)
Definition stop (rest : bytes) : Prop :=
  match rest with [] => True | b :: _ => b = 44 \/ b = 93 \/ b = 125 end.

Lemma take_digits_app : forall ds rest, Forall isdig ds -> stop rest -> take_digits (ds ++ rest) = (ds, rest).
Proof.
  induction ds as [|d ds IH]; intros rest F S.
  - simpl. destruct rest as [|b r]; auto. simpl.
    replace (is_digit b) with false; auto.
    simpl in S. unfold is_digit. destruct S as [-> | [-> | ->]]; reflexivity.
  - inversion F; subst. simpl. replace (is_digit d) with true by (symmetry; apply is_digit_iff; auto).
    rewrite IH; auto.
Qed.

Lemma scan_float_tail_stop rest : stop rest -> scan_float_tail rest = Some (false, rest).
Proof.
  destruct rest as [|c r]; [reflexivity|]. simpl. intros [-> | [-> | ->]]; reflexivity.
Qed.

Lemma parse_num_dec n rest : stop rest -> parse_num (dec_N n ++ rest) = Some (Some n, rest).
Proof.
  intro S. unfold parse_num. rewrite take_digits_app; auto using dec_N_digits.
  destruct (dec_N n) as [|x t] eqn:E; [exfalso; eapply dec_N_nonempty; eauto|].
  assert (L : (x =? 48) && negb (match t with [] => true | _ => false end) = false).
  { destruct (N.eq_dec n 0) as [->|Hn].
    - vm_compute in E. inversion E; subst. reflexivity.
    - destruct (dec_N_lead n Hn) as (d & r & Hd & _ & Hz). rewrite Hd in E. inversion E; subst.
      apply N.eqb_neq in Hz. rewrite Hz. reflexivity. }
  rewrite L. rewrite <- E, dec_N_val. rewrite scan_float_tail_stop by exact S. reflexivity.
Qed.

(** * Strings *)
Lemma psb_quote r : parse_str_body (34 :: r) = Some ([], r).
Proof. reflexivity. Qed.

Lemma psb_esc c x r : unescape c = Some x -> c <> 117 ->
  parse_str_body (92 :: c :: r) =
  match parse_str_body r with Some (t, rest) => Some (x :: t, rest) | None => None end.
Proof.
  intros U Hc. cbn [parse_str_body]. change (92 =? 34) with false. change (92 =? 92) with true. cbv iota.
  apply N.eqb_neq in Hc. rewrite Hc, U. reflexivity.
Qed.

Lemma psb_u h3 h4 r :
  parse_str_body (92 :: 117 :: 48 :: 48 :: h3 :: h4 :: r) =
  match unhex4 48 48 h3 h4 with
  | Some cp =>
      match utf8_encode cp, parse_str_body r with
      | Some e, Some (t, rest) => Some (e ++ t, rest)
      | _, _ => None
      end
  | None => None
  end.
Proof. reflexivity. Qed.

Lemma psb_plain b r : b <> 34 -> b <> 92 -> 32 <= b ->
  parse_str_body (b :: r) = match parse_str_body r with Some (t, rest) => Some (b :: t, rest) | None => None end.
Proof.
  intros H1 H2 H3. cbn [parse_str_body].
  apply N.eqb_neq in H1, H2. apply N.ltb_ge in H3. rewrite H1, H2, H3. reflexivity.
Qed.

Lemma lt32_cases b : b < 32 -> In b (map N.of_nat (seq 0 32)).
Proof. intro H. rewrite <- (N2Nat.id b). apply in_map, in_seq. lia. Qed.

Lemma unhex4_hexd b : b < 32 -> unhex4 48 48 (hexd (b / 16)) (hexd (b mod 16)) = Some b.
Proof.
  intro H. apply lt32_cases in H. revert b H. apply Forall_forall.
  vm_compute. repeat constructor.
Qed.

Lemma parse_str_body_render : forall s rest,
  parse_str_body (flat_map escape_byte s ++ 34 :: rest) = Some (s, rest).
Proof.
  induction s as [|b s IH]; intro rest; [reflexivity|].
  cbn [flat_map]. rewrite <- app_assoc. unfold escape_byte.
  destruct (b =? 34) eqn:E1; [apply N.eqb_eq in E1; subst; cbn [app]; rewrite (psb_esc 34 34), IH; [reflexivity|reflexivity|lia]|].
  destruct (b =? 92) eqn:E2; [apply N.eqb_eq in E2; subst; cbn [app]; rewrite (psb_esc 92 92), IH; [reflexivity|reflexivity|lia]|].
  destruct (b =? 8) eqn:E3; [apply N.eqb_eq in E3; subst; cbn [app]; rewrite (psb_esc 98 8), IH; [reflexivity|reflexivity|lia]|].
  destruct (b =? 12) eqn:E4; [apply N.eqb_eq in E4; subst; cbn [app]; rewrite (psb_esc 102 12), IH; [reflexivity|reflexivity|lia]|].
  destruct (b =? 10) eqn:E5; [apply N.eqb_eq in E5; subst; cbn [app]; rewrite (psb_esc 110 10), IH; [reflexivity|reflexivity|lia]|].
  destruct (b =? 13) eqn:E6; [apply N.eqb_eq in E6; subst; cbn [app]; rewrite (psb_esc 114 13), IH; [reflexivity|reflexivity|lia]|].
  destruct (b =? 9) eqn:E7; [apply N.eqb_eq in E7; subst; cbn [app]; rewrite (psb_esc 116 9), IH; [reflexivity|reflexivity|lia]|].
  destruct (b <? 32) eqn:E8.
  - apply N.ltb_lt in E8. cbn [app]. rewrite psb_u, unhex4_hexd by exact E8.
    unfold utf8_encode. replace (b <? 128) with true by (symmetry; apply N.ltb_lt; lia).
    rewrite IH. reflexivity.
  - apply N.ltb_ge in E8. apply N.eqb_neq in E1, E2. cbn [app].
    rewrite psb_plain, IH; auto.
Qed.

(** * Values *)
Fixpoint fuel_needed (j : json) : nat :=
  match j with
  | JArr l => S (Nat.max (length l) (list_max (map fuel_needed l)))
  | JObj l => S (Nat.max (length l) (list_max (map (fun kv => match kv with (_, v) => fuel_needed v end) l)))
  | _ => 1
  end.

Lemma pv_minus f r :
  parse_value (S f) (45 :: r) =
  match parse_num r with
  | Some (Some n, r') => Some (JInt (- Z.of_N n), r')
  | Some (None, r') => Some (JFloat 0, r')
  | None => None
  end.
Proof. reflexivity. Qed.
Lemma pv_str f r :
  parse_value (S f) (34 :: r) = match parse_str_body r with Some (t, r') => Some (JStr t, r') | None => None end.
Proof. reflexivity. Qed.
Lemma pv_arr f r :
  parse_value (S f) (91 :: r) =
  if starts_with 93 r then Some (JArr [], tl r)
  else match parse_elems (parse_value f) f r with Some (l, r') => Some (JArr l, r') | None => None end.
Proof. reflexivity. Qed.
Lemma pv_obj f r :
  parse_value (S f) (123 :: r) =
  if starts_with 125 r then Some (JObj [], tl r)
  else match parse_members (parse_value f) f r with Some (l, r') => Some (JObj l, r') | None => None end.
Proof. reflexivity. Qed.
Lemma pv_digit f d r : isdig d ->
  parse_value (S f) (d :: r) =
  match parse_num (d :: r) with
  | Some (Some n, r') => Some (JInt (Z.of_N n), r')
  | Some (None, r') => Some (JFloat 0, r')
  | None => None
  end.
Proof.
  intro H. unfold isdig in H. cbn [parse_value].
  replace (d =? 110) with false by (symmetry; apply N.eqb_neq; lia).
  replace (d =? 116) with false by (symmetry; apply N.eqb_neq; lia).
  replace (d =? 102) with false by (symmetry; apply N.eqb_neq; lia).
  replace (d =? 34) with false by (symmetry; apply N.eqb_neq; lia).
  replace (d =? 91) with false by (symmetry; apply N.eqb_neq; lia).
  replace (d =? 123) with false by (symmetry; apply N.eqb_neq; lia).
  replace (d =? 45) with false by (symmetry; apply N.eqb_neq; lia).
  replace (is_digit d) with true by (symmetry; apply is_digit_iff; exact H).
  reflexivity.
Qed.

Lemma pe_S pv g s :
  parse_elems pv (S g) s =
  match pv s with
  | Some (x, b :: r) =>
      if b =? 44 then match parse_elems pv g r with Some (xs, r') => Some (x :: xs, r') | None => None end
      else if b =? 93 then Some ([x], r)
      else None
  | _ => None
  end.
Proof. reflexivity. Qed.
Lemma pm_S pv g r0 :
  parse_members pv (S g) (34 :: r0) =
  match parse_str_body r0 with
  | Some (k, c :: r1) =>
      if c =? 58 then
        match pv r1 with
        | Some (x, b :: r) =>
            if b =? 44 then match parse_members pv g r with Some (xs, r') => Some ((k, x) :: xs, r') | None => None end
            else if b =? 125 then Some ([(k, x)], r)
            else None
        | _ => None
        end
      else None
  | _ => None
  end.
Proof. reflexivity. Qed.

(** * Floats: any printer whose output the parser reads as ONE float token (and stops) *)
Definition float_token (pf : N -> bytes) : Prop :=
  forall b rest, stop rest -> parse_value 1 (pf b ++ rest) = Some (JFloat 0, rest).

(** a scalar does not need more fuel *)
Lemma pv_float_fuel f s r : parse_value 1 s = Some (JFloat 0, r) -> parse_value (S f) s = Some (JFloat 0, r).
Proof.
  destruct s as [|b t]; [discriminate|]. cbn [parse_value].
  destruct (b =? 110); [auto|]. destruct (b =? 116); [auto|]. destruct (b =? 102); [auto|]. destruct (b =? 34); [auto|].
  destruct (b =? 91).
  { destruct (starts_with 93 t); intro H; [inversion H | cbn [parse_elems] in H; discriminate H]. }
  destruct (b =? 123).
  { destruct (starts_with 125 t); intro H; [inversion H | cbn [parse_members] in H; discriminate H]. }
  auto.
Qed.

Lemma float_token_head pf : float_token pf -> forall b, exists h r, pf b = h :: r /\ h <> 93 /\ h <> 125.
Proof.
  intros H b. specialize (H b [] I). rewrite app_nil_r in H.
  destruct (pf b) as [|h r]; [discriminate H|]. exists h, r. split; [reflexivity|].
  split; intro E; subst h; cbn in H; discriminate H.
Qed.

(** the simplest printer that qualifies (used to instantiate the general theorem on float-free trees) *)
Definition pf_zero : N -> bytes := fun _ => [48; 46; 48].
Lemma pf_zero_token : float_token pf_zero.
Proof.
  intros b rest St. destruct rest as [|c r]; [reflexivity|]. simpl in St.
  destruct St as [-> | [-> | ->]]; reflexivity.
Qed.

Lemma render_with_nofloat pf : forall j, no_float j = true -> render_with pf j = render j.
Proof.
  induction j using json_ind'; intro NF; try reflexivity.
  - discriminate.
  - simpl in NF. rewrite forallb_forall in NF. cbn [render_with render]. f_equal. f_equal. f_equal.
    apply map_ext_in. intros x Hx. rewrite Forall_forall in H. auto.
  - simpl in NF. rewrite forallb_forall in NF. cbn [render_with render]. f_equal. f_equal. f_equal.
    apply map_ext_in. intros [k v] Hx. rewrite Forall_forall in H. f_equal. f_equal.
    apply (H (k, v) Hx). exact (NF (k, v) Hx).
Qed.

Lemma zero_floats_nofloat : forall j, no_float j = true -> zero_floats j = j.
Proof.
  induction j using json_ind'; intro NF; try reflexivity.
  - discriminate.
  - simpl in NF. rewrite forallb_forall in NF. cbn [zero_floats]. f_equal.
    rewrite <- (map_id l) at 2. apply map_ext_in. intros x Hx. rewrite Forall_forall in H. auto.
  - simpl in NF. rewrite forallb_forall in NF. cbn [zero_floats]. f_equal.
    rewrite <- (map_id l) at 2. apply map_ext_in. intros [k v] Hx. rewrite Forall_forall in H. f_equal.
    apply (H (k, v) Hx). exact (NF (k, v) Hx).
Qed.

Lemma render_with_model : forall j, render_with render_float j = render j.
Proof.
  induction j using json_ind'; try reflexivity.
  - cbn [render_with render]. f_equal. f_equal. f_equal. apply map_ext_in. intros x Hx. rewrite Forall_forall in H. auto.
  - cbn [render_with render]. f_equal. f_equal. f_equal. apply map_ext_in. intros [k v] Hx. rewrite Forall_forall in H.
    f_equal. f_equal. apply (H (k, v) Hx).
Qed.

Section AnyPrinter.
Variable pf : N -> bytes.
Hypothesis Hpf : float_token pf.

(** first byte of a rendering: never a closing bracket (so "[" X is not mistaken for "[]") *)
Lemma render_head j : exists b r, render_with pf j = b :: r /\ b <> 93 /\ b <> 125.
Proof.
  destruct j; cbn [render_with render].
  - eexists _, _. split; [reflexivity|]. lia.
  - destruct b; eexists _, _; (split; [reflexivity|]); lia.
  - destruct z; simpl.
    + destruct (dec_N_head (Z.to_N 0)) as (d & r & E & D). exists d, r. unfold isdig in D. split; auto. lia.
    + destruct (dec_N_head (Z.to_N (Z.pos p))) as (d & r & E & D). exists d, r. unfold isdig in D. split; auto. lia.
    + eexists _, _. split; [reflexivity|]. lia.
  - apply float_token_head. exact Hpf.
  - eexists _, _. split; [reflexivity|]. lia.
  - eexists _, _. split; [reflexivity|]. lia.
  - eexists _, _. split; [reflexivity|]. lia.
Qed.

Definition reads (f : nat) (x : json) : Prop :=
  forall rest, stop rest -> parse_value f (render_with pf x ++ rest) = Some (zero_floats x, rest).

Lemma parse_elems_render f : forall l g rest,
  l <> [] -> Forall (reads f) l -> (length l <= g)%nat ->
  parse_elems (parse_value f) g (join 44 (map (render_with pf) l) ++ 93 :: rest) = Some (map zero_floats l, rest).
Proof.
  induction l as [|x l IH]; intros g rest Hne F Hg; [congruence|].
  inversion F as [|? ? Hx Hl]; subst.
  destruct g as [|g]; [simpl in Hg; lia|].
  destruct l as [|y l'].
  - cbn [map join]. rewrite pe_S, Hx by (simpl; auto). reflexivity.
  - change (join 44 (map (render_with pf) (x :: y :: l'))) with (render_with pf x ++ 44 :: join 44 (map (render_with pf) (y :: l'))).
    rewrite <- app_assoc. cbn [app]. rewrite pe_S, Hx by (simpl; auto).
    change (44 =? 44) with true. cbv iota.
    rewrite IH; auto; [congruence | simpl in *; lia].
Qed.

Definition member_bytes (kv : bytes * json) : bytes :=
  match kv with (k, v) => render_string k ++ 58 :: render_with pf v end.
Definition member_zero (kv : bytes * json) : bytes * json := match kv with (k, v) => (k, zero_floats v) end.

Lemma parse_members_render f : forall l g rest,
  l <> [] -> Forall (fun kv => reads f (snd kv)) l -> (length l <= g)%nat ->
  parse_members (parse_value f) g (join 44 (map member_bytes l) ++ 125 :: rest) = Some (map member_zero l, rest).
Proof.
  induction l as [|[k v] l IH]; intros g rest Hne F Hg; [congruence|].
  inversion F as [|? ? Hx Hl]; subst. simpl in Hx.
  destruct g as [|g]; [simpl in Hg; lia|].
  assert (Step : forall tail, stop tail -> tail <> [] ->
            parse_members (parse_value f) (S g) (member_bytes (k, v) ++ tail) =
            match tail with
            | b :: r =>
                if b =? 44 then match parse_members (parse_value f) g r with Some (xs, r') => Some ((k, zero_floats v) :: xs, r') | None => None end
                else if b =? 125 then Some ([(k, zero_floats v)], r)
                else None
            | [] => None
            end).
  { intros tail St Tn. unfold member_bytes, render_string.
    cbn [app]. rewrite <- !app_assoc. cbn [app].
    rewrite pm_S, parse_str_body_render. change (58 =? 58) with true. cbv iota.
    rewrite Hx by exact St. destruct tail; [congruence|reflexivity]. }
  destruct l as [|y l'].
  - cbn [map join]. rewrite Step; [reflexivity | simpl; auto | discriminate].
  - change (join 44 (map member_bytes ((k, v) :: y :: l'))) with (member_bytes (k, v) ++ 44 :: join 44 (map member_bytes (y :: l'))).
    rewrite <- app_assoc. cbn [app]. rewrite Step; [| simpl; auto | discriminate].
    change (44 =? 44) with true. cbv iota.
    rewrite IH; auto; [congruence | simpl in *; lia].
Qed.

Lemma list_max_in l x : In x l -> (x <= list_max l)%nat.
Proof.
  intro H. assert (F : Forall (fun k => (k <= list_max l)%nat) l) by (apply list_max_le; lia).
  rewrite Forall_forall in F. auto.
Qed.

Lemma render_obj_eq l :
  render_with pf (JObj l) = 123 :: join 44 (map member_bytes l) ++ [125].
Proof. reflexivity. Qed.
Lemma zero_obj_eq l : zero_floats (JObj l) = JObj (map member_zero l).
Proof. reflexivity. Qed.

Theorem parse_value_render_with : forall j fuel, (fuel_needed j <= fuel)%nat -> reads fuel j.
Proof.
  induction j using json_ind'; intros fuel Hf rest St;
    (destruct fuel as [|f]; [simpl in Hf; lia|]).
  - reflexivity.
  - destruct b; reflexivity.
  - destruct z.
    + change (render_with pf (JInt 0)) with (dec_N 0). destruct (dec_N_head 0) as (d & r & E & D).
      rewrite E. cbn [app]. rewrite pv_digit by exact D.
      change (d :: r ++ rest) with ((d :: r) ++ rest). rewrite <- E, parse_num_dec by exact St. reflexivity.
    + change (render_with pf (JInt (Z.pos p))) with (dec_N (N.pos p)). destruct (dec_N_head (N.pos p)) as (d & r & E & D).
      rewrite E. cbn [app]. rewrite pv_digit by exact D.
      change (d :: r ++ rest) with ((d :: r) ++ rest). rewrite <- E, parse_num_dec by exact St. reflexivity.
    + change (render_with pf (JInt (Z.neg p))) with (45 :: dec_N (N.pos p)). cbn [app]. rewrite pv_minus, parse_num_dec by exact St. reflexivity.
  - cbn [render_with zero_floats]. apply pv_float_fuel. apply Hpf. exact St.
  - cbn [render_with render zero_floats]. unfold render_string. cbn [app]. rewrite pv_str, <- app_assoc. cbn [app].
    rewrite parse_str_body_render. reflexivity.
  - cbn [render_with zero_floats]. cbn [app]. rewrite pv_arr, <- app_assoc. cbn [app].
    destruct l as [|x l'].
    + reflexivity.
    + assert (Hd : starts_with 93 (join 44 (map (render_with pf) (x :: l')) ++ 93 :: rest) = false).
      { destruct (render_head x) as (b & r & E & N1 & _).
        cbn [map]. destruct l'; cbn [join map]; rewrite E; cbn [app starts_with]; apply N.eqb_neq; auto. }
      assert (Hlen : (length (x :: l') <= f)%nat) by (cbn [fuel_needed] in Hf; lia).
      assert (Hall : Forall (reads f) (x :: l')).
      { rewrite Forall_forall in *. intros y Hy. apply H; auto.
        assert ((fuel_needed y <= list_max (map fuel_needed (x :: l')))%nat) by (apply list_max_in, in_map; auto).
        cbn [fuel_needed] in Hf. lia. }
      rewrite Hd, (parse_elems_render f (x :: l') f rest); auto. congruence.
  - rewrite render_obj_eq, zero_obj_eq. cbn [app]. rewrite pv_obj, <- app_assoc. cbn [app].
    destruct l as [|x l'].
    + reflexivity.
    + assert (Hd : starts_with 125 (join 44 (map member_bytes (x :: l')) ++ 125 :: rest) = false).
      { destruct x as [k v]. cbn [map]. destruct l'; cbn [join map]; unfold member_bytes at 1, render_string; reflexivity. }
      assert (Hlen : (length (x :: l') <= f)%nat) by (cbn [fuel_needed] in Hf; lia).
      assert (Hall : Forall (fun kv => reads f (snd kv)) (x :: l')).
      { rewrite Forall_forall in *. intros y Hy. apply H; auto.
        assert ((fuel_needed (snd y) <= list_max (map (fun kv : bytes * json => let (_, v) := kv in fuel_needed v) (x :: l')))%nat).
        { apply list_max_in. apply in_map_iff. exists y. split; auto. destruct y; reflexivity. }
        cbn [fuel_needed] in Hf. lia. }
      rewrite Hd, (parse_members_render f (x :: l') f rest); auto. congruence.
Qed.

(** * Fuel = input length is enough *)
Lemma join_length_in sep : forall (ls : list bytes) x, In x ls -> (length x <= length (join sep ls))%nat.
Proof.
  induction ls as [|y ls IH]; intros x Hx; [inversion Hx|].
  destruct ls as [|z ls'].
  - destruct Hx as [->|[]]. simpl. lia.
  - change (join sep (y :: z :: ls')) with (y ++ sep :: join sep (z :: ls')).
    rewrite app_length. cbn [length]. destruct Hx as [->|Hx]; [lia|].
    specialize (IH x Hx). lia.
Qed.

Lemma join_length_count sep : forall (ls : list bytes),
  Forall (fun x => (1 <= length x)%nat) ls -> (length ls <= length (join sep ls))%nat.
Proof.
  induction ls as [|y ls IH]; intro F; [simpl; lia|].
  inversion F; subst. destruct ls as [|z ls'].
  - simpl. lia.
  - change (join sep (y :: z :: ls')) with (y ++ sep :: join sep (z :: ls')).
    rewrite app_length. cbn [length] in *. specialize (IH H2). lia.
Qed.

Lemma fuel_le_length : forall j, (fuel_needed j <= length (render_with pf j))%nat.
Proof.
  induction j using json_ind'.
  - simpl; lia.
  - destruct b; simpl; lia.
  - destruct z.
    + change (render_with pf (JInt 0)) with (dec_N 0). destruct (dec_N_head 0) as (d & r & E & _). rewrite E. simpl. lia.
    + change (render_with pf (JInt (Z.pos p))) with (dec_N (N.pos p)). destruct (dec_N_head (N.pos p)) as (d & r & E & _).
      rewrite E. simpl. lia.
    + change (render_with pf (JInt (Z.neg p))) with (45 :: dec_N (N.pos p)). cbn [fuel_needed length]. lia.
  - match goal with |- context [JFloat ?x] => destruct (float_token_head pf Hpf x) as (h & r & E & _) end.
    cbn [render_with fuel_needed]. rewrite E. simpl. lia.
  - cbn [render_with render fuel_needed]. unfold render_string. simpl. lia.
  - cbn [fuel_needed render_with length]. rewrite app_length. cbn [length].
    assert (A : (length l <= length (join 44 (map (render_with pf) l)))%nat).
    { rewrite <- (map_length (render_with pf) l) at 1. apply join_length_count.
      rewrite Forall_forall. intros x Hx. apply in_map_iff in Hx. destruct Hx as (y & <- & Hy).
      destruct (render_head y) as (b & r & E & _). rewrite E. simpl. lia. }
    assert (B : (list_max (map fuel_needed l) <= length (join 44 (map (render_with pf) l)))%nat).
    { apply list_max_le. rewrite Forall_forall. intros n Hn. apply in_map_iff in Hn. destruct Hn as (y & <- & Hy).
      rewrite Forall_forall in H. specialize (H y Hy).
      assert ((length (render_with pf y) <= length (join 44 (map (render_with pf) l)))%nat) by (apply join_length_in, in_map; auto).
      lia. }
    lia.
  - rewrite render_obj_eq. cbn [fuel_needed length]. rewrite app_length. cbn [length].
    assert (M : forall y, In y l -> (fuel_needed (snd y) <= length (member_bytes y))%nat /\ (1 <= length (member_bytes y))%nat).
    { intros y Hy. rewrite Forall_forall in H. specialize (H y Hy). destruct y as [k v].
      simpl in *. unfold render_string. cbn [app length]. rewrite !app_length. cbn [length]. lia. }
    assert (A : (length l <= length (join 44 (map member_bytes l)))%nat).
    { rewrite <- (map_length member_bytes l) at 1. apply join_length_count.
      rewrite Forall_forall. intros x Hx. apply in_map_iff in Hx. destruct Hx as (y & <- & Hy). apply M; auto. }
    assert (B : (list_max (map (fun kv : bytes * json => let (_, v) := kv in fuel_needed v) l) <= length (join 44 (map member_bytes l)))%nat).
    { apply list_max_le. rewrite Forall_forall. intros n Hn. apply in_map_iff in Hn. destruct Hn as (y & <- & Hy).
      assert ((length (member_bytes y) <= length (join 44 (map member_bytes l)))%nat) by (apply join_length_in, in_map; auto).
      destruct (M y Hy) as [M1 _]. destruct y; simpl in *. lia. }
    lia.
Qed.

(** * Headline, any float printer: the line reads back as the tree, floats as uninterpreted float tokens *)
Theorem parse_render_with : forall j, parse (render_with pf j) = Some (zero_floats j).
Proof.
  intros j. unfold parse.
  pose proof (parse_value_render_with j (length (render_with pf j)) (fuel_le_length j) [] I) as R.
  rewrite app_nil_r in R. rewrite R. reflexivity.
Qed.

Theorem parse_line_render_with : forall j, parse_line (render_with pf j ++ [10]) = Some (zero_floats j).
Proof.
  intros j. unfold parse_line. rewrite rev_app_distr. cbn [rev app].
  change (10 =? 10) with true. cbv iota. rewrite rev_involutive. apply parse_render_with.
Qed.
End AnyPrinter.

(** * Headline: render then parse is the identity on float-free trees *)
Theorem parse_render : forall j, no_float j = true -> parse (render j) = Some j.
Proof.
  intros j NF. rewrite <- (render_with_nofloat pf_zero j NF). rewrite (parse_render_with pf_zero pf_zero_token).
  rewrite zero_floats_nofloat by exact NF. reflexivity.
Qed.

Theorem parse_line_render : forall j, no_float j = true -> parse_line (render_line j) = Some j.
Proof.
  intros j NF. unfold parse_line, render_line. rewrite rev_app_distr. cbn [rev app].
  change (10 =? 10) with true. cbv iota. rewrite rev_involutive. apply parse_render; auto.
Qed.

(** the heart of it, for ALL byte strings: the escaped text reads back as the original string *)
Theorem parse_string_render : forall s rest,
  parse_value 1 (render_string s ++ rest) = Some (JStr s, rest).
Proof.
  intros s rest. unfold render_string. cbn [app]. rewrite pv_str, <- app_assoc. cbn [app].
  rewrite parse_str_body_render. reflexivity.
Qed.

(** non-vacuity *)
Example parse_render_witness :
  let j := JObj [(bs "k", JArr [JInt (-5); JNull; JStr [10; 34; 92; 1; 240; 159; 152; 128]]); ([34; 10], JObj [])] in
  no_float j = true /\ parse (render j) = Some j.
Proof. vm_compute. split; reflexivity. Qed.

(** non-vacuity of [float_token]: printers in the style of ryu's output (sign, fraction, exponent forms) qualify; text
    that is not a JSON number does not *)
Example float_token_examples :
  float_token (fun _ => bs "-1.5e-7") /\ float_token (fun _ => bs "1e21") /\ float_token (fun _ => bs "0.30000000000000004") /\
  float_token (fun _ => bs "2.5E+3") /\
  ~ float_token (fun _ => bs "NaN") /\ ~ float_token (fun _ => bs "1.") /\ ~ float_token (fun _ => bs ".5") /\
  ~ float_token (fun _ => bs "1e") /\ ~ float_token (fun _ => bs "17").
Proof.
  assert (Y : forall t, (forall rest, stop rest -> parse_value 1 (t ++ rest) = Some (JFloat 0, rest)) -> float_token (fun _ => t))
    by (intros t H b rest St; apply H; exact St).
  assert (N : forall t, parse_value 1 t <> Some (JFloat 0, []) -> ~ float_token (fun _ => t)).
  { intros t H F. specialize (F 0 [] I). rewrite app_nil_r in F. contradiction. }
  repeat split; first
    [ apply Y; intros rest St; destruct rest as [|c r]; [reflexivity|]; simpl in St; destruct St as [-> | [-> | ->]]; reflexivity
    | apply N; vm_compute; discriminate ].
Qed.

Example parse_with_floats :
  let j := JObj [(bs "f", JFloat 4607182418800017408); (bs "a", JArr [JFloat 0; JInt 3])] in
  parse (render_with (fun _ => bs "1.0") j) = Some (zero_floats j).
Proof. vm_compute. reflexivity. Qed.

(** the parser is strict: these are NOT accepted (raw LF in a string; two values; duplicate keys are accepted as a list
    and rejected by [NoDup] in C14_unique_keys) *)
Example parse_rejects :
  parse [34; 10; 34] = None /\ parse (bs "{}{}") = None /\ parse (bs "[01]") = None /\ parse (bs "[1,]") = None /\
  parse (bs "[1.]") = None /\ parse (bs "[-]") = None /\ parse (bs "[1e+]") = None /\ parse (bs "[01.5]") = None.
Proof. vm_compute. repeat split; reflexivity. Qed.
