(** C14 — proofs, part 1: induction principle for [json]; decimal text; every byte of [render j] is >= 0x20
    (so no raw LF / CR / control byte, whatever the strings contain). *)
From Coq Require Import String Ascii NArith ZArith Bool List Lia.
From TV Require Import Fmt.JsonModel.
Import ListNotations.
Local Open Scope N_scope.
Local Arguments N.add : simpl never.
Local Arguments N.mul : simpl never.
Local Arguments N.sub : simpl never.
Local Arguments N.div : simpl never.
Local Arguments N.modulo : simpl never.
Local Arguments N.ltb : simpl never.
Local Arguments N.leb : simpl never.
Local Arguments N.pow : simpl never.

(** * Induction over the nested tree *)
Section JsonInd.
  Variable P : json -> Prop.
  Hypothesis HNull : P JNull.
  Hypothesis HBool : forall b, P (JBool b).
  Hypothesis HInt : forall z, P (JInt z).
  Hypothesis HFloat : forall b, P (JFloat b).
  Hypothesis HStr : forall s, P (JStr s).
  Hypothesis HArr : forall l, Forall P l -> P (JArr l).
  Hypothesis HObj : forall l, Forall (fun kv => P (snd kv)) l -> P (JObj l).
  Fixpoint json_ind' (j : json) : P j :=
    match j with
    | JNull => HNull
    | JBool b => HBool b
    | JInt z => HInt z
    | JFloat b => HFloat b
    | JStr s => HStr s
    | JArr l =>
        HArr l ((fix go (l : list json) : Forall P l :=
                   match l with
                   | [] => Forall_nil _
                   | x :: r => Forall_cons x (json_ind' x) (go r)
                   end) l)
    | JObj l =>
        HObj l ((fix go (l : list (bytes * json)) : Forall (fun kv => P (snd kv)) l :=
                   match l with
                   | [] => Forall_nil _
                   | kv :: r => Forall_cons kv (json_ind' (snd kv)) (go r)
                   end) l)
    end.
End JsonInd.

(** * Decimal digits *)
Definition isdig (b : N) : Prop := 48 <= b <= 57.

Lemma is_digit_iff b : is_digit b = true <-> isdig b.
Proof.
  unfold is_digit, isdig. rewrite andb_true_iff, !N.leb_le. tauto.
Qed.

Lemma dec_fuel_digits : forall f n acc, Forall isdig acc -> Forall isdig (dec_fuel f n acc).
Proof.
  induction f as [|f IH]; intros n acc H; simpl; auto.
  assert (D : isdig (48 + n mod 10)).
  { unfold isdig. assert (H10 : n mod 10 < 10) by (apply N.mod_upper_bound; lia).
    revert H10. generalize (n mod 10). intros; lia. }
  destruct (n <? 10); [constructor; auto | apply IH; constructor; auto].
Qed.

Lemma dec_N_digits n : Forall isdig (dec_N n).
Proof. apply dec_fuel_digits. constructor. Qed.

Lemma dec_fuel_app : forall f n acc, dec_fuel f n acc = dec_fuel f n [] ++ acc.
Proof.
  induction f as [|f IH]; intros n acc; simpl; auto.
  destruct (n <? 10); auto.
  rewrite (IH (n / 10) ((48 + n mod 10) :: acc)), (IH (n / 10) [48 + n mod 10]).
  rewrite <- app_assoc. reflexivity.
Qed.

Lemma dec_fuel_nonempty f n acc : dec_fuel (S f) n acc <> [].
Proof.
  simpl. destruct (n <? 10); [discriminate|].
  rewrite dec_fuel_app. intro H. apply app_eq_nil in H. destruct H; discriminate.
Qed.

Lemma dec_N_nonempty n : dec_N n <> [].
Proof. apply dec_fuel_nonempty. Qed.

(** * All bytes of the output are >= 0x20 *)
Definition okb (b : N) : Prop := 32 <= b.

Lemma isdig_ok b : isdig b -> okb b.
Proof. unfold isdig, okb. lia. Qed.

Lemma Forall_isdig_ok l : Forall isdig l -> Forall okb l.
Proof. intro H. eapply Forall_impl; [|exact H]. apply isdig_ok. Qed.

Lemma hexd_ok n : okb (hexd n).
Proof. unfold hexd, okb. destruct (n <? 10); lia. Qed.

Lemma escape_byte_ok b : Forall okb (escape_byte b).
Proof.
  unfold escape_byte.
  repeat match goal with |- context [if ?c then _ else _] => destruct c eqn:? end;
    repeat constructor; try (unfold okb; lia); try apply hexd_ok.
  match goal with H : (_ <? 32) = false |- _ => apply N.ltb_ge in H; exact H end.
Qed.

Lemma flat_map_ok (f : N -> bytes) s : (forall b, Forall okb (f b)) -> Forall okb (flat_map f s).
Proof.
  intro H. induction s; simpl; [constructor|]. apply Forall_app. split; auto.
Qed.

Lemma render_string_ok s : Forall okb (render_string s).
Proof.
  unfold render_string. constructor; [unfold okb; lia|].
  apply Forall_app. split; [apply flat_map_ok, escape_byte_ok|]. repeat constructor. unfold okb; lia.
Qed.

Lemma join_ok sep l : okb sep -> Forall (Forall okb) l -> Forall okb (join sep l).
Proof.
  intros Hs H. induction H as [|x r Hx Hr IH]; simpl; [constructor|].
  destruct r as [|y r']; auto.
  apply Forall_app. split; auto.
Qed.

Lemma Forall_firstn {A} (P : A -> Prop) n l : Forall P l -> Forall P (firstn n l).
Proof.
  intro H. rewrite Forall_forall in *. intros x Hx. apply H.
  rewrite <- (firstn_skipn n l). apply in_or_app. auto.
Qed.
Lemma Forall_skipn {A} (P : A -> Prop) n l : Forall P l -> Forall P (skipn n l).
Proof.
  intro H. rewrite Forall_forall in *. intros x Hx. apply H.
  rewrite <- (firstn_skipn n l). apply in_or_app. auto.
Qed.

Lemma render_float_parts_ok neg mant ex : Forall okb (render_float_parts neg mant ex).
Proof.
  unfold render_float_parts.
  assert (Sg : Forall okb (if neg then [45] else [])).
  { destruct neg; repeat constructor. unfold okb; lia. }
  destruct ex as [|p|k].
  - apply Forall_app. split; auto. apply Forall_app. split.
    + apply Forall_isdig_ok, dec_N_digits.
    + repeat constructor; unfold okb; lia.
  - apply Forall_app. split; auto. apply Forall_app. split.
    + apply Forall_isdig_ok, dec_N_digits.
    + repeat constructor; unfold okb; lia.
  - cbv zeta. set (d := pad_zeros _ _).
    assert (D : Forall okb d).
    { unfold d, pad_zeros. apply Forall_app. split.
      - rewrite Forall_forall. intros x Hx. apply repeat_spec in Hx. subst. unfold okb; lia.
      - apply Forall_isdig_ok, dec_N_digits. }
    apply Forall_app. split; auto. apply Forall_app. split.
    + apply Forall_firstn; auto.
    + constructor; [unfold okb; lia|]. apply Forall_skipn; auto.
Qed.

Lemma render_float_ok bits : Forall okb (render_float bits).
Proof. apply render_float_parts_ok. Qed.

Lemma dec_Z_ok z : Forall okb (dec_Z z).
Proof.
  destruct z; simpl.
  - apply Forall_isdig_ok, dec_N_digits.
  - apply Forall_isdig_ok, dec_N_digits.
  - constructor; [unfold okb; lia|]. apply Forall_isdig_ok, dec_N_digits.
Qed.

Theorem render_ok : forall j, Forall okb (render j).
Proof.
  induction j using json_ind'; simpl.
  - repeat constructor; unfold okb; lia.
  - destruct b; repeat constructor; unfold okb; lia.
  - apply dec_Z_ok.
  - apply render_float_ok.
  - apply render_string_ok.
  - constructor; [unfold okb; lia|]. apply Forall_app. split; [|repeat constructor; unfold okb; lia].
    apply join_ok; [unfold okb; lia|].
    induction H; simpl; constructor; auto.
  - constructor; [unfold okb; lia|]. apply Forall_app. split; [|repeat constructor; unfold okb; lia].
    apply join_ok; [unfold okb; lia|].
    induction H as [|[k v] r Hv Hr IH]; simpl; constructor; auto.
    change (Forall okb (render_string k ++ 58 :: render v)).
    apply Forall_app. split; [apply render_string_ok|]. constructor; [unfold okb; lia|]. exact Hv.
Qed.

(** ... and with any float printer that writes no control byte (ryu writes digits, '-', '.', 'e' only) *)
Theorem render_with_ok pf : (forall b, Forall okb (pf b)) -> forall j, Forall okb (render_with pf j).
Proof.
  intro Hpf. induction j using json_ind'; cbn [render_with]; try apply render_ok.
  - apply Hpf.
  - constructor; [unfold okb; lia|]. apply Forall_app. split; [|repeat constructor; unfold okb; lia].
    apply join_ok; [unfold okb; lia|].
    induction H; simpl; constructor; auto.
  - constructor; [unfold okb; lia|]. apply Forall_app. split; [|repeat constructor; unfold okb; lia].
    apply join_ok; [unfold okb; lia|].
    induction H as [|[k v] r Hv Hr IH]; simpl; constructor; auto.
    change (Forall okb (render_string k ++ 58 :: render_with pf v)).
    apply Forall_app. split; [apply render_string_ok|]. constructor; [unfold okb; lia|]. exact Hv.
Qed.

Theorem single_line_with pf : (forall b, Forall okb (pf b)) -> forall j, ~ In 10 (render_with pf j) /\ ~ In 13 (render_with pf j).
Proof.
  intros Hpf j. pose proof (render_with_ok pf Hpf j) as R. rewrite Forall_forall in R.
  split; intro H; apply R in H; unfold okb in H; lia.
Qed.

(** No control byte at all — in particular no LF and no CR — in the rendering of ANY tree. *)
Theorem no_control_bytes : forall j b, In b (render j) -> 32 <= b.
Proof. intros j b H. pose proof (render_ok j) as R. rewrite Forall_forall in R. exact (R b H). Qed.

Theorem single_line : forall j, ~ In 10 (render j) /\ ~ In 13 (render j).
Proof.
  intro j. split; intro H; apply no_control_bytes in H; lia.
Qed.

(** The record as written: the rendering, then exactly one LF, which is the only LF/CR of the record. *)
Theorem record_one_line : forall j,
  exists body, render_line j = body ++ [10] /\ ~ In 10 body /\ ~ In 13 body.
Proof. intro j. exists (render j). split; [reflexivity|apply single_line]. Qed.

(** non-vacuity: a string made of the worst bytes still renders on one line *)
Example single_line_witness :
  render (JStr [10; 13; 0; 31; 34; 92; 226; 128; 168; 127]) =
  [34; 92; 110; 92; 114; 92; 117; 48; 48; 48; 48; 92; 117; 48; 48; 49; 102; 92; 34; 92; 92; 226; 128; 168; 127; 34].
Proof. vm_compute. reflexivity. Qed.
