(** C14 — executable model of the JSON formatter (tracing-subscriber/src/fmt/format/json.rs, tracing-serde).
    No proofs here (Fmt/JsonProofs*.v).

    - [json]            the tree the formatter builds; [render] = serde_json's COMPACT writer (its escape table,
                        byte for byte; floats excepted, see [render_float]);
    - [parse]           an independent strict recursive-descent parser for compact JSON (fuel = input length; rejects raw
                        control bytes, leading zeros, whitespace); integers are read exactly, a float token (RFC 8259
                        fraction / exponent grammar) is recognised but not interpreted: it reads as [JFloat 0];
    - [event_value] / [span_value] / [span_key]
                        the type mapping AS IMPLEMENTED by SerdeMapVisitor (event fields) and JsonVisitor (span fields);
    - [visit_span] / [add_fields] / [add_fields_bytes]
                        span fields as a BTreeMap (sorted, last write wins), a later `record` on the tree level and on
                        the level of the stored string (parse - merge - re-serialise);
    - [event_record]    the object written for one event, in the code's key order, for every option combination;
    - [life_lines]      the records fmt_subscriber.rs writes at the span-lifecycle points (FmtSpan NEW / ENTER / EXIT / CLOSE,
                        `with_event_from_span!`): an event with the SPAN's metadata, the span itself as explicit parent and
                        the fields message (+ time.busy, time.idle at close when a timer is configured);
    - [run]             a history of span creations / enters / exits / records / closes / events  |->  the lines written.

    Two switches ([cfg]) select between the code as it is and an anticipated repair; the value used for /repo comes
    from the translator (TVGen.Gen_json), so the model follows the source:
      fx10 = false  the `spans` list is built from lookup_current() (finding F10); true: from the event's own parent
      fx141 = false  add_fields re-parses into BTreeMap<&str,_>: a stored key that needs a JSON escape makes from_str fail and
                    the record is silently dropped (finding F141); true: owned keys.
    A third component is the BUILD configuration: feat_log = tracing-subscriber's (default) cargo feature `tracing-log`,
    under which JsonVisitor::record_debug skips span fields whose name starts with `log.` (tracing-log's metadata). *)
From Coq Require Import String Ascii NArith ZArith Bool List.
From TVGen Require Import Gen_json.
Import ListNotations.
Local Open Scope N_scope.

Definition bytes := list N.

(** ASCII text of a Coq string literal, as bytes. *)
Definition bs (s : string) : bytes := map N_of_ascii (list_ascii_of_string s).

(** * The JSON tree *)
Inductive json :=
| JNull
| JBool (b : bool)
| JInt (z : Z)
| JFloat (bits : N)          (* a FINITE f64, by its IEEE-754 bit pattern *)
| JStr (s : bytes)
| JArr (l : list json)
| JObj (l : list (bytes * json)).

(** * Decimal text of integers (itoa) *)
Fixpoint dec_fuel (fuel : nat) (n : N) (acc : bytes) : bytes :=
  match fuel with
  | O => acc
  | S f =>
      let acc' := (48 + n mod 10) :: acc in
      if n <? 10 then acc' else dec_fuel f (n / 10) acc'
  end.
Definition dec_N (n : N) : bytes := dec_fuel (S (N.to_nat (N.size n))) n [].
Definition dec_Z (z : Z) : bytes :=
  match z with
  | Zneg p => 45 :: dec_N (Npos p)
  | _ => dec_N (Z.to_N z)
  end.

(** * Strings: serde_json's ESCAPE table (format_escaped_str_contents) *)
Definition hexd (n : N) : N := if n <? 10 then 48 + n else 87 + n.   (* lowercase, as HEX_DIGITS *)
Definition escape_byte (b : N) : bytes :=
  if b =? 34 then [92; 34]                 (* backslash, quote *)
  else if b =? 92 then [92; 92]            (* backslash, backslash *)
  else if b =? 8 then [92; 98]             (* \b *)
  else if b =? 12 then [92; 102]           (* \f *)
  else if b =? 10 then [92; 110]           (* \n *)
  else if b =? 13 then [92; 114]           (* \r *)
  else if b =? 9 then [92; 116]            (* \t *)
  else if b <? 32 then [92; 117; 48; 48; hexd (b / 16); hexd (b mod 16)]   (* \u00XX *)
  else [b].                                (* everything else verbatim: DEL, C1, U+2028/2029, astral (UTF-8 bytes) *)
Definition render_string (s : bytes) : bytes := 34 :: flat_map escape_byte s ++ [34].
(** the same function read off serde_json's ESCAPE table (TVGen.Gen_json.gen_escape_table: 0 = not escaped, 117 = the
    six-byte \u00XX form, any other entry = backslash + that letter); proved equal to [escape_byte] on all 256 bytes *)
Definition escape_from_table (t : list nat) (b : N) : bytes :=
  match nth (N.to_nat b) t 0%nat with
  | O => [b]
  | c => if Nat.eqb c 117 then [92; 117; 48; 48; hexd (b / 16); hexd (b mod 16)] else [92; N.of_nat c]
  end.

(** * Floats.  serde_json prints the shortest round-trip text; that algorithm is NOT modelled.  The model prints the
    EXACT decimal expansion of the double (a valid JSON number denoting the same real), so that an independent
    exactly-rounding parser reads back the same f64: floats are compared numerically, never as text. *)
Definition pad_zeros (len : nat) (d : bytes) : bytes := repeat 48 (len - length d) ++ d.
Definition render_float_parts (neg : bool) (mant : N) (ex : Z) : bytes :=
  let sgn := if neg then [45] else [] in
  match ex with
  | Zneg k =>
      let kn := Pos.to_nat k in
      let d := pad_zeros (S kn) (dec_N (mant * 5 ^ (Npos k))) in
      sgn ++ firstn (length d - kn) d ++ 46 :: skipn (length d - kn) d
  | _ => sgn ++ dec_N (mant * 2 ^ (Z.to_N ex)) ++ [46; 48]
  end.
Definition render_float (bits : N) : bytes :=
  let e := (bits / 4503599627370496) mod 2048 in
  let m := bits mod 4503599627370496 in
  render_float_parts (negb (bits / 9223372036854775808 =? 0))
    (if e =? 0 then m else 4503599627370496 + m)
    (if e =? 0 then (-1074)%Z else (Z.of_N e - 1075)%Z).

(** * render = serde_json CompactFormatter *)
Fixpoint join (sep : N) (l : list bytes) : bytes :=
  match l with
  | [] => []
  | [x] => x
  | x :: r => x ++ sep :: join sep r
  end.

Fixpoint render (j : json) : bytes :=
  match j with
  | JNull => [110; 117; 108; 108]
  | JBool true => [116; 114; 117; 101]
  | JBool false => [102; 97; 108; 115; 101]
  | JInt z => dec_Z z
  | JFloat b => render_float b
  | JStr s => render_string s
  | JArr l => 91 :: join 44 (map render l) ++ [93]
  | JObj l => 123 :: join 44 (map (fun kv => match kv with (k, v) => render_string k ++ 58 :: render v end) l) ++ [125]
  end.

Definition render_line (j : json) : bytes := render j ++ [10].   (* format_event ends with writeln!(writer) *)

(** [render] with the text of finite floats left open: [pf] is any printer of f64 bit patterns (serde_json's is ryu's
    shortest round-trip text; the model's own [render_float] is the exact expansion).  [render_with render_float = render]. *)
Fixpoint render_with (pf : N -> bytes) (j : json) : bytes :=
  match j with
  | JFloat b => pf b
  | JArr l => 91 :: join 44 (map (render_with pf) l) ++ [93]
  | JObj l => 123 :: join 44 (map (fun kv => match kv with (k, v) => render_string k ++ 58 :: render_with pf v end) l) ++ [125]
  | _ => render j
  end.
(** what a parser that does not interpret float text can say about a tree *)
Fixpoint zero_floats (j : json) : json :=
  match j with
  | JFloat _ => JFloat 0
  | JArr l => JArr (map zero_floats l)
  | JObj l => JObj (map (fun kv => match kv with (k, v) => (k, zero_floats v) end) l)
  | _ => j
  end.

(** * An independent strict parser (float-free compact JSON) *)
Definition is_digit (b : N) : bool := (48 <=? b) && (b <=? 57).
Fixpoint take_digits (s : bytes) : bytes * bytes :=
  match s with
  | [] => ([], [])
  | b :: r => if is_digit b then let (d, r') := take_digits r in (b :: d, r') else ([], s)
  end.
Fixpoint digits_val (acc : N) (d : bytes) : N :=
  match d with
  | [] => acc
  | b :: r => digits_val (acc * 10 + (b - 48)) r
  end.
(** RFC 8259 number = [ minus ] int [ frac ] [ exp ];  frac = "." 1*DIGIT;  exp = ("e" / "E") [ "+" / "-" ] 1*DIGIT.
    After the integer digits: [Some (false, rest)] no fraction / exponent follows (an integer), [Some (true, rest)] a
    well-formed fraction and/or exponent was consumed (a float token), [None] malformed. *)
Definition scan_digits1 (s : bytes) : option bytes :=
  let (d, r) := take_digits s in match d with [] => None | _ :: _ => Some r end.
Definition scan_exp (s : bytes) : option bytes :=
  match s with
  | c :: r => if (c =? 43) || (c =? 45) then scan_digits1 r else scan_digits1 s
  | [] => None
  end.
Definition scan_float_tail (r : bytes) : option (bool * bytes) :=
  match r with
  | c :: r1 =>
      if c =? 46 then
        match scan_digits1 r1 with
        | Some r2 =>
            match r2 with
            | e :: r3 => if (e =? 101) || (e =? 69) then option_map (pair true) (scan_exp r3) else Some (true, r2)
            | [] => Some (true, [])
            end
        | None => None
        end
      else if (c =? 101) || (c =? 69) then option_map (pair true) (scan_exp r1)
      else Some (false, r)
  | [] => Some (false, [])
  end.
(** digits -> [Some n] (an integer) or [None] (a float token, whose value this parser does not interpret) and the rest;
    JSON forbids leading zeros and an empty digit run. *)
Definition parse_num (s : bytes) : option (option N * bytes) :=
  let (d, r) := take_digits s in
  match d with
  | [] => None
  | x :: t =>
      if (x =? 48) && negb (match t with [] => true | _ => false end) then None
      else
        match scan_float_tail r with
        | Some (false, r') => Some (Some (digits_val 0 d), r')
        | Some (true, r') => Some (None, r')
        | None => None
        end
  end.

Definition unhex (b : N) : option N :=
  if is_digit b then Some (b - 48)
  else if (97 <=? b) && (b <=? 102) then Some (b - 87)
  else if (65 <=? b) && (b <=? 70) then Some (b - 55)
  else None.
Definition unhex4 (a b c d : N) : option N :=
  match unhex a, unhex b, unhex c, unhex d with
  | Some w, Some x, Some y, Some z => Some (((w * 16 + x) * 16 + y) * 16 + z)
  | _, _, _, _ => None
  end.
(** UTF-8 of a BMP code point given as \uXXXX; surrogates are rejected (the writer under test never emits them). *)
Definition utf8_encode (cp : N) : option bytes :=
  if cp <? 128 then Some [cp]
  else if cp <? 2048 then Some [192 + cp / 64; 128 + cp mod 64]
  else if (55296 <=? cp) && (cp <=? 57343) then None
  else Some [224 + cp / 4096; 128 + (cp / 64) mod 64; 128 + cp mod 64].
Definition unescape (c : N) : option N :=
  if c =? 34 then Some 34 else if c =? 92 then Some 92 else if c =? 47 then Some 47
  else if c =? 98 then Some 8 else if c =? 102 then Some 12 else if c =? 110 then Some 10
  else if c =? 114 then Some 13 else if c =? 116 then Some 9 else None.

(** body of a string, after the opening quote: returns the decoded bytes and what follows the closing quote *)
Fixpoint parse_str_body (s : bytes) : option (bytes * bytes) :=
  match s with
  | [] => None
  | b :: r =>
      if b =? 34 then Some ([], r)
      else if b =? 92 then
        match r with
        | [] => None
        | c :: r2 =>
            if c =? 117 then
              match r2 with
              | h1 :: h2 :: h3 :: h4 :: r3 =>
                  match unhex4 h1 h2 h3 h4 with
                  | Some cp =>
                      match utf8_encode cp, parse_str_body r3 with
                      | Some e, Some (t, rest) => Some (e ++ t, rest)
                      | _, _ => None
                      end
                  | None => None
                  end
              | _ => None
              end
            else
              match unescape c with
              | Some x => match parse_str_body r2 with Some (t, rest) => Some (x :: t, rest) | None => None end
              | None => None
              end
        end
      else if b <? 32 then None                      (* raw control characters are not allowed inside strings *)
      else match parse_str_body r with Some (t, rest) => Some (b :: t, rest) | None => None end
  end.

Fixpoint strip_prefix (p s : bytes) : option bytes :=
  match p with
  | [] => Some s
  | x :: p' => match s with y :: s' => if x =? y then strip_prefix p' s' else None | [] => None end
  end.

Section ParseLists.
  Variable pv : bytes -> option (json * bytes).
  Fixpoint parse_elems (fuel : nat) (s : bytes) : option (list json * bytes) :=
    match fuel with
    | O => None
    | S f =>
        match pv s with
        | Some (x, b :: r) =>
            if b =? 44 then match parse_elems f r with Some (xs, r') => Some (x :: xs, r') | None => None end
            else if b =? 93 then Some ([x], r)
            else None
        | _ => None
        end
    end.
  Fixpoint parse_members (fuel : nat) (s : bytes) : option (list (bytes * json) * bytes) :=
    match fuel with
    | O => None
    | S f =>
        match s with
        | q :: r0 =>
            if q =? 34 then
              match parse_str_body r0 with
              | Some (k, c :: r1) =>
                  if c =? 58 then
                    match pv r1 with
                    | Some (x, b :: r) =>
                        if b =? 44 then match parse_members f r with Some (xs, r') => Some ((k, x) :: xs, r') | None => None end
                        else if b =? 125 then Some ([(k, x)], r)
                        else None
                    | _ => None
                    end
                  else None
              | _ => None
              end
            else None
        | [] => None
        end
    end.
End ParseLists.

Definition starts_with (c : N) (s : bytes) : bool := match s with x :: _ => x =? c | [] => false end.

Fixpoint parse_value (fuel : nat) (s : bytes) : option (json * bytes) :=
  match fuel with
  | O => None
  | S f =>
      match s with
      | [] => None
      | b :: r =>
          if b =? 110 then match strip_prefix [117; 108; 108] r with Some r' => Some (JNull, r') | None => None end
          else if b =? 116 then match strip_prefix [114; 117; 101] r with Some r' => Some (JBool true, r') | None => None end
          else if b =? 102 then match strip_prefix [97; 108; 115; 101] r with Some r' => Some (JBool false, r') | None => None end
          else if b =? 34 then match parse_str_body r with Some (t, r') => Some (JStr t, r') | None => None end
          else if b =? 91 then
            if starts_with 93 r then Some (JArr [], tl r)
            else match parse_elems (parse_value f) f r with Some (l, r') => Some (JArr l, r') | None => None end
          else if b =? 123 then
            if starts_with 125 r then Some (JObj [], tl r)
            else match parse_members (parse_value f) f r with Some (l, r') => Some (JObj l, r') | None => None end
          else if b =? 45 then
            match parse_num r with
            | Some (Some n, r') => Some (JInt (- Z.of_N n), r')
            | Some (None, r') => Some (JFloat 0, r')           (* a float token: value not interpreted *)
            | None => None
            end
          else if is_digit b then
            match parse_num s with
            | Some (Some n, r') => Some (JInt (Z.of_N n), r')
            | Some (None, r') => Some (JFloat 0, r')
            | None => None
            end
          else None
      end
  end.

(** The whole input must be exactly one value.  Fuel = input length; running out of fuel is [None]. *)
Definition parse (s : bytes) : option json :=
  match parse_value (length s) s with
  | Some (j, []) => Some j
  | _ => None
  end.

(** one record as delivered to the writer: exactly one value followed by exactly one LF *)
Definition parse_line (l : bytes) : option json :=
  match rev l with
  | b :: body => if b =? 10 then parse (rev body) else None
  | [] => None
  end.

Fixpoint no_float (j : json) : bool :=
  match j with
  | JFloat _ => false
  | JArr l => forallb no_float l
  | JObj l => forallb (fun kv => match kv with (_, v) => no_float v end) l
  | _ => true
  end.

(** * Recorded values and the type mapping, as implemented *)
Inductive value :=
| VU64 (n : N)          (* u8..u64, usize                      -> Visit::record_u64 *)
| VI64 (z : Z)          (* i8..i64, isize                      -> record_i64 *)
| VU128 (n : N)         (* record_u128: default = record_debug *)
| VI128 (z : Z)         (* record_i128: default = record_debug *)
| VBool (b : bool)
| VStr (s : bytes)      (* record_str *)
| VF64 (bits : N)       (* f64 (f32 widened)                   -> record_f64; any bit pattern *)
| VBytes (b : bytes)    (* record_bytes *)
| VText (s : bytes).    (* ?x, %x, fmt::Arguments, errors: record_debug with this Debug/Display text *)

Definition f64_finite (bits : N) : bool := negb ((bits / 4503599627370496) mod 2048 =? 2047).
Definition float_json (bits : N) : json := if f64_finite bits then JFloat bits else JNull.   (* NaN, +-inf -> null *)

Definition hex2 (b : N) : bytes := [hexd (b / 16); hexd (b mod 16)].
(** tracing-core's HexBytes Debug: [61 62 63] in brackets, two lowercase hex digits each, blank separated *)
Definition hex_bytes (b : bytes) : bytes := 91 :: join 32 (map hex2 b) ++ [93].

(** 128-bit integers in event fields, READ OFF THE SOURCE (TVGen.Gen_json.gen_serdemap_methods): SerdeMapVisitor does not
    override record_u128 / record_i128, so they take the `Visit` default (record_debug) and are a STRING of decimal digits
    (false).  If an override appears that hands the value to the serializer (the only body the translator accepts), serde_json
    prints a bare number of up to 39 digits (true): the model follows, Properties/C14.v's wide-integer theorems do not. *)
Local Open Scope string_scope.
Definition serde_u128_native : bool := existsb (String.eqb "record_u128") gen_serdemap_methods.
Definition serde_i128_native : bool := existsb (String.eqb "record_i128") gen_serdemap_methods.
Local Close Scope string_scope.

(** Event fields: tracing_serde::SerdeMapVisitor straight into the serializer.  It overrides bool/u64/i64/f64/str/debug;
    u128, i128, bytes (as HexBytes) and errors (Display) arrive through record_debug and become strings. *)
Definition event_value (v : value) : json :=
  match v with
  | VU64 n => JInt (Z.of_N n)
  | VI64 z => JInt z
  | VU128 n => if serde_u128_native then JInt (Z.of_N n) else JStr (dec_N n)
  | VI128 z => if serde_i128_native then JInt z else JStr (dec_Z z)
  | VBool b => JBool b
  | VStr s => JStr s
  | VF64 bits => float_json bits
  | VBytes b => JStr (hex_bytes b)
  | VText s => JStr s
  end.

(** Span fields: JsonVisitor into serde_json::Value.  It additionally overrides record_bytes: an ARRAY of numbers
    (asymmetry with event fields, where the same slice is the string [61 62 63]). *)
Definition span_value (v : value) : json :=
  match v with
  | VBytes b => JArr (map (fun x => JInt (Z.of_N x)) b)
  | VU128 n => JStr (dec_N n)          (* JsonVisitor overrides neither 128-bit method: record_debug, whatever *)
  | VI128 z => JStr (dec_Z z)          (* tracing-serde does (visit_method / gen_jsonvisitor_methods) *)
  | _ => event_value v
  end.

(** Which `Visit` method of JsonVisitor a value arrives through (a method the visitor does not override falls back to
    record_debug), and — READ OFF THE SOURCE per method (TVGen.Gen_json, helper functions resolved) — whether that method
    strips a raw-identifier prefix / skips `log.*` names.  On the tree as it is only record_debug does either
    ([via_debug]; JsonProofsMap.strips_raw_is_via_debug / skips_log_is_via_debug): the typed record_* methods (and every
    event field) keep `r#type` verbatim (second asymmetry). *)
Definition via_debug (v : value) : bool :=
  match v with VU128 _ | VI128 _ | VText _ => true | _ => false end.
Local Open Scope string_scope.
Definition typed_method (v : value) : string :=
  match v with
  | VU64 _ => "record_u64" | VI64 _ => "record_i64" | VBool _ => "record_bool" | VStr _ => "record_str"
  | VF64 _ => "record_f64" | VBytes _ => "record_bytes" | VU128 _ | VI128 _ | VText _ => "record_debug"
  end.
Definition visit_method (v : value) : string :=
  if existsb (String.eqb (typed_method v)) gen_jsonvisitor_methods then typed_method v else "record_debug".
Local Close Scope string_scope.
Definition strips_raw (v : value) : bool := existsb (String.eqb (visit_method v)) gen_jsonvisitor_strip_raw.
Definition skips_log (v : value) : bool := existsb (String.eqb (visit_method v)) gen_jsonvisitor_log_skip.
Definition strip_raw (k : bytes) : bytes :=      (* name.starts_with r# => the name without its first two bytes *)
  match k with
  | a :: b :: r => if (a =? 114) && (b =? 35) then r else k
  | _ => k
  end.
Definition span_key (k : bytes) (v : value) : bytes := if strips_raw v then strip_raw k else k.

(** the shape facts above, in the form the translator extracts them from the source *)
Local Open Scope string_scope.
Definition model_event_keys : list string :=
  ["timestamp"; "level"; "<event-fields>"; "fields"; "target"; "filename"; "line_number"; "span"; "spans";
   "threadName"; "threadName"; "threadId"].
Definition model_span_keys : list string := ["field"; "field_error"; "field_error"; "name"].
Definition model_jsonvisitor_methods : list string :=
  ["record_bool"; "record_bytes"; "record_debug"; "record_f64"; "record_i64"; "record_str"; "record_u64"].
Definition model_jsonvisitor_strip_raw : list string := ["record_debug"].
Definition model_serdemap_methods : list string :=
  ["record_bool"; "record_debug"; "record_f64"; "record_i64"; "record_str"; "record_u64"].
Definition model_jsonvisitor_log_skip : list string := ["record_debug"].
Definition model_lifecycle : list string :=
  ["on_new_span:message=new"; "on_enter:message=enter"; "on_exit:message=exit";
   "on_close:message=close,time.busy,time.idle"; "on_close:message=close"].
Local Close Scope string_scope.

(** * Span fields: BTreeMap<&str, Value> *)
Definition smap := list (bytes * json).
Definition fields := list (bytes * value).      (* the (name, value) pairs of one ValueSet that carry a value, in order *)

Fixpoint bcompare (a b : bytes) : comparison :=       (* str's Ord: lexicographic on UTF-8 bytes *)
  match a, b with
  | [], [] => Eq
  | [], _ :: _ => Lt
  | _ :: _, [] => Gt
  | x :: a', y :: b' => match x ?= y with Eq => bcompare a' b' | c => c end
  end.
Definition beqb (a b : bytes) : bool := match bcompare a b with Eq => true | _ => false end.

Fixpoint bt_insert (k : bytes) (v : json) (m : smap) : smap :=
  match m with
  | [] => [(k, v)]
  | (k', v') :: r =>
      match bcompare k k' with
      | Lt => (k, v) :: m
      | Eq => (k, v) :: r
      | Gt => (k', v') :: bt_insert k v r
      end
  end.
Definition bt_of_list (l : smap) : smap := fold_left (fun m kv => bt_insert (fst kv) (snd kv) m) l [].
Fixpoint lookup (k : bytes) (m : smap) : option json :=
  match m with
  | [] => None
  | (k', v) :: r => if beqb k k' then Some v else lookup k r
  end.

(** one visit of a ValueSet by a JsonVisitor whose map starts as [m] *)
Definition visit_span (m : smap) (vals : fields) : smap :=
  fold_left (fun m kv => bt_insert (span_key (fst kv) (snd kv)) (span_value (snd kv)) m) vals m.

Definition needs_escape (k : bytes) : bool := existsb (fun b => (b <? 32) || (b =? 34) || (b =? 92)) k.

Record cfg := { fx10 : bool; fx141 : bool; feat_log : bool }.
Definition repo_cfg_of (lg : bool) : cfg := {| fx10 := gen_f10_fixed; fx141 := gen_f141_fixed; feat_log := lg |}.
Definition repo_cfg : cfg := repo_cfg_of false.

(** cfg(feature = "tracing-log"): `name if name.starts_with("log.") => ()` is the FIRST arm (before the r# arm), so it looks
    at the raw field name; it applies to the values that arrive through a method the translator found it in ([skips_log]:
    record_debug only, on the tree as it is). *)
Definition has_prefix (p k : bytes) : bool := match strip_prefix p k with Some _ => true | None => false end.
Definition log_skipped (c : cfg) (kv : bytes * value) : bool :=
  feat_log c && skips_log (snd kv) && has_prefix (bs "log.") (fst kv).
(** the writes of one ValueSet that reach the span's map *)
Definition eff (c : cfg) (vals : fields) : fields := filter (fun kv => negb (log_skipped c kv)) vals.

(** JsonFields::add_fields on the tree level.  The stored string is never empty (on_new_span stores at least an empty object), so
    the parse path is always taken; with borrowed keys (fx141 = false) it fails when a stored key contains an escape,
    and on_record discards the error: the record is lost. *)
Definition add_fields (c : cfg) (m : smap) (vals : fields) : smap :=
  if negb (fx141 c) && existsb needs_escape (map fst m) then m else visit_span m vals.

(** ... and on the level of the stored string, as the code does it: parse, (BTreeMap) merge, re-serialise *)
Definition add_fields_bytes (c : cfg) (stored : bytes) (vals : fields) : bytes :=
  match parse stored with
  | Some (JObj kvs) =>
      if negb (fx141 c) && existsb needs_escape (map fst kvs) then stored
      else render (JObj (visit_span (bt_of_list kvs) vals))
  | _ => stored                                   (* from_str error: add_fields returns Err, ignored by on_record *)
  end.
Definition new_span_bytes (vals : fields) : bytes := render (JObj (visit_span [] vals)).

Definition fields_after (c : cfg) (init : fields) (recs : list fields) : smap :=
  fold_left (add_fields c) recs (visit_span [] init).
Definition stored_after (c : cfg) (init : fields) (recs : list fields) : bytes :=
  fold_left (add_fields_bytes c) recs (new_span_bytes init).

(** the last value written under key [k] by a sequence of writes *)
Fixpoint last_write (k : bytes) (ws : fields) (acc : option json) : option json :=
  match ws with
  | [] => acc
  | (n, v) :: r => last_write k r (if beqb k (span_key n v) then Some (span_value v) else acc)
  end.

(** * Spans, scope, events *)
Definition name_key : bytes := bs "name".
(** a span callsite's metadata, as far as the formatter reads it (name for the span object; the rest for the lifecycle records) *)
Record smeta := { sm_name : bytes; sm_level : N; sm_target : bytes; sm_file : option bytes; sm_line : option N }.
Definition meta_named (name : bytes) : smeta :=
  {| sm_name := name; sm_level := 2; sm_target := []; sm_file := None; sm_line := None |}.
Record span_st := { sp_meta : smeta; sp_parent : option N; sp_fields : smap }.
Definition sp_name (s : span_st) : bytes := sm_name (sp_meta s).

(** SerializableSpan: the stored object's entries (serde_json::Map = BTreeMap order), then the key name. *)
Definition span_obj (s : span_st) : json := JObj (sp_fields s ++ [(name_key, JStr (sp_name s))]).
(** ... as the code does it, from the stored string *)
Definition span_obj_bytes (name stored : bytes) : option json :=
  match parse stored with
  | Some (JObj kvs) => Some (JObj (bt_of_list kvs ++ [(name_key, JStr name)]))
  | _ => None                                     (* debug builds panic here, release builds write field_error *)
  end.

Inductive pspec := PCurrent | PRoot | PExplicit (i : N).

Record event := {
  ev_level : N;                 (* 0 = ERROR .. 4 = TRACE *)
  ev_target : bytes;
  ev_file : option bytes;
  ev_line : option N;
  ev_vals : fields
}.
Record opts := {
  o_flatten : bool; o_cur : bool; o_list : bool;
  o_ts : option bytes;          (* display_timestamp + the timer's text; None = without_time() *)
  o_level : bool; o_target : bool; o_file : bool; o_line : bool; o_tname : bool; o_tid : bool;
  o_new : bool; o_enter : bool; o_exit : bool; o_close : bool      (* with_span_events(FmtSpan::NEW | ENTER | EXIT | CLOSE) *)
}.
Record env := { thread_name : option bytes; thread_id : bytes (* Debug text of ThreadId *) }.

Record state := { spans : list (N * span_st); stack : list N (* entered spans, innermost first *) }.
Definition init_state : state := {| spans := []; stack := [] |}.

Fixpoint find_span (i : N) (l : list (N * span_st)) : option span_st :=
  match l with
  | [] => None
  | (j, s) :: r => if i =? j then Some s else find_span i r
  end.
Definition current (st : state) : option N := hd_error (stack st).

(** leaf, parent, grand-parent, ... (registry Scope: follow parent ids while the lookup succeeds) *)
Fixpoint ancestors (fuel : nat) (l : list (N * span_st)) (i : N) : list span_st :=
  match fuel with
  | O => []
  | S f =>
      match find_span i l with
      | Some s => s :: match sp_parent s with Some p => ancestors f l p | None => [] end
      | None => []
      end
  end.
Definition scope_from_root (st : state) (i : N) : list span_st := rev (ancestors (S (length (spans st))) (spans st) i).

Definition exists_span (st : state) (i : N) : bool := match find_span i (spans st) with Some _ => true | None => false end.

(** the span the record is attributed to (`current_span` in format_event) *)
Definition event_span (c : cfg) (st : state) (p : pspec) : option N :=
  if fx10 c then
    (* repaired: ctx.parent_span() = Context::event_span *)
    match p with
    | PRoot => None
    | PCurrent => current st
    | PExplicit i => if exists_span st i then Some i else None
    end
  else
    (* event.parent().and_then(|id| ctx.span(id)).or_else(|| ctx.lookup_current()) : Parent::Root has no id *)
    match p with
    | PExplicit i => if exists_span st i then Some i else current st
    | _ => current st
    end.

(** the spans named by the `spans` array *)
Definition span_list (c : cfg) (st : state) (p : pspec) : list span_st :=
  if fx10 c then match event_span c st p with Some i => scope_from_root st i | None => [] end
  else match current st with Some i => scope_from_root st i | None => [] end.   (* SerializableContext: lookup_current() *)

(** what the property calls "the spans in scope" of an event *)
Definition spec_event_span (st : state) (p : pspec) : option N :=
  match p with
  | PRoot => None
  | PCurrent => current st
  | PExplicit i => if exists_span st i then Some i else None
  end.
Definition spec_scope (st : state) (p : pspec) : list span_st :=
  match spec_event_span st p with Some i => scope_from_root st i | None => [] end.

Definition level_text (l : N) : bytes :=
  if l =? 0 then bs "ERROR" else if l =? 1 then bs "WARN" else if l =? 2 then bs "INFO"
  else if l =? 3 then bs "DEBUG" else bs "TRACE".

Definition event_fields (e : event) : list (bytes * json) := map (fun kv => (fst kv, event_value (snd kv))) (ev_vals e).

Definition opt_entry (b : bool) (k : string) (v : option json) : list (bytes * json) :=
  if b then match v with Some j => [(bs k, j)] | None => [] end else [].

Definition event_entries (c : cfg) (o : opts) (en : env) (st : state) (e : event) (p : pspec) : list (bytes * json) :=
  let cur := if o_cur o || o_list o then event_span c st p else None in
  let cur_st := match cur with Some i => find_span i (spans st) | None => None end in
  opt_entry true "timestamp" (option_map JStr (o_ts o))
  ++ opt_entry (o_level o) "level" (Some (JStr (level_text (ev_level e))))
  ++ (if o_flatten o then event_fields e else [(bs "fields", JObj (event_fields e))])
  ++ opt_entry (o_target o) "target" (Some (JStr (ev_target e)))
  ++ opt_entry (o_file o) "filename" (option_map JStr (ev_file e))
  ++ opt_entry (o_line o) "line_number" (option_map (fun n => JInt (Z.of_N n)) (ev_line e))
  ++ opt_entry (o_cur o) "span" (option_map span_obj cur_st)
  ++ opt_entry (o_list o) "spans" (match cur with Some _ => Some (JArr (map span_obj (span_list c st p))) | None => None end)
  ++ opt_entry (o_tname o) "threadName"
       (match thread_name en with
        | Some n => Some (JStr n)
        | None => if o_tid o then None else Some (JStr (thread_id en))
        end)
  ++ opt_entry (o_tid o) "threadId" (Some (JStr (thread_id en))).

Definition event_record (c : cfg) (o : opts) (en : env) (st : state) (e : event) (p : pspec) : json :=
  JObj (event_entries c o en st e p).

(** * Span-lifecycle records (fmt_subscriber.rs on_new_span / on_enter / on_exit / on_close, `with_event_from_span!`)
    The event is built from the SPAN's metadata (level, target, file, line), carries the span as its explicit parent and
    the fields message = "new" | "enter" | "exit" | "close"; at close, when timings are kept (a timer is configured:
    `without_time()` also switches fmt_span's timing off), also time.busy and time.idle (Display text of the durations:
    real-time, supplied by the history). *)
Definition life_event (s : span_st) (msg : string) (timing : option (bytes * bytes)) : event :=
  {| ev_level := sm_level (sp_meta s); ev_target := sm_target (sp_meta s);
     ev_file := sm_file (sp_meta s); ev_line := sm_line (sp_meta s);
     ev_vals := (bs "message", VStr (bs msg))
                :: match timing with
                   | Some (busy, idle) => [(bs "time.busy", VText busy); (bs "time.idle", VText idle)]
                   | None => []
                   end |}.
Definition life_lines (c : cfg) (o : opts) (en : env) (st : state) (i : N) (on : bool) (msg : string)
                      (timing : option (bytes * bytes)) : list bytes :=
  if on then
    match find_span i (spans st) with
    | Some s => [render_line (event_record c o en st (life_event s msg timing) (PExplicit i))]
    | None => []                                   (* `expect("Span not found")`: unreachable for ids of live spans *)
    end
  else [].
Definition has_timer (o : opts) : bool := match o_ts o with Some _ => true | None => false end.

(** * Histories *)
Inductive op :=
| ONew (i : N) (m : smeta) (p : pspec) (vals : fields)
| OEnter (i : N)
| OExit (i : N)
| ORecord (i : N) (vals : fields)
| OEvent (e : event) (p : pspec)
| OClose (i : N) (busy idle : bytes)         (* the last handle is dropped, nothing else refers to the span: it closes *)
| ORecordAborted (i : N).                    (* a `record` call that unwinds out of add_fields: a recorded value's Debug / Display
                                                impl panics, the caller catches it (build with parking_lot: the extensions lock
                                                does not poison) *)

Fixpoint remove_first (i : N) (l : list N) : list N :=
  match l with
  | [] => []
  | j :: r => if i =? j then r else j :: remove_first i r
  end.
Fixpoint update_span (i : N) (f : span_st -> span_st) (l : list (N * span_st)) : list (N * span_st) :=
  match l with
  | [] => []
  | (j, s) :: r => if i =? j then (j, f s) :: r else (j, s) :: update_span i f r
  end.
Definition remove_span (i : N) (l : list (N * span_st)) : list (N * span_st) :=
  filter (fun p => negb (i =? fst p)) l.

(** JsonFields::add_fields builds the merged text in a FRESH String and assigns it to the stored one only after `finish()`
    succeeded ([fresh], TVGen.Gen_json.gen_add_fields_fresh, read off the source): a call that unwinds while the values are
    visited leaves the stored fields as they were.  The variant that clears the stored string first and serialises into it
    loses everything recorded so far. *)
Definition aborted_effect (fresh : bool) (m : smap) : smap := if fresh then m else [].
Definition repo_fresh : bool := gen_add_fields_fresh.

(** the state after one operation (the collector's view: Layered calls the registry first, the fmt layer second) *)
Definition next (c : cfg) (st : state) (x : op) : state :=
  match x with
  | ONew i m p vals =>
      let parent := match p with PCurrent => current st | PRoot => None | PExplicit j => Some j end in
      {| spans := spans st ++ [(i, {| sp_meta := m; sp_parent := parent; sp_fields := visit_span [] (eff c vals) |})];
         stack := stack st |}
  | OEnter i => {| spans := spans st; stack := i :: stack st |}
  | OExit i => {| spans := spans st; stack := remove_first i (stack st) |}
  | ORecord i vals =>
      {| spans := update_span i (fun s => {| sp_meta := sp_meta s; sp_parent := sp_parent s;
                                             sp_fields := add_fields c (sp_fields s) (eff c vals) |}) (spans st);
         stack := stack st |}
  | OEvent _ _ => st
  | OClose i _ _ => {| spans := remove_span i (spans st); stack := stack st |}
  | ORecordAborted i =>
      {| spans := update_span i (fun s => {| sp_meta := sp_meta s; sp_parent := sp_parent s;
                                             sp_fields := aborted_effect repo_fresh (sp_fields s) |}) (spans st);
         stack := stack st |}
  end.

(** the lines one operation writes: lifecycle records see the state AFTER the registry's part of new / enter / exit
    (the new span exists; the entered span is current; the exited span no longer is) and BEFORE the span's removal at
    close *)
Definition emit (c : cfg) (o : opts) (en : env) (st : state) (x : op) : list bytes :=
  match x with
  | ONew i _ _ _ => life_lines c o en (next c st x) i (o_new o) "new" None
  | OEnter i => life_lines c o en (next c st x) i (o_enter o) "enter" None
  | OExit i => life_lines c o en (next c st x) i (o_exit o) "exit" None
  | ORecord _ _ => []
  | ORecordAborted _ => []
  | OEvent e p => [render_line (event_record c o en st e p)]
  | OClose i busy idle => life_lines c o en st i (o_close o) "close" (if has_timer o then Some (busy, idle) else None)
  end.

Definition step (c : cfg) (o : opts) (en : env) (st : state) (x : op) : state * list bytes :=
  (next c st x, emit c o en st x).

Fixpoint run_from (c : cfg) (o : opts) (en : env) (st : state) (ops : list op) : list bytes :=
  match ops with
  | [] => []
  | x :: r => emit c o en st x ++ run_from c o en (next c st x) r
  end.
Definition run (c : cfg) (o : opts) (en : env) (ops : list op) : list bytes := run_from c o en init_state ops.

(** per operation, for the driver: the lines each operation wrote *)
Fixpoint run_ops_from (c : cfg) (o : opts) (en : env) (st : state) (ops : list op) : list (list bytes) :=
  match ops with
  | [] => []
  | x :: r => emit c o en st x :: run_ops_from c o en (next c st x) r
  end.
Definition run_ops (c : cfg) (o : opts) (en : env) (ops : list op) : list (list bytes) := run_ops_from c o en init_state ops.
